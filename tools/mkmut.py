#!/usr/bin/env python3
"""mkmut.py <ID> <name> <repo-relative-file> <old> <new> [<old2> <new2> ...] — writes mutants/<ID>/<name>.diff
replacing exactly one occurrence of each old string in the CURRENT /repo file (the file in /repo is not touched)."""
import sys, difflib, os
id_, name, rel = sys.argv[1:4]
pairs = sys.argv[4:]
src = open(os.path.join('/repo', rel)).read()
new = src
for i in range(0, len(pairs), 2):
    old, rep = pairs[i], pairs[i+1]
    if new.count(old) != 1:
        sys.exit(f'"{old}" occurs {new.count(old)} times in {rel}')
    new = new.replace(old, rep)
d = ''.join(difflib.unified_diff(src.splitlines(True), new.splitlines(True), 'a/'+rel, 'b/'+rel))
out = os.path.join(os.path.dirname(os.path.dirname(os.path.abspath(__file__))), 'mutants', id_)
os.makedirs(out, exist_ok=True)
open(os.path.join(out, name + '.diff'), 'w').write(d)
print('wrote', os.path.join(out, name + '.diff'))
