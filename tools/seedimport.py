#!/usr/bin/env python3
"""seedimport.py <seed-out-dir>... — copies independently produced seeded changes into /verif/seeded/<name>/ after
running tools/seedverify.sh on each; meta.json records what was run and what was seen."""
import json, os, shutil, subprocess, sys, re
VERIF=os.path.dirname(os.path.dirname(os.path.abspath(__file__)))
for d in sys.argv[1:]:
    d=d.rstrip('/')
    name=os.path.basename(d)
    out=subprocess.run([os.path.join(VERIF,'tools/seedverify.sh'), d],capture_output=True,text=True).stdout
    line=[l for l in out.splitlines() if l.startswith('SEED ')]
    if not line: print('no result for',d, out); continue
    line=line[0]
    m=re.search(r'tests=(\S+) demo_with=(\S+) demo_without=(\S+) check=(\S+)',line)
    if not m or m.group(1)!='ok' or m.group(2)!='fail' or m.group(3)!='pass':
        print('NOT CONFIRMED, skipped:',line); continue
    dst=os.path.join(VERIF,'seeded',name)
    os.makedirs(dst,exist_ok=True)
    for f in os.listdir(d):
        src=os.path.join(d,f)
        if os.path.isdir(src): shutil.copytree(src,os.path.join(dst,f),dirs_exist_ok=True)
        else: shutil.copy(src,dst)
    meta=json.load(open(os.path.join(d,'meta.json')))
    meta['confirmed_by_main']={
        'ran':'tools/seedverify.sh: scratch copy of /repo + patch -> go build ./... && go test -vet=off -count=1 ./... ; demo with patch / without patch ; ./check %s quick against the patched copy'%meta['property'],
        'repo_head':subprocess.check_output(['git','-C','/repo','rev-parse','--short','HEAD'],text=True).strip(),
        'repository_tests_with_patch':'pass','demo_with_patch':'fails','demo_without_patch':'passes',
        'check_result':m.group(4),'check_detail':line.split('|',1)[1].strip() if '|' in line else ''}
    json.dump(meta,open(os.path.join(dst,'meta.json'),'w'),indent=1)
    print('imported',name,m.group(4))
