#!/usr/bin/env python3
"""Regenerates /verif/MANIFEST.json from the table below (keeps it schema-valid at all times)."""
import json, os, sys
HERE = os.path.dirname(os.path.dirname(os.path.abspath(__file__)))
props = [json.loads(l) for l in open(os.path.join(HERE, 'properties.jsonl'))]
ids = [p['id'] for p in props]

# id -> (category, technique, text, note, design_ref)
CLAIMED = {
 'C01': ('model_checking',
         'bounded-exhaustive enumeration of all ordered pairs (product over small alphabets) against a reference order',
         'Every ordered pair of version parts over a 13-symbol alphabet up to length 3 (quick) / 4 (thorough), deeper runs over 6 symbols, digit-run tokens beyond 2^64, and full versions through Compare, Parse and Slice.Less is executed on the real code and its sign compared with an independently written Policy comparator; the space is completed, not sampled, and contains a witness for every weight class and both ends of each ASCII range the code tests.',
         'Reference comparator (tokenise then compare, validated on each run against math/big and dpkg --compare-versions); strings longer than the bound and bytes outside the Policy alphabet are not explored.',
         'DESIGN.md §3 C01'),
 'C02': ('model_checking',
         'bounded-exhaustive enumeration of all ordered triples and all short slices; order laws as the oracle (no reference)',
         'The four preorder laws are evaluated on every ordered triple of a ~350 (quick) / ~900 (thorough) element version set that spans the ~ / end / letter / punctuation ladder, digit runs, leading zeros, epochs and equal-but-different spellings; sort.Sort with the provided adapter is run on every sequence of length <= 4/5 over a 12-element set and the result checked to be a non-decreasing permutation. The laws use only the implementation\'s own answers, so C02 still bites if the C01 reference and the code were wrong in the same way.',
         'Values outside the enumerated set (longer strings, other bytes) are not explored; termination of sort.Sort is observed, not proved.',
         'DESIGN.md §3 C02'),
 'C03': ('model_checking',
         'bounded-exhaustive enumeration: grammar product x whitespace x entry points; every-position near-miss generators; all strings up to length 5/7 for the render-parse fixpoint',
         'A: every (epoch text, upstream, revision, surrounding whitespace, entry point) combination of the Policy grammar over small alphabets must parse to exactly its parts; B: one generator per rejection clause of the statement, at every position, must be rejected; C: every string over a 9-symbol alphabet up to length 5 (quick) / 7 (thorough) that the parser accepts must survive String, MarshalControl, MarshalText and JSON round trips. Completed spaces, not samples.',
         'Epoch values in (2^31, 2^63) are not demanded either way; strings longer than the bound are not explored.',
         'DESIGN.md §3 C03'),
 'C04': ('model_checking',
         'bounded-exhaustive enumeration of dependency ASTs with an independent renderer; deviation-bounded DFS over whitespace gaps; exhaustive single-edit and constructed malformations classified by an independent recogniser',
         'The expected value is the AST the text was rendered from (nothing is parsed to obtain it). Enumerated: the full product of single-possibility shapes (name x qualifier x version x architecture list x negation x profile groups x every order of the groups), all fields of <= 3 (quick) / 4 (thorough) possibilities over 8 representatives with every ,/| assignment, every rendering with <= 1 / 2 non-default whitespace gaps (none, blank, two blanks, tab, newline, newline+blank at every gap), every single deletion / insertion / substitution of the canonical renderings and every constructed second-clause / two-names / truncation / mixed-negation / unknown-operator malformation. Malformed inputs are classified by a second, independently written recursive-descent recogniser with reason codes; only the reasons the statement lists are demanded to be rejected.',
         'Policy 7.1 reading of legal spacing; recogniser and renderer are trusted (they are validated against each other: every rendering must be accepted by the recogniser with the same AST); names, versions and architecture names come from small alphabets.',
         'DESIGN.md §3 C04'),
 'C06': ('model_checking',
         'bounded-exhaustive product enumeration over a data-independent abstraction, against component-wise reference predicates',
         'Arch.Is on all 65x65 ordered pairs of the data-independent domain (all, and abi-os-cpu with each component any or one of three generic names) plus 23 real Debian names; ArchSet.Matches on all lists of length 0..3 over 6 patterns, negated or not, for 5 architectures, built through Parse and as structs; possibility selection on all dependencies of <= 2 relations x <= 3 alternatives over 6 alternative shapes for 3 architectures; SatisfiedBy on 12 operators x 40 versions x (40 versions + 8 unparsable numbers) including V == N. All executed on the real code and compared with reference predicates written from the statement.',
         'Name denotation per dpkg-architecture (cpu = gnu-linux-cpu; os-cpu = gnu-os-cpu unless a part is any); wildcard-vs-wildcard answers only need to be symmetric; reference order from C01.',
         'DESIGN.md §3 C06'),
 'C05': ('model_checking',
         'bounded-exhaustive enumeration of all token sequences (product over a 24-token alphabet) and of grammar-generated fields; fixpoint law as the oracle (no reference parser)',
         'Every sequence of <= 5 (quick) / 6 (thorough, 2*10^8) tokens over 24 tokens (names, separators, every bracket, operators, a version, substvar braces, architecture names incl. wildcards, newline, a non-ASCII byte) is fed to the real parser; for every accepted one the rendering must be accepted, parse to a structurally identical value and be a fixpoint, also through MarshalControl/UnmarshalControl. The same law is applied to every grammar-generated field of C04 with every single whitespace deviation, and parse-render-parse identity of the (abi, os, cpu) triple is checked for all 584 one- to three-component architecture names over 8 component values plus edge names.',
         'Strict structural identity (nil and empty slices identified); inputs beyond the token/length bound are not explored.',
         'DESIGN.md §3 C05'),
 'C14': ('model_checking',
         'bounded-exhaustive enumeration of package models x 6x6 compression combinations x member layouts, each built byte-exactly and loaded by the real code; result compared with the model',
         'Every package of the product (control compression x data compression over none/gz/xz/bz2/lzma/zst, 4 control-tar entry lists, 3 paragraph models, 3 payloads, 5 extra-member placements, 2 member orders: 12 960 packages) is built by the harness (builder cross-checked against dpkg-deb on every run) and loaded with deb.Load; control fields, extensions, ar index and the full data tar listing must equal the model; all debian-binary / missing-member rejections are enumerated; packages built by the real dpkg-deb are loaded too; repeated loads must fall in one outcome class.',
         'Third-party decoders are exercised on well-formed streams only; map iteration orders are covered by 64 repeated loads per package on the plain build (explicit permutations need the instrumented build); xz/bz2 streams come from python3.',
         'DESIGN.md §3 C14, agent-notes/C14.md'),
 'C16': ('model_checking',
         'exhaustive single-fault enumeration (every byte of the signed members and the signature, every decoy member position, every rename, role x keyring matrix) on real signed packages; soundness oracle',
         'Packages signed with a freshly generated key are loaded and verified by the real code under every single-byte substitution (2 values) of debian-binary, control, data and the signature member, every insertion position of decoy control.*/data.* members (other encoding, same name, attacker content), every signed-member / signature-member rename, the full role-present x role-asked x keyring matrix and 33 valid signatures over wrong byte strings. Oracle: Load and CheckDebsig both succeeding implies signer in keyring, role present, signature covering exactly the exposed members and exposed content equal to the signed model. Vacuity guard: the untampered package must verify.',
         'Forgeries needing more than one fault are out of scope (OpenPGP); map iteration orders for decoy variants are covered by 64 repetitions on the plain build; keys differ between runs (artefacts embed the public keys and package bytes).',
         'DESIGN.md §3 C16, agent-notes/C16.md'),
 'C07': ('model_checking',
         'deviation-bounded choice-tree DFS over rendering deviations and byte delivery of model-generated deb822 documents; product enumeration of all short strings for the listing invariant',
         'Documents are rendered from a model (fields with 4 first-line shapes and every sequence of 0..3 continuation lines over 8 line shapes; paragraphs of <= 3 fields; documents of <= 3 paragraphs) and the expected paragraphs are computed from the model, not parsed. Every execution with <= 1 (quick; 2 on a thinner base) / 2 (thorough) deviations among CRLF, key/value spacing, blank-line runs, missing final newline, a comment at every physical line boundary and byte delivery (one byte per Read, 7-byte chunks, a split at every offset) is read through 7 access paths (Next loop, All, Unmarshal into a slice, repeated Decode, Next x j then All) that must all return the model. The listing invariant (values for exactly the listed fields, each listed once) is checked on every string of length <= 7 / 9 over 8 symbols.',
         'An empty first line contributes no logical line; whitespace-only separator lines are outside the well-formed class; longer documents are not explored.',
         'DESIGN.md §3 C07'),
 'C13': ('model_checking',
         'bounded-exhaustive enumeration of archives from a member-list model x all reader operation sequences up to a depth (explicit-state search over Next / read / partial read / seek+re-read) x ReaderAt end-of-input conventions',
         'All archives of 0..3 (quick) / 0..4 (thorough) members over a 14-shape member alphabet (16-byte names, trailing slash, embedded blank, sizes 0/1/2/5/61 with data containing header and global magic bytes, blank numeric columns, blank mode) are built by the harness writer (cross-checked against binutils ar on every run) and iterated with the real reader under two legal ReaderAt EOF conventions; on each archive every sequence of operations (Next, read all / part of an already returned member, Seek(0) and re-read) up to depth 2n+2 is executed and every observation compared with the member list: metadata, exact bytes, earlier readers staying valid after later Next calls, io.EOF repeatedly at the end.',
         'The full operation-sequence product is completed for n <= 2 on all shapes and for n = 3 / 4 on reduced archive sets (stated in the evidence bounds).',
         'DESIGN.md §3 C13, agent-notes/C13.md'),
 'C15': ('model_checking',
         'exhaustive fault enumeration on valid archives (per-column corruption classes up to 2/3 simultaneous faults, truncation at every offset, duplication/transposition of members, all short byte strings after the magic) driven through Ar.Next with a step budget and through deb.Load under a hang guard',
         'One value per decision class per header column (size: blank, true, +-1, 0, -1, -2, -59, -60, -61, -120, +5, huge, hex, exponent, text, padded; timestamp/uid/gid; name; magic bytes) is enumerated in all single and double (quick) / triple (thorough) combinations on 2- and 3-member archives, plus truncation at every offset, every duplication and transposition, all strings of length <= 3 over 5 bytes after the global magic, and the same through deb.Load with stored and gzip members. Invariants checked on every execution: no panic; at most floor(len/60)+1 successful steps; end in io.EOF or error; every returned member has header magic, Size >= 0 and a reader delivering exactly Size bytes; two runs give the same outcome class; deb.Load returns (20 s hang guard, 10^6 x a normal execution).',
         'Arbitrary byte strings beyond the structured corruption classes are not enumerated (the statement names fuzzing for that, a different technique); third-party decoders on hostile streams are outside the claim.',
         'DESIGN.md §3 C15, agent-notes/C15.md'),
}
REASON_PENDING = 'check not built yet in this session (planned: see DESIGN.md §3); no claim is made until it exists'

checks = []
for i in ids:
    if i not in CLAIMED: continue
    cat, tech, text, note, ref = CLAIMED[i]
    checks.append({
        'property_id': i,
        'quick_cmd': f'./check {i} quick',
        'thorough_cmd': f'./check {i} thorough',
        'evidence_file': f'evidence/{i}.json',
        'replay_cmd_template': './check replay {path}',
        'engine': 'verif-explorer',
        'level_claimed': {'category': cat, 'text': text, 'design_ref': ref},
        'level_note': note,
        'technique': tech,
    })
m = {
 'version': 1,
 'setup_cmd': './check setup',
 'hooks': {
   'guard': 'verif',
   'enable': 'no source hooks are committed in /repo: where instrumentation is needed the check generates an overlay from the current tree (go build -tags verif -overlay <generated.json>)',
   'baseline_off_cmd': 'cd /repo && GOFLAGS=-mod=mod GOPROXY=off GOSUMDB=off GOTOOLCHAIN=local go test -vet=off -count=1 ./...',
   'source_commits': [],
   'add_only': True,
 },
 'engines': [{'name': 'verif-explorer', 'path': 'harness/', 'serves_properties': [c['property_id'] for c in checks],
              'kind_free_text': 'hand-written explicit exploration engine in Go: product/odometer enumeration and deviation-bounded choice-tree DFS with replay over executions of the real go-debian code, sharded over all cores; reference models in Go; violations are replayable JSON artefacts'}],
 'checks': checks,
 'not_applicable': [{'property_id': i, 'reason': REASON_PENDING} for i in ids if i not in CLAIMED],
 'notes': 'All checks rebuild the harness against /repo\'s working tree (replace directive). Exit 0 = held on everything explored, 1 = VIOLATION line, 2 = harness error. known_findings.json lists recorded findings.',
}
json.dump(m, open(os.path.join(HERE, 'MANIFEST.json'), 'w'), indent=1)
print('wrote MANIFEST.json with', len(checks), 'checks')
