#!/usr/bin/env python3
"""Regenerates /verif/MANIFEST.json from the table below (keeps it schema-valid at all times)."""
import json, os, sys
HERE = os.path.dirname(os.path.dirname(os.path.abspath(__file__)))
props = [json.loads(l) for l in open(os.path.join(HERE, 'properties.jsonl'))]
ids = [p['id'] for p in props]

# id -> (category, technique, text, note, design_ref)
CLAIMED = {
 'C01': ('model_checking',
         'bounded-exhaustive enumeration of all ordered pairs (product over small alphabets) against a reference order',
         'Every ordered pair of version parts over a 13-symbol alphabet up to length 3 (quick) / 4 (thorough), deeper runs over 6 symbols, digit-run tokens beyond 2^64, and full versions through Compare, Parse and Slice.Less is executed on the real code and its sign compared with an independently written Policy comparator; the space is completed, not sampled, and contains a witness for every weight class and both ends of each ASCII range the code tests.',
         'Reference comparator (tokenise then compare, validated on each run against math/big and dpkg --compare-versions); strings longer than the bound and bytes outside the Policy alphabet are not explored.',
         'DESIGN.md §3 C01'),
 'C02': ('model_checking',
         'bounded-exhaustive enumeration of all ordered triples and all short slices; order laws as the oracle (no reference)',
         'The four preorder laws are evaluated on every ordered triple of a ~350 (quick) / ~900 (thorough) element version set that spans the ~ / end / letter / punctuation ladder, digit runs, leading zeros, epochs and equal-but-different spellings; sort.Sort with the provided adapter is run on every sequence of length <= 4/5 over a 12-element set and the result checked to be a non-decreasing permutation. The laws use only the implementation\'s own answers, so C02 still bites if the C01 reference and the code were wrong in the same way.',
         'Values outside the enumerated set (longer strings, other bytes) are not explored; termination of sort.Sort is observed, not proved.',
         'DESIGN.md §3 C02'),
 'C03': ('model_checking',
         'bounded-exhaustive enumeration: grammar product x whitespace x entry points; every-position near-miss generators; all strings up to length 5/7 for the render-parse fixpoint',
         'A: every (epoch text, upstream, revision, surrounding whitespace, entry point) combination of the Policy grammar over small alphabets must parse to exactly its parts; B: one generator per rejection clause of the statement, at every position, must be rejected; C: every string over a 9-symbol alphabet up to length 5 (quick) / 7 (thorough) that the parser accepts must survive String, MarshalControl, MarshalText and JSON round trips. Completed spaces, not samples.',
         'Epoch values in (2^31, 2^63) are not demanded either way; strings longer than the bound are not explored.',
         'DESIGN.md §3 C03'),
}
REASON_PENDING = 'check not built yet in this session (planned: see DESIGN.md §3); no claim is made until it exists'

checks = []
for i in ids:
    if i not in CLAIMED: continue
    cat, tech, text, note, ref = CLAIMED[i]
    checks.append({
        'property_id': i,
        'quick_cmd': f'./check {i} quick',
        'thorough_cmd': f'./check {i} thorough',
        'evidence_file': f'evidence/{i}.json',
        'replay_cmd_template': './check replay {path}',
        'engine': 'verif-explorer',
        'level_claimed': {'category': cat, 'text': text, 'design_ref': ref},
        'level_note': note,
        'technique': tech,
    })
m = {
 'version': 1,
 'setup_cmd': './check setup',
 'hooks': {
   'guard': 'verif',
   'enable': 'no source hooks are committed in /repo: where instrumentation is needed the check generates an overlay from the current tree (go build -tags verif -overlay <generated.json>)',
   'baseline_off_cmd': 'cd /repo && GOFLAGS=-mod=mod GOPROXY=off GOSUMDB=off GOTOOLCHAIN=local go test -vet=off -count=1 ./...',
   'source_commits': [],
   'add_only': True,
 },
 'engines': [{'name': 'verif-explorer', 'path': 'harness/', 'serves_properties': [c['property_id'] for c in checks],
              'kind_free_text': 'hand-written explicit exploration engine in Go: product/odometer enumeration and deviation-bounded choice-tree DFS with replay over executions of the real go-debian code, sharded over all cores; reference models in Go; violations are replayable JSON artefacts'}],
 'checks': checks,
 'not_applicable': [{'property_id': i, 'reason': REASON_PENDING} for i in ids if i not in CLAIMED],
 'notes': 'All checks rebuild the harness against /repo\'s working tree (replace directive). Exit 0 = held on everything explored, 1 = VIOLATION line, 2 = harness error. known_findings.json lists recorded findings.',
}
json.dump(m, open(os.path.join(HERE, 'MANIFEST.json'), 'w'), indent=1)
print('wrote MANIFEST.json with', len(checks), 'checks')
