#!/bin/bash
# tools/seedverify.sh <seed-dir> — independent confirmation of a seeded change:
#  (1) patch applies to a scratch copy of /repo, builds, repository tests pass;
#  (2) its demonstration fails with the patch and passes without;
#  (3) runs the property's quick check against the patched copy.
# Prints one summary line: SEED <name> prop=<id> tests=<ok|FAIL> demo_with=<fail|pass> demo_without=<pass|fail> check=<CAUGHT|MISSED>
set -u
D=$(readlink -f "$1")
VERIF=$(cd "$(dirname "$0")/.." && pwd)
export GOFLAGS=-mod=mod GOPROXY=off GOSUMDB=off GOTOOLCHAIN=local
ID=$(python3 -c "import json;print(json.load(open('$D/meta.json'))['property'])")
S=$(mktemp -d "${TMPDIR:-/tmp}/seedv.XXXXXX")
trap 'rm -rf "$S"' EXIT
rsync -a --exclude .git /repo/ "$S/with/"; rsync -a --exclude .git /repo/ "$S/without/"
(cd "$S/with" && patch -s -p1 --no-backup-if-mismatch < "$D/patch.diff") || { echo "SEED $(basename $D) prop=$ID patch-does-not-apply"; exit 3; }
tests=ok
(cd "$S/with" && go build ./... && go test -vet=off -count=1 ./... >"$S/t.log" 2>&1) || tests=FAIL
rundemo() { # $1 = tree
  if [ -f "$D/demo_test.go" ]; then
    pkg=$(grep -m1 '^package ' "$D/demo_test.go" | awk '{print $2}'); pkg=${pkg%_test}
    [ "$pkg" = "main" ] && pkg=.
    cp "$D/demo_test.go" "$1/$pkg/zz_seed_demo_test.go"
    (cd "$1" && go test -vet=off -count=1 ./$pkg/ >"$S/demo.log" 2>&1); rc=$?
    rm -f "$1/$pkg/zz_seed_demo_test.go"; return $rc
  elif [ -d "$D/demo" ]; then
    mkdir -p "$S/demoprog"; cp -r "$D/demo/." "$S/demoprog/"
    printf 'module seeddemo\ngo 1.19\nrequire pault.ag/go/debian v0.0.0\nreplace pault.ag/go/debian => %s\n' "$1" > "$S/demoprog/go.mod"; cp /repo/go.sum "$S/demoprog/"
    (cd "$S/demoprog" && go run . >"$S/demo.log" 2>&1); return $?
  fi
  return 99
}
rundemo "$S/with"; w=$?; rundemo "$S/without"; wo=$?
if [ $w -eq 0 ] && [ $wo -eq 0 ] && [ -f "$D/demo_test.go" ]; then
  # some demonstrations (data races) only fail under the race detector
  rundemo_race() { pkg=$(grep -m1 '^package ' "$D/demo_test.go" | awk '{print $2}'); pkg=${pkg%_test}; cp "$D/demo_test.go" "$1/$pkg/zz_seed_demo_test.go"; (cd "$1" && go test -race -vet=off -count=1 ./$pkg/ >"$S/demo.log" 2>&1); rc=$?; rm -f "$1/$pkg/zz_seed_demo_test.go"; return $rc; }
  rundemo_race "$S/with"; w=$?; rundemo_race "$S/without"; wo=$?
fi
dw=pass; [ $w -ne 0 ] && dw=fail; dwo=pass; [ $wo -ne 0 ] && dwo=fail
chk=MISSED
VERIF_REPO="$S/with" VERIF_NO_EVIDENCE=1 "$VERIF/check" "$ID" quick >"$S/out.log" 2>"$S/err.log"; rc=$?
if [ $rc -eq 1 ] && grep -a -q "^VIOLATION property=$ID " "$S/out.log"; then chk=CAUGHT; fi
clause=$(grep -a -m1 -A1 '^VIOLATION' "$S/out.log" | tail -1 | sed 's/^ *//')
echo "SEED $(basename $D) prop=$ID tests=$tests demo_with=$dw demo_without=$dwo check=$chk rc=$rc | $clause"
[ "$tests" = ok ] && [ $dw = fail ] && [ $dwo = pass ] || { tail -5 "$S/demo.log"; }
