#!/bin/bash
# tools/mutant.sh <patch.diff> <ID> [tier]  — applies a patch to a scratch COPY of /repo (never to /repo),
# requires that the copy builds and the repository's own tests pass, then runs ./check <ID> against the copy.
# Exit 0 iff the check reported a violation (exit 1 + VIOLATION line). Evidence is not rewritten.
set -u
PATCH=$(readlink -f "$1"); ID=$2; TIER=${3:-quick}
VERIF=$(cd "$(dirname "$0")/.." && pwd)
export GOFLAGS=-mod=mod GOPROXY=off GOSUMDB=off GOTOOLCHAIN=local
S=$(mktemp -d "${TMPDIR:-/tmp}/verifmut.XXXXXX")
trap 'rm -rf "$S"' EXIT
rsync -a --exclude .git /repo/ "$S/repo/"
(cd "$S/repo" && patch -s -p1 < "$PATCH") || { echo "MUTANT $1: patch does not apply"; exit 3; }
(cd "$S/repo" && go build ./... ) || { echo "MUTANT $1: does not compile"; exit 3; }
if [ -z "${MUTANT_SKIP_TESTS:-}" ]; then
  (cd "$S/repo" && go test -vet=off -count=1 ./... >"$S/test.log" 2>&1) || { echo "MUTANT $1: repository tests FAIL with the patch (not a valid mutant)"; tail -20 "$S/test.log"; exit 3; }
fi
VERIF_REPO="$S/repo" VERIF_NO_EVIDENCE=1 "$VERIF/check" "$ID" "$TIER" >"$S/out.log" 2>"$S/err.log"
rc=$?
grep -a -m3 -A4 '^VIOLATION' "$S/out.log"
tail -1 "$S/out.log"
if [ $rc -eq 1 ] && grep -a -q "^VIOLATION property=$ID " "$S/out.log"; then
  echo "MUTANT $(basename "$1"): CAUGHT by $ID $TIER"
  exit 0
fi
echo "MUTANT $(basename "$1"): NOT caught by $ID $TIER (exit $rc)"
tail -5 "$S/err.log"
exit 1
