#!/usr/bin/env python3
"""Regenerates seeded/README.md: one row per independently seeded change (from its meta.json)."""
import json, glob, os
V=os.path.dirname(os.path.dirname(os.path.abspath(__file__)))
rows=[]
for f in sorted(glob.glob(os.path.join(V,'seeded','*','meta.json'))):
    m=json.load(open(f)); c=m.get('confirmed_by_main',{})
    name=os.path.basename(os.path.dirname(f))
    first='missed' if 'first run MISSED' in c.get('history','') else 'caught'
    rows.append((name,m.get('property'),m.get('title','').replace('|','/'),m.get('needs_to_manifest','').replace('|','/').replace('\n',' ')[:220],first,c.get('check_result','?'),c.get('history','').replace('|','/').replace('\n',' ') or c.get('check_detail','').replace('|','/')))
out=['# Independently seeded property-breaking changes','',
 'Each directory holds `patch.diff`, a demonstration (`demo_test.go`: fails with the patch, passes without) and `meta.json`.',
 'All were produced by fresh sub-agents that saw only the property text and a private worktree of the repository, and were',
 'confirmed with `tools/seedverify.sh` (scratch copy of /repo + patch: builds, repository tests pass, demo fails / passes, then',
 '`./check <ID> quick` against the patched copy). "first run" is the result of the check as it was when the change arrived.','',
 f'Total {len(rows)}; caught at first run {sum(1 for r in rows if r[4]=="caught")}; missed at first run and closed by generalising an alphabet / adding a scenario {sum(1 for r in rows if r[4]=="missed")}; caught now {sum(1 for r in rows if r[5]=="CAUGHT")}.','',
 '| seed | property | change | needs to manifest | first run | now | how it is caught / what was widened |','|---|---|---|---|---|---|---|']
for r in rows: out.append('| '+' | '.join(str(x) for x in r)+' |')
open(os.path.join(V,'seeded','README.md'),'w').write('\n'.join(out)+'\n')
print(out[7])
