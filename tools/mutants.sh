#!/bin/bash
# tools/mutants.sh [ID] — runs every patch in mutants/<ID>/*.diff and seeded/*/patch.diff (meta.json names the property)
# against the property's quick check; prints a table. Exit 0 iff all are caught.
VERIF=$(cd "$(dirname "$0")/.." && pwd)
want=${1:-}
fail=0
for p in "$VERIF"/mutants/*/*.diff; do
  [ -e "$p" ] || continue
  id=$(basename "$(dirname "$p")")
  [ -n "$want" ] && [ "$want" != "$id" ] && continue
  "$VERIF/tools/mutant.sh" "$p" "$id" quick | tail -1 || fail=1
done
for d in "$VERIF"/seeded/*/; do
  [ -e "$d/patch.diff" ] || continue
  id=$(python3 -c "import json,sys;print(json.load(open('$d/meta.json'))['property'])")
  [ -n "$want" ] && [ "$want" != "$id" ] && continue
  "$VERIF/tools/mutant.sh" "$d/patch.diff" "$id" quick | tail -1 || fail=1
done
exit $fail
