#!/usr/bin/env python3
"""evtable.py - prints (and with --design writes between the markers of DESIGN.md) the table of what the quick tier of
every property covered, taken from /verif/evidence/<id>.json as written by the last run of each check."""
import json, os, sys
HERE = os.path.dirname(os.path.dirname(os.path.abspath(__file__)))
rows = ['| id | tier | executions | states | transitions | scenarios | build | exhaustive | wall (s) | repo |', '|---|---|---|---|---|---|---|---|---|---|']
for i in range(1, 21):
    pid = 'C%02d' % i
    p = os.path.join(HERE, 'evidence', pid + '.json')
    if not os.path.exists(p):
        rows.append('| %s | - | (no evidence file) | | | | | | | |' % pid); continue
    e = json.load(open(p)); c = e.get('coverage', {})
    rows.append('| %s | %s | %s | %s | %s | %d | %s | %s | %.0f | %s |' % (pid, e.get('tier'), f"{c.get('evaluations',0):,}", f"{c.get('states',0):,}", f"{c.get('transitions',0):,}",
        len(c.get('scenarios', [])), c.get('build', ''), c.get('exhaustive'), e.get('wall_s', 0), c.get('repo_head', '')))
table = '\n'.join(rows)
if '--design' in sys.argv:
    p = os.path.join(HERE, 'DESIGN.md'); s = open(p).read()
    a, b = '<!-- evtable:begin -->', '<!-- evtable:end -->'
    if a in s and b in s:
        s = s[:s.index(a) + len(a)] + '\n' + table + '\n' + s[s.index(b):]
        open(p, 'w').write(s); print('DESIGN.md table updated')
    else:
        print('markers not found in DESIGN.md')
else:
    print(table)
