// Package verifhook is injected into the module under test as the virtual package
// pault.ag/go/debian/verifhook by the overlay the instrumenter generates (nothing is committed to the
// repository). With no context bound to the calling goroutine every hook is transparent.
package verifhook

import (
	"fmt"
	"io"
	"os"
	"sort"
	"sync"
	"sync/atomic"
	"unsafe"

	"verifharness/glocal"
)

// Ctx carries the explorer's decisions for one execution. Contexts are bound per goroutine, so
// independent executions can run in parallel inside one process.
type Ctx struct {
	magic uint64         // first field: tells our contexts from a foreign label pointer
	prev  unsafe.Pointer // label value to restore on Unbind
	// MapOrder returns a permutation (indices into the sorted key list) for the map scan at a site with n keys;
	// nil or a nil result means sorted order.
	MapOrder func(site, n int) []int
	// OnAccess is called before every access to a package-level variable of the module.
	OnAccess func(site int)
	// OnYield is called at every loop iteration of instrumented packages.
	OnYield func(site int)
	// OnBlock is called when the calling thread cannot take a lock of the code under test (sync.Mutex, sync.RWMutex, the
	// guard of a sync.Once): the scheduler runs somebody else and returns when the attempt should be repeated. With
	// OnBlock nil the real blocking call is made. OnRelease is called after a lock was released.
	OnBlock   func(site int)
	OnRelease func(site int)
	// OnOp is called before every file-system operation; a non-nil error is returned to the caller instead of
	// performing the operation; it may panic(Crash{}) to abandon the execution at this point.
	OnOp func(op Op) error
}

// Crash is the panic value used to abandon an execution at a file-system operation.
type Crash struct{ At int }

type Op struct {
	Kind  string // stat open create rename remove write close read
	Path  string
	Path2 string
	N     int // bytes for write
}

// The context is kept in the goroutine's profiler-label slot (runtime_setProfLabel / runtime_getProfLabel, the
// hooks runtime/pprof itself uses): a goroutine-local pointer that costs a few nanoseconds to read, and that
// goroutines started by the code under test INHERIT from their parent. Nothing in the harness uses pprof labels.
// (see package verifharness/glocal; the harness binary is linked with -checklinkname=0 for this.)

const ctxMagic = 0x76657269666b6f6f

// number of bound contexts that use each hook kind: with none, the hook returns at once
var nMap, nAccess, nYield, nOp int32

func count(c *Ctx, d int32) {
	if c.MapOrder != nil {
		atomic.AddInt32(&nMap, d)
	}
	if c.OnAccess != nil {
		atomic.AddInt32(&nAccess, d)
	}
	if c.OnYield != nil {
		atomic.AddInt32(&nYield, d)
	}
	if c.OnOp != nil {
		atomic.AddInt32(&nOp, d)
	}
}

// Bind attaches c to the calling goroutine (and to goroutines it starts from now on) until Unbind.
// The hook fields of c must not change while bound.
func Bind(c *Ctx) {
	c.magic = ctxMagic
	c.prev = glocal.Get()
	count(c, 1)
	glocal.Set(unsafe.Pointer(c))
}

func Unbind() {
	if c := cur(); c != nil {
		count(c, -1)
		glocal.Set(c.prev)
	}
}

func cur() *Ctx {
	p := glocal.Get()
	if p == nil {
		return nil
	}
	c := (*Ctx)(p)
	if c.magic != ctxMagic {
		return nil
	}
	return c
}

// Keys returns the keys of m in the order the explorer chose (default: sorted by their printed form).
func Keys[K comparable, V any](m map[K]V, site int) []K {
	keys := make([]K, 0, len(m))
	for k := range m {
		keys = append(keys, k)
	}
	sort.Slice(keys, func(i, j int) bool { return fmt.Sprint(keys[i]) < fmt.Sprint(keys[j]) })
	if atomic.LoadInt32(&nMap) == 0 {
		return keys
	}
	if c := cur(); c != nil && c.MapOrder != nil {
		if perm := c.MapOrder(site, len(keys)); perm != nil {
			out := make([]K, len(keys))
			for i, p := range perm {
				out[i] = keys[p]
			}
			return out
		}
	}
	return keys
}

// ---- locks of the code under test, under a cooperative scheduler ----
//
// Under the scheduler exactly one thread runs; a thread that made the real blocking call on a lock whose holder is
// parked at a scheduling point would never return. Lock / RLock therefore poll (TryLock) and hand the processor to the
// scheduler between attempts; the scheduler knows the thread is waiting, enables it again after some lock was released,
// and reports a deadlock when every unfinished thread waits. Acquisition and release are scheduling points themselves.

type tryLocker interface {
	Lock()
	TryLock() bool
}

type tryRLocker interface {
	RLock()
	TryRLock() bool
}

func schedCtx() *Ctx {
	if c := cur(); c != nil && c.OnBlock != nil {
		return c
	}
	return nil
}

func Lock(l tryLocker, site int) {
	c := schedCtx()
	if c == nil {
		l.Lock()
		return
	}
	if c.OnYield != nil {
		c.OnYield(site)
	}
	for !l.TryLock() {
		c.OnBlock(site)
	}
}

func RLock(l tryRLocker, site int) {
	c := schedCtx()
	if c == nil {
		l.RLock()
		return
	}
	if c.OnYield != nil {
		c.OnYield(site)
	}
	for !l.TryRLock() {
		c.OnBlock(site)
	}
}

func Unlock(l interface{ Unlock() }, site int) {
	l.Unlock()
	if c := schedCtx(); c != nil && c.OnRelease != nil {
		c.OnRelease(site)
	}
}

func RUnlock(l interface{ RUnlock() }, site int) {
	l.RUnlock()
	if c := schedCtx(); c != nil && c.OnRelease != nil {
		c.OnRelease(site)
	}
}

var onceGuards sync.Map // the Once (by identity) -> *sync.Mutex modelling "somebody is inside Do"

// OnceDo: Do blocks while another thread is inside the function; that wait is modelled by a guard lock.
func OnceDo(o interface{ Do(func()) }, f func(), site int) {
	c := schedCtx()
	if c == nil {
		o.Do(f)
		return
	}
	g, _ := onceGuards.LoadOrStore(o, &sync.Mutex{})
	Lock(g.(*sync.Mutex), site)
	defer Unlock(g.(*sync.Mutex), site)
	o.Do(f)
}

// Access is a scheduling point in front of a use of a package-level variable.
func Access[T any](p *T, site int) *T {
	if atomic.LoadInt32(&nAccess) == 0 {
		return p
	}
	if c := cur(); c != nil && c.OnAccess != nil {
		c.OnAccess(site)
	}
	return p
}

// Yield is a scheduling point at a loop iteration.
func Yield(site int) {
	if atomic.LoadInt32(&nYield) == 0 {
		return
	}
	if c := cur(); c != nil && c.OnYield != nil {
		c.OnYield(site)
	}
}

func op(o Op) error {
	if atomic.LoadInt32(&nOp) == 0 {
		return nil
	}
	if c := cur(); c != nil && c.OnOp != nil {
		return c.OnOp(o)
	}
	return nil
}

// ---- os wrappers ----

// File wraps *os.File so that writes and close are operation points.
type File struct {
	*os.File
	name string
}

func (f *File) Write(p []byte) (int, error) {
	if err := op(Op{Kind: "write", Path: f.name, N: len(p)}); err != nil {
		if sw, ok := err.(ShortWrite); ok && sw.N < len(p) {
			n, _ := f.File.Write(p[:sw.N])
			return n, io.ErrShortWrite
		}
		return 0, err
	}
	return f.File.Write(p)
}

// ShortWrite, returned by OnOp for a write, makes the write deliver only N bytes.
type ShortWrite struct{ N int }

func (ShortWrite) Error() string { return "injected short write" }

func (f *File) Read(p []byte) (int, error) {
	if err := op(Op{Kind: "read", Path: f.name, N: len(p)}); err != nil {
		return 0, err
	}
	return f.File.Read(p)
}

// ReadFrom and WriteTo are overridden so that io.Copy goes through Read / Write above (not sendfile).
func (f *File) ReadFrom(r io.Reader) (int64, error) {
	buf := make([]byte, 32*1024)
	var total int64
	for {
		n, err := r.Read(buf)
		if n > 0 {
			m, werr := f.Write(buf[:n])
			total += int64(m)
			if werr != nil {
				return total, werr
			}
		}
		if err == io.EOF {
			return total, nil
		}
		if err != nil {
			return total, err
		}
	}
}

func (f *File) WriteTo(w io.Writer) (int64, error) {
	buf := make([]byte, 32*1024)
	var total int64
	for {
		n, err := f.Read(buf)
		if n > 0 {
			m, werr := w.Write(buf[:n])
			total += int64(m)
			if werr != nil {
				return total, werr
			}
		}
		if err == io.EOF {
			return total, nil
		}
		if err != nil {
			return total, err
		}
	}
}

func (f *File) Close() error {
	if err := op(Op{Kind: "close", Path: f.name}); err != nil {
		f.File.Close()
		return err
	}
	return f.File.Close()
}

func Open(name string) (*File, error) {
	if err := op(Op{Kind: "open", Path: name}); err != nil {
		return nil, err
	}
	f, err := os.Open(name)
	if err != nil {
		return nil, err
	}
	return &File{f, name}, nil
}

func Create(name string) (*File, error) {
	if err := op(Op{Kind: "create", Path: name}); err != nil {
		return nil, err
	}
	f, err := os.Create(name)
	if err != nil {
		return nil, err
	}
	return &File{f, name}, nil
}

func Stat(name string) (os.FileInfo, error) {
	if err := op(Op{Kind: "stat", Path: name}); err != nil {
		return nil, err
	}
	return os.Stat(name)
}

func Rename(a, b string) error {
	if err := op(Op{Kind: "rename", Path: a, Path2: b}); err != nil {
		return err
	}
	return os.Rename(a, b)
}

func Remove(name string) error {
	if err := op(Op{Kind: "remove", Path: name}); err != nil {
		return err
	}
	return os.Remove(name)
}
