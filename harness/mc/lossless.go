package mc

// Lossless JSON for violation inputs. encoding/json replaces every byte sequence that is not valid UTF-8 by U+FFFD,
// which would make a replay artefact describe a different input from the one that failed. MarshalInput therefore
// rewrites, in a reflective deep copy of the input value, every such string as  "⟦hex⟧" + hex(bytes)  (and also every
// string that happens to start with that marker, so that the encoding is injective); UnmarshalInput undoes it after
// json.Unmarshal. []byte values are base64 in encoding/json already and are left alone.

import (
	"encoding/hex"
	"encoding/json"
	"reflect"
	"strings"
	"unicode/utf8"
)

const hexMarker = "⟦hex⟧"

func escStr(s string) string {
	if utf8.ValidString(s) && !strings.HasPrefix(s, hexMarker) {
		return s
	}
	return hexMarker + hex.EncodeToString([]byte(s))
}

func unescStr(s string) string {
	if !strings.HasPrefix(s, hexMarker) {
		return s
	}
	b, err := hex.DecodeString(s[len(hexMarker):])
	if err != nil {
		return s
	}
	return string(b)
}

// MarshalInput is json.Marshal made injective on strings.
func MarshalInput(in interface{}) ([]byte, error) {
	if in == nil {
		return json.Marshal(in)
	}
	v := reflect.ValueOf(in)
	if !needsEsc(v, 0) {
		return json.Marshal(in)
	}
	return json.Marshal(mapStrings(v, escStr).Interface())
}

// UnmarshalInput is json.Unmarshal followed by the inverse string mapping on the decoded value (out is a pointer).
func UnmarshalInput(raw []byte, out interface{}) error {
	if err := json.Unmarshal(raw, out); err != nil {
		return err
	}
	if !strings.Contains(string(raw), hexMarker) {
		return nil
	}
	p := reflect.ValueOf(out)
	if p.Kind() != reflect.Ptr || p.IsNil() {
		return nil
	}
	p.Elem().Set(mapStrings(p.Elem(), unescStr))
	return nil
}

func needsEsc(v reflect.Value, depth int) bool {
	if depth > 64 {
		return false
	}
	switch v.Kind() {
	case reflect.String:
		s := v.String()
		return !utf8.ValidString(s) || strings.HasPrefix(s, hexMarker)
	case reflect.Ptr, reflect.Interface:
		if v.IsNil() {
			return false
		}
		return needsEsc(v.Elem(), depth+1)
	case reflect.Struct:
		for i := 0; i < v.NumField(); i++ {
			if v.Type().Field(i).PkgPath != "" {
				continue
			}
			if needsEsc(v.Field(i), depth+1) {
				return true
			}
		}
	case reflect.Slice, reflect.Array:
		if v.Type().Elem().Kind() == reflect.Uint8 {
			return false
		}
		for i := 0; i < v.Len(); i++ {
			if needsEsc(v.Index(i), depth+1) {
				return true
			}
		}
	case reflect.Map:
		it := v.MapRange()
		for it.Next() {
			if needsEsc(it.Key(), depth+1) || needsEsc(it.Value(), depth+1) {
				return true
			}
		}
	}
	return false
}

// mapStrings returns a deep copy of v (exported fields only, which is all encoding/json sees) with f applied to every
// string, including map keys.
func mapStrings(v reflect.Value, f func(string) string) reflect.Value {
	switch v.Kind() {
	case reflect.String:
		out := reflect.New(v.Type()).Elem()
		out.SetString(f(v.String()))
		return out
	case reflect.Ptr:
		if v.IsNil() {
			return v
		}
		out := reflect.New(v.Type().Elem())
		out.Elem().Set(mapStrings(v.Elem(), f))
		return out
	case reflect.Interface:
		if v.IsNil() {
			return v
		}
		out := reflect.New(v.Type()).Elem()
		out.Set(mapStrings(v.Elem(), f))
		return out
	case reflect.Struct:
		out := reflect.New(v.Type()).Elem()
		for i := 0; i < v.NumField(); i++ {
			if v.Type().Field(i).PkgPath != "" {
				continue
			}
			out.Field(i).Set(mapStrings(v.Field(i), f))
		}
		return out
	case reflect.Slice:
		if v.IsNil() || v.Type().Elem().Kind() == reflect.Uint8 {
			return v
		}
		out := reflect.MakeSlice(v.Type(), v.Len(), v.Len())
		for i := 0; i < v.Len(); i++ {
			out.Index(i).Set(mapStrings(v.Index(i), f))
		}
		return out
	case reflect.Array:
		out := reflect.New(v.Type()).Elem()
		for i := 0; i < v.Len(); i++ {
			out.Index(i).Set(mapStrings(v.Index(i), f))
		}
		return out
	case reflect.Map:
		if v.IsNil() {
			return v
		}
		out := reflect.MakeMapWithSize(v.Type(), v.Len())
		it := v.MapRange()
		for it.Next() {
			out.SetMapIndex(mapStrings(it.Key(), f), mapStrings(it.Value(), f))
		}
		return out
	}
	return v
}
