package mc

import (
	"reflect"
	"testing"
)

type llIn struct {
	A string
	B []string
	C map[string]string
	D *llIn
	E interface{}
	F []byte
	g int
}

func TestLossless(t *testing.T) {
	in := llIn{A: "a\xffb", B: []string{"ok", "\xc0", hexMarker + "zz"}, C: map[string]string{"\xfe": "v", "k": "\x80"}, D: &llIn{A: "\xff"}, E: "plain", F: []byte{0xff, 0}}
	raw, err := MarshalInput(in)
	if err != nil {
		t.Fatal(err)
	}
	var out llIn
	if err := UnmarshalInput(raw, &out); err != nil {
		t.Fatal(err)
	}
	if !reflect.DeepEqual(in, out) {
		t.Fatalf("%#v\n%#v\n%s", in, out, raw)
	}
	var gen interface{}
	raw2, _ := MarshalInput(map[string]interface{}{"x": []interface{}{"\xff", 1.0}})
	if err := UnmarshalInput(raw2, &gen); err != nil {
		t.Fatal(err)
	}
	if gen.(map[string]interface{})["x"].([]interface{})[0].(string) != "\xff" {
		t.Fatalf("%#v", gen)
	}
}
