package mc

import "fmt"

// X is one execution of a choice-tree scenario: the body calls Choose / Deviate and the explorer
// enumerates all alternatives (Choose) or all alternatives within the deviation budget (Deviate).
type X struct {
	prefix   []int
	choices  []int
	ns       []int
	costs    []int // 1 if the point is a Deviate point
	labels   []string
	pos      int
	Diverged string
}

func (x *X) point(n int, label string, dev int) int {
	if n <= 0 {
		panic("mc: choice point with no alternatives: " + label)
	}
	c := 0
	if x.pos < len(x.prefix) {
		c = x.prefix[x.pos]
		if c >= n {
			x.Diverged = fmt.Sprintf("replay divergence at point %d (%s): choice %d of %d", x.pos, label, c, n)
			panic(divergence{x.Diverged})
		}
	}
	x.choices = append(x.choices, c)
	x.ns = append(x.ns, n)
	x.costs = append(x.costs, dev)
	x.labels = append(x.labels, label)
	x.pos++
	return c
}

type divergence struct{ msg string }

// Choose explores all n alternatives.
func (x *X) Choose(n int, label string) int { return x.point(n, label, 0) }

// Deviate: alternative 0 is the default (free); every other alternative costs one deviation.
func (x *X) Deviate(n int, label string) int { return x.point(n, label, 1) }

// Choices returns the choice vector of this execution.
func (x *X) Choices() []int { return append([]int(nil), x.choices...) }

// Deviations returns the number of non-default Deviate answers taken.
func (x *X) Deviations() int {
	d := 0
	for i, c := range x.choices {
		if x.costs[i] == 1 && c != 0 {
			d++
		}
	}
	return d
}

// Explore enumerates the whole tree of body depth-first with replay, with at most bound deviations.
// It returns the number of executions and whether a replay divergence (uncaptured nondeterminism) occurred.
func Explore(bound int, st *Stats, body func(x *X)) (execs int64, diverged string) {
	var rec func(prefix []int)
	rec = func(prefix []int) {
		if diverged != "" {
			return
		}
		x := &X{prefix: prefix}
		func() {
			defer func() {
				if e := recover(); e != nil {
					if d, ok := e.(divergence); ok {
						diverged = d.msg
						return
					}
					panic(e)
				}
			}()
			body(x)
		}()
		if diverged != "" {
			return
		}
		execs++
		if st != nil {
			if d := len(x.choices) - len(prefix); d > 0 { // a body that stopped early made no choices at all
				st.Transitions += int64(d)
			}
			if int64(len(x.choices)) > st.MaxDepth {
				st.MaxDepth = int64(len(x.choices))
			}
		}
		used := 0
		for i := 0; i < len(x.choices); i++ {
			if i >= len(prefix) {
				// alternatives at point i (beyond the replayed prefix; the last prefix element's siblings
				// are handled by the parent)
				for alt := 1; alt < x.ns[i]; alt++ {
					if x.costs[i] == 1 && used+1 > bound {
						break
					}
					np := make([]int, i+1)
					copy(np, x.choices[:i])
					np[i] = alt
					rec(np)
				}
			}
			if x.costs[i] == 1 && x.choices[i] != 0 {
				used++
			}
		}
	}
	rec(nil)
	return
}

// ExploreOne runs body once with the given choice vector as prefix (choice 0 afterwards); a divergence panics.
func ExploreOne(choices []int, body func(x *X)) {
	body(&X{prefix: choices})
}
