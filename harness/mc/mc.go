// Package mc is the small explicit-exploration engine shared by all property checks:
// accounting (states / transitions / traces / outcome classes / samples), parallel sharding,
// violation artefacts, known-findings matching and evidence writing.
package mc

import (
	"crypto/sha256"
	"encoding/hex"
	"encoding/json"
	"fmt"
	"os"
	"path/filepath"
	"runtime"
	"sort"
	"strings"
	"sync"
	"sync/atomic"
	"time"
)

// VerifDir is the root of the verification tree (overridable for tests).
var VerifDir = func() string {
	if d := os.Getenv("VERIF_DIR"); d != "" {
		return d
	}
	return "/verif"
}()

// Violation is one failing execution, with the concrete input needed to replay it.
type Violation struct {
	Property string          `json:"property"`
	Scenario string          `json:"scenario"`
	Clause   string          `json:"clause"`
	Tier     string          `json:"tier"`
	Seed     int64           `json:"seed"`
	RepoHead string          `json:"repo_head"`
	Build    string          `json:"build"`
	Input    json.RawMessage `json:"input"`
	Text     string          `json:"input_text,omitempty"`
	Hex      string          `json:"input_hex,omitempty"`
	Expected string          `json:"expected"`
	Observed string          `json:"observed"`
	Features []string        `json:"features"`
	Runs     int             `json:"confirmed_runs"`
	Count    int             `json:"occurrences_in_run,omitempty"` // executions of this run with the same clause+features
	Note     string          `json:"note,omitempty"`
}

// V builds a violation; in is marshalled to JSON and is what replay receives.
func V(scenario, clause string, in interface{}, expected, observed string, features ...string) *Violation {
	raw, err := MarshalInput(in)
	if err != nil {
		panic(err)
	}
	sort.Strings(features)
	return &Violation{Scenario: scenario, Clause: clause, Input: raw, Expected: expected, Observed: observed, Features: features}
}

// Stats is per-worker accounting for one scenario; merged at the end.
type Stats struct {
	Evals       int64
	States      int64
	Transitions int64
	Traces      int64
	Nontrivial  int64
	MaxDepth    int64
	Classes     map[string]int64
	Samples     []interface{}
	Viol        []*Violation
	violCount   map[string]int
	hashes      map[[16]byte]struct{}
	ntHashes    map[[16]byte]struct{}
}

func NewStats() *Stats {
	return &Stats{Classes: map[string]int64{}, violCount: map[string]int{}}
}

// Class counts one execution in an outcome class.
func (s *Stats) Class(c string) { s.Classes[c]++ }

// Sample keeps up to 4 samples per worker.
func (s *Stats) Sample(v interface{}) {
	if len(s.Samples) < 4 {
		s.Samples = append(s.Samples, v)
	}
}

// WantSample is true when another sample would be kept (avoids building it otherwise).
func (s *Stats) WantSample() bool { return len(s.Samples) < 4 }

// Distinct records a canonical key; returns true if new. Use only for spaces that fit in memory.
func (s *Stats) Distinct(key string) bool {
	if s.hashes == nil {
		s.hashes = map[[16]byte]struct{}{}
	}
	h := sha256.Sum256([]byte(key))
	var k [16]byte
	copy(k[:], h[:16])
	if _, ok := s.hashes[k]; ok {
		return false
	}
	s.hashes[k] = struct{}{}
	return true
}

// DistinctNontrivial records a canonical key of a non-trivial case (deduplicated across workers at merge).
func (s *Stats) DistinctNontrivial(key string) {
	if s.ntHashes == nil {
		s.ntHashes = map[[16]byte]struct{}{}
	}
	h := sha256.Sum256([]byte(key))
	var k [16]byte
	copy(k[:], h[:16])
	s.ntHashes[k] = struct{}{}
}

// Violate records a violation (at most 3 kept per clause+features, all counted).
func (s *Stats) Violate(v *Violation) {
	if v == nil {
		return
	}
	k := v.Clause + "|" + strings.Join(v.Features, ",")
	s.violCount[k]++
	if s.violCount[k] <= 3 {
		s.Viol = append(s.Viol, v)
	}
}

func (s *Stats) merge(o *Stats) {
	s.Evals += o.Evals
	s.States += o.States
	s.Transitions += o.Transitions
	s.Traces += o.Traces
	s.Nontrivial += o.Nontrivial
	if o.MaxDepth > s.MaxDepth {
		s.MaxDepth = o.MaxDepth
	}
	for k, v := range o.Classes {
		s.Classes[k] += v
	}
	for _, x := range o.Samples {
		if len(s.Samples) < 6 {
			s.Samples = append(s.Samples, x)
		}
	}
	s.Viol = append(s.Viol, o.Viol...)
	for k, v := range o.violCount {
		s.violCount[k] += v
	}
	if o.hashes != nil {
		if s.hashes == nil {
			s.hashes = map[[16]byte]struct{}{}
		}
		for k := range o.hashes {
			s.hashes[k] = struct{}{}
		}
	}
	if o.ntHashes != nil {
		if s.ntHashes == nil {
			s.ntHashes = map[[16]byte]struct{}{}
		}
		for k := range o.ntHashes {
			s.ntHashes[k] = struct{}{}
		}
	}
}

// ScenarioResult is what ends up in the evidence file per scenario.
type ScenarioResult struct {
	Name        string           `json:"name"`
	Evals       int64            `json:"evaluations"`
	States      int64            `json:"states"`
	Transitions int64            `json:"transitions"`
	Traces      int64            `json:"traces_validated_against_impl"`
	Nontrivial  int64            `json:"distinct_nontrivial"`
	MaxDepth    int64            `json:"max_depth,omitempty"`
	Classes     map[string]int64 `json:"outcome_classes"`
	Exhaustive  bool             `json:"exhaustive"`
	Bounds      interface{}      `json:"bounds,omitempty"`
	Violations  int              `json:"violations"`
	Known       int              `json:"known_findings_matched"`
	WallS       float64          `json:"wall_s"`
	Note        string           `json:"note,omitempty"`
}

// Run is one invocation of one property's check.
type Run struct {
	Prop     string
	Tier     string
	Seed     int64
	Build    string
	RepoHead string
	Start    time.Time
	Deadline time.Time
	Workers  int

	mu         sync.Mutex
	scen       []ScenarioResult
	samples    []interface{}
	viol       []*Violation
	known      map[string]int // finding id -> count
	knownViol  []*Violation
	expired    int32
	Assume     []string
	Extra      map[string]interface{}
	Rule       string
	harnessErr []string
}

func NewRun(prop, tier string) *Run {
	r := &Run{Prop: prop, Tier: tier, Build: "plain", Start: time.Now(), Workers: runtime.NumCPU(),
		known: map[string]int{}, Extra: map[string]interface{}{}}
	if w := 0; os.Getenv("VERIF_WORKERS") != "" {
		if fmt.Sscan(os.Getenv("VERIF_WORKERS"), &w); w > 0 {
			r.Workers = w
		}
	}
	fmt.Sscan(os.Getenv("VERIF_SEED"), &r.Seed)
	// the deadline is a safety net, not a budget: quick runs take well under a minute on the unchanged tree. It is
	// generous because a changed tree can make scenarios much slower (more inputs accepted, audit-widened alphabets)
	// and a scenario skipped for lack of time could be the one that finds the violation.
	d := 10 * time.Minute
	if tier == "thorough" {
		d = 45 * time.Minute
	}
	if s := os.Getenv("VERIF_DEADLINE_S"); s != "" {
		var n int
		fmt.Sscan(s, &n)
		if n > 0 {
			d = time.Duration(n) * time.Second
		}
	}
	r.Deadline = r.Start.Add(d)
	r.RepoHead = os.Getenv("VERIF_REPO_HEAD")
	return r
}

func (r *Run) Quick() bool { return r.Tier != "thorough" }

// HasViolation reports whether an earlier scenario of this run already found a violation (the verdict is decided;
// expensive explorations may then run on a small budget).
func (r *Run) HasViolation() bool {
	r.mu.Lock()
	defer r.mu.Unlock()
	return len(r.viol) > 0
}

// Pick returns q for quick, t for thorough.
func (r *Run) Pick(q, t int) int {
	if r.Quick() {
		return q
	}
	return t
}

// Expired reports whether the tier deadline passed (the scenario must then stop and report exhaustive:false).
func (r *Run) Expired() bool {
	if atomic.LoadInt32(&r.expired) == 1 {
		return true
	}
	if time.Now().After(r.Deadline) {
		atomic.StoreInt32(&r.expired, 1)
		return true
	}
	return false
}

// HarnessError records a failure of the machinery itself (oracle self-check, builder cross-check): exit 2, no VIOLATION.
func (r *Run) HarnessError(format string, a ...interface{}) {
	r.mu.Lock()
	r.harnessErr = append(r.harnessErr, fmt.Sprintf(format, a...))
	r.mu.Unlock()
}

// Scenario runs body over nShards shards on all workers and records the merged statistics.
// body must be deterministic per shard. It returns false from a shard to signal "cap hit".
func (r *Run) Scenario(name string, bounds interface{}, nShards int, body func(shard int, st *Stats) bool) *Stats {
	t0 := time.Now()
	// once a violation has been found and the run has been going for two minutes, the remaining scenarios are not
	// started: the verdict is already decided and the report should not be delayed further
	r.mu.Lock()
	decided := len(r.viol) > 0 && time.Since(r.Start) > 2*time.Minute
	r.mu.Unlock()
	if decided {
		r.mu.Lock()
		r.scen = append(r.scen, ScenarioResult{Name: name, Classes: map[string]int64{}, Exhaustive: false, Bounds: bounds, Note: "not started: a violation had already been found"})
		r.mu.Unlock()
		return NewStats()
	}
	total := NewStats()
	exhaustive := true
	var next int64 = -1
	var wg sync.WaitGroup
	var mu sync.Mutex
	w := r.Workers
	if w > nShards {
		w = nShards
	}
	if w < 1 {
		w = 1
	}
	// VERIF_SEED only rotates the order in which shards are taken.
	rot := 0
	if nShards > 0 {
		rot = int(uint64(r.Seed) % uint64(nShards))
	}
	for i := 0; i < w; i++ {
		wg.Add(1)
		go func() {
			defer wg.Done()
			st := NewStats()
			ok := true
			for {
				n := int(atomic.AddInt64(&next, 1))
				if n >= nShards {
					break
				}
				if r.Expired() {
					ok = false
					break
				}
				if !body((n+rot)%nShards, st) {
					ok = false
				}
			}
			mu.Lock()
			total.merge(st)
			if !ok {
				exhaustive = false
			}
			mu.Unlock()
		}()
	}
	wg.Wait()
	if total.hashes != nil && total.States == 0 {
		total.States = int64(len(total.hashes))
	}
	if total.ntHashes != nil {
		total.Nontrivial = int64(len(total.ntHashes))
	}
	if total.States == 0 {
		total.States = total.Evals
	}
	if total.Transitions == 0 {
		total.Transitions = total.Evals
	}
	res := ScenarioResult{Name: name, Evals: total.Evals, States: total.States, Transitions: total.Transitions,
		Traces: total.Traces, Nontrivial: total.Nontrivial, MaxDepth: total.MaxDepth, Classes: total.Classes,
		Exhaustive: exhaustive, Bounds: bounds, WallS: time.Since(t0).Seconds()}
	// keep a deterministic selection: per clause+features the 3 smallest inputs (workers each kept up to 3)
	sort.SliceStable(total.Viol, func(i, j int) bool {
		a, b := total.Viol[i], total.Viol[j]
		ka, kb := a.Clause+"|"+strings.Join(a.Features, ","), b.Clause+"|"+strings.Join(b.Features, ",")
		if ka != kb {
			return ka < kb
		}
		if len(a.Input) != len(b.Input) {
			return len(a.Input) < len(b.Input)
		}
		return string(a.Input) < string(b.Input)
	})
	{
		kept := total.Viol[:0]
		per := map[string]int{}
		var last string
		for _, v := range total.Viol {
			k := v.Clause + "|" + strings.Join(v.Features, ",")
			id := k + "|" + string(v.Input)
			if id == last {
				continue
			}
			last = id
			if per[k] < 3 {
				per[k]++
				v.Count = total.violCount[k]
				kept = append(kept, v)
			}
		}
		total.Viol = kept
	}
	// classify violations
	kf := loadKnown()
	for _, v := range total.Viol {
		v.Property, v.Tier, v.Seed, v.Build, v.RepoHead = r.Prop, r.Tier, r.Seed, r.Build, r.RepoHead
		if v.Scenario == "" {
			v.Scenario = name
		}
		if id := kf.match(v); id != "" {
			r.mu.Lock()
			if r.known[id] < v.Count {
				r.known[id] = v.Count
			}
			r.knownViol = append(r.knownViol, v)
			r.mu.Unlock()
			res.Known++
			continue
		}
		res.Violations++
		r.mu.Lock()
		r.viol = append(r.viol, v)
		r.mu.Unlock()
	}
	r.mu.Lock()
	r.scen = append(r.scen, res)
	for _, s := range total.Samples {
		if len(r.samples) < 12 {
			r.samples = append(r.samples, map[string]interface{}{"scenario": name, "case": s})
		}
	}
	r.mu.Unlock()
	fmt.Fprintf(os.Stderr, "[%s/%s] %-28s evals=%d states=%d nontrivial=%d classes=%d viol=%d known=%d exhaustive=%v %.1fs\n",
		r.Prop, r.Tier, name, res.Evals, res.States, res.Nontrivial, len(res.Classes), res.Violations, res.Known, exhaustive, res.WallS)
	return total
}

// ---- known findings ----

type Finding struct {
	ID       string `json:"id"`
	Status   string `json:"status"` // known | fixed
	Property string `json:"property"`
	Scenario string `json:"scenario,omitempty"`
	Clause   string `json:"clause,omitempty"`
	Feature  string `json:"feature,omitempty"`
	Witness  string `json:"witness,omitempty"`
	Commit   string `json:"commit,omitempty"`
	What     string `json:"what"`
	Ref      string `json:"design_ref,omitempty"`
}

type knownFile struct {
	Findings []Finding `json:"findings"`
}

var (
	kfOnce sync.Once
	kfVal  *knownFile
)

func loadKnown() *knownFile {
	kfOnce.Do(func() {
		kfVal = &knownFile{}
		b, err := os.ReadFile(filepath.Join(VerifDir, "known_findings.json"))
		if err == nil {
			if err := json.Unmarshal(b, kfVal); err != nil {
				fmt.Fprintln(os.Stderr, "known_findings.json:", err)
				os.Exit(2)
			}
		}
	})
	return kfVal
}

// match attributes v to a "known" entry only if property, clause and feature match (scenario too when
// the entry names one) for EVERY input feature the violation carries; a violation without features,
// or with one feature no entry lists, is never suppressed.
func (k *knownFile) match(v *Violation) string {
	if len(v.Features) == 0 {
		return ""
	}
	first := ""
	for _, feat := range v.Features {
		id := ""
		for _, f := range k.Findings {
			if f.Status != "known" || f.Property != v.Property || f.Clause != v.Clause || f.Feature == "" {
				continue
			}
			if f.Scenario != "" && f.Scenario != v.Scenario {
				continue
			}
			if f.Feature == feat {
				id = f.ID
				break
			}
		}
		if id == "" {
			return "" // a feature no entry lists: not a known finding
		}
		if first == "" {
			first = id
		}
	}
	return first
}

// Abort records v as a violation found outside a scenario body (e.g. by a hang watchdog), writes the report and the
// evidence and terminates the process with the resulting exit code. Scenario goroutines still running are abandoned.
func (r *Run) Abort(scenario string, v *Violation, note string) {
	v.Property, v.Tier, v.Seed, v.Build, v.RepoHead = r.Prop, r.Tier, r.Seed, r.Build, r.RepoHead
	if v.Scenario == "" {
		v.Scenario = scenario
	}
	r.mu.Lock()
	r.viol = append(r.viol, v)
	r.scen = append(r.scen, ScenarioResult{Name: scenario, Evals: 1, States: 1, Transitions: 1, Nontrivial: 2, Classes: map[string]int64{"aborted": 1}, Exhaustive: false, Violations: 1, Note: note})
	r.samples = append(r.samples, map[string]interface{}{"scenario": scenario, "case": string(v.Input)})
	r.mu.Unlock()
	os.Exit(r.Finish())
}

// ---- finishing ----

// Confirm feeds the input of each reported violation (the first 12) to the property's plain replay function, twice, after
// all workers have stopped, and records how often the same clause failed again. A violation that does not reproduce
// from its input alone is still reported - the outcome then depended on what the library had been asked before, or at
// the same time, which no sequential property allows - and is marked as such.
func (r *Run) Confirm(replay func(scenario string, raw json.RawMessage) []*Violation) {
	if replay == nil {
		return
	}
	for i, v := range r.viol {
		if i >= 12 {
			break
		}
		if v.Scenario == "" || len(v.Input) == 0 {
			continue
		}
		n := 0
		for k := 0; k < 2; k++ {
			var ws []*Violation
			done := WithTimeout(60*time.Second, func() { Guard(func() { ws = replay(v.Scenario, v.Input) }) })
			if !done {
				break
			}
			for _, w := range ws {
				if w.Clause == v.Clause {
					n++
					break
				}
			}
		}
		v.Runs = n
		if n == 0 {
			v.Note = "did not reproduce when this input alone was replayed twice after the run: the outcome depended on earlier or concurrent calls into the library (state kept between calls), which the artefact's input does not capture"
		}
	}
}

func (r *Run) repoHead() string { return r.RepoHead }

// Finish writes evidence, artefacts, prints VIOLATION / KNOWN-FINDING lines and returns the exit code.
func (r *Run) Finish() int {
	wall := time.Since(r.Start).Seconds()
	var evals, states, trans, traces, nontriv, maxd int64
	exhaustive := true
	classes := map[string]int64{}
	for _, s := range r.scen {
		evals += s.Evals
		states += s.States
		trans += s.Transitions
		traces += s.Traces
		nontriv += s.Nontrivial
		if s.MaxDepth > maxd {
			maxd = s.MaxDepth
		}
		if !s.Exhaustive {
			exhaustive = false
		}
		for k, v := range s.Classes {
			classes[s.Name+":"+k] = v
		}
	}
	if len(r.harnessErr) > 0 {
		for _, e := range r.harnessErr {
			fmt.Fprintln(os.Stderr, "HARNESS-ERROR:", e)
			fmt.Println("HARNESS-ERROR:", e)
		}
		return 2
	}
	// artefacts
	vdir := filepath.Join(VerifDir, "violations")
	var paths []string
	if len(r.viol) > 0 {
		os.MkdirAll(vdir, 0o755)
	}
	seen := map[string]bool{}
	for _, v := range r.viol {
		k := v.Scenario + "|" + v.Clause + "|" + strings.Join(v.Features, ",")
		if seen[k] && len(paths) >= 5 {
			continue
		}
		seen[k] = true
		if len(paths) >= 25 {
			break
		}
		h := sha256.Sum256(append([]byte(v.Scenario+v.Clause), v.Input...))
		p := filepath.Join(vdir, fmt.Sprintf("%s-%s-%s.json", r.Prop, sanitize(v.Scenario), hex.EncodeToString(h[:6])))
		b, _ := json.MarshalIndent(v, "", " ")
		os.WriteFile(p, b, 0o644)
		paths = append(paths, p)
		fmt.Printf("VIOLATION property=%s replay=%s\n", r.Prop, p)
		fmt.Printf("  scenario=%s clause=%s features=%v\n  expected: %s\n  observed: %s\n  input: %s\n", v.Scenario, v.Clause, v.Features,
			clip(v.Expected, 300), clip(v.Observed, 300), clip(string(v.Input), 400))
		if v.Note != "" {
			fmt.Printf("  note: %s\n", v.Note)
		}
	}
	kf := loadKnown()
	ids := make([]string, 0, len(r.known))
	for id := range r.known {
		ids = append(ids, id)
	}
	sort.Strings(ids)
	for _, id := range ids {
		for _, f := range kf.Findings {
			if f.ID == id {
				fmt.Printf("KNOWN-FINDING: property=%s %s [%s; clause=%s feature=%s; %d executions]\n", r.Prop, f.What, f.ID, f.Clause, f.Feature, r.known[id])
			}
		}
	}
	cov := map[string]interface{}{
		"states": states, "transitions": trans, "traces_validated_against_impl": traces,
		"evaluations": evals, "distinct_nontrivial": nontriv, "rule": r.Rule,
		"samples": r.samples, "exhaustive": exhaustive, "max_depth": maxd,
		"scenarios": r.scen, "outcome_classes": classes, "known_findings_matched": len(r.knownViol),
		"build": r.Build, "repo_head": r.RepoHead, "workers": r.Workers,
		"deadline_s": r.Deadline.Sub(r.Start).Seconds(),
	}
	for k, v := range r.Extra {
		cov[k] = v
	}
	if len(r.samples) == 0 {
		cov["samples"] = []interface{}{"(no scenario produced a sample)"}
	}
	ev := map[string]interface{}{
		"property_id": r.Prop, "tier": r.Tier, "seed": r.Seed, "level": "model_checking",
		"coverage": cov, "assumptions": r.Assume, "wall_s": wall, "violations": len(r.viol),
	}
	if r.Assume == nil {
		ev["assumptions"] = []string{}
	}
	os.MkdirAll(filepath.Join(VerifDir, "evidence"), 0o755)
	b, _ := json.MarshalIndent(ev, "", " ")
	if os.Getenv("VERIF_NO_EVIDENCE") == "" {
		if err := os.WriteFile(filepath.Join(VerifDir, "evidence", r.Prop+".json"), append(b, '\n'), 0o644); err != nil {
			fmt.Fprintln(os.Stderr, "evidence:", err)
			return 2
		}
	}
	fmt.Printf("%s %s: evaluations=%d states=%d transitions=%d traces_validated=%d nontrivial=%d exhaustive=%v violations=%d known=%d wall=%.1fs\n",
		r.Prop, r.Tier, evals, states, trans, traces, nontriv, exhaustive, len(r.viol), len(r.knownViol), wall)
	if len(r.viol) > 0 {
		return 1
	}
	return 0
}

func sanitize(s string) string {
	return strings.Map(func(r rune) rune {
		if r >= 'a' && r <= 'z' || r >= 'A' && r <= 'Z' || r >= '0' && r <= '9' || r == '-' {
			return r
		}
		return '_'
	}, s)
}

func clip(s string, n int) string {
	if len(s) > n {
		return s[:n] + "…"
	}
	return s
}

// Q quotes a string for messages.
func Q(s string) string { return fmt.Sprintf("%q", s) }

// Guard runs f and converts a panic into (true, message).
func Guard(f func()) (panicked bool, msg string) {
	defer func() {
		if e := recover(); e != nil {
			panicked = true
			msg = fmt.Sprint(e)
		}
	}()
	f()
	return
}

// WithTimeout runs f in a goroutine and reports whether it finished within d. A hang leaks the goroutine
// (the caller should stop exploring soon after). d is huge compared with a normal execution (µs–ms).
func WithTimeout(d time.Duration, f func()) (finished bool) {
	done := make(chan struct{})
	go func() {
		defer close(done)
		f()
	}()
	t := time.NewTimer(d)
	defer t.Stop()
	select {
	case <-done:
		return true
	case <-t.C:
		return false
	}
}
