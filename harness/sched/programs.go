package sched

import "fmt"

// PairPrograms builds the standard family of thread programs from a list of operations: every ordered pair as two
// threads of one call each, one thread making two calls against another making one, and a three-thread program.
func PairPrograms(ops []Op) []Program {
	var progs []Program
	for i, a := range ops {
		for j, b := range ops {
			progs = append(progs, Program{Name: fmt.Sprintf("op%d-with-op%d", i, j), Threads: [][]Op{{a}, {b}}})
		}
	}
	if len(ops) >= 3 {
		progs = append(progs,
			Program{Name: "two-calls-against-one", Threads: [][]Op{{ops[0], ops[1]}, {ops[2]}}},
			Program{Name: "three-threads", Threads: [][]Op{{ops[0]}, {ops[1]}, {ops[len(ops)-1]}}})
	}
	return progs
}
