//go:build verif

// Package sched is the cooperative scheduler of C18, usable by any property: thread programs made of plain functions
// are executed under every schedule with at most two preemptions, on the instrumented build (every use of a
// package-level variable of the module, every lock operation and - once one of those was hit - every loop iteration of
// the parser packages is a scheduling point), and every call must return what it returns when the threads run one
// after the other. On the unchanged library the functions handed in touch no shared state: each program then has a
// single execution, which says so in the evidence ("scheduling-points<=0").
package sched

import (
	"fmt"
	"sync"
	"time"

	"pault.ag/go/debian/verifhook"

	"verifharness/mc"
)

// Op is one call a thread makes; Label describes it in artefacts, F performs it and renders the result.
type Op struct {
	Label string
	F     func() string
}

// Program is a set of threads, each a sequence of calls.
type Program struct {
	Name    string
	Threads [][]Op
}

// In is the replayable input: the program (by name and labels) and the choice vector.
type In struct {
	Program string
	Threads [][]string
	Choices []int
}

const Available = true

type event struct {
	tid     int
	done    bool
	blocked bool
}

type exec struct {
	turn     []chan struct{}
	back     chan event
	touched  bool
	released bool
	abort    bool
	results  [][]string
	points   int
}

type deadlockAbort struct{}

func (e *exec) point(tid int) {
	e.points++
	e.back <- event{tid: tid}
	<-e.turn[tid]
}

func (e *exec) block(tid int) {
	e.points++
	e.back <- event{tid: tid, blocked: true}
	<-e.turn[tid]
	if e.abort {
		panic(deadlockAbort{})
	}
}

var mu sync.Mutex // executions are serialised process-wide: they share whatever state the library keeps

func call(f func() string) (out string) {
	defer func() {
		if r := recover(); r != nil {
			out = fmt.Sprintf("panic: %v", r)
		}
	}()
	return f()
}

func run(threads [][]Op, x *mc.X) ([][]string, int, bool) {
	mu.Lock()
	defer mu.Unlock()
	n := len(threads)
	e := &exec{back: make(chan event), results: make([][]string, n)}
	for i := 0; i < n; i++ {
		e.turn = append(e.turn, make(chan struct{}))
	}
	for i := 0; i < n; i++ {
		i := i
		go func() {
			<-e.turn[i]
			ctx := &verifhook.Ctx{
				OnAccess: func(int) { e.touched = true; e.point(i) },
				OnYield: func(int) {
					if e.touched {
						e.point(i)
					}
				},
				OnBlock:   func(int) { e.touched = true; e.block(i) },
				OnRelease: func(int) { e.touched = true; e.released = true; e.point(i) },
			}
			verifhook.Bind(ctx)
			for _, op := range threads[i] {
				e.results[i] = append(e.results[i], call(op.F))
				if e.abort {
					break
				}
			}
			verifhook.Unbind()
			e.back <- event{tid: i, done: true}
		}()
	}
	done, waiting := make([]bool, n), make([]bool, n)
	cur, remaining, deadlock := -1, n, false
	// An exploration that is abandoned in the middle of an execution (x.Choose / x.Deviate panic when a replayed choice
	// vector no longer fits: the library kept state from an earlier execution) must not leave thread goroutines suspended
	// inside the library - one of them may hold a lock of the library, and every later call of this process would wait for
	// it for ever. The unfinished threads are therefore run to completion, one after the other, before the panic goes on.
	defer func() {
		if remaining == 0 {
			return
		}
		pv := recover()
		for pass := 0; remaining > 0 && pass < 4*n+4; pass++ {
			if pass >= n+1 {
				e.abort = true // still threads left after every one had its chance: they wait for each other - unwind them
			}
			for i := 0; i < n && remaining > 0; i++ {
				if done[i] {
					continue
				}
				e.turn[i] <- struct{}{}
				for {
					ev := <-e.back
					if ev.done {
						done[ev.tid] = true
						remaining--
						break
					}
					if ev.blocked && !e.abort {
						break // waits for a lock another unfinished thread holds: finish the others first
					}
					e.turn[ev.tid] <- struct{}{}
				}
			}
		}
		if pv != nil {
			panic(pv)
		}
	}()
	for remaining > 0 {
		if e.released {
			e.released = false
			for i := range waiting {
				waiting[i] = false
			}
		}
		var enabled []int
		if cur >= 0 && !done[cur] && !waiting[cur] {
			enabled = append(enabled, cur)
		}
		for i := 0; i < n; i++ {
			if !done[i] && !waiting[i] && i != cur {
				enabled = append(enabled, i)
			}
		}
		if len(enabled) == 0 {
			deadlock, e.abort = true, true
			for i := 0; i < n; i++ {
				if !done[i] {
					e.turn[i] <- struct{}{}
					for {
						ev := <-e.back
						if ev.done {
							break
						}
						e.turn[ev.tid] <- struct{}{}
					}
					done[i] = true
					remaining--
				}
			}
			break
		}
		var c int
		if cur >= 0 && !done[cur] && !waiting[cur] {
			c = x.Deviate(len(enabled), "preempt")
		} else {
			c = x.Choose(len(enabled), "next")
		}
		cur = enabled[c]
		e.turn[cur] <- struct{}{}
		ev := <-e.back
		if ev.done {
			done[ev.tid] = true
			remaining--
		}
		if ev.blocked {
			waiting[ev.tid] = true
		}
	}
	return e.results, e.points, deadlock
}

func sequential(threads [][]Op) [][]string {
	mu.Lock()
	defer mu.Unlock()
	out := make([][]string, len(threads))
	for i, t := range threads {
		for _, op := range t {
			out[i] = append(out[i], call(op.F))
		}
	}
	return out
}

func labels(p Program) [][]string {
	var out [][]string
	for _, t := range p.Threads {
		var l []string
		for _, op := range t {
			l = append(l, op.Label)
		}
		out = append(out, l)
	}
	return out
}

func judge(scen string, p Program, choices []int, want, got [][]string, dead bool) *mc.Violation {
	in := In{p.Name, labels(p), choices}
	if dead {
		return mc.V(scen, "returns-without-hanging", in, "every call returns", "deadlock: every unfinished thread waits for a lock of the library that no running thread will release")
	}
	for i := range want {
		for j := range want[i] {
			if j >= len(got[i]) || want[i][j] != got[i][j] {
				g := "(missing)"
				if j < len(got[i]) {
					g = got[i][j]
				}
				return mc.V(scen, "concurrent-call-equals-sequential-call", in, fmt.Sprintf("thread %d call %d (%s): %s", i, j, p.Threads[i][j].Label, want[i][j]), g)
			}
		}
	}
	return nil
}

// Explore registers one scenario that explores every program under every schedule with <= 2 preemptions.
func Explore(r *mc.Run, scen string, progs []Program) {
	started := time.Now()
	maxExecs, maxWall := int64(200000), 20*time.Minute
	if r.Quick() {
		maxExecs, maxWall = 20000, 2*time.Minute
	}
	if r.HasViolation() {
		maxExecs, maxWall = 2000, 20*time.Second
	}
	r.Scenario(scen, map[string]interface{}{"thread_programs": len(progs), "preemption_bound": 2, "scheduling_points": "uses of package-level variables of the module, lock operations, loop iterations after the first shared access"}, len(progs), func(i int, st *mc.Stats) bool {
		p := progs[i]
		want := sequential(p.Threads)
		stop, cut := false, false
		maxPoints := 0
		execs, div := mc.Explore(2, st, func(x *mc.X) {
			if stop {
				return
			}
			got, pts, dead := run(p.Threads, x)
			if pts > maxPoints {
				maxPoints = pts
			}
			st.Evals++
			st.Traces++
			if pts > 0 {
				st.Nontrivial++
			}
			if v := judge(scen, p, x.Choices(), want, got, dead); v != nil {
				st.Violate(v)
				st.Class("differs-from-sequential")
				stop = true
			} else {
				st.Class("equals-sequential")
			}
			// a budget, not an oracle: on a library that keeps no state between calls every program has one execution.
			// Once a change makes every loop iteration a scheduling point the schedules of one program run into the
			// hundreds of thousands; the scenario then stops, says so (exhaustive=false) and leaves the verdict to
			// what was explored.
			if st.Evals > maxExecs || time.Since(started) > maxWall {
				stop, cut = true, true
			}
		})
		st.States += execs
		if maxPoints == 0 {
			st.Class("scheduling-points<=0")
		} else {
			st.Class("scheduling-points>0")
		}
		if cut {
			st.Class("budget-reached:exploration-incomplete")
			return false
		}
		if div != "" {
			st.Class("state-persists-across-executions:exploration-incomplete")
			return false
		}
		return true
	})
}

// Replay re-executes the recorded schedule of the named program.
func Replay(scen string, progs []Program, raw []byte) []*mc.Violation {
	var in In
	if mc.UnmarshalInput(raw, &in) != nil {
		return nil
	}
	for _, p := range progs {
		if p.Name != in.Program {
			continue
		}
		want := sequential(p.Threads)
		var out []*mc.Violation
		mc.ExploreOne(in.Choices, func(x *mc.X) {
			got, _, dead := run(p.Threads, x)
			if v := judge(scen, p, in.Choices, want, got, dead); v != nil {
				out = append(out, v)
			}
		})
		return out
	}
	return nil
}
