//go:build !verif

// Package sched (plain build): the cooperative scheduler needs the instrumented build; without it the scenario records
// that schedules were not explored.
package sched

import "verifharness/mc"

type Op struct {
	Label string
	F     func() string
}

type Program struct {
	Name    string
	Threads [][]Op
}

const Available = false

func Explore(r *mc.Run, scen string, progs []Program) {
	r.Scenario(scen, map[string]interface{}{"thread_programs": len(progs), "note": "plain build: schedules not explored (the instrumented build was not available)"}, 1, func(int, *mc.Stats) bool { return false })
}

func Replay(scen string, progs []Program, raw []byte) []*mc.Violation { return nil }
