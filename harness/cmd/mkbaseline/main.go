// Command mkbaseline regenerates harness/audit/baseline.json from the current /repo (run after committing a fix: to /repo).
package main

import (
	"fmt"
	"os"

	"verifharness/audit"
)

func main() {
	root, out := "/repo", "audit/baseline.json"
	if len(os.Args) > 1 {
		root = os.Args[1]
	}
	if len(os.Args) > 2 {
		out = os.Args[2]
	}
	if err := audit.WriteBaseline(root, out); err != nil {
		fmt.Fprintln(os.Stderr, err)
		os.Exit(1)
	}
	fmt.Println("wrote", out)
}
