// Command apicover lists the exported functions and methods of the repository under test that no property package of
// the harness references (type-checked, not grepped): entry points a check cannot have explored.
//
// usage (from /verif/harness): go run ./cmd/apicover [-tags "allprops"] > ../apicover.txt
package main

import (
	"flag"
	"fmt"
	"go/types"
	"os"
	"sort"
	"strings"

	"golang.org/x/tools/go/packages"
)

const mod = "pault.ag/go/debian"

func main() {
	tags := flag.String("tags", "allprops", "build tags for loading the harness")
	flag.Parse()
	cfg := &packages.Config{Mode: packages.NeedName | packages.NeedFiles | packages.NeedSyntax | packages.NeedTypes | packages.NeedTypesInfo | packages.NeedImports | packages.NeedDeps,
		BuildFlags: []string{"-tags=" + *tags}, Env: append(os.Environ(), "GOFLAGS=-mod=mod")}
	pkgs, err := packages.Load(cfg, "./props/...", "./gen/...")
	if err != nil {
		fmt.Fprintln(os.Stderr, err)
		os.Exit(2)
	}
	used := map[string]map[string]bool{} // object -> set of property packages
	repo := map[string]*types.Package{}
	for _, p := range pkgs {
		if len(p.Errors) > 0 {
			for _, e := range p.Errors {
				fmt.Fprintln(os.Stderr, e)
			}
		}
		short := strings.TrimPrefix(p.PkgPath, "verifharness/")
		for _, obj := range p.TypesInfo.Uses {
			if obj == nil || obj.Pkg() == nil || !strings.HasPrefix(obj.Pkg().Path(), mod) || strings.Contains(obj.Pkg().Path(), "verifhook") {
				continue
			}
			k := key(obj)
			if k == "" {
				continue
			}
			if used[k] == nil {
				used[k] = map[string]bool{}
			}
			used[k][short] = true
		}
		for _, imp := range p.Imports {
			if strings.HasPrefix(imp.PkgPath, mod) && imp.Types != nil {
				repo[imp.PkgPath] = imp.Types
			}
		}
	}
	// also the repository packages nobody imports
	all, _ := packages.Load(&packages.Config{Mode: packages.NeedName | packages.NeedTypes, Dir: os.Getenv("VERIF_REPO_DIR"), Env: append(os.Environ(), "GOFLAGS=-mod=mod")}, "./...")
	for _, p := range all {
		if _, ok := repo[p.PkgPath]; !ok && p.Types != nil && !strings.Contains(p.PkgPath, "/internal") {
			repo[p.PkgPath] = p.Types
		}
	}
	var paths []string
	for k := range repo {
		paths = append(paths, k)
	}
	sort.Strings(paths)
	total, miss := 0, 0
	for _, path := range paths {
		tp := repo[path]
		var lines []string
		sc := tp.Scope()
		for _, name := range sc.Names() {
			obj := sc.Lookup(name)
			if !obj.Exported() {
				continue
			}
			switch o := obj.(type) {
			case *types.Func:
				total++
				if used[key(o)] == nil {
					miss++
					lines = append(lines, "  func "+name)
				}
			case *types.TypeName:
				named, ok := o.Type().(*types.Named)
				if !ok {
					continue
				}
				for i := 0; i < named.NumMethods(); i++ {
					m := named.Method(i)
					if !m.Exported() {
						continue
					}
					total++
					if used[key(m)] == nil {
						miss++
						lines = append(lines, "  method "+name+"."+m.Name())
					}
				}
			}
		}
		if len(lines) > 0 {
			fmt.Println(path)
			for _, l := range lines {
				fmt.Println(l)
			}
		}
	}
	fmt.Printf("# exported functions and methods: %d; not referenced by any property package: %d\n", total, miss)
}

func key(obj types.Object) string {
	f, ok := obj.(*types.Func)
	if !ok {
		return ""
	}
	sig := f.Type().(*types.Signature)
	if r := sig.Recv(); r != nil {
		t := r.Type()
		if p, ok := t.(*types.Pointer); ok {
			t = p.Elem()
		}
		if n, ok := t.(*types.Named); ok {
			return n.Obj().Pkg().Path() + "." + n.Obj().Name() + "." + f.Name()
		}
		return ""
	}
	return f.Pkg().Path() + "." + f.Name()
}
