//go:build c20 || allprops

package main

import _ "verifharness/props/c20"
