//go:build c14 || allprops

package main

import _ "verifharness/props/c14"
