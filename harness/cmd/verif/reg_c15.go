//go:build c15 || allprops

package main

import _ "verifharness/props/c15"
