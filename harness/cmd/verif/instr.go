//go:build verif

package main

const buildKind = "instrumented"
