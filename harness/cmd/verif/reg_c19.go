//go:build c19 || allprops

package main

import _ "verifharness/props/c19"
