//go:build c10 || allprops

package main

import _ "verifharness/props/c10"
