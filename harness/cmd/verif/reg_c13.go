//go:build c13 || allprops

package main

import _ "verifharness/props/c13"
