//go:build !verif

package main

const buildKind = "plain"
