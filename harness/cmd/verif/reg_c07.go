//go:build c07 || allprops

package main

import _ "verifharness/props/c07"
