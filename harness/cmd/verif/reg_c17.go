//go:build c17 || allprops

package main

import _ "verifharness/props/c17"
