//go:build c16 || allprops

package main

import _ "verifharness/props/c16"
