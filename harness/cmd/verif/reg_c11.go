//go:build c11 || allprops

package main

import _ "verifharness/props/c11"
