// Command verif is the driver: verif <ID> <quick|thorough> | verif replay <file> | verif list
package main

import (
	"encoding/json"
	"fmt"
	"os"

	"verifharness/audit"
	"verifharness/mc"
	"verifharness/props/reg"
)

func main() {
	if len(os.Args) < 2 {
		fmt.Fprintln(os.Stderr, "usage: verif <ID> <quick|thorough> | replay <file> | list")
		os.Exit(2)
	}
	switch os.Args[1] {
	case "list":
		for _, id := range reg.IDs() {
			fmt.Println(id)
		}
	case "replay":
		os.Exit(replay(os.Args[2]))
	default:
		p := reg.Get(os.Args[1])
		if p == nil {
			fmt.Fprintln(os.Stderr, "unknown property (in this build):", os.Args[1])
			os.Exit(2)
		}
		tier := "quick"
		if len(os.Args) > 2 {
			tier = os.Args[2]
		}
		if t := os.Getenv("VERIF_TIER"); t != "" && len(os.Args) <= 2 {
			tier = t
		}
		if os.Getenv("VERIF_SUPERVISED") == "" && os.Getenv("VERIF_NO_SUPERVISOR") == "" && p.ID != "C15" && p.ID != "C18" {
			os.Exit(supervise(p.ID))
		}
		r := mc.NewRun(p.ID, tier)
		r.Build = buildKind
		r.Extra["alphabet_audit"] = audit.Evidence()
		if n := os.Getenv("VERIF_SUPERVISOR_NOTE"); n != "" {
			r.Extra["supervisor"] = n
		}
		p.Run(r)
		r.Confirm(p.Replay)
		os.Exit(r.Finish())
	}
}

func replay(path string) int {
	b, err := os.ReadFile(path)
	if err != nil {
		fmt.Fprintln(os.Stderr, err)
		return 2
	}
	var v mc.Violation
	if err := json.Unmarshal(b, &v); err != nil {
		fmt.Fprintln(os.Stderr, err)
		return 2
	}
	if v.Scenario == "whole-check" {
		// the artefact records that the library took the checking process down: run the check again under supervision
		os.Args = []string{os.Args[0], v.Property, "quick"}
		os.Setenv("VERIF_NO_EVIDENCE", "1")
		return supervise(v.Property)
	}
	p := reg.Get(v.Property)
	if p == nil || p.Replay == nil {
		fmt.Fprintln(os.Stderr, "no replay for", v.Property, "in this build (", buildKind, ")")
		return 2
	}
	// the concrete input is executed twice through the plain oracle function; observations must agree
	var obs [2]string
	var still [2]bool
	for i := 0; i < 2; i++ {
		for _, w := range p.Replay(v.Scenario, v.Input) {
			if w.Clause == v.Clause {
				still[i] = true
				obs[i] = w.Observed
				break
			}
		}
	}
	if still[0] != still[1] || obs[0] != obs[1] {
		fmt.Printf("replay is not deterministic: %v/%v %q vs %q\n", still[0], still[1], obs[0], obs[1])
		return 2
	}
	fmt.Printf("property=%s scenario=%s clause=%s\ninput: %s\nexpected: %s\nobserved now: %s\n", v.Property, v.Scenario, v.Clause, string(v.Input), v.Expected, obs[0])
	if still[0] {
		fmt.Printf("VIOLATION property=%s replay=%s\n", v.Property, path)
		return 1
	}
	fmt.Println("clause holds on this input now")
	return 0
}
