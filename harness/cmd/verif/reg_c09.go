//go:build c09 || allprops

package main

import _ "verifharness/props/c09"
