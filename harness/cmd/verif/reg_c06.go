//go:build c06 || allprops

package main

import _ "verifharness/props/c06"
