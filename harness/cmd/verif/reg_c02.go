//go:build c02 || allprops

package main

import _ "verifharness/props/c02"
