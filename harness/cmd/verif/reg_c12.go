//go:build c12 || allprops

package main

import _ "verifharness/props/c12"
