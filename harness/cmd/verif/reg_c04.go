//go:build c04 || allprops

package main

import _ "verifharness/props/c04"
