//go:build c18 || allprops

package main

import _ "verifharness/props/c18"
