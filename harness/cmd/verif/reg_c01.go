package main

import _ "verifharness/props/c01"
