//go:build c01 || allprops

package main

import _ "verifharness/props/c01"
