package main

import (
	"bytes"
	"crypto/sha256"
	"encoding/hex"
	"encoding/json"
	"fmt"
	"io"
	"os"
	"os/exec"
	"path/filepath"
	"strings"
	"sync"

	"verifharness/mc"
)

// Every check runs in a child of this process. A Go runtime fatal error in the code under test ("concurrent map
// writes", stack exhaustion, out of memory, a panic on a goroutine the library started) cannot be recovered inside the
// process and would otherwise end the check without a verdict. When the child dies abnormally the check is run again
// on one worker with GOMAXPROCS=1 (the verdict for a sequential property must not depend on the 16 shards sharing a
// process); if that run dies too and the trace names the library, the death itself is reported as the violation.
// C15 and C18 bring their own supervision (per-input isolation) and are not wrapped.

type tail struct {
	mu  sync.Mutex
	buf []byte
}

func (t *tail) Write(p []byte) (int, error) {
	t.mu.Lock()
	t.buf = append(t.buf, p...)
	if len(t.buf) > 1<<17 {
		t.buf = t.buf[len(t.buf)-1<<16:]
	}
	t.mu.Unlock()
	return len(p), nil
}

func runChild(extraEnv ...string) (code int, crashed bool, how string, stderrTail string) {
	cmd := exec.Command(os.Args[0], os.Args[1:]...)
	cmd.Env = append(append(os.Environ(), "VERIF_SUPERVISED=1"), extraEnv...)
	cmd.Stdout = os.Stdout
	t := &tail{}
	cmd.Stderr = io.MultiWriter(os.Stderr, t)
	err := cmd.Run()
	st := string(t.buf)
	if err == nil {
		return 0, false, "", st
	}
	ee, ok := err.(*exec.ExitError)
	if !ok {
		return 2, false, err.Error(), st
	}
	if !ee.Exited() {
		return 2, true, "killed: " + ee.String(), st
	}
	code = ee.ExitCode()
	if code == 2 {
		for _, mark := range []string{"fatal error: ", "panic: ", "runtime: "} {
			if i := strings.Index(st, mark); i >= 0 {
				line := st[i:]
				if k := strings.IndexByte(line, '\n'); k >= 0 {
					line = line[:k]
				}
				return code, true, line, st
			}
		}
	}
	return code, false, "", st
}

func supervise(prop string) int {
	code, crashed, how, _ := runChild()
	if !crashed {
		return code
	}
	fmt.Printf("[supervisor] the checking process died (%s); running the check again on one worker\n", how)
	code, crashed2, how2, st := runChild("VERIF_WORKERS=1", "GOMAXPROCS=1", "VERIF_SUPERVISOR_NOTE=the 16-worker run died ("+how+"); this is the verdict of a sequential re-run")
	if !crashed2 {
		return code
	}
	if !strings.Contains(st, "pault.ag/go/debian/") {
		fmt.Printf("HARNESS-ERROR: the checking process died twice (%s) and the trace does not name the library\n", how2)
		return 2
	}
	// the library took the process down, sequentially: that is the finding
	if i := strings.Index(st, how2); i >= 0 {
		st = st[i:]
	}
	if len(st) > 6000 {
		st = st[:6000]
	}
	v := mc.V("whole-check", "check-process-survives", map[string]string{"trace": st}, "the library returns to its caller", how2)
	v.Property = prop
	v.Tier = os.Args[len(os.Args)-1]
	h := sha256.Sum256([]byte(st))
	dir := filepath.Join(mc.VerifDir, "violations")
	os.MkdirAll(dir, 0o755)
	p := filepath.Join(dir, fmt.Sprintf("%s-crash-%s.json", prop, hex.EncodeToString(h[:6])))
	b, _ := json.MarshalIndent(v, "", " ")
	os.WriteFile(p, bytes.TrimSpace(b), 0o644)
	fmt.Printf("VIOLATION property=%s replay=%s\n  the checking process was taken down by the code under test, also on one worker: %s\n", prop, p, how2)
	return 1
}
