//go:build c03 || allprops

package main

import _ "verifharness/props/c03"
