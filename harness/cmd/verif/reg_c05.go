//go:build c05 || allprops

package main

import _ "verifharness/props/c05"
