//go:build c08 || allprops

package main

import _ "verifharness/props/c08"
