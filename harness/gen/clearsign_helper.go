package gen

// Clearsign helpers for C11 (identifiers prefixed CS). Keys are generated per run (the property does not
// depend on key material); every artefact embeds the armoured PUBLIC keys and the exact document bytes.

import (
	"bytes"
	"encoding/hex"
	"fmt"
	"strings"
	"sync"
	"time"

	"golang.org/x/crypto/openpgp"
	"golang.org/x/crypto/openpgp/armor"
	"golang.org/x/crypto/openpgp/clearsign"
	"golang.org/x/crypto/openpgp/packet"
)

// CSClock is the fixed creation time of keys and signatures.
var CSClock = time.Date(2020, 1, 2, 3, 4, 5, 0, time.UTC)

func csConfig() *packet.Config {
	return &packet.Config{RSABits: 1024, Time: func() time.Time { return CSClock }}
}

// CSNewKey generates an RSA-1024 entity with a fixed creation time.
func CSNewKey(name string) (*openpgp.Entity, error) {
	return openpgp.NewEntity(name, "verif", name+"@verif.invalid", csConfig())
}

// CSFingerprint is the hex fingerprint of the entity's primary key ("" for nil).
func CSFingerprint(e *openpgp.Entity) string {
	if e == nil || e.PrimaryKey == nil {
		return ""
	}
	return hex.EncodeToString(e.PrimaryKey.Fingerprint[:])
}

// CSArmorPublic is the ASCII-armoured public key (what artefacts embed).
func CSArmorPublic(e *openpgp.Entity) (string, error) {
	var buf bytes.Buffer
	w, err := armor.Encode(&buf, openpgp.PublicKeyType, nil)
	if err != nil {
		return "", err
	}
	if err := e.Serialize(w); err != nil {
		return "", err
	}
	if err := w.Close(); err != nil {
		return "", err
	}
	return buf.String(), nil
}

// CSBinaryPublic is the binary public key (a keyring file for gpgv).
func CSBinaryPublic(e *openpgp.Entity) ([]byte, error) {
	var buf bytes.Buffer
	err := e.Serialize(&buf)
	return buf.Bytes(), err
}

var csRingCache sync.Map // armoured text -> openpgp.EntityList

// CSReadKeyring parses armoured public keys into one entity list, in the given order (cached per text).
func CSReadKeyring(armoured []string) (openpgp.EntityList, error) {
	var out openpgp.EntityList
	for _, a := range armoured {
		if v, ok := csRingCache.Load(a); ok {
			out = append(out, v.(openpgp.EntityList)...)
			continue
		}
		el, err := openpgp.ReadArmoredKeyRing(strings.NewReader(a))
		if err != nil {
			return nil, err
		}
		csRingCache.Store(a, el)
		out = append(out, el...)
	}
	return out, nil
}

// CSSignature signs text (clearsign canonicalisation, SigTypeText) and returns only the armoured signature
// block, "-----BEGIN PGP SIGNATURE-----" … "-----END PGP SIGNATURE-----\n", and the Hash header value.
func CSSignature(e *openpgp.Entity, text []byte) (sig string, hashName string, err error) {
	var buf bytes.Buffer
	w, err := clearsign.Encode(&buf, e.PrivateKey, csConfig())
	if err != nil {
		return "", "", err
	}
	if _, err = w.Write(text); err != nil {
		return "", "", err
	}
	if err = w.Close(); err != nil {
		return "", "", err
	}
	out := buf.String()
	// the LAST armour start at the beginning of a line (the text may itself contain dash-escaped armour lines)
	i := strings.LastIndex(out, "\n-----BEGIN PGP SIGNATURE-----") + 1
	if i <= 0 {
		return "", "", fmt.Errorf("clearsign.Encode produced no signature block")
	}
	hashName = "SHA256"
	if j := strings.Index(out, "Hash: "); j >= 0 && j < i {
		k := strings.IndexByte(out[j:], '\n')
		hashName = out[j+6 : j+k]
	}
	return out[i:], hashName, nil
}

// CSAssemble builds a clearsigned document around text EXACTLY as given (clearsign.Encode would drop trailing
// blanks and CRs from the cleartext it emits; the signature is over the canonical form, so it stays valid):
// armour header, Hash header, blank line, dash-escaped text, signature block. eol is "\n" or "\r\n" and is
// used for the armour lines; text keeps its own line ends and must end with a line end.
func CSAssemble(text []byte, sig, hashName, eol string) []byte {
	var b bytes.Buffer
	b.WriteString("-----BEGIN PGP SIGNED MESSAGE-----" + eol)
	b.WriteString("Hash: " + hashName + eol)
	b.WriteString(eol)
	for _, ln := range bytes.SplitAfter(text, []byte("\n")) {
		if len(ln) == 0 {
			continue
		}
		if ln[0] == '-' {
			b.WriteString("- ")
		}
		b.Write(ln)
	}
	if eol == "\n" {
		b.WriteString(sig)
	} else {
		b.WriteString(strings.ReplaceAll(sig, "\n", eol))
	}
	return b.Bytes()
}

// CSClearsign = CSSignature + CSAssemble.
func CSClearsign(e *openpgp.Entity, text []byte, eol string) ([]byte, error) {
	sig, h, err := CSSignature(e, text)
	if err != nil {
		return nil, err
	}
	return CSAssemble(text, sig, h, eol), nil
}

// CSRegion locates the cleartext of the first clearsigned block of doc: [start,end) where start is the first
// byte after the empty line that ends the armour headers and end is the first byte of the
// "-----BEGIN PGP SIGNATURE-----" line. ok=false if doc has no such structure.
func CSRegion(doc []byte) (start, end int, ok bool) {
	const begin = "-----BEGIN PGP SIGNED MESSAGE-----"
	if !bytes.HasPrefix(doc, []byte(begin)) {
		return 0, 0, false
	}
	pos := 0
	next := func() (line []byte, more bool) {
		if pos >= len(doc) {
			return nil, false
		}
		i := bytes.IndexByte(doc[pos:], '\n')
		var ln []byte
		if i < 0 {
			ln = doc[pos:]
			pos = len(doc)
		} else {
			ln = doc[pos : pos+i]
			pos += i + 1
		}
		if n := len(ln); n > 0 && ln[n-1] == '\r' {
			ln = ln[:n-1]
		}
		return ln, true
	}
	if ln, more := next(); !more || string(ln) != begin {
		return 0, 0, false
	}
	for {
		ln, more := next()
		if !more {
			return 0, 0, false
		}
		if len(ln) == 0 {
			break
		}
	}
	start = pos
	for {
		at := pos
		ln, more := next()
		if !more {
			return 0, 0, false
		}
		if string(ln) == "-----BEGIN PGP SIGNATURE-----" {
			return start, at, true
		}
	}
}

// CSCanonical is the canonical form of a clearsigned cleartext region as RFC 4880 §7.1 defines it (and as the
// signature is computed): lines split at LF, one CR before the LF dropped, a leading "- " dash escape removed,
// trailing blanks and tabs dropped, lines joined by CRLF, no line end after the last line.
func CSCanonical(region []byte) []byte {
	var out []byte
	first := true
	rest := region
	for len(rest) > 0 {
		var ln []byte
		if i := bytes.IndexByte(rest, '\n'); i >= 0 {
			ln, rest = rest[:i], rest[i+1:]
			if n := len(ln); n > 0 && ln[n-1] == '\r' {
				ln = ln[:n-1]
			}
		} else {
			ln, rest = rest, nil
		}
		if !first {
			out = append(out, '\r', '\n')
		}
		first = false
		if bytes.HasPrefix(ln, []byte("- ")) {
			ln = ln[2:]
		}
		ln = bytes.TrimRight(ln, " \t")
		out = append(out, ln...)
	}
	return out
}

// CSSignaturePackets returns the raw OpenPGP packet bytes inside an armoured signature block.
func CSSignaturePackets(sigArmor string) ([]byte, error) {
	blk, err := armor.Decode(strings.NewReader(sigArmor))
	if err != nil {
		return nil, err
	}
	var buf bytes.Buffer
	if _, err := buf.ReadFrom(blk.Body); err != nil {
		return nil, err
	}
	return buf.Bytes(), nil
}

// CSArmorSignature armours the concatenation of raw signature packets as one "PGP SIGNATURE" block (ending in a line end).
func CSArmorSignature(packets ...[]byte) (string, error) {
	var buf bytes.Buffer
	w, err := armor.Encode(&buf, "PGP SIGNATURE", nil)
	if err != nil {
		return "", err
	}
	for _, p := range packets {
		if _, err := w.Write(p); err != nil {
			return "", err
		}
	}
	if err := w.Close(); err != nil {
		return "", err
	}
	s := buf.String()
	if !strings.HasSuffix(s, "\n") {
		s += "\n"
	}
	return s, nil
}
