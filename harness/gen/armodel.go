package gen

// Column-level model of the common ar(5) format, used by the C13 / C15 checks. It is deliberately separate from
// BuildAr (debbuild.go): here every header column is written verbatim from the model, so that blank, signed,
// non-numeric and over-wide columns, wrong header magic and missing padding can all be expressed.
// It shares no code with the library under test.

import (
	"bytes"
	"errors"
	"io"
	"os"
	"strconv"
	"strings"
)

// ArmGlobalMagic is the 8-byte archive magic.
const ArmGlobalMagic = "!<arch>\n"

// ArmMember is one archive member, column by column. Column texts are written left-aligned and blank-padded to
// the column width (16/12/6/6/8/10); a text wider than its column is cut (generators never pass one).
type ArmMember struct {
	Name string // name column text (e.g. "a", "x/", "0123456789abcdef"); may contain blanks or NULs
	TS   string // timestamp column text; "" = blank column
	UID  string
	GID  string
	Mode string
	// SizeSet false: the size column is the decimal length of Data. SizeSet true: SizeText is written verbatim
	// ("" = blank column) whatever the length of Data is.
	SizeSet  bool   `json:",omitempty"`
	SizeText string `json:",omitempty"`
	Magic    string `json:",omitempty"` // "" = "`\n"; otherwise exactly two bytes
	Data     []byte
	NoPad    bool `json:",omitempty"` // omit the byte that pads an odd-sized member
	// Pad is the byte written after odd-length data ("" = '\n', what ar(1) writes; other writers pad with NUL).
	Pad string `json:",omitempty"`
}

func armPad(s string, w int) string {
	if len(s) >= w {
		return s[:w]
	}
	return s + strings.Repeat(" ", w-len(s))
}

// SizeCol returns the text of the size column.
func (m ArmMember) SizeCol() string {
	if m.SizeSet {
		return m.SizeText
	}
	return strconv.Itoa(len(m.Data))
}

// ArmHeader renders the 60-byte member header.
func ArmHeader(m ArmMember) []byte {
	magic := m.Magic
	if magic == "" {
		magic = "`\n"
	}
	h := armPad(m.Name, 16) + armPad(m.TS, 12) + armPad(m.UID, 6) + armPad(m.GID, 6) + armPad(m.Mode, 8) +
		armPad(m.SizeCol(), 10) + armPad(magic, 2)
	return []byte(h)
}

// ArmBuild renders a whole archive: global magic, then per member header, data, and one '\n' after odd-length data.
func ArmBuild(ms []ArmMember) []byte {
	var b bytes.Buffer
	b.WriteString(ArmGlobalMagic)
	for _, m := range ms {
		b.Write(ArmHeader(m))
		b.Write(m.Data)
		if len(m.Data)%2 == 1 && !m.NoPad {
			if m.Pad != "" {
				b.WriteByte(m.Pad[0])
			} else {
				b.WriteByte('\n')
			}
		}
	}
	return b.Bytes()
}

// ArmOffsets returns the header offset of every member of ArmBuild(ms) and the total length.
func ArmOffsets(ms []ArmMember) (offs []int, total int) {
	off := len(ArmGlobalMagic)
	for _, m := range ms {
		offs = append(offs, off)
		off += 60 + len(m.Data)
		if len(m.Data)%2 == 1 && !m.NoPad {
			off++
		}
	}
	return offs, off
}

// ArmExpect is what a reader must report for a well-formed member (C13's reference): name with the padding and
// one trailing '/' removed, numeric columns as decimal (blank = 0), mode text without padding.
type ArmExpect struct {
	Name               string
	TS, UID, GID, Size int64
	Mode               string
	Data               []byte
}

func armNum(s string) int64 {
	s = strings.Trim(s, " ")
	if s == "" {
		return 0
	}
	v, err := strconv.ParseInt(s, 10, 64)
	if err != nil {
		panic("armodel: well-formed member with non-decimal column " + strconv.Quote(s))
	}
	return v
}

// ArmExpected computes the reference record of a WELL-FORMED member (decimal or blank numeric columns).
func ArmExpected(m ArmMember) ArmExpect {
	return ArmExpect{
		Name: strings.TrimSuffix(strings.TrimRight(armPad(m.Name, 16), " "), "/"),
		TS:   armNum(m.TS), UID: armNum(m.UID), GID: armNum(m.GID), Size: int64(len(m.Data)),
		Mode: strings.Trim(m.Mode, " "), Data: m.Data,
	}
}

// ArmEOFReaderAt is a legal io.ReaderAt that uses the OTHER end-of-input convention the io.ReaderAt contract
// allows: a read that is completely satisfied but ends exactly at the end of the input returns (len(p), io.EOF)
// (bytes.Reader returns (len(p), nil) there).
type ArmEOFReaderAt struct{ B []byte }

func (r ArmEOFReaderAt) ReadAt(p []byte, off int64) (int, error) {
	if off < 0 {
		return 0, errors.New("ArmEOFReaderAt.ReadAt: negative offset")
	}
	if off >= int64(len(r.B)) {
		return 0, io.EOF
	}
	n := copy(p, r.B[off:])
	if n < len(p) || off+int64(n) == int64(len(r.B)) {
		return n, io.EOF
	}
	return n, nil
}

// ArmReaderAt returns the reader for convention conv: 0 = bytes.Reader, 1 = ArmEOFReaderAt.
func ArmReaderAt(b []byte, conv int) io.ReaderAt {
	if conv == 1 {
		return ArmEOFReaderAt{B: b}
	}
	return bytes.NewReader(b)
}

// ArmTarName is the reference for ArEntry.IsTarfile, from its documentation ("true for files that have `.tar.*` or
// `.tar` suffix"): the (trimmed) member name ends in ".tar", or in ".tar.<ext>" where <ext> is one extension (no
// further '.', no '/').
func ArmTarName(n string) bool {
	if strings.HasSuffix(n, ".tar") {
		return true
	}
	i := strings.LastIndexByte(n, '.')
	return i >= 0 && !strings.Contains(n[i:], "/") && strings.HasSuffix(n[:i], ".tar")
}

// ---- the io.ReaderAt handed to LoadAr: I/O-contract corners (all LEGAL readers over the same archive bytes) ----

// ArmReaderKinds names the reader kinds of ArmOpen, by index.
var ArmReaderKinds = []string{
	"bytes.Reader", // 0
	"(n, io.EOF) on a full read reaching the end",               // 1
	"bytes.Reader after Read of 8 bytes",                        // 2
	"bytes.Reader after reading everything",                     // 3
	"bytes.Reader after Seek to the end",                        // 4
	"strings.Reader",                                            // 5
	"strings.Reader after Read of 8 bytes",                      // 6
	"strings.Reader after reading everything",                   // 7
	"io.SectionReader at base 13 of a larger buffer",            // 8
	"*os.File with its offset moved",                            // 9
	"reader whose Len()/Size() methods say 7 less",              // 10
	"reader whose Len()/Size() methods say 1000 more",           // 11
	"io.SectionReader at base 0, a valid member behind its end", // 12
}

// ArmReaderFeature is the input feature of a reader kind ("" for the plain bytes.Reader).
func ArmReaderFeature(kind int) string {
	switch kind {
	case 1:
		return "readerat-eof-with-full-read"
	case 2, 3, 4, 6, 7:
		return "reader-position-consumed"
	case 5:
		return "strings-reader"
	case 8, 12:
		return "section-reader-shorter-than-its-source"
	case 9:
		return "os-file-offset-moved"
	case 10, 11:
		return "reader-len-method-lies"
	}
	return ""
}

type armLying struct {
	r     *bytes.Reader
	delta int
}

func (l armLying) ReadAt(p []byte, off int64) (int, error) { return l.r.ReadAt(p, off) }
func (l armLying) Len() int                                { return int(l.r.Size()) + l.delta }
func (l armLying) Size() int64                             { return l.r.Size() + int64(l.delta) }

// ArmOpen returns the archive bytes behind reader kind k, and a function that releases it (scratch file).
func ArmOpen(b []byte, k int) (io.ReaderAt, func()) {
	nop := func() {}
	switch k {
	case 1:
		return ArmEOFReaderAt{B: b}, nop
	case 2, 3, 4:
		r := bytes.NewReader(b)
		switch k {
		case 2:
			io.CopyN(io.Discard, r, 8)
		case 3:
			io.Copy(io.Discard, r)
		case 4:
			r.Seek(0, io.SeekEnd)
		}
		return r, nop
	case 5, 6, 7:
		r := strings.NewReader(string(b))
		if k == 6 {
			io.CopyN(io.Discard, r, 8)
		} else if k == 7 {
			io.Copy(io.Discard, r)
		}
		return r, nop
	case 8, 12:
		// the section ends where the archive ends; what follows it in the underlying reader is itself a well-formed
		// member (as when an archive is nested inside a member of an outer archive, with another member after it)
		behind := ArmBuild([]ArmMember{{Name: "behind", TS: "9", UID: "9", GID: "9", Mode: "644", Data: []byte("not part of the section")}})[len(ArmGlobalMagic):]
		pre := []byte("thirteen-byte")
		if k == 12 {
			pre = nil
		}
		big := append(append(append([]byte(nil), pre...), b...), behind...)
		return io.NewSectionReader(bytes.NewReader(big), int64(len(pre)), int64(len(b))), nop
	case 9:
		f, err := os.CreateTemp("", "armfile")
		if err != nil {
			return bytes.NewReader(b), nop
		}
		f.Write(b)
		f.Seek(5, io.SeekStart)
		return f, func() { f.Close(); os.Remove(f.Name()) }
	case 10:
		return armLying{bytes.NewReader(b), -7}, nop
	case 11:
		return armLying{bytes.NewReader(b), 1000}, nop
	}
	return bytes.NewReader(b), nop
}
