package gen

// Column-level model of the common ar(5) format, used by the C13 / C15 checks. It is deliberately separate from
// BuildAr (debbuild.go): here every header column is written verbatim from the model, so that blank, signed,
// non-numeric and over-wide columns, wrong header magic and missing padding can all be expressed.
// It shares no code with the library under test.

import (
	"bytes"
	"errors"
	"io"
	"strconv"
	"strings"
)

// ArmGlobalMagic is the 8-byte archive magic.
const ArmGlobalMagic = "!<arch>\n"

// ArmMember is one archive member, column by column. Column texts are written left-aligned and blank-padded to
// the column width (16/12/6/6/8/10); a text wider than its column is cut (generators never pass one).
type ArmMember struct {
	Name string // name column text (e.g. "a", "x/", "0123456789abcdef"); may contain blanks or NULs
	TS   string // timestamp column text; "" = blank column
	UID  string
	GID  string
	Mode string
	// SizeSet false: the size column is the decimal length of Data. SizeSet true: SizeText is written verbatim
	// ("" = blank column) whatever the length of Data is.
	SizeSet  bool   `json:",omitempty"`
	SizeText string `json:",omitempty"`
	Magic    string `json:",omitempty"` // "" = "`\n"; otherwise exactly two bytes
	Data     []byte
	NoPad    bool `json:",omitempty"` // omit the byte that pads an odd-sized member
	// Pad is the byte written after odd-length data ("" = '\n', what ar(1) writes; other writers pad with NUL).
	Pad string `json:",omitempty"`
}

func armPad(s string, w int) string {
	if len(s) >= w {
		return s[:w]
	}
	return s + strings.Repeat(" ", w-len(s))
}

// SizeCol returns the text of the size column.
func (m ArmMember) SizeCol() string {
	if m.SizeSet {
		return m.SizeText
	}
	return strconv.Itoa(len(m.Data))
}

// ArmHeader renders the 60-byte member header.
func ArmHeader(m ArmMember) []byte {
	magic := m.Magic
	if magic == "" {
		magic = "`\n"
	}
	h := armPad(m.Name, 16) + armPad(m.TS, 12) + armPad(m.UID, 6) + armPad(m.GID, 6) + armPad(m.Mode, 8) +
		armPad(m.SizeCol(), 10) + armPad(magic, 2)
	return []byte(h)
}

// ArmBuild renders a whole archive: global magic, then per member header, data, and one '\n' after odd-length data.
func ArmBuild(ms []ArmMember) []byte {
	var b bytes.Buffer
	b.WriteString(ArmGlobalMagic)
	for _, m := range ms {
		b.Write(ArmHeader(m))
		b.Write(m.Data)
		if len(m.Data)%2 == 1 && !m.NoPad {
			if m.Pad != "" {
				b.WriteByte(m.Pad[0])
			} else {
				b.WriteByte('\n')
			}
		}
	}
	return b.Bytes()
}

// ArmOffsets returns the header offset of every member of ArmBuild(ms) and the total length.
func ArmOffsets(ms []ArmMember) (offs []int, total int) {
	off := len(ArmGlobalMagic)
	for _, m := range ms {
		offs = append(offs, off)
		off += 60 + len(m.Data)
		if len(m.Data)%2 == 1 && !m.NoPad {
			off++
		}
	}
	return offs, off
}

// ArmExpect is what a reader must report for a well-formed member (C13's reference): name with the padding and
// one trailing '/' removed, numeric columns as decimal (blank = 0), mode text without padding.
type ArmExpect struct {
	Name               string
	TS, UID, GID, Size int64
	Mode               string
	Data               []byte
}

func armNum(s string) int64 {
	s = strings.Trim(s, " ")
	if s == "" {
		return 0
	}
	v, err := strconv.ParseInt(s, 10, 64)
	if err != nil {
		panic("armodel: well-formed member with non-decimal column " + strconv.Quote(s))
	}
	return v
}

// ArmExpected computes the reference record of a WELL-FORMED member (decimal or blank numeric columns).
func ArmExpected(m ArmMember) ArmExpect {
	return ArmExpect{
		Name: strings.TrimSuffix(strings.TrimRight(armPad(m.Name, 16), " "), "/"),
		TS:   armNum(m.TS), UID: armNum(m.UID), GID: armNum(m.GID), Size: int64(len(m.Data)),
		Mode: strings.Trim(m.Mode, " "), Data: m.Data,
	}
}

// ArmEOFReaderAt is a legal io.ReaderAt that uses the OTHER end-of-input convention the io.ReaderAt contract
// allows: a read that is completely satisfied but ends exactly at the end of the input returns (len(p), io.EOF)
// (bytes.Reader returns (len(p), nil) there).
type ArmEOFReaderAt struct{ B []byte }

func (r ArmEOFReaderAt) ReadAt(p []byte, off int64) (int, error) {
	if off < 0 {
		return 0, errors.New("ArmEOFReaderAt.ReadAt: negative offset")
	}
	if off >= int64(len(r.B)) {
		return 0, io.EOF
	}
	n := copy(p, r.B[off:])
	if n < len(p) || off+int64(n) == int64(len(r.B)) {
		return n, io.EOF
	}
	return n, nil
}

// ArmReaderAt returns the reader for convention conv: 0 = bytes.Reader, 1 = ArmEOFReaderAt.
func ArmReaderAt(b []byte, conv int) io.ReaderAt {
	if conv == 1 {
		return ArmEOFReaderAt{B: b}
	}
	return bytes.NewReader(b)
}

// ArmTarName is the reference for ArEntry.IsTarfile, from its documentation ("true for files that have `.tar.*` or
// `.tar` suffix"): the (trimmed) member name ends in ".tar", or in ".tar.<ext>" where <ext> is one extension (no
// further '.', no '/').
func ArmTarName(n string) bool {
	if strings.HasSuffix(n, ".tar") {
		return true
	}
	i := strings.LastIndexByte(n, '.')
	return i >= 0 && !strings.Contains(n[i:], "/") && strings.HasSuffix(n[:i], ".tar")
}
