package gen

// debbuild.go — byte-exact construction of Debian binary packages (.deb) from a small model:
// an ar(1) writer and (independent) ar parser, a deterministic tar builder, the six member
// encodings dpkg knows (none, gz, xz, bz2, lzma, zst) and helpers that turn a package model
// into the list of ar members. Nothing in this file imports the library under test.
//
// API (all identifiers carry the Deb/Ar/Tar prefix so that they cannot collide in package gen):
//
//	type ArMember struct{ Name string; Data []byte }
//	func BuildAr(members []ArMember) []byte            // "!<arch>\n" + 60-byte headers + data (+ '\n' pad)
//	func ParseAr(b []byte) ([]ArMember, error)         // independent reader of the same format (self-checks, features)
//	type TarEntry struct{ Name string; Body []byte; Dir bool; Mode int64; Fill int }   // Fill>0: body = PatternBytes(Name, Fill)
//	func (e TarEntry) Content() []byte
//	func PatternBytes(seed string, n int) []byte        // deterministic incompressible filler
//	func BuildTar(entries []TarEntry) []byte           // ustar, fixed mtime/uid/gid: same input -> same bytes
//	var  DebComps = []string{"none","gz","xz","bz2","lzma","zst"}
//	func DebCompExt(comp string) string                 // "none" -> "", "gz" -> ".gz", "xz:9e" -> ".xz" ... (suffix after ".tar")
//	func DebCompAlgo(comp string) string                // "xz:9e" -> "xz"
//	func DebCompVariants(algo string) []string          // encoder-parameter variants of one encoding, default first
//	func NewDebCompressor() *DebCompressor
//	func (c *DebCompressor) Prepare(comps []string, blobs ...[]byte) error   // ONE python3 call for all xz/bz2 work
//	func (c *DebCompressor) Compress(comp string, raw []byte) ([]byte, error) // cached; in-process for none/gz/lzma/zst
//	func (c *DebCompressor) CompressParts(comp string, raw []byte, cuts []int) ([]byte, error)   // raw cut at cuts, each part compressed, results concatenated
//	func DebCompConcatenates(comp string) bool          // gz members, xz streams, bz2 streams, zstd frames: yes; lzma_alone, none: no
//	func TarEntryOffsets(raw []byte) []int              // offsets at which the entries (and the end-of-archive trailer) of a tar start
//	func (c *DebCompressor) Unavailable() []string      // encodings no tool could produce ("xz","bz2") -> not covered
//	func XZDictSize(z []byte) int64 / ZstdWindowSize(z []byte) int64 / LZMAAloneDictSize(z []byte) int64   // what a stream header declares
//	type DebField struct{ Key, Value string }
//	func RenderDebControl(fields []DebField) []byte    // "Key: value\n" lines; continuation lines are part of Value
//	type DebModel struct{...}                           // see below
//	func (m DebModel) Members(c *DebCompressor) ([]ArMember, error)  // debian-binary, control.tar*, data.tar*
//	func (m DebModel) ControlTar() []byte / DataTar() []byte

import (
	"archive/tar"
	"bytes"
	"compress/gzip"
	"crypto/sha256"
	"encoding/base64"
	"encoding/json"
	"errors"
	"fmt"
	"os/exec"
	"path"
	"strconv"
	"strings"
	"sync"
	"time"

	"github.com/kjk/lzma"
	"github.com/klauspost/compress/zstd"
)

// ---------------------------------------------------------------- ar

// ArMember is one member of an ar archive: its name (at most 16 bytes, no trailing slash added) and content.
type ArMember struct {
	Name string
	Data []byte
}

// ArFixedTime is the modification time written into every ar and tar header (2020-01-01T00:00:00Z).
const ArFixedTime = 1577836800

// BuildAr writes the common ar format used by dpkg-deb: global magic, then per member a 60-byte header
// (name[16] mtime[12] uid[6] gid[6] mode[8] size[10] "`\n"), the data, and one '\n' when the size is odd.
// Names longer than 16 bytes are truncated (callers should not pass them).
func BuildAr(members []ArMember) []byte {
	var b bytes.Buffer
	b.WriteString("!<arch>\n")
	for _, m := range members {
		name := m.Name
		if len(name) > 16 {
			name = name[:16]
		}
		fmt.Fprintf(&b, "%-16s%-12d%-6d%-6d%-8s%-10d`\n", name, ArFixedTime, 0, 0, "100644", len(m.Data))
		b.Write(m.Data)
		if len(m.Data)%2 == 1 {
			b.WriteByte('\n')
		}
	}
	return b.Bytes()
}

// ParseAr is the harness's own reader of that format (it does not share code with the library): it returns the
// members in file order, names with trailing blanks and one trailing '/' removed.
func ParseAr(b []byte) ([]ArMember, error) {
	if len(b) < 8 || string(b[:8]) != "!<arch>\n" {
		return nil, errors.New("ar: bad global magic")
	}
	var out []ArMember
	off := 8
	for off < len(b) {
		if off+60 > len(b) {
			return out, errors.New("ar: short header")
		}
		h := b[off : off+60]
		if h[58] != '`' || h[59] != '\n' {
			return out, errors.New("ar: bad header magic")
		}
		size, err := strconv.Atoi(strings.TrimSpace(string(h[48:58])))
		if err != nil || size < 0 || off+60+size > len(b) {
			return out, errors.New("ar: bad size")
		}
		name := strings.TrimSuffix(strings.TrimRight(string(h[0:16]), " "), "/")
		out = append(out, ArMember{Name: name, Data: append([]byte(nil), b[off+60:off+60+size]...)})
		off += 60 + size + size%2
	}
	return out, nil
}

// ---------------------------------------------------------------- tar

// TarEntry is one entry of a tar archive. Dir entries have no body. Mode 0 means 0644 (files) / 0755 (dirs).
type TarEntry struct {
	Name string
	Body []byte
	Dir  bool   `json:",omitempty"`
	Mode int64  `json:",omitempty"`
	Link string `json:",omitempty"` // "symlink:<target>" or "hardlink:<target>": the entry is a link (no body)
	Fill int    `json:",omitempty"` // when > 0 (and Body is empty) the body is PatternBytes(Name, Fill): big files stay small in JSON
}

// Content is the body the entry is written with.
func (e TarEntry) Content() []byte {
	if e.Fill > 0 && len(e.Body) == 0 {
		return PatternBytes(e.Name, e.Fill)
	}
	return e.Body
}

// PatternBytes returns n deterministic pseudo-random (incompressible) bytes derived from seed (xorshift64*).
func PatternBytes(seed string, n int) []byte {
	h := sha256.Sum256([]byte(seed))
	x := uint64(h[0]) | uint64(h[1])<<8 | uint64(h[2])<<16 | uint64(h[3])<<24 | uint64(h[4])<<32 | uint64(h[5])<<40 | uint64(h[6])<<48 | uint64(h[7])<<56 | 1
	out := make([]byte, n)
	for i := 0; i < n; i += 8 {
		x ^= x >> 12
		x ^= x << 25
		x ^= x >> 27
		v := x * 2685821657736338717
		for k := 0; k < 8 && i+k < n; k++ {
			out[i+k] = byte(v >> (8 * uint(k)))
		}
	}
	return out
}

// BuildTar produces a ustar archive with fixed metadata so that equal input gives equal bytes.
func BuildTar(entries []TarEntry) []byte {
	var b bytes.Buffer
	w := tar.NewWriter(&b)
	for _, e := range entries {
		h := &tar.Header{Name: e.Name, ModTime: time.Unix(ArFixedTime, 0), Uname: "root", Gname: "root", Format: tar.FormatUSTAR}
		if strings.HasPrefix(e.Link, "symlink:") {
			h.Typeflag, h.Linkname, h.Mode = tar.TypeSymlink, strings.TrimPrefix(e.Link, "symlink:"), 0o777
		} else if strings.HasPrefix(e.Link, "hardlink:") {
			h.Typeflag, h.Linkname, h.Mode = tar.TypeLink, strings.TrimPrefix(e.Link, "hardlink:"), 0o644
		} else if e.Dir {
			h.Typeflag = tar.TypeDir
			h.Mode = 0o755
		} else {
			h.Typeflag = tar.TypeReg
			h.Mode = 0o644
			h.Size = int64(len(e.Content()))
		}
		if e.Mode != 0 {
			h.Mode = e.Mode
		}
		if err := w.WriteHeader(h); err != nil {
			panic("gen.BuildTar: " + err.Error())
		}
		if !e.Dir && e.Link == "" {
			w.Write(e.Content())
		}
	}
	w.Close()
	return b.Bytes()
}

// ---------------------------------------------------------------- compression

// DebComps lists the six member encodings of deb(5) in the order used for the 6x6 matrix.
var DebComps = []string{"none", "gz", "xz", "bz2", "lzma", "zst"}

// A "comp" string names an encoding and optionally the encoder parameters: "algo" or "algo:params".
//
//	none
//	gz | gz:1 | gz:0              deflate level 9 (default) / 1 / stored blocks only
//	xz | xz:0 | xz:9 | xz:9e | xz:dict=64M | xz:dict=16M | xz:dict=<bytes>     preset 6 (default) / 0 / 9 (64 MiB dict) / 9|extreme / preset 6 with that dictionary
//	bz2 | bz2:1                   block size 900k (default) / 100k
//	lzma | lzma:1 | lzma:eos | lzma:py9    kjk level 5 with size in header / level 1 / unknown size + end marker / liblzma preset 9 (64 MiB dict, end marker)
//	zst | zst:fastest | zst:best | zst:window=64M | zst:window=1K    klauspost levels / explicit window in a multi-block frame
//
// The parameters change the bytes of the member, never what it decodes to.

// DebCompAlgo is the encoding part of a comp string.
func DebCompAlgo(comp string) string {
	if i := strings.IndexByte(comp, ':'); i >= 0 {
		comp = comp[:i]
	}
	if comp == "" {
		return "none"
	}
	return comp
}

// DebCompExt is the suffix that follows "control.tar" / "data.tar" for an encoding.
func DebCompExt(comp string) string {
	a := DebCompAlgo(comp)
	if a == "none" {
		return ""
	}
	return "." + a
}

// DebCompVariants lists the encoder-parameter variants of one encoding; the first is the plain default.
func DebCompVariants(algo string) []string {
	switch algo {
	case "gz":
		return []string{"gz", "gz:1", "gz:0"}
	case "xz":
		return []string{"xz", "xz:0", "xz:9", "xz:9e", "xz:dict=16M", "xz:dict=64M"}
	case "bz2":
		return []string{"bz2", "bz2:1"}
	case "lzma":
		return []string{"lzma", "lzma:1", "lzma:eos", "lzma:py9"}
	case "zst":
		return []string{"zst", "zst:fastest", "zst:best", "zst:window=1K", "zst:window=64M"}
	}
	return []string{"none"}
}

// DebCompressor compresses blobs and remembers the results. gzip, lzma and zstd are produced in-process
// (stdlib, github.com/kjk/lzma, github.com/klauspost/compress/zstd); xz and bzip2 have no Go encoder among the
// available modules and are produced by ONE python3 process per Prepare call (modules lzma, bz2), or by the
// xz/bzip2 binaries (one process per blob) when python3 is unusable.
type DebCompressor struct {
	mu      sync.Mutex
	cache   map[string][]byte
	unavail map[string]string
}

func NewDebCompressor() *DebCompressor {
	return &DebCompressor{cache: map[string][]byte{}, unavail: map[string]string{}}
}

func compKey(comp string, raw []byte) string {
	h := sha256.Sum256(raw)
	return comp + ":" + string(h[:])
}

func isExternal(comp string) bool {
	a := DebCompAlgo(comp)
	return a == "xz" || a == "bz2" || comp == "lzma:py9"
}

// Prepare makes sure every (comp, blob) pair is cached; all external work is done in one subprocess.
// An encoding that cannot be produced is remembered (see Unavailable) and is not an error.
func (c *DebCompressor) Prepare(comps []string, blobs ...[]byte) error {
	type job struct {
		Algo string `json:"algo"`
		B64  string `json:"b64"`
		key  string
	}
	var jobs []job
	seen := map[string]bool{}
	for _, comp := range comps {
		for _, raw := range blobs {
			k := compKey(comp, raw)
			c.mu.Lock()
			_, have := c.cache[k]
			c.mu.Unlock()
			if have || seen[k] {
				continue
			}
			seen[k] = true
			if isExternal(comp) {
				jobs = append(jobs, job{Algo: comp, B64: base64.StdEncoding.EncodeToString(raw), key: k})
				continue
			}
			out, err := compressInProcess(comp, raw)
			if err != nil {
				return err
			}
			c.mu.Lock()
			c.cache[k] = out
			c.mu.Unlock()
		}
	}
	if len(jobs) == 0 {
		return nil
	}
	in, _ := json.Marshal(jobs)
	const script = `
import sys, json, base64, lzma, bz2
jobs = json.load(sys.stdin)
out = []
def size(s):
    if s[-1].isdigit():
        return int(s)
    return int(s[:-1]) << {"K": 10, "M": 20}[s[-1]]
for j in jobs:
    raw = base64.b64decode(j["b64"])
    algo, _, par = j["algo"].partition(":")
    if algo == "xz":
        if par.startswith("dict="):
            z = lzma.compress(raw, format=lzma.FORMAT_XZ, check=lzma.CHECK_CRC64,
                              filters=[{"id": lzma.FILTER_LZMA2, "preset": 6, "dict_size": size(par[5:])}])
        else:
            preset = {"": 6, "0": 0, "9": 9, "9e": 9 | lzma.PRESET_EXTREME}[par]
            z = lzma.compress(raw, format=lzma.FORMAT_XZ, check=lzma.CHECK_CRC64, preset=preset)
    elif algo == "lzma":
        z = lzma.compress(raw, format=lzma.FORMAT_ALONE, preset=9)
    else:
        z = bz2.compress(raw, {"": 9, "1": 1}[par])
    out.append(base64.b64encode(z).decode())
json.dump(out, sys.stdout)
`
	cmd := exec.Command("python3", "-c", script)
	cmd.Stdin = bytes.NewReader(in)
	res, err := cmd.Output()
	var outs []string
	if err == nil {
		err = json.Unmarshal(res, &outs)
	}
	if err == nil && len(outs) != len(jobs) {
		err = errors.New("python3 returned a different number of results")
	}
	if err == nil {
		for i, j := range jobs {
			z, derr := base64.StdEncoding.DecodeString(outs[i])
			if derr != nil {
				return derr
			}
			c.mu.Lock()
			c.cache[j.key] = z
			c.mu.Unlock()
		}
		return nil
	}
	// fall back to the command-line tools, one process per blob
	for _, j := range jobs {
		tool := externalTool(j.Algo)
		raw, _ := base64.StdEncoding.DecodeString(j.B64)
		cmd := exec.Command(tool[0], tool[1:]...)
		cmd.Stdin = bytes.NewReader(raw)
		z, terr := cmd.Output()
		if terr != nil {
			c.mu.Lock()
			c.unavail[DebCompAlgo(j.Algo)] = fmt.Sprintf("python3: %v; %s: %v", err, tool[0], terr)
			c.mu.Unlock()
			continue
		}
		c.mu.Lock()
		c.cache[j.key] = z
		c.mu.Unlock()
	}
	return nil
}

// externalTool is the command-line fallback for one external comp string.
func externalTool(comp string) []string {
	algo, par := DebCompAlgo(comp), ""
	if i := strings.IndexByte(comp, ':'); i >= 0 {
		par = comp[i+1:]
	}
	switch {
	case algo == "bz2" && par == "1":
		return []string{"bzip2", "-1", "-c"}
	case algo == "bz2":
		return []string{"bzip2", "-9", "-c"}
	case algo == "lzma":
		return []string{"xz", "--format=lzma", "-9", "-c"}
	case strings.HasPrefix(par, "dict="):
		d := par[5:]
		switch {
		case strings.HasSuffix(d, "M"):
			d = strings.TrimSuffix(d, "M") + "MiB"
		case strings.HasSuffix(d, "K"):
			d = strings.TrimSuffix(d, "K") + "KiB"
		}
		return []string{"xz", "-c", "--check=crc64", "--lzma2=preset=6,dict=" + d}
	case par == "":
		return []string{"xz", "-6", "-c", "--check=crc64"}
	}
	return []string{"xz", "-" + par, "-c", "--check=crc64"}
}

// Unavailable lists the encodings that no tool could produce, with the reason.
func (c *DebCompressor) Unavailable() map[string]string {
	c.mu.Lock()
	defer c.mu.Unlock()
	out := map[string]string{}
	for k, v := range c.unavail {
		out[k] = v
	}
	return out
}

// Compress returns raw in the given encoding. xz/bz2 blobs must have been Prepared (otherwise Prepare is called
// for this one blob, costing a subprocess).
func (c *DebCompressor) Compress(comp string, raw []byte) ([]byte, error) {
	if comp == "" {
		comp = "none"
	}
	k := compKey(comp, raw)
	c.mu.Lock()
	z, ok := c.cache[k]
	c.mu.Unlock()
	if ok {
		return z, nil
	}
	if err := c.Prepare([]string{comp}, raw); err != nil {
		return nil, err
	}
	c.mu.Lock()
	z, ok = c.cache[k]
	why := c.unavail[DebCompAlgo(comp)]
	c.mu.Unlock()
	if !ok {
		return nil, fmt.Errorf("encoding %s not available: %s", comp, why)
	}
	return z, nil
}

// DebCompConcatenates says whether the format defines concatenation: a file made of several complete compressed
// streams decodes to the concatenation of their contents (RFC 1952 gzip members, xz streams, bzip2 streams, zstd
// frames). LZMA-alone and stored members have no such notion.
func DebCompConcatenates(comp string) bool {
	switch DebCompAlgo(comp) {
	case "gz", "xz", "bz2", "zst":
		return true
	}
	return false
}

// CompressParts cuts raw at the given ascending offsets, compresses every part on its own and concatenates the
// compressed parts (what `cat a.gz b.gz`, pigz or `xz`/`zstd` on several inputs produce). No cuts = Compress.
func (c *DebCompressor) CompressParts(comp string, raw []byte, cuts []int) ([]byte, error) {
	if len(cuts) == 0 {
		return c.Compress(comp, raw)
	}
	var parts [][]byte
	prev := 0
	for _, k := range cuts {
		if k <= prev || k >= len(raw) {
			return nil, fmt.Errorf("CompressParts: cut %d out of order or range (len %d)", k, len(raw))
		}
		parts = append(parts, raw[prev:k])
		prev = k
	}
	parts = append(parts, raw[prev:])
	if err := c.Prepare([]string{comp}, parts...); err != nil {
		return nil, err
	}
	var out []byte
	for _, p := range parts {
		z, err := c.Compress(comp, p)
		if err != nil {
			return nil, err
		}
		out = append(out, z...)
	}
	return out, nil
}

// TarEntryOffsets returns the offsets at which the entries of a (ustar, harness-built) tar start, followed by the
// offset of the end-of-archive trailer.
func TarEntryOffsets(raw []byte) []int {
	var out []int
	off := 0
	for off+512 <= len(raw) {
		out = append(out, off)
		if raw[off] == 0 { // trailer
			break
		}
		size, err := strconv.ParseInt(strings.Trim(string(raw[off+124:off+136]), " \x00"), 8, 64)
		if err != nil {
			break
		}
		off += 512 + int((size+511)/512*512)
	}
	return out
}

func compressInProcess(comp string, raw []byte) ([]byte, error) {
	var b bytes.Buffer
	algo, par := DebCompAlgo(comp), ""
	if i := strings.IndexByte(comp, ':'); i >= 0 {
		par = comp[i+1:]
	}
	switch algo {
	case "none":
		return append([]byte(nil), raw...), nil
	case "gz":
		level, ok := map[string]int{"": gzip.BestCompression, "1": gzip.BestSpeed, "0": gzip.NoCompression}[par]
		if !ok {
			return nil, fmt.Errorf("unknown gzip parameter %q", comp)
		}
		w, _ := gzip.NewWriterLevel(&b, level)
		w.Write(raw)
		if err := w.Close(); err != nil {
			return nil, err
		}
	case "lzma":
		// legacy .lzma ("LZMA alone"); with the size recorded in the header, as `xz --format=lzma` of a file does,
		// or (eos) with unknown size and an end-of-stream marker, as a pipe gives
		size, level := int64(len(raw)), lzma.DefaultCompression
		switch par {
		case "":
		case "1":
			level = lzma.BestSpeed
		case "eos":
			size = -1
		default:
			return nil, fmt.Errorf("unknown lzma parameter %q", comp)
		}
		w := lzma.NewWriterSizeLevel(&b, size, level)
		if _, err := w.Write(raw); err != nil {
			return nil, err
		}
		if err := w.Close(); err != nil {
			return nil, err
		}
	case "zst":
		opts := []zstd.EOption{zstd.WithEncoderConcurrency(1)}
		split := false
		switch {
		case par == "":
		case par == "fastest":
			opts = append(opts, zstd.WithEncoderLevel(zstd.SpeedFastest))
		case par == "best":
			opts = append(opts, zstd.WithEncoderLevel(zstd.SpeedBestCompression))
		case strings.HasPrefix(par, "window="):
			n, err := strconv.Atoi(strings.TrimRight(par[7:], "KM"))
			if err != nil {
				return nil, fmt.Errorf("unknown zstd parameter %q", comp)
			}
			n <<= map[byte]uint{'K': 10, 'M': 20}[par[len(par)-1]] // a plain number is taken as bytes
			// a frame written in two flushes is not "single segment", so its header declares this window
			opts = append(opts, zstd.WithWindowSize(n), zstd.WithSingleSegment(false))
			split = true
		default:
			return nil, fmt.Errorf("unknown zstd parameter %q", comp)
		}
		w, err := zstd.NewWriter(&b, opts...)
		if err != nil {
			return nil, err
		}
		if split && len(raw) > 1 {
			w.Write(raw[:len(raw)/2])
			w.Flush()
			w.Write(raw[len(raw)/2:])
		} else {
			w.Write(raw)
		}
		if err := w.Close(); err != nil {
			return nil, err
		}
	default:
		return nil, fmt.Errorf("unknown encoding %q", comp)
	}
	return b.Bytes(), nil
}

// ---------------------------------------------------------------- package model

// DebField is one field of the control paragraph. Value is written verbatim after "Key: ", so a folded value
// carries its own "\n " continuation prefixes (e.g. "short\n long line\n .\n more").
type DebField struct{ Key, Value string }

// RenderDebControl renders the paragraph as dpkg-deb writes it: one "Key: value" line per field, final newline.
func RenderDebControl(fields []DebField) []byte {
	var b bytes.Buffer
	for _, f := range fields {
		b.WriteString(f.Key)
		b.WriteString(": ")
		b.WriteString(f.Value)
		b.WriteByte('\n')
	}
	return b.Bytes()
}

// DebModel is what a package is built from and what the loader's result is compared with.
//
//	Binary          content of the debian-binary member ("" means the regular "2.0\n"; use BinaryRaw to force "")
//	Fields          the control paragraph
//	ControlEntries  names of the control-tar entries in order; the entry whose cleaned name (path.Clean) is "control" gets the
//	                rendered paragraph, names ending in "/" become directories, every other entry gets a small
//	                fixed body derived from its name, or PatternBytes(name, EntrySizes[name]) when a size is given
//	DataFiles       entries of the data tar
//	ControlComp, DataComp   one of DebComps
type DebModel struct {
	Binary         string `json:",omitempty"`
	BinaryRaw      bool   `json:",omitempty"` // take Binary literally even when empty
	Fields         []DebField
	ControlEntries []string
	EntryKinds     map[string]string `json:",omitempty"` // control-tar entry name -> "paragraph" (a valid but DIFFERENT control paragraph inside), "symlink:<target>", "hardlink:<target>"
	EntrySizes     map[string]int    `json:",omitempty"` // control-tar entry name -> size of its PatternBytes body (siblings of ./control)
	DataFiles      []TarEntry
	ControlComp    string
	DataComp       string
	ControlCuts    []int `json:",omitempty"` // the control tar is cut at these offsets and each part compressed on its own (concatenated streams)
	DataCuts       []int `json:",omitempty"` // likewise for the data tar
}

// BinaryContent is the content of the debian-binary member.
func (m DebModel) BinaryContent() string {
	if m.Binary == "" && !m.BinaryRaw {
		return "2.0\n"
	}
	return m.Binary
}

// ControlTar is the uncompressed control tar of the model.
func (m DebModel) ControlTar() []byte {
	names := m.ControlEntries
	if names == nil {
		names = []string{"./control"}
	}
	var es []TarEntry
	for _, n := range names {
		switch {
		case strings.HasSuffix(n, "/"):
			es = append(es, TarEntry{Name: n, Dir: true})
		case m.EntryKinds[n] == "paragraph":
			es = append(es, TarEntry{Name: n, Body: []byte("Package: not-the-control-file\nVersion: 0\nArchitecture: all\nDescription: a file that merely looks like one\n")})
		case strings.Contains(m.EntryKinds[n], "link:"):
			es = append(es, TarEntry{Name: n, Link: m.EntryKinds[n]})
		case path.Clean(n) == "control":
			es = append(es, TarEntry{Name: n, Body: RenderDebControl(m.Fields)})
		case m.EntrySizes[n] > 0:
			es = append(es, TarEntry{Name: n, Fill: m.EntrySizes[n]})
		default:
			es = append(es, TarEntry{Name: n, Body: []byte("# " + n + "\n")})
		}
	}
	return BuildTar(es)
}

// DataTar is the uncompressed data tar of the model.
func (m DebModel) DataTar() []byte { return BuildTar(m.DataFiles) }

// ControlName / DataName are the ar member names the model's encodings imply.
func (m DebModel) ControlName() string { return "control.tar" + DebCompExt(m.ControlComp) }
func (m DebModel) DataName() string    { return "data.tar" + DebCompExt(m.DataComp) }

// Members returns the three canonical members in dpkg's order. Callers insert, drop, reorder or rename members
// and pass the list to BuildAr.
func (m DebModel) Members(c *DebCompressor) ([]ArMember, error) {
	ct, err := c.CompressParts(m.ControlComp, m.ControlTar(), m.ControlCuts)
	if err != nil {
		return nil, err
	}
	dt, err := c.CompressParts(m.DataComp, m.DataTar(), m.DataCuts)
	if err != nil {
		return nil, err
	}
	return []ArMember{
		{Name: "debian-binary", Data: []byte(m.BinaryContent())},
		{Name: m.ControlName(), Data: ct},
		{Name: m.DataName(), Data: dt},
	}, nil
}

// ---------------------------------------------------------------- stream header inspection (self-checks)

// XZDictSize returns the LZMA2 dictionary size the first block of an xz stream declares (0 if not recognisable).
func XZDictSize(z []byte) int64 {
	if len(z) < 18 || string(z[:6]) != "\xfd7zXZ\x00" {
		return 0
	}
	p := 12 // block header: size byte, flags, [compressed size], [uncompressed size], filters
	flags := z[p+1]
	q := p + 2
	skipVarint := func() {
		for q < len(z) && z[q]&0x80 != 0 {
			q++
		}
		q++
	}
	if flags&0x40 != 0 {
		skipVarint()
	}
	if flags&0x80 != 0 {
		skipVarint()
	}
	if q+2 >= len(z) || z[q] != 0x21 || z[q+1] != 1 {
		return 0
	}
	d := int64(z[q+2])
	if d > 40 {
		return 0
	}
	if d == 40 {
		return 1<<32 - 1
	}
	return (2 | (d & 1)) << uint(d/2+11)
}

// ZstdWindowSize returns the window size a zstd frame header declares; 0 for a single-segment frame (window = content).
func ZstdWindowSize(z []byte) int64 {
	if len(z) < 6 || z[0] != 0x28 || z[1] != 0xb5 || z[2] != 0x2f || z[3] != 0xfd {
		return 0
	}
	if z[4]&0x20 != 0 {
		return 0
	}
	b := z[5]
	base := int64(1) << (10 + uint(b>>3))
	return base + base/8*int64(b&7)
}

// LZMAAloneDictSize returns the dictionary size in the 13-byte header of a legacy .lzma stream.
func LZMAAloneDictSize(z []byte) int64 {
	if len(z) < 13 {
		return 0
	}
	return int64(z[1]) | int64(z[2])<<8 | int64(z[3])<<16 | int64(z[4])<<24
}
