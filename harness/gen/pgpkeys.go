package gen

// pgpkeys.go — OpenPGP test keys and detached signatures for the signature properties (C11, C16).
//
// API:
//
//	type PGPKey struct{ Name string; Entity *openpgp.Entity; Public string; Fingerprint string }
//	func NewPGPKey(name string) (*PGPKey, error)        // RSA-1024 sign-capable entity, creation time PGPFixedTime (~60 ms)
//	func (k *PGPKey) DetachSign(msg []byte) ([]byte, error)        // binary (non-armoured) detached signature, type 0x00
//	func (k *PGPKey) DetachSignArmored(msg []byte) (string, error)
//	func (k *PGPKey) PublicBinary() []byte              // unarmoured public key packets (gpgv --keyring file)
//	func (k *PGPKey) Private() (string, error)          // armoured secret key, for artefacts that must re-sign
//	func PGPKeyring(keys ...*PGPKey) openpgp.EntityList // public halves only (what a verifier would hold)
//	func PGPReadKeyring(armored ...string) (openpgp.EntityList, error)   // from the armoured blocks stored in artefacts
//	func PGPFingerprint(e *openpgp.Entity) string        // upper-case hex of the primary key's v4 fingerprint
//
// Determinism: the key MATERIAL cannot be made reproducible (crypto/rsa.GenerateKey deliberately consumes a
// random number of bytes from its source), so a run generates its keys once and every artefact embeds the armoured
// public keys. Everything else is fixed: creation time, user id, and — because RSA PKCS#1 v1.5 signing is
// deterministic — the signature over given bytes by a given key is the same bytes every time.

import (
	"bytes"
	"encoding/hex"
	"strings"
	"time"

	"golang.org/x/crypto/openpgp"
	"golang.org/x/crypto/openpgp/armor"
	"golang.org/x/crypto/openpgp/packet"
)

// PGPFixedTime is the creation time of every key and signature made here (2020-01-01T00:00:00Z).
var PGPFixedTime = time.Unix(1577836800, 0).UTC()

func pgpConfig() *packet.Config {
	return &packet.Config{RSABits: 1024, Time: func() time.Time { return PGPFixedTime }}
}

// PGPKey is one test identity.
type PGPKey struct {
	Name        string
	Entity      *openpgp.Entity // with private key
	Public      string          // armoured public key block
	Fingerprint string
}

// NewPGPKey generates an RSA-1024 entity "<name> (verif test key) <name@verif.invalid>".
func NewPGPKey(name string) (*PGPKey, error) {
	e, err := openpgp.NewEntity(name, "verif test key", name+"@verif.invalid", pgpConfig())
	if err != nil {
		return nil, err
	}
	// Serialize (public) does not create the self-signatures; SerializePrivate does. Do that once so that the
	// identities carry signatures and the armoured public block is importable by gpg/gpgv.
	var sink bytes.Buffer
	if err := e.SerializePrivate(&sink, pgpConfig()); err != nil {
		return nil, err
	}
	var pub bytes.Buffer
	w, err := armor.Encode(&pub, openpgp.PublicKeyType, nil)
	if err != nil {
		return nil, err
	}
	if err := e.Serialize(w); err != nil {
		return nil, err
	}
	w.Close()
	return &PGPKey{Name: name, Entity: e, Public: pub.String(), Fingerprint: PGPFingerprint(e)}, nil
}

// PublicBinary returns the public key as unarmoured OpenPGP packets (a keyring file for gpgv --keyring).
func (k *PGPKey) PublicBinary() []byte {
	var b bytes.Buffer
	k.Entity.Serialize(&b)
	return b.Bytes()
}

// Private returns the armoured secret key block.
func (k *PGPKey) Private() (string, error) {
	var b bytes.Buffer
	w, err := armor.Encode(&b, openpgp.PrivateKeyType, nil)
	if err != nil {
		return "", err
	}
	if err := k.Entity.SerializePrivate(w, pgpConfig()); err != nil {
		return "", err
	}
	w.Close()
	return b.String(), nil
}

// DetachSign returns the binary detached signature of msg (signature type 0x00, SHA-256, time PGPFixedTime).
func (k *PGPKey) DetachSign(msg []byte) ([]byte, error) {
	var b bytes.Buffer
	if err := openpgp.DetachSign(&b, k.Entity, bytes.NewReader(msg), pgpConfig()); err != nil {
		return nil, err
	}
	return b.Bytes(), nil
}

// DetachSignArmored is DetachSign in ASCII armour.
func (k *PGPKey) DetachSignArmored(msg []byte) (string, error) {
	var b bytes.Buffer
	if err := openpgp.ArmoredDetachSign(&b, k.Entity, bytes.NewReader(msg), pgpConfig()); err != nil {
		return "", err
	}
	return b.String(), nil
}

// PGPKeyring builds a verifier's keyring (public parts, re-read from the armoured blocks so that no private
// material is reachable from it).
func PGPKeyring(keys ...*PGPKey) openpgp.EntityList {
	var blocks []string
	for _, k := range keys {
		blocks = append(blocks, k.Public)
	}
	el, err := PGPReadKeyring(blocks...)
	if err != nil {
		panic("gen.PGPKeyring: " + err.Error())
	}
	return el
}

// PGPReadKeyring parses armoured public key blocks into one keyring (empty input -> empty, non-nil list).
func PGPReadKeyring(armored ...string) (openpgp.EntityList, error) {
	out := openpgp.EntityList{}
	for _, a := range armored {
		el, err := openpgp.ReadArmoredKeyRing(strings.NewReader(a))
		if err != nil {
			return nil, err
		}
		out = append(out, el...)
	}
	return out, nil
}

// PGPFingerprint is the upper-case hex fingerprint of the entity's primary key ("" for nil).
func PGPFingerprint(e *openpgp.Entity) string {
	if e == nil || e.PrimaryKey == nil {
		return ""
	}
	return strings.ToUpper(hex.EncodeToString(e.PrimaryKey.Fingerprint[:]))
}
