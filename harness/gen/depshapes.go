package gen

import (
	"fmt"
	"strings"
)

// ---- alphabets ----

func stg(not bool, n string) AStage { return AStage{Not: not, Name: n} }

// DepShapes is the full product of single-possibility shapes (DESIGN §3 C04).
func DepShapes(quick bool) []APoss {
	names := []string{"a", "lib-x1.2+y"}
	quals := []string{"", "any", "amd64", "native"}
	ops := []string{"<<", "<=", "=", ">=", ">>"}
	vers := []string{"1", "1:2.0~rc1-3"}
	vers = append(vers, "${binary:Version}")
	_ = quick
	archLists := [][]string{nil, {"amd64"}, {"amd64", "linux-any"}, {"kfreebsd-amd64"}, {"linux-any", "kfreebsd-amd64", "any-i386"}}
	profs := [][][]AStage{nil, {{stg(false, "p")}}, {{stg(true, "p"), stg(false, "q")}}, {{stg(false, "p")}, {stg(true, "q")}}}
	out := PossShapes(names, quals, ops, vers, archLists, profs)
	// spellings of the version number that a normalising renderer would change (explicit zero epoch, padded epoch, empty
	// or zero revision, hyphens and colons inside the upstream part): the number is text and must survive as written
	spell := []string{"0:1.2-3", "00:1", "01:2.0", "1.0-", "1.0-0", "0:1", "1:0", "1.00", "1-1-1", "2:1:3", "1.0+b1~"}
	out = append(out, PossShapes(names[:1], quals[:2], ops, spell, archLists[:2], profs[:2])...)
	// architecture lists whose entries are related to each other: a repeated name, a concrete name after (or before) a
	// wildcard that covers it, the bare wildcard next to "all", every order - a list is a sequence, not a set
	related := [][]string{{"amd64", "i386", "amd64"}, {"linux-any", "amd64"}, {"amd64", "linux-any", "i386"}, {"any-amd64", "amd64"}, {"hurd-any", "hurd-i386"},
		{"any", "all"}, {"all", "any"}, {"any"}, {"all"}, {"any", "amd64"}, {"linux-any", "linux-any"}, {"gnu-linux-amd64", "amd64"}}
	out = append(out, PossShapes(names[:1], quals[:2], ops[:1], vers[:1], related, profs[:2])...)
	// substvars directly followed by what would be a restriction of a package, and with blanks inside the braces
	// alphabet audit: names / numbers a change introduced into the code appear as package name, qualifier, architecture,
	// profile name and version text - ADDED to the product one dimension at a time (the product itself stays as it is)
	for _, t := range AuditStrings(auditName, 6) {
		out = append(out, PossShapes([]string{t, t + "-x"}, quals, []string{">="}, []string{"1"}, archLists[:2], profs[:2])...)
		out = append(out, PossShapes([]string{"a"}, []string{t}, []string{">="}, []string{"1"}, archLists[:2], profs[:2])...)
		out = append(out, PossShapes([]string{"a"}, quals[:2], []string{">="}, []string{"1"}, [][]string{{t}, {"amd64", t}, {t + "-any"}, {"any-" + t}, {"gnu-linux-" + t}}, profs[:2])...)
		out = append(out, PossShapes([]string{"a"}, quals[:2], []string{">="}, []string{"1"}, archLists[:2], [][][]AStage{{{stg(false, t)}}, {{stg(true, t), stg(false, "q")}}})...)
	}
	for _, t := range AuditStrings(func(s string) bool { return Nameish(s) && hasByte(s, '-') }, 6) { // whole architecture names
		out = append(out, PossShapes([]string{"a"}, []string{"", t}, []string{">="}, []string{"1"}, [][]string{{t}, {"amd64", t}}, profs[:1])...)
	}
	var av []string
	for _, t := range AuditStrings(Versionish, 4) {
		av = append(av, t, "1."+t)
	}
	av = append(av, AuditIntStrings(0, 1<<62, 6)...)
	if len(av) > 0 {
		out = append(out, PossShapes(names, quals[:2], ops, av, archLists[:2], profs[:2])...)
	}
	return out
}

// representative subset: one per feature plus a substvar
// DepRepresentatives: one possibility per feature plus a substvar.
func DepRepresentatives() []APoss {
	return []APoss{
		{Name: "a"},
		{Name: "lib-x1.2+y", Qual: "any"},
		{Name: "b", Op: ">=", Num: "1:2.0~rc1-3", Groups: "v"},
		{Name: "c", Archs: []string{"amd64", "linux-any"}, Groups: "a"},
		{Name: "d", Archs: []string{"kfreebsd-amd64", "i386"}, ArchNot: true, Groups: "a"},
		{Name: "e", Profiles: [][]AStage{{stg(true, "p"), stg(false, "q")}, {stg(false, "r")}}, Groups: "pp"},
		{Name: "f", Qual: "native", Op: "<<", Num: "2", Archs: []string{"any-amd64"}, Profiles: [][]AStage{{stg(false, "p")}}, Groups: "vap"},
		{Substvar: true, Name: "misc:Depends"},
	}
}

// DepFields: all fields of 1..maxPoss possibilities over reps with every ,/| assignment.
func DepFields(reps []APoss, maxPoss int) []ADep {
	var out []ADep
	var rec func(cur []APoss, seps []bool)
	rec = func(cur []APoss, seps []bool) {
		if len(cur) > 0 {
			// build ADep from cur and seps (true = ',' starts a new relation)
			var d ADep
			d = append(d, ARel{cur[0]})
			for i := 1; i < len(cur); i++ {
				if seps[i-1] {
					d = append(d, ARel{cur[i]})
				} else {
					d[len(d)-1] = append(d[len(d)-1], cur[i])
				}
			}
			out = append(out, d)
		}
		if len(cur) == maxPoss {
			return
		}
		for _, p := range reps {
			if len(cur) == 0 {
				rec(append(append([]APoss{}, cur...), p), seps)
			} else {
				for _, s := range []bool{true, false} {
					rec(append(append([]APoss{}, cur...), p), append(append([]bool{}, seps...), s))
				}
			}
		}
	}
	rec(nil, nil)
	return out
}

// auditName: usable as a package / architecture / profile name in the grammar (starts alphanumeric, name characters only, no '-' so
// that it is a single architecture component as well).
func auditName(s string) bool {
	if !Nameish(s) || hasByte(s, '-') || hasByte(s, '+') || hasByte(s, '.') {
		return false
	}
	c := s[0]
	return c >= 'a' && c <= 'z' || c >= '0' && c <= '9' || c >= 'A' && c <= 'Z'
}

func hasByte(s string, b byte) bool {
	for i := 0; i < len(s); i++ {
		if s[i] == b {
			return true
		}
	}
	return false
}

// LargeDeps: fields larger than a bounded product reaches but ordinary in the archive - many relations, many
// alternatives in one relation, long architecture lists, many profile groups, many stages in a group, long names and
// numbers. Sizes sit around powers of two (slice growth) and a few round numbers.
func LargeDeps() []ADep {
	reps := DepRepresentatives()
	withName := func(p APoss, i int) APoss {
		q := p
		q.Name = fmt.Sprintf("%s%d", p.Name, i)
		return q
	}
	var out []ADep
	for _, n := range []int{8, 9, 16, 17, 32, 33, 40, 64, 65, 100, 257} {
		var d ADep
		for i := 0; i < n; i++ {
			d = append(d, ARel{withName(reps[i%len(reps)], i)})
		}
		out = append(out, d)
		// the same number of alternatives in a single relation, and in the middle relation of three
		var r ARel
		for i := 0; i < n; i++ {
			r = append(r, withName(reps[(i*3)%len(reps)], i))
		}
		out = append(out, ADep{r}, ADep{ARel{reps[0]}, r, ARel{reps[2]}})
	}
	for _, n := range []int{5, 8, 9, 12, 16, 17, 33} {
		var archs []string
		var profs [][]AStage
		var stages []AStage
		groups := ""
		for i := 0; i < n; i++ {
			archs = append(archs, []string{"amd64", "i386", "linux-any", "kfreebsd-amd64", "any-arm64", "hurd-i386"}[i%6])
			profs = append(profs, []AStage{{Not: i%2 == 0, Name: fmt.Sprintf("p%d", i)}})
			stages = append(stages, AStage{Not: i%3 == 0, Name: fmt.Sprintf("s%d", i)})
			groups += "p"
		}
		out = append(out,
			ADep{ARel{{Name: "a", Archs: archs, Groups: "a"}}, ARel{{Name: "b"}}},
			ADep{ARel{{Name: "a", Archs: archs, ArchNot: true, Op: ">=", Num: "1", Groups: "va"}}},
			ADep{ARel{{Name: "a", Profiles: profs, Groups: groups}}, ARel{{Name: "b", Profiles: profs[:1], Groups: "p"}}},
			ADep{ARel{{Name: "a", Profiles: [][]AStage{stages}, Groups: "p"}}},
			ADep{ARel{{Name: "a", Archs: archs, Profiles: [][]AStage{stages, stages[:2]}, Op: "<<", Num: "2", Groups: "vapp"}}})
	}
	// fields whose single physical line is longer than any line buffer (bufio's 64 KiB token limit): thousands of
	// relations, and one name of 70000 characters
	for _, n := range []int{3000, 6000} {
		var d ADep
		for i := 0; i < n; i++ {
			d = append(d, ARel{withName(reps[i%len(reps)], i)})
		}
		out = append(out, d)
	}
	out = append(out, ADep{ARel{{Name: "a"}}, ARel{{Name: strings.Repeat("libx", 17500)}}, ARel{{Name: "z", Op: ">=", Num: "1", Groups: "v"}}})
	long := strings.Repeat("libfoo-bar1.2+x", 12)
	out = append(out, ADep{ARel{{Name: long}}, ARel{{Name: "b", Op: "=", Num: strings.Repeat("1.2~rc3+b", 20) + "-1", Groups: "v"}}, ARel{{Name: long + "z", Qual: "any"}}})
	return out
}
