package gen

// ---- alphabets ----

func stg(not bool, n string) AStage { return AStage{Not: not, Name: n} }

// DepShapes is the full product of single-possibility shapes (DESIGN §3 C04).
func DepShapes(quick bool) []APoss {
	names := []string{"a", "lib-x1.2+y"}
	quals := []string{"", "any", "amd64", "native"}
	ops := []string{"<<", "<=", "=", ">=", ">>"}
	vers := []string{"1", "1:2.0~rc1-3"}
	vers = append(vers, "${binary:Version}")
	_ = quick
	archLists := [][]string{nil, {"amd64"}, {"amd64", "linux-any"}, {"kfreebsd-amd64"}, {"linux-any", "kfreebsd-amd64", "any-i386"}}
	profs := [][][]AStage{nil, {{stg(false, "p")}}, {{stg(true, "p"), stg(false, "q")}}, {{stg(false, "p")}, {stg(true, "q")}}}
	// alphabet audit: names a change introduced into the code appear as package name, qualifier, architecture,
	// profile name and version text
	for _, t := range AuditStrings(auditName, 4) {
		names = append(names, t, t+"-x")
		quals = append(quals, t)
		archLists = append(archLists, []string{t}, []string{"amd64", t}, []string{t + "-any"}, []string{"any-" + t})
		profs = append(profs, [][]AStage{{stg(false, t)}}, [][]AStage{{stg(true, t), stg(false, "q")}})
	}
	for _, t := range AuditStrings(Versionish, 4) {
		if !hasByte(t, '-') || true {
			vers = append(vers, t, "1."+t)
		}
	}
	for _, t := range AuditIntStrings(0, 1<<62, 6) {
		vers = append(vers, t)
	}
	return PossShapes(names, quals, ops, vers, archLists, profs)
}

// representative subset: one per feature plus a substvar
// DepRepresentatives: one possibility per feature plus a substvar.
func DepRepresentatives() []APoss {
	return []APoss{
		{Name: "a"},
		{Name: "lib-x1.2+y", Qual: "any"},
		{Name: "b", Op: ">=", Num: "1:2.0~rc1-3", Groups: "v"},
		{Name: "c", Archs: []string{"amd64", "linux-any"}, Groups: "a"},
		{Name: "d", Archs: []string{"kfreebsd-amd64", "i386"}, ArchNot: true, Groups: "a"},
		{Name: "e", Profiles: [][]AStage{{stg(true, "p"), stg(false, "q")}, {stg(false, "r")}}, Groups: "pp"},
		{Name: "f", Qual: "native", Op: "<<", Num: "2", Archs: []string{"any-amd64"}, Profiles: [][]AStage{{stg(false, "p")}}, Groups: "vap"},
		{Substvar: true, Name: "misc:Depends"},
	}
}

// DepFields: all fields of 1..maxPoss possibilities over reps with every ,/| assignment.
func DepFields(reps []APoss, maxPoss int) []ADep {
	var out []ADep
	var rec func(cur []APoss, seps []bool)
	rec = func(cur []APoss, seps []bool) {
		if len(cur) > 0 {
			// build ADep from cur and seps (true = ',' starts a new relation)
			var d ADep
			d = append(d, ARel{cur[0]})
			for i := 1; i < len(cur); i++ {
				if seps[i-1] {
					d = append(d, ARel{cur[i]})
				} else {
					d[len(d)-1] = append(d[len(d)-1], cur[i])
				}
			}
			out = append(out, d)
		}
		if len(cur) == maxPoss {
			return
		}
		for _, p := range reps {
			if len(cur) == 0 {
				rec(append(append([]APoss{}, cur...), p), seps)
			} else {
				for _, s := range []bool{true, false} {
					rec(append(append([]APoss{}, cur...), p), append(append([]bool{}, seps...), s))
				}
			}
		}
	}
	rec(nil, nil)
	return out
}

// auditName: usable as a package / architecture / profile name in the grammar (starts alphanumeric, name characters only, no '-' so
// that it is a single architecture component as well).
func auditName(s string) bool {
	if !Nameish(s) || hasByte(s, '-') || hasByte(s, '+') || hasByte(s, '.') {
		return false
	}
	c := s[0]
	return c >= 'a' && c <= 'z' || c >= '0' && c <= '9' || c >= 'A' && c <= 'Z'
}

func hasByte(s string, b byte) bool {
	for i := 0; i < len(s); i++ {
		if s[i] == b {
			return true
		}
	}
	return false
}
