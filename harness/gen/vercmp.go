package gen

import (
	"fmt"
	"math/big"
	"strings"
)

// Reference implementation of the Debian Policy 5.6.12 version order, written as
// tokenise-then-compare (the implementation under test is a two-cursor loop).

// VerKey is a pre-tokenised version part: alternating non-digit and digit runs, starting with a
// (possibly empty) non-digit run.
type VerKey struct {
	NonDigit [][]int16 // weights per character of each non-digit run
	Digits   []string  // digit runs with leading zeros removed ("" means 0)
}

func weight(c byte) int16 {
	switch {
	case c == '~':
		return -1
	case c >= 'a' && c <= 'z', c >= 'A' && c <= 'Z':
		return int16(c)
	default:
		return int16(c) + 256
	}
}

func isDigit(c byte) bool { return c >= '0' && c <= '9' }

// KeyOf tokenises one version part.
func KeyOf(s string) VerKey {
	var k VerKey
	i := 0
	for i < len(s) {
		var nd []int16
		for i < len(s) && !isDigit(s[i]) {
			nd = append(nd, weight(s[i]))
			i++
		}
		j := i
		for j < len(s) && isDigit(s[j]) {
			j++
		}
		k.NonDigit = append(k.NonDigit, nd)
		k.Digits = append(k.Digits, strings.TrimLeft(s[i:j], "0"))
		i = j
	}
	return k
}

// CmpKeys compares two tokenised parts; returns -1, 0, 1.
func CmpKeys(a, b VerKey) int {
	n := len(a.NonDigit)
	if len(b.NonDigit) > n {
		n = len(b.NonDigit)
	}
	for r := 0; r < n; r++ {
		var an, bn []int16
		var ad, bd string
		if r < len(a.NonDigit) {
			an, ad = a.NonDigit[r], a.Digits[r]
		}
		if r < len(b.NonDigit) {
			bn, bd = b.NonDigit[r], b.Digits[r]
		}
		m := len(an)
		if len(bn) > m {
			m = len(bn)
		}
		for p := 0; p < m; p++ {
			var x, y int16 // end of run (end of string or a digit) weighs 0
			if p < len(an) {
				x = an[p]
			}
			if p < len(bn) {
				y = bn[p]
			}
			if x != y {
				if x < y {
					return -1
				}
				return 1
			}
		}
		// numeric comparison of arbitrarily long digit runs: more significant digits win, then lexicographic
		if len(ad) != len(bd) {
			if len(ad) < len(bd) {
				return -1
			}
			return 1
		}
		if ad != bd {
			if ad < bd {
				return -1
			}
			return 1
		}
	}
	return 0
}

// CmpPartBig is the same comparison with math/big for digit runs (used to validate CmpKeys).
func CmpPartBig(a, b string) int {
	ka, kb := KeyOf(a), KeyOf(b)
	n := len(ka.NonDigit)
	if len(kb.NonDigit) > n {
		n = len(kb.NonDigit)
	}
	for r := 0; r < n; r++ {
		var an, bn []int16
		ad, bd := "", ""
		if r < len(ka.NonDigit) {
			an, ad = ka.NonDigit[r], ka.Digits[r]
		}
		if r < len(kb.NonDigit) {
			bn, bd = kb.NonDigit[r], kb.Digits[r]
		}
		for p := 0; p < len(an) || p < len(bn); p++ {
			var x, y int16
			if p < len(an) {
				x = an[p]
			}
			if p < len(bn) {
				y = bn[p]
			}
			if x != y {
				if x < y {
					return -1
				}
				return 1
			}
		}
		x, y := new(big.Int), new(big.Int)
		if ad != "" {
			x.SetString(ad, 10)
		}
		if bd != "" {
			y.SetString(bd, 10)
		}
		if c := x.Cmp(y); c != 0 {
			return c
		}
	}
	return 0
}

// RefVersion is the reference model of a version value.
type RefVersion struct {
	Epoch    uint64
	Upstream string
	Revision string
}

// RefCompare is the reference order on versions.
func RefCompare(a, b RefVersion) int {
	if a.Epoch != b.Epoch {
		if a.Epoch < b.Epoch {
			return -1
		}
		return 1
	}
	if c := CmpKeys(KeyOf(a.Upstream), KeyOf(b.Upstream)); c != 0 {
		return c
	}
	return CmpKeys(KeyOf(a.Revision), KeyOf(b.Revision))
}

func Sign(x int) int {
	switch {
	case x < 0:
		return -1
	case x > 0:
		return 1
	}
	return 0
}

// LongRunStrings: version parts with letter runs and digit runs of 7..17 characters (word-at-a-time comparison widths
// and their neighbours), continued by every class of character, and the same parts cut short before the run ends and
// continued differently - so that every (run length, position of the first difference inside the run, class of the
// differing characters) combination occurs in some pair.
func LongRunStrings() []string {
	letters, digits := "abcdefghijklmnopqrstuvwxyz", "2023051215301234567"
	tails := []string{"", "a", "z", "A", "1", "0", "+", ".", "-", "~", ":", "+esm1", "three", "~rc1"}
	var out []string
	for _, n := range []int{7, 8, 9, 15, 16, 17} {
		for _, m := range []int{n, n - 1, n - 3, 4} {
			for _, t := range tails {
				out = append(out, "1"+letters[:m]+t, "1."+digits[:m]+t, "1"+letters[:m]+t+"."+digits[:n], letters[:1]+digits[:m]+t)
			}
		}
		// two runs of the same length that differ at one position only / at two positions with opposite signs
		for _, pos := range []int{0, 1, n / 2, n - 2, n - 1} {
			l, d := []byte(letters[:n]), []byte(digits[:n])
			l[pos], d[pos] = 'b'+byte(pos%20), '9'
			out = append(out, "1"+string(l), "1."+string(d))
			if pos+1 < n {
				l[pos+1], d[pos+1] = 'a', '0'
				out = append(out, "1"+string(l), "1."+string(d))
			}
		}
	}
	return Dedup(out)
}

// ComponentLadders are parts with many components - 9 to 40 of them, more than any fixed-size scratch array of runs a
// comparator might keep (8, 16, 32) - that differ from a base in exactly one component, at every position, or in two:
// the k-th component decides, for every k.
func ComponentLadders() []string {
	var out []string
	for _, n := range []int{9, 10, 12, 16, 17, 18, 24, 32, 33, 34, 40} {
		for _, sep := range []string{".", "+", "a"} {
			if sep != "." && n > 18 {
				continue
			}
			base := make([]string, n)
			for i := range base {
				base[i] = fmt.Sprint(i%9 + 1)
			}
			out = append(out, strings.Join(base, sep))
			for i := 0; i < n; i++ {
				for _, alt := range []string{"0", "5", "10"} {
					if alt == base[i] {
						continue
					}
					v := append([]string{}, base...)
					v[i] = alt
					out = append(out, strings.Join(v, sep))
				}
				if i+1 < n && sep == "." {
					v := append([]string{}, base...)
					v[i], v[i+1] = "0", "99" // smaller here, larger one further on
					out = append(out, strings.Join(v, sep))
				}
			}
			out = append(out, strings.Join(base[:n-1], sep), strings.Join(base, sep)+sep+"0")
		}
	}
	return Dedup(out)
}

// LongDigitRuns are parts whose deciding digit run has 1 to 65537 significant digits: lengths around every width a
// length counter might have (2^7, 2^8, 2^9, 2^16) and pairs of lengths that differ by more than 127 and 255; each length
// with a small and a large leading digit, with leading zeros, and followed by something.
func LongDigitRuns() []string {
	var out []string
	for _, n := range []int{1, 2, 3, 19, 20, 50, 100, 127, 128, 129, 131, 200, 255, 256, 257, 300, 511, 512, 513, 1000, 65535, 65536, 65537} {
		for _, lead := range []string{"1", "9"} {
			run := lead + strings.Repeat("0", n-1)
			out = append(out, "1."+run, "1."+run+"a")
			if n < 1000 {
				out = append(out, "1.000"+run, "1."+lead+strings.Repeat("9", n-1))
			}
		}
	}
	return Dedup(out)
}
