package gen

import (
	"strconv"

	"verifharness/audit"
)

// Views of the alphabet-audit delta (literals a change introduced into the code under test) for the scenarios.

// AuditStrings returns up to max new string literals that satisfy ok (nil = all).
func AuditStrings(ok func(string) bool, max int) []string {
	var out []string
	for _, s := range audit.Get().Strings {
		if ok == nil || ok(s) {
			out = append(out, s)
			if len(out) == max {
				break
			}
		}
	}
	return out
}

// AuditChars returns up to max new single-character literals satisfying ok.
func AuditChars(ok func(string) bool, max int) []string {
	var out []string
	for _, s := range audit.Get().Chars {
		if ok == nil || ok(s) {
			out = append(out, s)
			if len(out) == max {
				break
			}
		}
	}
	return out
}

// AuditInts returns the new integer literals n together with n-1 and n+1, restricted to [lo, hi], deduplicated.
func AuditInts(lo, hi int64, max int) []int64 {
	seen := map[int64]bool{}
	var out []int64
	for _, v := range audit.Get().Ints {
		for _, x := range []int64{v - 1, v, v + 1} {
			if x >= lo && x <= hi && !seen[x] {
				seen[x] = true
				out = append(out, x)
			}
		}
		if len(out) >= max {
			break
		}
	}
	return out
}

// AuditIntStrings is AuditInts as decimal strings.
func AuditIntStrings(lo, hi int64, max int) []string {
	var out []string
	for _, v := range AuditInts(lo, hi, max) {
		out = append(out, strconv.FormatInt(v, 10))
	}
	return out
}

func allBytes(s string, ok func(c byte) bool) bool {
	if s == "" {
		return false
	}
	for i := 0; i < len(s); i++ {
		if !ok(s[i]) {
			return false
		}
	}
	return true
}

// Versionish: only characters of the version alphabet.
func Versionish(s string) bool {
	return allBytes(s, func(c byte) bool {
		return c >= 'a' && c <= 'z' || c >= 'A' && c <= 'Z' || c >= '0' && c <= '9' || c == '.' || c == '+' || c == '~' || c == ':' || c == '-'
	})
}

// Nameish: could be a package / architecture / profile name.
func Nameish(s string) bool {
	return allBytes(s, func(c byte) bool {
		return c >= 'a' && c <= 'z' || c >= 'A' && c <= 'Z' || c >= '0' && c <= '9' || c == '.' || c == '+' || c == '-'
	})
}

// OneLine: printable, no line breaks.
func OneLine(s string) bool {
	return allBytes(s, func(c byte) bool { return c >= 0x20 && c != 0x7f || c == '\t' })
}

// AuditPow2 returns 2^n-1, 2^n, 2^n+1 for every new integer literal n in [8, 62] (a new bit width such as 32 in
// ParseInt(s, 10, 32) shows up as the values around 2^31 and 2^32).
func AuditPow2() []int64 {
	seen := map[int64]bool{}
	var out []int64
	for _, n := range AuditInts(8, 62, 12) {
		for _, sh := range []int64{n - 1, n} {
			if sh < 1 || sh > 62 {
				continue
			}
			b := int64(1) << uint(sh)
			for _, x := range []int64{b - 1, b, b + 1} {
				if !seen[x] {
					seen[x] = true
					out = append(out, x)
				}
			}
		}
	}
	return out
}
