// Package gen holds input generators and reference models.
package gen

// AllStrings returns every string over alphabet (symbols may be multi-byte tokens) with 0..maxLen symbols,
// shortest first, in alphabet order.
func AllStrings(alphabet []string, maxLen int) []string {
	out := []string{""}
	level := []string{""}
	for l := 1; l <= maxLen; l++ {
		next := make([]string, 0, len(level)*len(alphabet))
		for _, p := range level {
			for _, a := range alphabet {
				next = append(next, p+a)
			}
		}
		out = append(out, next...)
		level = next
	}
	return out
}

// CountStrings returns the number of strings AllStrings would return.
func CountStrings(k, maxLen int) int64 {
	var n, p int64 = 1, 1
	for l := 1; l <= maxLen; l++ {
		p *= int64(k)
		n += p
	}
	return n
}

// Odometer enumerates all strings of exactly n symbols over alphabet into buf, calling f for each.
// It stops early if f returns false.
func Odometer(alphabet []string, n int, f func(s string) bool) {
	idx := make([]int, n)
	buf := make([]byte, 0, n*4)
	for {
		buf = buf[:0]
		for _, i := range idx {
			buf = append(buf, alphabet[i]...)
		}
		if !f(string(buf)) {
			return
		}
		k := n - 1
		for k >= 0 {
			idx[k]++
			if idx[k] < len(alphabet) {
				break
			}
			idx[k] = 0
			k--
		}
		if k < 0 {
			return
		}
	}
}

// Chars splits a string into one-byte symbols.
func Chars(s string) []string {
	out := make([]string, len(s))
	for i := range s {
		out[i] = s[i : i+1]
	}
	return out
}

// Dedup removes duplicate strings, keeping first occurrences.
func Dedup(in []string) []string {
	seen := make(map[string]struct{}, len(in))
	out := in[:0:0]
	for _, s := range in {
		if _, ok := seen[s]; !ok {
			seen[s] = struct{}{}
			out = append(out, s)
		}
	}
	return out
}
