package gen

import "io"

// Byte-delivery shims: how an io.Reader hands its data over is an environment answer the harness owns.

type chunkReader struct {
	data []byte
	pos  int
	next func(pos, remaining int) int // bytes to deliver at this call (>=1)
	// corners of the io.Reader contract
	eofWithData bool // the final bytes come together with io.EOF
	idle, idled bool // every delivery is preceded by one (0, nil) answer
}

func (c *chunkReader) Read(p []byte) (int, error) {
	if c.pos >= len(c.data) {
		return 0, io.EOF
	}
	if c.idle && !c.idled && len(p) > 0 {
		c.idled = true
		return 0, nil // a Read may return no bytes and no error; the caller has to ask again
	}
	c.idled = false
	n := c.next(c.pos, len(c.data)-c.pos)
	if n > len(p) {
		n = len(p)
	}
	if n > len(c.data)-c.pos {
		n = len(c.data) - c.pos
	}
	copy(p, c.data[c.pos:c.pos+n])
	c.pos += n
	if c.eofWithData && c.pos >= len(c.data) {
		return n, io.EOF // the last bytes and the end of the stream in one answer (io.Reader allows it)
	}
	return n, nil
}

// Delivery returns a reader for data under delivery mode m:
// 0 = everything the caller asks for; 1 = one byte per Read; 2 = 7-byte chunks; m >= 3: first Read stops at offset m-3, then the rest;
// -1 / -2: the final bytes arrive together with io.EOF (whole / 7-byte chunks); -3: every chunk is preceded by a (0, nil) answer.
func Delivery(data string, m int) io.Reader {
	b := []byte(data)
	switch {
	case m == -1: // everything at once, the end of the stream in the same answer
		return &chunkReader{data: b, next: func(_, rem int) int { return rem }, eofWithData: true}
	case m == -2: // 7-byte chunks, the last one together with io.EOF
		return &chunkReader{data: b, next: func(_, _ int) int { return 7 }, eofWithData: true}
	case m == -3: // 7-byte chunks, each preceded by an answer without bytes and without error
		return &chunkReader{data: b, next: func(_, _ int) int { return 7 }, idle: true}
	case m == 0:
		return &chunkReader{data: b, next: func(_, rem int) int { return rem }}
	case m == 1:
		return &chunkReader{data: b, next: func(_, _ int) int { return 1 }}
	case m == 2:
		return &chunkReader{data: b, next: func(_, _ int) int { return 7 }}
	}
	off := m - 3
	return &chunkReader{data: b, next: func(pos, rem int) int {
		if pos < off {
			return off - pos
		}
		return rem
	}}
}

// DeliveryModes returns the number of delivery modes for a text of n bytes (0,1,2 and a split at every inner offset).
func DeliveryModes(n int) int {
	if n <= 1 {
		return 6
	}
	return 6 + n - 1 // splits at offsets 1..n-1
}

// DeliveryForChoice maps choice c in [0, DeliveryModes(n)) to a mode for Delivery.
func DeliveryForChoice(c int) int {
	if c < 3 {
		return c
	}
	if c < 6 {
		return 2 - c // -1, -2, -3: the contract corners
	}
	return 3 + (c - 6) + 1
}
