package gen

import "io"

// Byte-delivery shims: how an io.Reader hands its data over is an environment answer the harness owns.

type chunkReader struct {
	data []byte
	pos  int
	next func(pos, remaining int) int // bytes to deliver at this call (>=1)
}

func (c *chunkReader) Read(p []byte) (int, error) {
	if c.pos >= len(c.data) {
		return 0, io.EOF
	}
	n := c.next(c.pos, len(c.data)-c.pos)
	if n > len(p) {
		n = len(p)
	}
	if n > len(c.data)-c.pos {
		n = len(c.data) - c.pos
	}
	copy(p, c.data[c.pos:c.pos+n])
	c.pos += n
	return n, nil
}

// Delivery returns a reader for data under delivery mode m:
// 0 = everything the caller asks for; 1 = one byte per Read; 2 = 7-byte chunks; m >= 3: first Read stops at offset m-3, then the rest.
func Delivery(data string, m int) io.Reader {
	b := []byte(data)
	switch {
	case m == 0:
		return &chunkReader{data: b, next: func(_, rem int) int { return rem }}
	case m == 1:
		return &chunkReader{data: b, next: func(_, _ int) int { return 1 }}
	case m == 2:
		return &chunkReader{data: b, next: func(_, _ int) int { return 7 }}
	}
	off := m - 3
	return &chunkReader{data: b, next: func(pos, rem int) int {
		if pos < off {
			return off - pos
		}
		return rem
	}}
}

// DeliveryModes returns the number of delivery modes for a text of n bytes (0,1,2 and a split at every inner offset).
func DeliveryModes(n int) int {
	if n <= 1 {
		return 3
	}
	return 3 + n - 1 // splits at offsets 1..n-1
}

// DeliveryForChoice maps choice c in [0, DeliveryModes(n)) to a mode for Delivery.
func DeliveryForChoice(c int) int {
	if c < 3 {
		return c
	}
	return 3 + (c - 3) + 1
}
