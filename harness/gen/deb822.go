package gen

import (
	"strings"
	"unicode"
)

// ---- deb822 document model: documents are RENDERED from it; expected values are computed from it ----

// DLine is one continuation line: a marker (space or tab) and the text after it.
// Text "." is the empty-line marker; text may carry leading blanks (indentation) and trailing blanks.
type DLine struct {
	Marker byte
	Text   string
}

type DField struct {
	Name  string
	First string // text on the field's own line (may be empty)
	Cont  []DLine
}

type DPara []DField
type DDoc []DPara

// RefValue is the value the reader must report for a field: the first line trimmed when there are no
// continuation lines; otherwise the non-empty first line and every continuation line (marker removed,
// right-trimmed, "." -> empty), each terminated by "\n". An empty first line contributes no logical line.
func (f DField) RefValue() string {
	first := strings.TrimSpace(f.First)
	if len(f.Cont) == 0 {
		return first
	}
	var sb strings.Builder
	if first != "" {
		sb.WriteString(first + "\n")
	}
	for _, l := range f.Cont {
		t := strings.TrimRightFunc(l.Text, unicode.IsSpace) // as on the key line: "trailing whitespace" is Unicode white space
		if t == "." {
			t = ""
		}
		sb.WriteString(t + "\n")
	}
	return sb.String()
}

// RefPara is the reference result for one paragraph.
type RefPara struct {
	Order  []string
	Values map[string]string
}

func (d DDoc) Ref() []RefPara {
	var out []RefPara
	for _, p := range d {
		rp := RefPara{Values: map[string]string{}}
		for _, f := range p {
			rp.Order = append(rp.Order, f.Name)
			rp.Values[f.Name] = f.RefValue()
		}
		out = append(out, rp)
	}
	return out
}

// CanonParas renders a paragraph list canonically (used to compare model and implementation).
func CanonRef(ps []RefPara) string {
	var sb strings.Builder
	for _, p := range ps {
		sb.WriteString("P{")
		for _, k := range p.Order {
			sb.WriteString(quote(k) + "=" + quote(p.Values[k]) + ";")
		}
		sb.WriteString("}")
	}
	return sb.String()
}

var quoteReplacer = strings.NewReplacer("\\", "\\\\", "\n", "\\n", "\t", "\\t", "\r", "\\r", "\"", "\\\"")

func quote(s string) string {
	return "\"" + quoteReplacer.Replace(s) + "\""
}

// RenderOpt are the rendering deviations of a document (zero value = canonical layout).
type RenderOpt struct {
	CRLF           bool
	NoFinalNewline bool // only meaningful when BlankAfter == 0
	KV             int  // 0 "K: v"  1 "K:v"  2 "K:  v " (extra blanks both sides)  3 "K:\tv"
	BlankBefore    int  // blank lines before the first paragraph
	BlankAfter     int  // blank lines after the last paragraph
	BlankBetween   int  // EXTRA blank lines between paragraphs (0 = exactly one)
	CommentAt      int  // 0 = none; p>0 = a comment line inserted before physical line p-1 (p-1 == number of lines: at the end)
	CommentText    int  // index into D822Comments
	// FlipAt p>0: physical line p-1 (after comment insertion) ends in the OTHER line ending (CRLF in an LF document, LF in
	// a CRLF one); with FlipFrom every line from there to the end does - files that were edited on two systems
	FlipAt   int
	FlipFrom bool
}

// D822Comments are the comment lines inserted by RenderOpt.CommentAt: with text and a colon, bare, two characters,
// '#' followed by a blank only, and '#' followed by a tab and another '#'.
var D822Comments = []string{"# a comment: with a colon", "#", "#x", "# ", "#\t#"}

// PhysicalLines returns the document's lines (without terminators) under opt, before comment insertion.
func (d DDoc) PhysicalLines(opt RenderOpt) []string {
	var lines []string
	for i := 0; i < opt.BlankBefore; i++ {
		lines = append(lines, "")
	}
	for pi, p := range d {
		if pi > 0 {
			for i := 0; i <= opt.BlankBetween; i++ {
				lines = append(lines, "")
			}
		}
		for _, f := range p {
			var l string
			switch opt.KV {
			case 1:
				l = f.Name + ":" + f.First
			case 2:
				l = f.Name + ":  " + f.First + " "
			case 3:
				l = f.Name + ":\t" + f.First
			default:
				if f.First == "" {
					l = f.Name + ":"
				} else {
					l = f.Name + ": " + f.First
				}
			}
			lines = append(lines, l)
			for _, c := range f.Cont {
				lines = append(lines, string(c.Marker)+c.Text)
			}
		}
	}
	for i := 0; i < opt.BlankAfter; i++ {
		lines = append(lines, "")
	}
	return lines
}

// Render produces the document bytes.
func (d DDoc) Render(opt RenderOpt) string {
	lines := d.PhysicalLines(opt)
	if opt.CommentAt > 0 {
		p := opt.CommentAt - 1
		if p > len(lines) {
			p = len(lines)
		}
		lines = append(lines[:p:p], append([]string{D822Comments[opt.CommentText%len(D822Comments)]}, lines[p:]...)...)
	}
	eol := "\n"
	if opt.CRLF {
		eol = "\r\n"
	}
	if opt.FlipAt > 0 {
		other := "\r\n"
		if opt.CRLF {
			other = "\n"
		}
		var sb strings.Builder
		for i, l := range lines {
			e := eol
			if i == opt.FlipAt-1 || (opt.FlipFrom && i >= opt.FlipAt-1) {
				e = other
			}
			if i == len(lines)-1 && opt.NoFinalNewline && opt.BlankAfter == 0 {
				e = ""
			}
			sb.WriteString(l + e)
		}
		return sb.String()
	}
	s := strings.Join(lines, eol)
	if len(lines) > 0 {
		s += eol
	}
	if opt.NoFinalNewline && opt.BlankAfter == 0 && len(lines) > 0 {
		s = strings.TrimSuffix(s, eol)
	}
	return s
}

// ---- alphabets ----

// (the last two end in a character whose UTF-8 encoding ends in 0xA0 / 0x85 - bytes that are white space as Latin-1)
var D822Firsts = []string{"", "v", "v w", "v: w", "#v", "é\tz", ".", "3-8% of %s", "J\xf6rg a\rb", "abilit\u00e0", "\u00c5", "v\f\u00a0"}

var D822ContLines = []DLine{
	{' ', "x"}, {'\t', "x"}, {' ', " indented"}, {'\t', " indented"}, {' ', "."}, {'\t', "."}, {' ', "x  "}, {' ', "y: z"},
	{' ', "#include <x>"}, {' ', "\ttabbed"}, {' ', "100%d %"}, {' ', "Ren\xe9 \xff"}, {' ', ".."}, {' ', ". ."},
	{' ', " ."}, {'\t', "\t."}, // an indented dot is text (the '.' rule is about the line " ." only)
	{' ', "citt\u00e0"},
	// trailing white space that is not blank / tab / CR: form feed, vertical tab, NBSP, ideographic space
	{' ', "x\f"}, {' ', "x\v \u00a0"}, {'\t', "x\u3000"},
}

// D822FieldShapes: every first line x every sequence of 0..maxCont continuation lines.
func D822FieldShapes(name string, maxCont int) []DField {
	var out []DField
	var conts [][]DLine
	conts = append(conts, nil)
	level := [][]DLine{nil}
	for l := 1; l <= maxCont; l++ {
		var next [][]DLine
		for _, p := range level {
			for _, c := range D822ContLines {
				next = append(next, append(append([]DLine{}, p...), c))
			}
		}
		conts = append(conts, next...)
		level = next
	}
	for _, f := range D822Firsts {
		for _, c := range conts {
			out = append(out, DField{Name: name, First: f, Cont: c})
		}
	}
	return out
}

// D822AuditFields: field shapes built from the literals a change introduced into the code (alphabet audit): as field
// name, as first-line value, as continuation text, and as a prefix of each.
func D822AuditFields() []DField {
	var out []DField
	for _, t := range AuditStrings(OneLine, 6) {
		name := "X-Audit"
		if Nameish(t) {
			name = t
		}
		out = append(out,
			DField{Name: name, First: t},
			DField{Name: "A", First: t + " x", Cont: []DLine{{' ', t}, {'\t', t + " y"}}},
			DField{Name: "A", First: "", Cont: []DLine{{' ', t}}},
			DField{Name: name + "-x", First: "v", Cont: []DLine{{' ', "."}, {' ', " " + t}}})
	}
	return out
}

// D822RepFields: a small representative set of field shapes for multi-field / multi-paragraph documents.
func D822RepFields(name string) []DField {
	return []DField{
		{Name: name, First: "v"},
		{Name: name, First: ""},
		{Name: name, First: "v w", Cont: []DLine{{' ', "x"}}},
		{Name: name, First: "", Cont: []DLine{{' ', "x"}, {'\t', " indented"}}},
		{Name: name, First: "v", Cont: []DLine{{' ', "."}, {' ', "x  "}}},
		{Name: name, First: "", Cont: []DLine{{' ', "."}, {' ', "y: z"}}},
		{Name: name, First: "w", Cont: []DLine{{' ', "#include <x>"}, {'\t', "\ttabbed"}}},
	}
}

var D822Names = []string{"A", "B-c", "X", "Long-Name9", "X-é", "9"}
