package gen

import "strings"

// Reference recogniser for relationship fields: a recursive-descent parser written straight from the
// grammar in the property statement, with an explicit reason code for every rejection.
//
// Reasons that the statement lists (the implementation MUST reject these):
//   unterminated-bracket, unterminated-paren, unterminated-substvar, mixed-negation,
//   second-version, second-arch, unknown-operator, two-names
// Every other rejection is "other:<detail>" and places no demand on the implementation.

type recog struct {
	s string
	i int
}

func isWS(c byte) bool { return c == ' ' || c == '\t' || c == '\n' || c == '\r' }
func isAlnum(c byte) bool {
	return c >= 'a' && c <= 'z' || c >= 'A' && c <= 'Z' || c >= '0' && c <= '9'
}

func (r *recog) ws() bool {
	j := r.i
	for r.i < len(r.s) && isWS(r.s[r.i]) {
		r.i++
	}
	return r.i > j
}
func (r *recog) end() bool { return r.i >= len(r.s) }
func (r *recog) peek() byte {
	if r.end() {
		return 0
	}
	return r.s[r.i]
}

func (r *recog) run(ok func(c byte) bool) string {
	j := r.i
	for r.i < len(r.s) && ok(r.s[r.i]) {
		r.i++
	}
	return r.s[j:r.i]
}

// StatementReason reports whether a rejection reason is one the property statement lists.
func StatementReason(reason string) bool {
	return reason != "" && !strings.HasPrefix(reason, "other:")
}

// Recognise parses s per the grammar. reason == "" means accepted (and the AST is the denotation).
func Recognise(s string) (ADep, string) {
	r := &recog{s: s}
	var dep ADep
	r.ws()
	if r.end() {
		return dep, ""
	}
	for {
		rel, reason := r.relation()
		if reason != "" {
			return nil, reason
		}
		dep = append(dep, rel)
		r.ws()
		if r.end() {
			return dep, ""
		}
		if r.peek() != ',' {
			return nil, "other:unexpected-char-after-relation"
		}
		r.i++
		r.ws()
		if r.end() {
			return nil, "other:trailing-comma"
		}
	}
}

func (r *recog) relation() (ARel, string) {
	var rel ARel
	for {
		c := r.peek()
		if c == ',' || c == '|' || c == 0 {
			return nil, "other:empty-alternative"
		}
		p, reason := r.alt()
		if reason != "" {
			return nil, reason
		}
		rel = append(rel, p)
		r.ws()
		if r.peek() != '|' {
			return rel, ""
		}
		r.i++
		r.ws()
	}
}

func nameChar(c byte) bool { return isAlnum(c) || c == '+' || c == '.' || c == '-' }

func (r *recog) alt() (APoss, string) {
	var p APoss
	if strings.HasPrefix(r.s[r.i:], "${") {
		rest := r.s[r.i+2:]
		k := strings.IndexByte(rest, '}')
		if k < 0 {
			return p, "unterminated-substvar"
		}
		name := rest[:k]
		if name == "" {
			return p, "other:empty-substvar"
		}
		for i := 0; i < len(name); i++ {
			if !(isAlnum(name[i]) || name[i] == ':' || name[i] == '-') {
				return p, "other:bad-substvar-char"
			}
		}
		r.i += 2 + k + 1
		p.Substvar, p.Name = true, name
		j := r.i
		r.ws()
		if c := r.peek(); c != 0 && c != ',' && c != '|' {
			r.i = j
			return p, "other:garbage-after-substvar"
		}
		r.i = j
		return p, ""
	}
	if !isAlnum(r.peek()) {
		return p, "other:bad-name-start"
	}
	p.Name = r.run(nameChar)
	if r.peek() == ':' {
		r.i++
		p.Qual = r.run(func(c byte) bool { return isAlnum(c) || c == '-' })
		if p.Qual == "" {
			return p, "other:empty-qualifier"
		}
	}
	for {
		j := r.i
		r.ws()
		c := r.peek()
		switch {
		case c == 0 || c == ',' || c == '|':
			r.i = j
			return p, ""
		case c == '(':
			if strings.Contains(p.Groups, "v") {
				return p, "second-version"
			}
			if !strings.Contains(r.s[r.i:], ")") {
				return p, "unterminated-paren"
			}
			r.i++
			r.ws()
			op := r.run(func(c byte) bool { return c == '<' || c == '>' || c == '=' || c == '!' })
			switch op {
			case "<<", "<=", "=", ">=", ">>":
			case "":
				return p, "other:no-operator"
			case "<", ">":
				return p, "other:deprecated-operator"
			default:
				for _, ok := range []string{"<<", "<=", "=", ">=", ">>"} {
					if strings.HasPrefix(op, ok) {
						return p, "other:operator-followed-by-operator-chars"
					}
				}
				return p, "unknown-operator"
			}
			r.ws()
			var num string
			if strings.HasPrefix(r.s[r.i:], "${") {
				k := strings.IndexByte(r.s[r.i:], '}')
				if k < 0 {
					return p, "other:substvar-in-version-unterminated"
				}
				num = r.s[r.i : r.i+k+1]
				r.i += k + 1
			} else {
				num = r.run(func(c byte) bool {
					return isAlnum(c) || c == '.' || c == '+' || c == '~' || c == ':' || c == '-'
				})
			}
			if num == "" {
				return p, "other:empty-version"
			}
			r.ws()
			if r.peek() != ')' {
				return p, "other:garbage-in-version-clause"
			}
			r.i++
			p.Op, p.Num = op, num
			p.Groups += "v"
		case c == '[':
			if strings.Contains(p.Groups, "a") {
				return p, "second-arch"
			}
			if !strings.Contains(r.s[r.i:], "]") {
				return p, "unterminated-bracket"
			}
			r.i++
			first := true
			for {
				r.ws()
				if r.peek() == ']' {
					r.i++
					break
				}
				not := false
				if r.peek() == '!' {
					not = true
					r.i++
				}
				n := r.run(func(c byte) bool { return isAlnum(c) || c == '-' })
				if n == "" {
					return p, "other:bad-arch-name"
				}
				if c := r.peek(); !isWS(c) && c != ']' {
					return p, "other:bad-arch-name"
				}
				if first {
					p.ArchNot = not
					first = false
				} else if p.ArchNot != not {
					return p, "mixed-negation"
				}
				p.Archs = append(p.Archs, n)
			}
			if len(p.Archs) == 0 {
				return p, "other:empty-arch-list"
			}
			p.Groups += "a"
		case c == '<':
			if !strings.Contains(r.s[r.i:], ">") {
				return p, "unterminated-bracket"
			}
			r.i++
			var g []AStage
			for {
				r.ws()
				if r.peek() == '>' {
					r.i++
					break
				}
				var st AStage
				if r.peek() == '!' {
					st.Not = true
					r.i++
				}
				st.Name = r.run(func(c byte) bool { return isAlnum(c) || c == '-' || c == '.' || c == '+' })
				if st.Name == "" {
					return p, "other:bad-profile-name"
				}
				if c := r.peek(); !isWS(c) && c != '>' {
					return p, "other:bad-profile-name"
				}
				g = append(g, st)
			}
			if len(g) == 0 {
				return p, "other:empty-profile-group"
			}
			p.Profiles = append(p.Profiles, g)
			p.Groups += "p"
		case isAlnum(c):
			return p, "two-names"
		default:
			return p, "other:unexpected-char"
		}
	}
}
