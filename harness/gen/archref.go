package gen

import "strings"

// RefArch is the reference denotation of a Debian architecture name: the atomic "all", or an
// (abi, os, cpu) triple whose components may be the wildcard "any".
type RefArch struct {
	All          bool
	ABI, OS, CPU string
	Unparseable  bool
}

// DenoteArch maps a Debian architecture name to its denotation (Policy 11.1 / dpkg-architecture):
// "any" = any-any-any; "all" = the atom; cpu = gnu-linux-cpu; os-cpu = gnu-os-cpu when both parts are
// concrete and any-os-cpu when one of them is the wildcard; abi-os-cpu as written.
func DenoteArch(name string) RefArch {
	p := strings.Split(name, "-")
	switch len(p) {
	case 1:
		switch p[0] {
		case "all":
			return RefArch{All: true}
		case "any":
			return RefArch{ABI: "any", OS: "any", CPU: "any"}
		}
		return RefArch{ABI: "gnu", OS: "linux", CPU: p[0]}
	case 2:
		abi := "gnu"
		if p[0] == "any" || p[1] == "any" {
			abi = "any"
		}
		return RefArch{ABI: abi, OS: p[0], CPU: p[1]}
	case 3:
		return RefArch{ABI: p[0], OS: p[1], CPU: p[2]}
	}
	return RefArch{Unparseable: true}
}

// Concrete reports whether the denotation has no wildcard component.
func (a RefArch) Concrete() bool {
	return a.All || (a.ABI != "any" && a.OS != "any" && a.CPU != "any")
}

// RefMatch: does the concrete architecture conc match the pattern pat?
func RefMatch(conc, pat RefArch) bool {
	if pat.All || conc.All {
		return pat.All && conc.All
	}
	ok := func(c, p string) bool { return p == "any" || p == c }
	return ok(conc.ABI, pat.ABI) && ok(conc.OS, pat.OS) && ok(conc.CPU, pat.CPU)
}
