package gen

import (
	"fmt"
	"strings"

	"pault.ag/go/debian/dependency"
)

// ---- Dependency AST: the model a relationship field is RENDERED from (nothing is parsed to obtain it) ----

type AStage struct {
	Not  bool
	Name string
}

// APoss is one alternative. Groups lists the restriction groups in the order they are written:
// 'v' = the version clause, 'a' = the architecture list, 'p' = the next profile group.
type APoss struct {
	Substvar bool
	Name     string
	Qual     string // architecture qualifier after ':', "" = none
	Op, Num  string // version clause (present iff Groups contains 'v')
	Archs    []string
	ArchNot  bool
	Profiles [][]AStage
	Groups   string
}

type ARel []APoss
type ADep []ARel

// ---- canonical structural form, shared by the model and by the implementation's result ----

func canonArchRef(a RefArch) string {
	if a.All {
		return "all/all/all"
	}
	return a.ABI + "/" + a.OS + "/" + a.CPU
}

// Canon of the model: what the parser must return.
func (d ADep) Canon() string {
	var sb strings.Builder
	for _, r := range d {
		sb.WriteString("R{")
		for _, p := range r {
			sb.WriteString("P{")
			fmt.Fprintf(&sb, "name=%q", p.Name)
			if p.Substvar {
				sb.WriteString(" substvar}")
				continue
			}
			if p.Qual != "" {
				fmt.Fprintf(&sb, " qual=%s", canonArchRef(DenoteArch(p.Qual)))
			}
			if strings.Contains(p.Groups, "v") {
				fmt.Fprintf(&sb, " ver=%q/%q", p.Op, p.Num)
			}
			if len(p.Archs) > 0 {
				fmt.Fprintf(&sb, " archs(not=%v)=[", p.ArchNot)
				for _, a := range p.Archs {
					sb.WriteString(canonArchRef(DenoteArch(a)) + " ")
				}
				sb.WriteString("]")
			}
			for _, g := range p.Profiles {
				sb.WriteString(" <")
				for _, s := range g {
					fmt.Fprintf(&sb, "%v:%q ", s.Not, s.Name)
				}
				sb.WriteString(">")
			}
			sb.WriteString("}")
		}
		sb.WriteString("}")
	}
	return sb.String()
}

// CanonDep is the same canonical form computed from the implementation's value (nil and empty slices identified).
func CanonDep(d *dependency.Dependency) string {
	if d == nil {
		return "<nil>"
	}
	var sb strings.Builder
	for _, r := range d.Relations {
		sb.WriteString("R{")
		for _, p := range r.Possibilities {
			sb.WriteString("P{")
			fmt.Fprintf(&sb, "name=%q", p.Name)
			if p.Substvar {
				sb.WriteString(" substvar")
				if p.Arch != nil || p.Version != nil || (p.Architectures != nil && len(p.Architectures.Architectures) > 0) || len(p.StageSets) > 0 {
					sb.WriteString("+restrictions")
				}
				sb.WriteString("}")
				continue
			}
			if p.Arch != nil {
				fmt.Fprintf(&sb, " qual=%s/%s/%s", p.Arch.ABI, p.Arch.OS, p.Arch.CPU)
			}
			if p.Version != nil {
				fmt.Fprintf(&sb, " ver=%q/%q", p.Version.Operator, p.Version.Number)
			}
			if p.Architectures != nil && len(p.Architectures.Architectures) > 0 {
				fmt.Fprintf(&sb, " archs(not=%v)=[", p.Architectures.Not)
				for _, a := range p.Architectures.Architectures {
					sb.WriteString(a.ABI + "/" + a.OS + "/" + a.CPU + " ")
				}
				sb.WriteString("]")
			}
			if p.Architectures != nil && len(p.Architectures.Architectures) == 0 && p.Architectures.Not {
				sb.WriteString(" archs(not=true)=[]") // a negation flag without a list: no field denotes that
			}
			for _, g := range p.StageSets {
				sb.WriteString(" <")
				for _, s := range g.Stages {
					fmt.Fprintf(&sb, "%v:%q ", s.Not, s.Name)
				}
				sb.WriteString(">")
			}
			sb.WriteString("}")
		}
		sb.WriteString("}")
	}
	return sb.String()
}

// ---- rendering with explicit gaps ----

// Gap kinds: where whitespace may legally vary. Each kind has a default and a list of alternatives.
type GapKind int

const (
	GapFieldStart   GapKind = iota // before the first token: default ""
	GapFieldEnd                    // after the last token: default ""
	GapBeforeComma                 // default ""
	GapAfterComma                  // default " "
	GapAroundPipe                  // default " "
	GapBeforeGroup                 // between name/qualifier/previous group and '(' '[' '<': default " "
	GapInsideOpen                  // after '(' '[' '<': default ""
	GapInsideClose                 // before ')' ']' '>': default ""
	GapOpVersion                   // between operator and version: default " "
	GapBetweenNames                // between architecture / profile names: default " " (at least one blank required)
)

var gapDefault = map[GapKind]string{GapFieldStart: "", GapFieldEnd: "", GapBeforeComma: "", GapAfterComma: " ", GapAroundPipe: " ",
	GapBeforeGroup: " ", GapInsideOpen: "", GapInsideClose: "", GapOpVersion: " ", GapBetweenNames: " "}

// GapAlternatives returns the legal non-default spellings of a gap (Policy 7.1: whitespace may appear
// anywhere between tokens, and fields may be folded, so tab / newline / newline+space are as legal as a blank).
func GapAlternatives(k GapKind) []string {
	all := []string{"", " ", "  ", "\t", "\n", "\n "}
	var out []string
	for _, a := range all {
		if a == gapDefault[k] {
			continue
		}
		if a == "" && k == GapBetweenNames {
			continue // names must stay separated
		}
		out = append(out, a)
	}
	return out
}

// Seg is a piece of a rendering: literal text or a gap.
type Seg struct {
	Text string
	Gap  bool
	Kind GapKind
}

func lit(s string) Seg  { return Seg{Text: s} }
func gap(k GapKind) Seg { return Seg{Gap: true, Kind: k} }

// Segments renders the AST into literal and gap segments.
func (d ADep) Segments() []Seg {
	var out []Seg
	out = append(out, gap(GapFieldStart))
	for ri, r := range d {
		if ri > 0 {
			out = append(out, gap(GapBeforeComma), lit(","), gap(GapAfterComma))
		}
		for pi, p := range r {
			if pi > 0 {
				out = append(out, gap(GapAroundPipe), lit("|"), gap(GapAroundPipe))
			}
			if p.Substvar {
				out = append(out, lit("${"+p.Name+"}"))
				continue
			}
			nm := p.Name
			if p.Qual != "" {
				nm += ":" + p.Qual
			}
			out = append(out, lit(nm))
			pg := 0
			for _, g := range p.Groups {
				out = append(out, gap(GapBeforeGroup))
				switch g {
				case 'v':
					out = append(out, lit("("), gap(GapInsideOpen), lit(p.Op), gap(GapOpVersion), lit(p.Num), gap(GapInsideClose), lit(")"))
				case 'a':
					out = append(out, lit("["), gap(GapInsideOpen))
					for i, a := range p.Archs {
						if i > 0 {
							out = append(out, gap(GapBetweenNames))
						}
						if p.ArchNot {
							a = "!" + a
						}
						out = append(out, lit(a))
					}
					out = append(out, gap(GapInsideClose), lit("]"))
				case 'p':
					out = append(out, lit("<"), gap(GapInsideOpen))
					for i, s := range p.Profiles[pg] {
						if i > 0 {
							out = append(out, gap(GapBetweenNames))
						}
						n := s.Name
						if s.Not {
							n = "!" + n
						}
						out = append(out, lit(n))
					}
					out = append(out, gap(GapInsideClose), lit(">"))
					pg++
				}
			}
		}
	}
	out = append(out, gap(GapFieldEnd))
	return out
}

// RenderDefault renders with every gap at its default.
func RenderSegs(segs []Seg, choice func(gapIndex int, k GapKind) string) string {
	var sb strings.Builder
	gi := 0
	for _, s := range segs {
		if s.Gap {
			sb.WriteString(choice(gi, s.Kind))
			gi++
		} else {
			sb.WriteString(s.Text)
		}
	}
	return sb.String()
}

func (d ADep) Render() string {
	return RenderSegs(d.Segments(), func(_ int, k GapKind) string { return gapDefault[k] })
}

// GapCount returns the number of gaps of a segment list.
func GapCount(segs []Seg) int {
	n := 0
	for _, s := range segs {
		if s.Gap {
			n++
		}
	}
	return n
}

// GapDefault exposes the default spelling.
func GapDefault(k GapKind) string { return gapDefault[k] }

// ---- shape alphabets ----

// PossShapes returns the full product of possibility shapes described in DESIGN §3 C04.
// names: package names; vers: version texts; thorough adds more of each dimension.
func PossShapes(names, quals, ops, vers []string, archLists [][]string, profSets [][][]AStage) []APoss {
	var out []APoss
	for _, n := range names {
		for _, q := range quals {
			// version: none or op x ver
			type vv struct{ op, num string }
			vs := []vv{{}}
			for _, o := range ops {
				for _, v := range vers {
					vs = append(vs, vv{o, v})
				}
			}
			for _, v := range vs {
				for ai, al := range archLists {
					for _, neg := range []bool{false, true} {
						if len(al) == 0 && neg {
							continue
						}
						_ = ai
						for _, ps := range profSets {
							base := APoss{Name: n, Qual: q, Op: v.op, Num: v.num, Archs: al, ArchNot: neg, Profiles: ps}
							// all orders of the groups present (profile groups keep their relative order)
							var kinds []byte
							if v.op != "" {
								kinds = append(kinds, 'v')
							}
							if len(al) > 0 {
								kinds = append(kinds, 'a')
							}
							for range ps {
								kinds = append(kinds, 'p')
							}
							for _, ord := range distinctPerms(kinds) {
								p := base
								p.Groups = ord
								out = append(out, p)
							}
						}
					}
				}
			}
		}
	}
	return out
}

func distinctPerms(k []byte) []string {
	if len(k) == 0 {
		return []string{""}
	}
	seen := map[string]bool{}
	var out []string
	var rec func(rest []byte, cur []byte)
	rec = func(rest, cur []byte) {
		if len(rest) == 0 {
			s := string(cur)
			if !seen[s] {
				seen[s] = true
				out = append(out, s)
			}
			return
		}
		used := map[byte]bool{}
		for i, c := range rest {
			if used[c] {
				continue
			}
			used[c] = true
			nr := append(append([]byte{}, rest[:i]...), rest[i+1:]...)
			rec(nr, append(cur, c))
		}
	}
	rec(k, nil)
	return out
}
