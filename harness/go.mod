module verifharness

go 1.22.0

toolchain go1.23.5

require (
	github.com/kjk/lzma v0.0.0-20161016003348-3fd93898850d
	github.com/klauspost/compress v1.16.5
	golang.org/x/crypto v0.9.0
	pault.ag/go/debian v0.0.0
)

require (
	golang.org/x/mod v0.22.0 // indirect
	golang.org/x/sync v0.10.0 // indirect
)

require (
	github.com/xi2/xz v0.0.0-20171230120015-48954b6210f8 // indirect
	golang.org/x/tools v0.29.0
	pault.ag/go/topsort v0.1.1 // indirect
)

replace pault.ag/go/debian => /repo
