module verifharness

go 1.19

require pault.ag/go/debian v0.0.0

replace pault.ag/go/debian => /repo
