package audit

import (
	"encoding/json"
	"os"
)

// WriteBaseline collects the literals of root and writes them as the new baseline file.
func WriteBaseline(root, path string) error {
	l, err := Collect(root)
	if err != nil {
		return err
	}
	b, _ := json.MarshalIndent(l, "", " ")
	return os.WriteFile(path, append(b, '\n'), 0o644)
}
