// Package audit implements the alphabet audit: it collects the character, string and integer literals of the
// repository's non-test Go sources AS THEY ARE NOW and subtracts the committed baseline (the literals of the tree
// the checks were developed against). Whatever is left was introduced by a change to the code under test - a new
// special-cased name, a new boundary constant, a new character class - and is injected into the scenarios'
// alphabets for this run, so that a change which makes the code sensitive to a value the small alphabets do not
// contain widens the exploration instead of escaping it. On the unchanged tree the delta is empty.
package audit

import (
	_ "embed"
	"encoding/json"
	"go/ast"
	"go/parser"
	"go/token"
	"os"
	"path/filepath"
	"sort"
	"strconv"
	"strings"
	"sync"
)

//go:embed baseline.json
var baselineJSON []byte

// Lits is a set of literals per package directory ("version", "dependency", ...).
type Lits struct {
	Strings map[string][]string `json:"strings"`
	Ints    map[string][]int64  `json:"ints"`
}

// Collect parses every non-test .go file under root and returns its literals per package directory.
func Collect(root string) (*Lits, error) {
	out := &Lits{Strings: map[string][]string{}, Ints: map[string][]int64{}}
	fset := token.NewFileSet()
	err := filepath.Walk(root, func(p string, info os.FileInfo, err error) error {
		if err != nil {
			return nil
		}
		if info.IsDir() {
			if name := info.Name(); name == ".git" || name == "testdata" || name == "verifhook" {
				return filepath.SkipDir
			}
			return nil
		}
		if !strings.HasSuffix(p, ".go") || strings.HasSuffix(p, "_test.go") {
			return nil
		}
		f, err := parser.ParseFile(fset, p, nil, parser.SkipObjectResolution)
		if err != nil {
			return nil
		}
		rel, _ := filepath.Rel(root, filepath.Dir(p))
		ast.Inspect(f, func(n ast.Node) bool {
			switch x := n.(type) {
			case *ast.ImportSpec:
				return false
			case *ast.Field:
				// struct tags are field metadata, not data values
				if x.Tag != nil {
					if s, err := strconv.Unquote(x.Tag.Value); err == nil {
						for _, part := range strings.Fields(s) {
							if i := strings.Index(part, ":"); i > 0 {
								if v, err := strconv.Unquote(part[i+1:]); err == nil {
									out.Strings[rel] = append(out.Strings[rel], v)
								}
							}
						}
					}
				}
			case *ast.BasicLit:
				switch x.Kind {
				case token.STRING:
					if s, err := strconv.Unquote(x.Value); err == nil {
						out.Strings[rel] = append(out.Strings[rel], s)
					}
				case token.CHAR:
					if s, err := strconv.Unquote(x.Value); err == nil {
						out.Strings[rel] = append(out.Strings[rel], s)
					}
				case token.INT:
					if v, err := strconv.ParseInt(x.Value, 0, 64); err == nil {
						out.Ints[rel] = append(out.Ints[rel], v)
					}
				}
			}
			return true
		})
		return nil
	})
	for k := range out.Strings {
		out.Strings[k] = dedupS(out.Strings[k])
	}
	for k := range out.Ints {
		out.Ints[k] = dedupI(out.Ints[k])
	}
	return out, err
}

func dedupS(in []string) []string {
	sort.Strings(in)
	var out []string
	for i, s := range in {
		if i == 0 || in[i-1] != s {
			out = append(out, s)
		}
	}
	return out
}

func dedupI(in []int64) []int64 {
	sort.Slice(in, func(i, j int) bool { return in[i] < in[j] })
	var out []int64
	for i, s := range in {
		if i == 0 || in[i-1] != s {
			out = append(out, s)
		}
	}
	return out
}

// Delta is what the current tree has and the baseline has not.
type Delta struct {
	Strings []string // new string / character literals (any package), short ones only, without format strings
	Chars   []string // the single-byte and single-rune ones among them
	Ints    []int64  // new integer literals
	Err     string   // set when the audit could not run
}

var (
	once  sync.Once
	delta Delta
)

// RepoDir is the tree the running check was built against.
func RepoDir() string {
	if d := os.Getenv("VERIF_REPO_DIR"); d != "" {
		return d
	}
	return "/repo"
}

// Get computes the delta once per process.
func Get() Delta {
	once.Do(func() {
		var base Lits
		if err := json.Unmarshal(baselineJSON, &base); err != nil {
			delta.Err = "baseline: " + err.Error()
			return
		}
		cur, err := Collect(RepoDir())
		if err != nil {
			delta.Err = err.Error()
			return
		}
		// literals are compared module-wide: a constant that merely moved between packages is not new
		haveS := map[string]bool{}
		for _, l := range base.Strings {
			for _, s := range l {
				haveS[s] = true
			}
		}
		haveI := map[int64]bool{}
		for _, l := range base.Ints {
			for _, v := range l {
				haveI[v] = true
			}
		}
		seenS := map[string]bool{}
		for _, l := range cur.Strings {
			for _, s := range l {
				if haveS[s] || seenS[s] || s == "" || len(s) > 40 || strings.Contains(s, "%") {
					continue
				}
				seenS[s] = true
				delta.Strings = append(delta.Strings, s)
				if len([]rune(s)) == 1 {
					delta.Chars = append(delta.Chars, s)
				}
			}
		}
		seenI := map[int64]bool{}
		for _, l := range cur.Ints {
			for _, v := range l {
				if !haveI[v] && !seenI[v] {
					seenI[v] = true
					delta.Ints = append(delta.Ints, v)
				}
			}
		}
		sort.Strings(delta.Strings)
		sort.Strings(delta.Chars)
		sort.Slice(delta.Ints, func(i, j int) bool { return delta.Ints[i] < delta.Ints[j] })
		// bounded: a change that introduces dozens of literals (a new table) is used up to these caps
		if len(delta.Strings) > 24 {
			delta.Strings = delta.Strings[:24]
		}
		if len(delta.Chars) > 6 {
			delta.Chars = delta.Chars[:6]
		}
		if len(delta.Ints) > 12 {
			delta.Ints = delta.Ints[:12]
		}
	})
	return delta
}

// Evidence returns what goes into the evidence file.
func Evidence() map[string]interface{} {
	d := Get()
	return map[string]interface{}{"new_string_literals": d.Strings, "new_char_literals": d.Chars, "new_int_literals": d.Ints, "error": d.Err,
		"note": "literals of the current tree that the committed baseline (harness/audit/baseline.json) does not contain; they are added to this run's alphabets"}
}
