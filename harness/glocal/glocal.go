// Package glocal gives the injected hook package a goroutine-local pointer: the goroutine's profiler-label slot
// (the very functions runtime/pprof uses). Reading it costs a few nanoseconds, and goroutines started later inherit
// it from their parent. Nothing in the harness uses pprof labels. Binaries using this are linked with
// -ldflags=-checklinkname=0.
package glocal

import "unsafe"

//go:linkname runtime_getProfLabel runtime/pprof.runtime_getProfLabel
func runtime_getProfLabel() unsafe.Pointer

//go:linkname runtime_setProfLabel runtime/pprof.runtime_setProfLabel
func runtime_setProfLabel(labels unsafe.Pointer)

func Get() unsafe.Pointer  { return runtime_getProfLabel() }
func Set(p unsafe.Pointer) { runtime_setProfLabel(p) }
