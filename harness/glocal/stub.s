// empty: allows bodyless (linknamed) function declarations in this package
