package c12

import (
	"encoding/hex"
	"fmt"
	"strings"

	"pault.ag/go/debian/control"

	"verifharness/mc"
)

// File names that look like digests (content-addressed pools): the listed file's NAME is a hex string of the length
// of the field's own digest, of the other algorithm's digest, in upper case, one digit short / long - and it IS the
// digest of another stream. In every line shape the pristine parser accepts for the field (3 words "hash size name",
// 2 words "name hash"; 5 words "hash size section priority name" for the Files field of a .changes), the parsed
// entry must carry the hash / size / name the line says by the pristine rule, and its verifier must accept the true
// content and reject the stream whose digest equals the file name.

var nameKinds = []string{"plain", "own-length-digest-of-other-stream", "other-length-digest-of-other-stream", "upper-case-digest-of-other-stream",
	"one-digit-short", "one-digit-long", "own-digest-again"}

func digestLikeName(kind, algo string, x, y []byte) string {
	d := hex.EncodeToString(refDigest(algo, y))
	switch kind {
	case "plain":
		return "pkg_1.0.orig.tar.gz"
	case "own-length-digest-of-other-stream":
		return d
	case "other-length-digest-of-other-stream":
		return hex.EncodeToString(refDigest(otherAlgo(algo), y))
	case "upper-case-digest-of-other-stream":
		return strings.ToUpper(d)
	case "one-digit-short":
		return d[1:]
	case "one-digit-long":
		return d + "0"
	case "own-digest-again":
		return hex.EncodeToString(refDigest(algo, x))
	}
	return ""
}

func checkNames(scen string, in In) (viol *mc.Violation, class string) {
	algo := ownAlgo(in.Carrier, in.Fields)
	if in.Carrier == "changes-files" {
		algo = "md5"
	}
	if algo == "" || in.Entry < 0 || in.Entry > 1 {
		return nil, ""
	}
	x, y := unhex(in.Stream), unhex(in.Other)
	name := digestLikeName(in.NameKind, map[bool]string{true: "sha256", false: algo}[algo == "md5"], x, y)
	if name == "" {
		return nil, ""
	}
	feat := []string{"carrier-" + in.Carrier, "line-" + in.Shape, "file-name-" + in.NameKind}
	// two listed files: the entry under test (content x, digest-like name) and a plain one (content y)
	type file struct {
		content []byte
		name    string
	}
	files := [2]file{{y, "other_1.0.dsc"}, {y, "other_1.0.dsc"}}
	files[in.Entry] = file{x, name}
	line := func(a string, f file) string {
		h := hex.EncodeToString(refDigest(a, f.content))
		switch in.Shape {
		case "3-word":
			return fmt.Sprintf(" %s %d %s\n", h, len(f.content), f.name)
		case "2-word":
			return fmt.Sprintf(" %s %s\n", f.name, h)
		case "5-word":
			return fmt.Sprintf(" %s %d utils optional %s\n", h, len(f.content), f.name)
		}
		return ""
	}
	var b strings.Builder
	switch in.Carrier {
	case "dsc":
		b.WriteString("Format: 3.0 (quilt)\nSource: pkg\nBinary: pkg\nArchitecture: any\nVersion: 1.0-1\nMaintainer: A B <a@b.example>\n")
	case "changes", "changes-files":
		b.WriteString("Format: 1.8\nSource: pkg\nBinary: pkg\nArchitecture: source\nVersion: 1.0-1\nDistribution: unstable\nMaintainer: A B <a@b.example>\n")
	default:
		b.WriteString("Package: pkg\n")
	}
	if in.Carrier == "changes-files" {
		if in.Shape != "5-word" {
			return nil, ""
		}
		b.WriteString("Files:\n" + line("md5", files[0]) + line("md5", files[1]))
	} else {
		if in.Shape == "5-word" {
			return nil, ""
		}
		if in.Fields == "256" || in.Fields == "both" {
			b.WriteString("Checksums-Sha256:\n" + line("sha256", files[0]) + line("sha256", files[1]))
		}
		if in.Fields == "512" || in.Fields == "both" {
			b.WriteString("Checksums-Sha512:\n" + line("sha512", files[0]) + line("sha512", files[1]))
		}
	}
	var es []control.FileHash
	var err error
	panicked, msg := mc.Guard(func() {
		if in.Carrier == "changes-files" {
			var d control.Changes
			if err = control.Unmarshal(&d, strings.NewReader(b.String())); err == nil {
				for _, e := range d.Files {
					es = append(es, e.FileHash)
				}
			}
			return
		}
		es, err = entriesOf(in, b.String())
	})
	if panicked {
		return mc.V(scen, "no-panic", in, "no panic", "panic: "+msg, feat...), "panic"
	}
	if err != nil || len(es) != 2 {
		return mc.V(scen, "field-decodes-to-its-entries", in, "2 entries, nil error", fmt.Sprintf("%d entries, error %v", len(es), err), feat...), "decode-failed"
	}
	got := es[in.Entry]
	// the selector may have taken the entry from either field when both are present
	okAlgo := ""
	for _, a := range []string{algo, otherAlgo(algo)} {
		if got.Hash == hex.EncodeToString(refDigest(a, x)) {
			okAlgo = a
			break
		}
	}
	wantSize := int64(len(x))
	if in.Shape == "2-word" {
		wantSize = 0
	}
	if okAlgo == "" || got.Filename != name || got.Size != wantSize {
		return mc.V(scen, "entry-fields-as-the-line-says", in, fmt.Sprintf("hash %s… size %d name %s", hex.EncodeToString(refDigest(algo, x))[:16], wantSize, name),
			fmt.Sprintf("hash %s size %d name %s", got.Hash, got.Size, got.Filename), feat...), "wrong-fields"
	}
	if algo == "md5" {
		return nil, "fields-as-written/md5-not-verifiable"
	}
	for i, c := range [][]byte{x, y} {
		want := shouldAccept(got.Hash, okAlgo, c)
		verdict, detail, _ := runVerifier(got, c, []int{len(c)})
		if (verdict == "accepted") != want {
			return mc.V(scen, "accepts-iff-digest-under-own-algorithm-equals-recorded", in, fmt.Sprintf("content %d (%s): accept=%v", i, hex.EncodeToString(c), want), verdict+" "+detail, feat...), "wrong-verdict"
		}
	}
	return nil, "fields-as-written/true-accepted/name-stream-rejected"
}

func namesScenario(r *mc.Run) {
	type cf struct{ carrier, fields string }
	cfs := []cf{{"doc-sha256", "256"}, {"doc-sha256", "both"}, {"doc-sha512", "512"}, {"doc-sha512", "both"}, {"best", "256"}, {"best", "512"}, {"best", "both"},
		{"dsc", "256"}, {"changes", "256"}, {"sourceindex", "256"}, {"changes-files", ""}}
	pairs := [][2][]byte{{{'a'}, {'a', 0}}, {{}, {0xff}}, {nonPeriodic(200), nonPeriodic(201)}}
	r.Scenario("digest-like-file-names", map[string]interface{}{"carrier/fields": fmt.Sprint(cfs), "line_shapes": "3-word (hash size name), 2-word (name hash), 5-word (.changes Files)",
		"file_names": nameKinds, "listed_entry": "0 and 1", "stream_pairs": len(pairs)}, len(cfs)*len(pairs), func(i int, st *mc.Stats) bool {
		c, p := cfs[i/len(pairs)], pairs[i%len(pairs)]
		for _, shape := range []string{"3-word", "2-word", "5-word"} {
			for _, nk := range nameKinds {
				for entry := 0; entry < 2; entry++ {
					in := In{Op: "names", Stream: hex.EncodeToString(p[0]), Other: hex.EncodeToString(p[1]), SumAt: -1, Carrier: c.carrier, Fields: c.fields, Shape: shape, NameKind: nk, Entry: entry}
					v, class := checkNames("digest-like-file-names", in)
					if class == "" {
						continue
					}
					st.Evals++
					st.Traces++
					st.Nontrivial++
					st.Class(shape + "/" + class)
					st.Violate(v)
					if i == 4 && nk == nameKinds[1] && entry == 0 && st.WantSample() {
						st.Sample(in)
					}
				}
			}
		}
		return true
	})
}
