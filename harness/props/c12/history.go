package c12

import (
	"encoding/hex"
	"fmt"
	"io"
	"strings"

	"pault.ag/go/debian/control"
	"pault.ag/go/debian/hashio"

	"verifharness/mc"
)

// Verifier histories: one FileHash VARIABLE, two entries e1 / e2 (contents Stream / Other), and operations
//
//	init:k      the variable starts as entry k
//	assign:k    variable = entry k                     (what a shared range variable or a reused variable does)
//	mut:hash:k  variable.Hash = digest text of content k under the variable's current algorithm (in place)
//	mut:algo    variable.Algorithm toggles sha256 <-> sha512 (in place)
//	mut:size / mut:name   variable.Size / .Filename change (in place)
//	open:k      v := variable.Verifier(); this verifier will be fed content k
//	write:i     its content goes to verifier i (two Write calls)
//	close:i     verifier i is closed: its verdict
//
// The statement makes the verdict a function of the ENTRY and the STREAM: verifier i must accept iff the bytes
// written to it have, under the algorithm the variable had when Verifier() was called, the digest its Hash text
// denoted at that moment. Whatever happens to the variable afterwards must not matter.

type histModel struct{ algo, hash string }

type histVerifier struct {
	snap    histModel
	content []byte
	off     int
	w       io.WriteCloser
	openErr error
}

func histEntries(in In, c [2][]byte) ([2]control.FileHash, error) {
	var e [2]control.FileHash
	names := [2]string{"pkg_1.0-1.dsc", "pkg_1.0.orig.tar.gz"}
	switch in.Carrier {
	case "struct":
		for k := 0; k < 2; k++ {
			e[k] = control.FileHash{Algorithm: in.Algos[k], Hash: hex.EncodeToString(refDigest(in.Algos[k], c[k])), Size: int64(len(c[k])), Filename: names[k]}
		}
	case "hasher":
		for k := 0; k < 2; k++ {
			h, err := hashio.NewHasher(in.Algos[k])
			if err != nil {
				return e, err
			}
			h.Write(c[k])
			e[k] = control.FileHashFromHasher(names[k], *h)
		}
	case "best":
		if in.Algos[0] != in.Algos[1] {
			return e, fmt.Errorf("not a case")
		}
		f := "256"
		if in.Algos[0] == "sha512" {
			f = "512"
		}
		pin := In{Carrier: "best", Fields: f}
		es, err := entriesOf(pin, paragraph(pin, c, "", ""))
		if err != nil || len(es) != 2 {
			return e, fmt.Errorf("decoding: %d entries, %v", len(es), err)
		}
		e[0], e[1] = es[0], es[1]
	default:
		return e, fmt.Errorf("not a case")
	}
	return e, nil
}

func histFeatures(in In) []string {
	f := []string{"carrier-" + in.Carrier}
	opened := false
	for _, op := range in.Hist {
		if strings.HasPrefix(op, "open:") {
			opened = true
		} else if opened && strings.HasPrefix(op, "assign:") {
			f = append(f, "variable-reassigned-after-open")
			break
		}
	}
	opened = false
	for _, op := range in.Hist {
		if strings.HasPrefix(op, "open:") {
			opened = true
		} else if opened && strings.HasPrefix(op, "mut:") {
			f = append(f, "variable-mutated-after-open")
			break
		}
	}
	return f
}

// checkHistory executes the history on the real code and on the model. Returns the outcome class too.
func checkHistory(scen string, in In) (viol *mc.Violation, class string) {
	if len(in.Algos) != 2 || len(in.Hist) == 0 {
		return nil, ""
	}
	for _, a := range in.Algos {
		if a != "sha256" && a != "sha512" {
			return nil, ""
		}
	}
	c := [2][]byte{unhex(in.Stream), unhex(in.Other)}
	feat := histFeatures(in)
	var verdicts []string
	panicked, msg := mc.Guard(func() {
		e, err := histEntries(in, c)
		if err != nil {
			if err.Error() != "not a case" {
				viol = mc.V(scen, "field-decodes-to-its-entries", in, "two entries", err.Error(), feat...)
			}
			return
		}
		var fh control.FileHash // THE variable
		var m histModel
		var vs []*histVerifier
		for step, op := range in.Hist {
			parts := strings.Split(op, ":")
			arg := 0
			if len(parts) > 1 && parts[len(parts)-1] == "2" {
				arg = 1
			}
			switch parts[0] {
			case "init", "assign":
				fh = e[arg]
				m = histModel{e[arg].Algorithm, e[arg].Hash}
			case "mut":
				switch parts[1] {
				case "hash":
					fh.Hash = hex.EncodeToString(refDigest(m.algo, c[arg]))
					m.hash = fh.Hash
				case "algo":
					fh.Algorithm = otherAlgo(m.algo)
					m.algo = fh.Algorithm
				case "size":
					fh.Size += 7
				case "name":
					fh.Filename += ".new"
				}
			case "open":
				if m.algo != "sha256" && m.algo != "sha512" {
					return // would terminate the process by design: not a case
				}
				w, err := fh.Verifier()
				vs = append(vs, &histVerifier{snap: m, content: c[arg], w: w, openErr: err})
			case "write", "close":
				i := 0
				if len(parts) > 1 && parts[1] == "1" {
					i = 1
				}
				if i >= len(vs) {
					return
				}
				v := vs[i]
				if v.openErr != nil || v.w == nil {
					if parts[0] == "close" {
						verdicts = append(verdicts, "rejected")
						if shouldAccept(v.snap.hash, v.snap.algo, v.content[:v.off]) {
							viol = mc.V(scen, "verdict-depends-on-entry-at-open-and-bytes-written", in, fmt.Sprintf("step %d: verifier %d accepts", step, i), fmt.Sprintf("Verifier() error: %v", v.openErr), feat...)
							return
						}
					}
					continue
				}
				if parts[0] == "write" {
					// the whole content, as two Write calls: first half (rounded up), then the rest
					for _, n := range []int{(len(v.content) + 1) / 2, len(v.content) / 2} {
						k, err := v.w.Write(v.content[v.off : v.off+n])
						if k != n || err != nil {
							viol = mc.V(scen, "write-result", in, fmt.Sprintf("(%d, nil)", n), fmt.Sprintf("(%d, %v)", k, err), feat...)
							return
						}
						v.off += n
					}
					continue
				}
				err := v.w.Close()
				want := shouldAccept(v.snap.hash, v.snap.algo, v.content[:v.off])
				got := err == nil
				verdicts = append(verdicts, map[bool]string{true: "accepted", false: "rejected"}[got])
				if got != want {
					viol = mc.V(scen, "verdict-depends-on-entry-at-open-and-bytes-written", in,
						fmt.Sprintf("step %d: verifier %d (opened on %s %s…, fed %d bytes) %s", step, i, v.snap.algo, v.snap.hash[:12], v.off, map[bool]string{true: "accepts", false: "rejects"}[want]),
						fmt.Sprintf("Close() = %v", err), feat...)
					return
				}
			}
		}
	})
	if panicked {
		return mc.V(scen, "no-panic", in, "no panic", "panic: "+msg, feat...), "panic"
	}
	if viol != nil {
		return viol, "violation"
	}
	if len(verdicts) == 0 {
		return nil, ""
	}
	return nil, strings.Join(verdicts, "+")
}

// historyScenario explores all histories up to a depth with mc.Explore (every enabled operation at every step).
func historyScenario(r *mc.Run) {
	type cfg struct {
		carrier string
		algos   []string
	}
	var cfgs []cfg
	for _, car := range []string{"struct", "hasher", "best"} {
		for _, al := range [][]string{{"sha256", "sha256"}, {"sha256", "sha512"}, {"sha512", "sha256"}, {"sha512", "sha512"}} {
			if car == "best" && al[0] != al[1] {
				continue
			}
			cfgs = append(cfgs, cfg{car, al})
		}
	}
	maxSteps := r.Pick(8, 9) // operations after init
	maxChanges := 2          // assignments + in-place mutations per history
	c1, c2 := "6100ff", "6100ff00"
	// shards: configuration x initial entry x first operation
	type shard struct {
		cfg   cfg
		init  int
		first int
	}
	var shards []shard
	for _, c := range cfgs {
		for init := 0; init < 2; init++ {
			for first := 0; first < 9; first++ {
				shards = append(shards, shard{c, init, first})
			}
		}
	}
	r.Scenario("verifier-histories", map[string]interface{}{"entry_sources": "FileHash struct literal, FileHashFromHasher, BestChecksums.Checksums()",
		"algorithms_of_e1_e2": "all four combinations of sha256/sha512 (same field for BestChecksums)", "max_operations": maxSteps, "max_assignments_and_mutations": maxChanges,
		"verifiers":  "at most 2, each opened once, fed content 1 or content 2 (two Write calls), closed; every interleaving of the operations",
		"operations": "assign:k mut:hash:k mut:algo mut:size mut:name open:k write:i close:i"}, len(shards),
		func(si int, st *mc.Stats) bool {
			sh := shards[si]
			ok := true
			cnt := 0
			_, div := mc.Explore(0, st, func(x *mc.X) {
				if cnt&4095 == 0 && r.Expired() {
					ok = false
				}
				cnt++
				if !ok {
					return
				}
				hist := []string{fmt.Sprintf("init:%d", sh.init+1)}
				type vst struct {
					written, closed bool
					chunks          int
				}
				var vs []vst
				changes := 0
				for step := 0; step < maxSteps; step++ {
					var en []string
					if changes < maxChanges {
						en = append(en, "assign:1", "assign:2", "mut:hash:1", "mut:hash:2", "mut:algo", "mut:size", "mut:name")
					}
					if len(vs) < 2 {
						en = append(en, "open:1", "open:2")
					}
					for i, v := range vs {
						if !v.closed && v.chunks < 1 {
							en = append(en, fmt.Sprintf("write:%d", i))
						}
						if !v.closed && v.chunks == 1 {
							en = append(en, fmt.Sprintf("close:%d", i))
						}
					}
					done := len(vs) > 0
					for _, v := range vs {
						if !v.closed {
							done = false
						}
					}
					if done {
						en = append(en, "stop")
					}
					if len(en) == 0 {
						break
					}
					var op string
					if step == 0 {
						// the shard fixes the first operation (of the fixed list below) to spread the work
						firsts := []string{"assign:1", "assign:2", "mut:hash:1", "mut:hash:2", "mut:algo", "mut:size", "mut:name", "open:1", "open:2"}
						op = firsts[sh.first]
					} else {
						op = en[x.Choose(len(en), "operation")]
					}
					if op == "stop" {
						break
					}
					hist = append(hist, op)
					switch {
					case strings.HasPrefix(op, "assign"), strings.HasPrefix(op, "mut"):
						changes++
					case strings.HasPrefix(op, "open"):
						vs = append(vs, vst{})
					case strings.HasPrefix(op, "write"):
						vs[int(op[6]-'0')].chunks++
					case strings.HasPrefix(op, "close"):
						vs[int(op[6]-'0')].closed = true
					}
				}
				// only complete histories count: every opened verifier closed, at least one opened
				if len(vs) == 0 {
					return
				}
				for _, v := range vs {
					if !v.closed {
						return
					}
				}
				in := In{Op: "history", Carrier: sh.cfg.carrier, Algos: sh.cfg.algos, Stream: c1, Other: c2, Hist: hist, SumAt: -1}
				v, class := checkHistory("verifier-histories", in)
				if class == "" {
					return
				}
				st.Evals++
				st.Traces++
				st.Nontrivial++
				st.Class(class)
				st.Violate(v)
				if cnt%7919 == 11 && si%40 == 3 && st.WantSample() {
					st.Sample(in)
				}
			})
			if div != "" {
				r.HarnessError("verifier-histories: %s", div)
			}
			return ok
		})
}
