package c12

import (
	"encoding/hex"
	"fmt"
	"strings"

	"pault.ag/go/debian/control"

	"verifharness/mc"
)

// Reuse histories of ONE value that embeds control.BestChecksums: it is decoded into again (the
// `var e T; for { dec.Decode(&e) }` loop), its exported lists are replaced by hand, it is reset to the zero value,
// and the selector is asked in between. Whatever the decoder does to a value that already holds data is not C12's
// business: after every operation the exported fields ARE the entries the value holds, and the oracle reads them.
//
//	decode:k  control.Unmarshal(&e, paragraph k)         edit:k  e's two lists := the lists of a fresh decode of paragraph k
//	zero      e = zero value                              ask     es := e.Checksums()
//
// Clause selector-returns-current-entries: Checksums() returns exactly the entries of the non-empty list the value
// holds NOW (of either list when both are non-empty - the preference is not settled by the statement), nothing when
// both are empty. Clause accepts-iff…: the verifier of every returned entry accepts the content whose digest the
// current list records for that file and rejects the other contents.

var reuseContents = [][]byte{{'a'}, {'a', 0}, {0xff, 'b'}, {0xff, 'b', 'c'}, {}}

// reuseParagraphs: fields present and the contents of the listed files.
var reuseParagraphs = []struct {
	fields string
	files  []int
}{
	{"256", []int{0, 1}},    // 1
	{"256", []int{2, 3}},    // 2: same number of files, other digests
	{"512", []int{2, 3}},    // 3: same number, the other algorithm only
	{"both", []int{0, 1}},   // 4
	{"256", []int{1, 2, 4}}, // 5: another number of files
	{"", nil},               // 6: no checksum field
	{"512", []int{1, 0}},    // 7
}

func reuseParagraph(k int) string {
	p := reuseParagraphs[k]
	var b strings.Builder
	b.WriteString("Package: pkg\n")
	for _, f := range []struct{ on, name, algo string }{{"256", "Checksums-Sha256", "sha256"}, {"512", "Checksums-Sha512", "sha512"}} {
		if p.fields == f.on || p.fields == "both" {
			b.WriteString(f.name + ":\n")
			for i, c := range p.files {
				fmt.Fprintf(&b, " %x %d file%d\n", refDigest(f.algo, reuseContents[c]), len(reuseContents[c]), i)
			}
		}
	}
	return b.String()
}

func sameFH(a, b []control.FileHash) bool {
	if len(a) != len(b) {
		return false
	}
	for i := range a {
		if a[i] != b[i] {
			return false
		}
	}
	return true
}

func checkReuse(scen string, in In) (viol *mc.Violation, class string) {
	if len(in.Hist) == 0 {
		return nil, ""
	}
	var feat []string
	asked, changed := false, false
	for _, op := range in.Hist {
		if op == "ask" {
			asked = true
		} else if asked {
			changed = true
		}
	}
	if changed {
		feat = append(feat, "value-changed-after-selector-was-asked")
	}
	var classes []string
	panicked, msg := mc.Guard(func() {
		var e bestDoc
		for step, op := range in.Hist {
			k := 0
			if i := strings.Index(op, ":"); i > 0 {
				fmt.Sscan(op[i+1:], &k)
				k--
				if k < 0 || k >= len(reuseParagraphs) {
					return
				}
			}
			switch {
			case strings.HasPrefix(op, "decode:"):
				if err := control.Unmarshal(&e, strings.NewReader(reuseParagraph(k))); err != nil {
					viol = mc.V(scen, "field-decodes-to-its-entries", in, fmt.Sprintf("step %d: paragraph decodes", step), err.Error(), feat...)
					return
				}
			case strings.HasPrefix(op, "edit:"):
				var f bestDoc
				if err := control.Unmarshal(&f, strings.NewReader(reuseParagraph(k))); err != nil {
					return
				}
				e.ChecksumsSha256, e.ChecksumsSha512 = f.ChecksumsSha256, f.ChecksumsSha512
			case op == "zero":
				e = bestDoc{}
			case op == "ask":
				var l256, l512 []control.FileHash
				for _, x := range e.ChecksumsSha256 {
					l256 = append(l256, x.FileHash)
				}
				for _, x := range e.ChecksumsSha512 {
					l512 = append(l512, x.FileHash)
				}
				res := e.BestChecksums.Checksums()
				ok := false
				switch {
				case len(l256) == 0 && len(l512) == 0:
					ok = len(res) == 0
				default:
					ok = (len(l256) > 0 && sameFH(res, l256)) || (len(l512) > 0 && sameFH(res, l512))
				}
				if !ok {
					viol = mc.V(scen, "selector-returns-current-entries", in, fmt.Sprintf("step %d: the entries the value holds now: sha256 %+v / sha512 %+v", step, l256, l512), fmt.Sprintf("%+v", res), feat...)
					return
				}
				classes = append(classes, fmt.Sprintf("%d", len(res)))
				// the verifiers of the returned entries
				for _, fh := range res {
					if fh.Algorithm != "sha256" && fh.Algorithm != "sha512" {
						viol = mc.V(scen, "selector-returns-current-entries", in, "sha256 / sha512 entries", fh.Algorithm, feat...)
						return
					}
					for _, c := range reuseContents {
						want := shouldAccept(fh.Hash, fh.Algorithm, c)
						verdict, detail, _ := runVerifier(fh, c, []int{len(c)})
						if (verdict == "accepted") != want {
							viol = mc.V(scen, "accepts-iff-digest-under-own-algorithm-equals-recorded", in, fmt.Sprintf("step %d: %s on content %s: accept=%v", step, fh.Filename, hex.EncodeToString(c), want), verdict+" "+detail, feat...)
							return
						}
					}
				}
			}
		}
	})
	if panicked {
		return mc.V(scen, "no-panic", in, "no panic", "panic: "+msg, feat...), "panic"
	}
	if viol != nil {
		return viol, "violation"
	}
	if len(classes) == 0 {
		return nil, ""
	}
	return nil, "entries-returned=" + strings.Join(classes, ",")
}

func reuseScenario(r *mc.Run) {
	var ops []string
	for k := range reuseParagraphs {
		ops = append(ops, fmt.Sprintf("decode:%d", k+1))
	}
	for k := range reuseParagraphs {
		ops = append(ops, fmt.Sprintf("edit:%d", k+1))
	}
	ops = append(ops, "zero", "ask")
	depth := r.Pick(5, 6)
	r.Scenario("selector-reuse-histories", map[string]interface{}{"operations": ops, "max_length": depth, "histories": "every sequence of operations up to the length that ends with ask",
		"paragraphs": "sha256 only (2 files), sha256 only (2 other files), sha512 only (2 files), both, sha256 only (3 files), none, sha512 only (2 files)"}, len(ops),
		func(first int, st *mc.Stats) bool {
			ok := true
			cnt := 0
			_, div := mc.Explore(0, st, func(x *mc.X) {
				if cnt&1023 == 0 && r.Expired() {
					ok = false
				}
				cnt++
				if !ok {
					return
				}
				hist := []string{ops[first]}
				for len(hist) < depth {
					c := x.Choose(len(ops)+1, "operation") // the extra alternative: stop here
					if c == len(ops) {
						break
					}
					hist = append(hist, ops[c])
				}
				// histories are arbitrary sequences (also continuing after an ask); only those ending with ask are run
				if hist[len(hist)-1] != "ask" {
					return
				}
				in := In{Op: "reuse", Hist: hist, SumAt: -1}
				v, class := checkReuse("selector-reuse-histories", in)
				if class == "" {
					return
				}
				st.Evals++
				st.Traces++
				st.Nontrivial++
				st.Class(class)
				st.Violate(v)
				if first == 1 && cnt%997 == 5 && st.WantSample() {
					st.Sample(in)
				}
			})
			if div != "" {
				r.HarnessError("selector-reuse-histories: %s", div)
			}
			return ok
		})
}
