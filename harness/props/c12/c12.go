// Package c12: checksums computed and verified by the library are the true digests
// (hashio writers/readers/Hasher, FileHash.Verifier, BestChecksums, FileHashFromHasher).
package c12

import (
	"bufio"
	"bytes"
	"crypto/md5"
	"crypto/sha1"
	"crypto/sha256"
	"crypto/sha512"
	"encoding/hex"
	"encoding/json"
	"fmt"
	"io"
	"sort"
	"strings"

	"pault.ag/go/debian/control"
	"pault.ag/go/debian/hashio"

	"verifharness/audit"
	"verifharness/gen"
	"verifharness/mc"
	"verifharness/props/reg"
)

func init() { reg.Register(&reg.Prop{ID: "C12", Run: Run, Replay: Replay}) }

// In is the replayable input of one execution. Which fields matter depends on Op.
type In struct {
	Op     string   `json:"op"`                     // writers | readers | writer1 | reader1 | hasher | unknown | verify
	Stream string   `json:"stream_hex"`             // the byte stream, hex
	Chunks []int    `json:"chunks,omitempty"`       // sizes of the successive Write calls / Read buffers (0 = empty write)
	Algos  []string `json:"algos,omitempty"`        // algorithm names handed to the constructor, in this order
	SumAt  int      `json:"sum_at"`                 // Sum/Size also observed before chunk number SumAt (-1: only at the end)
	Src    string   `json:"src,omitempty"`          // readers: delivery of the underlying reader: full | onebyte | dataeof | zero-once
	Via    string   `json:"via,omitempty"`          // how the chunks are pushed into the writer / pulled out of the reader ("" = Write / Read)
	PatLen int      `json:"pattern_len,omitempty"`  // > 0: the stream is pattern(PatLen) and stream_hex is empty (long streams)
	XorLen int      `json:"xorshift_len,omitempty"` // > 0: the stream is nonPeriodic(XorLen) and stream_hex is empty (large streams)
	Ctor   string   `json:"ctor,omitempty"`         // unknown: constructor under test
	// verify
	Carrier  string   `json:"carrier,omitempty"`       // where the entry comes from
	Fields   string   `json:"fields,omitempty"`        // which Checksums-* fields the paragraph has: 256 | 512 | both
	Kind     string   `json:"recorded,omitempty"`      // what the recorded hash is
	Other    string   `json:"other_hex,omitempty"`     // the second file's content (the "different stream")
	Entry    int      `json:"entry,omitempty"`         // which listed file is verified (0: Stream, 1: Other)
	RecText  string   `json:"recorded_text,omitempty"` // recorded = literal-text / near-hash: the hash text itself
	Shape    string   `json:"line_shape,omitempty"`    // op = names: 3-word | 2-word | 5-word
	NameKind string   `json:"name_kind,omitempty"`     // op = names: what the listed file's name looks like
	Hist     []string `json:"history,omitempty"`       // op = history: the operations (see history.go)
}

var allAlgos = []string{"md5", "sha1", "sha256", "sha512"}

// refDigest is the reference: the standard library digest of the whole string.
func refDigest(algo string, b []byte) []byte {
	switch algo {
	case "md5":
		s := md5.Sum(b)
		return s[:]
	case "sha1":
		s := sha1.Sum(b)
		return s[:]
	case "sha256":
		s := sha256.Sum256(b)
		return s[:]
	case "sha512":
		s := sha512.Sum512(b)
		return s[:]
	}
	return nil
}

func unhex(s string) []byte {
	b, err := hex.DecodeString(s)
	if err != nil {
		panic("c12: bad hex in input: " + s)
	}
	return b
}

func chunkFeatures(in In) []string {
	f := []string{"op-" + in.Op}
	for _, c := range in.Chunks {
		if c == 0 {
			f = append(f, "has-empty-chunk")
			break
		}
	}
	if in.SumAt >= 0 {
		f = append(f, "mid-stream-sum")
	}
	if in.Src != "" && in.Src != "full" {
		f = append(f, "src-"+in.Src)
	}
	if in.Via != "" && in.Via != "write" && in.Via != "read" {
		f = append(f, "via-"+in.Via)
	}
	return f
}

// ---- hashing oracle -------------------------------------------------------------------------

// observe compares every hasher with the reference for the bytes seen so far.
func observe(scen string, in In, hs []*hashio.Hasher, names []string, seen []byte, mid bool) *mc.Violation {
	pre := ""
	if mid {
		pre = "mid-"
	}
	if len(hs) != len(names) {
		// a list that repeats a name may come back with one Hasher per distinct name (first occurrences, in order)
		if d := gen.Dedup(append([]string(nil), names...)); len(d) == len(hs) && len(d) < len(names) {
			names = d
		}
	}
	if len(hs) != len(names) {
		return mc.V(scen, "constructor", in, fmt.Sprintf("%d hashers", len(names)), fmt.Sprintf("%d hashers", len(hs)), chunkFeatures(in)...)
	}
	for i, h := range hs {
		if h == nil {
			return mc.V(scen, "constructor", in, "non-nil hasher "+names[i], "nil", chunkFeatures(in)...)
		}
		if h.Name() != names[i] {
			return mc.V(scen, "name", in, names[i], h.Name(), chunkFeatures(in)...)
		}
		if h.Size() != int64(len(seen)) {
			return mc.V(scen, pre+"size-equals-length", in, fmt.Sprintf("%s size %d", names[i], len(seen)), fmt.Sprint(h.Size()), chunkFeatures(in)...)
		}
		want := refDigest(names[i], seen)
		got := h.Sum(nil)
		if !bytes.Equal(got, want) {
			return mc.V(scen, pre+"digest-equals-reference", in, fmt.Sprintf("%s %x", names[i], want), fmt.Sprintf("%x", got), chunkFeatures(in)...)
		}
	}
	return nil
}

// srcReader delivers the stream in one of three legal io.Reader styles.
type srcReader struct {
	b      []byte
	mode   string
	zeroed bool
}

func (s *srcReader) Read(p []byte) (int, error) {
	if s.mode == "zero-once" && !s.zeroed {
		s.zeroed = true
		return 0, nil // legal (if discouraged): no progress, no error
	}
	if len(s.b) == 0 {
		return 0, io.EOF
	}
	if len(p) == 0 {
		return 0, nil
	}
	n := len(p)
	if s.mode == "onebyte" {
		n = 1
	}
	if n > len(s.b) {
		n = len(s.b)
	}
	copy(p, s.b[:n])
	s.b = s.b[n:]
	if s.mode == "dataeof" && len(s.b) == 0 {
		return n, io.EOF
	}
	return n, nil
}

// checkHash is the oracle for the hashing half: pass-through, size and digests (also mid-stream).
func checkHash(scen string, in In) *mc.Violation {
	if in.PatLen > 0 {
		return checkHashBytes(scen, in, pattern(in.PatLen))
	}
	if in.XorLen > 0 {
		return checkHashBytes(scen, in, nonPeriodic(in.XorLen))
	}
	return checkHashBytes(scen, in, unhex(in.Stream))
}

// checkHashBytes: stream must be the decoding of in.Stream (the enumeration passes it along to avoid re-decoding).
func checkHashBytes(scen string, in In, stream []byte) (v *mc.Violation) {
	total := 0
	for _, c := range in.Chunks {
		if c < 0 {
			return nil
		}
		total += c
	}
	if total != len(stream) || (len(in.Algos) == 0 && in.Op != "writers" && in.Op != "readers") {
		return nil // not an input of this scenario
	}
	panicked, msg := mc.Guard(func() { v = checkHashInner(scen, in, stream) })
	if panicked {
		return mc.V(scen, "no-panic", in, "no panic", "panic: "+msg, chunkFeatures(in)...)
	}
	return v
}

func checkHashInner(scen string, in In, stream []byte) *mc.Violation {
	names := in.Algos
	var hs []*hashio.Hasher
	var w io.Writer
	var r io.Reader
	var sink bytes.Buffer
	var err error
	switch in.Op {
	case "writers":
		w, hs, err = hashio.NewHasherWriters(names, &sink)
	case "writer1":
		var h *hashio.Hasher
		names = names[:1]
		w, h, err = hashio.NewHasherWriter(names[0], &sink)
		hs = []*hashio.Hasher{h}
	case "hasher":
		var h *hashio.Hasher
		names = names[:1]
		h, err = hashio.NewHasher(names[0])
		hs = []*hashio.Hasher{h}
		if h != nil {
			w = h
		}
	case "readers":
		r, hs, err = hashio.NewHasherReaders(names, &srcReader{b: stream, mode: in.Src})
	case "reader1":
		var h *hashio.Hasher
		names = names[:1]
		r, h, err = hashio.NewHasherReader(names[0], &srcReader{b: stream, mode: in.Src})
		hs = []*hashio.Hasher{h}
	default:
		return nil
	}
	if err != nil || (w == nil && r == nil) {
		return mc.V(scen, "constructor", in, "no error for known algorithm names", fmt.Sprint("error: ", err), chunkFeatures(in)...)
	}
	if w != nil {
		return driveWriter(scen, in, stream, w, &sink, hs, names)
	}
	return driveReader(scen, in, stream, r, hs, names)
}

// hx renders bytes for a message (long streams are clipped).
func hx(b []byte) string {
	if len(b) > 48 {
		return fmt.Sprintf("%x… (%d bytes)", b[:48], len(b))
	}
	return fmt.Sprintf("%x", b)
}

// plainReader / plainWriter hide every optional interface (WriterTo, ReaderFrom, StringWriter) of what they wrap.
type plainReader struct{ r io.Reader }

func (p plainReader) Read(b []byte) (int, error) { return p.r.Read(b) }

// Ways of pushing one chunk into a writer. Every one of them is an ordinary use of an io.Writer; several reach the
// writer through optional fast paths (io.StringWriter via io.WriteString / strings.Reader.WriteTo / bufio.Writer,
// io.ReaderFrom via io.Copy, Write via bytes.Reader.WriteTo and bytes.Buffer.WriteTo).
var writerVias = []string{"write", "writestring", "copy-strings-reader", "copy-bytes-reader", "copy-bytes-buffer", "copy-plain-reader", "readfrom-if-any",
	"fprint", "bufio1-bytes", "bufio2-bytes", "bufio3-bytes", "bufio3-writestring"}

func driveWriter(scen string, in In, stream []byte, w io.Writer, sink *bytes.Buffer, hs []*hashio.Hasher, names []string) *mc.Violation {
	via := in.Via
	if via == "" {
		via = "write"
	}
	var bw *bufio.Writer
	if strings.HasPrefix(via, "bufio") {
		bw = bufio.NewWriterSize(w, int(via[5]-'0'))
	}
	push := func(p []byte) (int64, error) {
		switch via {
		case "write":
			n, err := w.Write(p)
			return int64(n), err
		case "writestring":
			n, err := io.WriteString(w, string(p))
			return int64(n), err
		case "copy-strings-reader":
			return io.Copy(w, strings.NewReader(string(p)))
		case "copy-bytes-reader":
			return io.Copy(w, bytes.NewReader(p))
		case "copy-bytes-buffer":
			return io.Copy(w, bytes.NewBuffer(append([]byte(nil), p...)))
		case "copy-plain-reader":
			return io.Copy(w, plainReader{bytes.NewReader(p)})
		case "readfrom-if-any":
			if rf, ok := w.(io.ReaderFrom); ok {
				return rf.ReadFrom(plainReader{bytes.NewReader(p)})
			}
			n, err := w.Write(p)
			return int64(n), err
		case "fprint":
			n, err := fmt.Fprint(w, string(p))
			return int64(n), err
		case "bufio1-bytes", "bufio2-bytes", "bufio3-bytes":
			for _, c := range p {
				if err := bw.WriteByte(c); err != nil {
					return 0, err
				}
			}
			return int64(len(p)), nil
		case "bufio3-writestring":
			n, err := bw.WriteString(string(p))
			return int64(n), err
		}
		return 0, fmt.Errorf("harness: unknown way of writing %q", via)
	}
	flush := func() *mc.Violation {
		if bw != nil {
			if err := bw.Flush(); err != nil {
				return mc.V(scen, "write-result", in, "Flush: nil", err.Error(), chunkFeatures(in)...)
			}
		}
		return nil
	}
	off := 0
	for i, c := range in.Chunks {
		if i == in.SumAt {
			if v := flush(); v != nil {
				return v
			}
			if v := observe(scen, in, hs, names, stream[:off], true); v != nil {
				return v
			}
		}
		n, err := push(stream[off : off+c])
		if n != int64(c) || err != nil {
			return mc.V(scen, "write-result", in, fmt.Sprintf("(%d, nil)", c), fmt.Sprintf("(%d, %v)", n, err), chunkFeatures(in)...)
		}
		off += c
	}
	if v := flush(); v != nil {
		return v
	}
	if in.SumAt == len(in.Chunks) {
		if v := observe(scen, in, hs, names, stream, true); v != nil {
			return v
		}
	}
	if in.Op != "hasher" && !bytes.Equal(sink.Bytes(), stream) {
		return mc.V(scen, "pass-through-identical", in, hx(stream), hx(sink.Bytes()), chunkFeatures(in)...)
	}
	return observe(scen, in, hs, names, stream, false)
}

// Ways of pulling the stream out of a reader. "read" uses the chunk list as successive buffer sizes; the others
// ignore it and use the standard helpers (which call Read with their own buffer sizes / through io.ReaderFrom).
var readerVias = []string{"read", "readall", "copy-buffer", "copy-discard", "copy-plain-writer", "bufio-readstring", "readfull", "readfull-chunks"}

type plainWriter struct{ w io.Writer }

func (p plainWriter) Write(b []byte) (int, error) { return p.w.Write(b) }

func driveReader(scen string, in In, stream []byte, r io.Reader, hs []*hashio.Hasher, names []string) *mc.Violation {
	via := in.Via
	if via == "" {
		via = "read"
	}
	// the chunk list gives the successive buffer sizes; afterwards the rest is drained
	got := make([]byte, 0, len(stream)+8)
	eof := false
	reads := 0
	var scratch [64]byte
	doRead := func(size int) *mc.Violation {
		buf := scratch[:]
		if size > len(buf) {
			buf = make([]byte, size)
		}
		buf = buf[:size]
		n, err := r.Read(buf)
		reads++
		if n < 0 || n > size {
			return mc.V(scen, "read-result", in, "0 <= n <= len(buf)", fmt.Sprint(n), chunkFeatures(in)...)
		}
		got = append(got, buf[:n]...)
		if err == io.EOF {
			eof = true
		} else if err != nil {
			return mc.V(scen, "read-result", in, "nil or io.EOF", err.Error(), chunkFeatures(in)...)
		}
		return nil
	}
	fail := func(what string, err error) *mc.Violation {
		return mc.V(scen, "read-result", in, what+": nil error", fmt.Sprint(err), chunkFeatures(in)...)
	}
	passThroughSeen := true
	switch via {
	case "read":
		for i, c := range in.Chunks {
			if i == in.SumAt {
				if v := observe(scen, in, hs, names, got, true); v != nil {
					return v
				}
			}
			if eof {
				continue
			}
			if v := doRead(c); v != nil {
				return v
			}
		}
	case "readall":
		b, err := io.ReadAll(r)
		if err != nil {
			return fail("io.ReadAll", err)
		}
		got, eof = b, true
	case "copy-buffer", "copy-plain-writer":
		var buf bytes.Buffer
		var err error
		if via == "copy-buffer" {
			_, err = io.Copy(&buf, r) // bytes.Buffer.ReadFrom
		} else {
			_, err = io.Copy(plainWriter{&buf}, r) // io.Copy's own 32 KiB loop
		}
		if err != nil {
			return fail("io.Copy", err)
		}
		got, eof = buf.Bytes(), true
	case "copy-discard":
		n, err := io.Copy(io.Discard, r)
		if err != nil || n != int64(len(stream)) {
			return mc.V(scen, "read-result", in, fmt.Sprintf("io.Copy to Discard = (%d, nil)", len(stream)), fmt.Sprintf("(%d, %v)", n, err), chunkFeatures(in)...)
		}
		eof, passThroughSeen = true, false
	case "bufio-readstring":
		br := bufio.NewReaderSize(r, 16)
		for i := 0; i <= len(stream)+1; i++ {
			s, err := br.ReadString('a')
			got = append(got, s...)
			if err == io.EOF {
				eof = true
				break
			}
			if err != nil {
				return fail("bufio.Reader.ReadString", err)
			}
		}
	case "readfull":
		buf := make([]byte, len(stream))
		if _, err := io.ReadFull(r, buf); err != nil {
			return fail("io.ReadFull", err)
		}
		got = buf
	case "readfull-chunks":
		for _, c := range in.Chunks {
			buf := make([]byte, c)
			if _, err := io.ReadFull(r, buf); err != nil {
				return fail("io.ReadFull", err)
			}
			got = append(got, buf...)
		}
	default:
		return mc.V(scen, "read-result", in, "a known way of reading", via, chunkFeatures(in)...)
	}
	for !eof && reads < 2*len(stream)+len(in.Chunks)+8 {
		if v := doRead(7); v != nil {
			return v
		}
	}
	if !eof {
		return mc.V(scen, "read-result", in, "io.EOF after the stream", "no EOF", chunkFeatures(in)...)
	}
	if via == "read" && in.SumAt == len(in.Chunks) {
		if v := observe(scen, in, hs, names, got, true); v != nil {
			return v
		}
	}
	if passThroughSeen && !bytes.Equal(got, stream) {
		return mc.V(scen, "pass-through-identical", in, hx(stream), hx(got), chunkFeatures(in)...)
	}
	return observe(scen, in, hs, names, stream, false)
}

// ---- unknown names ---------------------------------------------------------------------------

var ctors = []string{"GetHash", "NewHasher", "NewHasherWriter", "NewHasherReader", "NewHasherWriters", "NewHasherReaders"}

func knownName(s string) bool {
	for _, a := range allAlgos {
		if a == s {
			return true
		}
	}
	return false
}

// checkUnknown: a name list containing a name outside the four must make the constructor fail.
func checkUnknown(scen string, in In) (v *mc.Violation) {
	bad := false
	for _, a := range in.Algos {
		if !knownName(a) {
			bad = true
		}
	}
	if !bad || len(in.Algos) == 0 {
		return nil
	}
	feat := []string{"ctor-" + in.Ctor}
	var err error
	var gotNil bool
	panicked, msg := mc.Guard(func() {
		switch in.Ctor {
		case "GetHash":
			h, e := hashio.GetHash(in.Algos[0])
			err, gotNil = e, h == nil
		case "NewHasher":
			h, e := hashio.NewHasher(in.Algos[0])
			err, gotNil = e, h == nil
		case "NewHasherWriter":
			w, h, e := hashio.NewHasherWriter(in.Algos[0], io.Discard)
			err, gotNil = e, h == nil && w == nil
		case "NewHasherReader":
			r, h, e := hashio.NewHasherReader(in.Algos[0], strings.NewReader("x"))
			err, gotNil = e, h == nil && r == nil
		case "NewHasherWriters":
			w, hs, e := hashio.NewHasherWriters(in.Algos, io.Discard)
			err, gotNil = e, hs == nil && w == nil
		case "NewHasherReaders":
			r, hs, e := hashio.NewHasherReaders(in.Algos, strings.NewReader("x"))
			err, gotNil = e, hs == nil && r == nil
		default:
			err = fmt.Errorf("not a constructor")
		}
	})
	if panicked {
		return mc.V(scen, "no-panic", in, "an error", "panic: "+msg, feat...)
	}
	if err == nil {
		return mc.V(scen, "unknown-name-is-an-error", in, "an error", fmt.Sprintf("nil error (results nil: %v)", gotNil), feat...)
	}
	return nil
}

// ---- verifier oracle -------------------------------------------------------------------------

// Carriers: where the FileHash under test comes from.
var parsedCarriers = []string{"doc-sha256", "doc-sha512", "best", "dsc", "changes", "sourceindex"}

type shaDoc struct {
	control.Paragraph
	Package string
	Sha256  []control.SHA256FileHash `control:"Checksums-Sha256" delim:"\n" strip:"\n\r\t "`
	Sha512  []control.SHA512FileHash `control:"Checksums-Sha512" delim:"\n" strip:"\n\r\t "`
}

type bestDoc struct {
	control.Paragraph
	Package string
	control.BestChecksums
}

// ownAlgo: the algorithm of the field the entry is taken from ("" = combination not meaningful).
func ownAlgo(carrier, fields string) string {
	switch carrier {
	case "doc-sha256", "dsc", "changes", "sourceindex":
		if fields == "256" || fields == "both" {
			return "sha256"
		}
	case "doc-sha512":
		if fields == "512" || fields == "both" {
			return "sha512"
		}
	case "best":
		switch fields {
		case "256", "both":
			return "sha256" // Checksums(): SHA-256 entries are preferred when present
		case "512":
			return "sha512"
		}
	case "hasher-sha256", "struct-sha256":
		return "sha256"
	case "hasher-sha512", "struct-sha512":
		return "sha512"
	}
	return ""
}

func otherAlgo(a string) string {
	if a == "sha256" {
		return "sha512"
	}
	return "sha256"
}

var recordedKinds = []string{"true-digest", "other-stream", "truncated-byte", "truncated-nibble", "extended", "other-algorithm", "upper-case", "non-hex"}

// recorded builds the recorded hash string of the entry under test.
func recorded(kind, algo string, target, other []byte, literal string) string {
	t := hex.EncodeToString(refDigest(algo, target))
	switch kind {
	case "true-digest":
		return t
	case "other-stream":
		return hex.EncodeToString(refDigest(algo, other))
	case "truncated-byte":
		return t[:len(t)-2]
	case "truncated-nibble":
		return t[:len(t)-1]
	case "extended":
		return t + "00"
	case "other-algorithm":
		return hex.EncodeToString(refDigest(otherAlgo(algo), target))
	case "upper-case":
		return strings.ToUpper(t)
	case "non-hex":
		return "g" + t[1:]
	case "literal-text", "near-hash":
		if len(strings.Fields(literal)) == 1 && strings.TrimSpace(literal) == literal {
			return literal
		}
	}
	return ""
}

// shouldAccept is the reference verdict: the recorded text, read as hexadecimal (either case), is exactly the
// stream's digest under the entry's own algorithm.
func shouldAccept(rec, algo string, content []byte) bool {
	b, err := hex.DecodeString(rec)
	return err == nil && bytes.Equal(b, refDigest(algo, content))
}

func verifyFeatures(in In) []string {
	f := []string{"carrier-" + in.Carrier, "recorded-" + in.Kind}
	switch in.Fields {
	case "256":
		f = append(f, "fields-sha256-only")
	case "512":
		f = append(f, "fields-sha512-only")
	case "both":
		f = append(f, "fields-both")
	}
	return f
}

func fieldText(name, algo string, contents [2][]byte, recs [2]string) string {
	var b strings.Builder
	b.WriteString(name + ":\n")
	files := [2]string{"pkg_1.0-1.dsc", "pkg_1.0.orig.tar.gz"}
	for i := 0; i < 2; i++ {
		h := hex.EncodeToString(refDigest(algo, contents[i]))
		if recs[i] != "" {
			h = recs[i]
		}
		fmt.Fprintf(&b, " %s %d %s\n", h, len(contents[i]), files[i])
	}
	return b.String()
}

// paragraph renders the control paragraph for a parsed carrier. rec256 / rec512 replace the recorded hash of the
// listed entry in.Entry in the respective field ("" = that field records the true digest).
func paragraph(in In, contents [2][]byte, rec256, rec512 string) string {
	var r256, r512 [2]string
	r256[in.Entry] = rec256
	r512[in.Entry] = rec512
	var b strings.Builder
	switch in.Carrier {
	case "dsc":
		b.WriteString("Format: 3.0 (quilt)\nSource: pkg\nBinary: pkg\nArchitecture: any\nVersion: 1.0-1\nMaintainer: A B <a@b.example>\n")
	case "changes":
		b.WriteString("Format: 1.8\nSource: pkg\nBinary: pkg\nArchitecture: source\nVersion: 1.0-1\nDistribution: unstable\nMaintainer: A B <a@b.example>\n")
	case "sourceindex":
		b.WriteString("Package: pkg\nBinary: pkg\nVersion: 1.0-1\nMaintainer: A B <a@b.example>\nArchitecture: any\nDirectory: pool/main/p/pkg\n")
	default:
		b.WriteString("Package: pkg\n")
	}
	if in.Fields == "256" || in.Fields == "both" {
		b.WriteString(fieldText("Checksums-Sha256", "sha256", contents, r256))
	}
	if in.Fields == "512" || in.Fields == "both" {
		b.WriteString(fieldText("Checksums-Sha512", "sha512", contents, r512))
	}
	return b.String()
}

// entriesOf decodes the paragraph with the real decoder and returns the FileHash list of the carrier.
func entriesOf(in In, text string) ([]control.FileHash, error) {
	var out []control.FileHash
	switch in.Carrier {
	case "doc-sha256", "doc-sha512":
		var d shaDoc
		if err := control.Unmarshal(&d, strings.NewReader(text)); err != nil {
			return nil, err
		}
		if in.Carrier == "doc-sha256" {
			for _, e := range d.Sha256 {
				out = append(out, e.FileHash)
			}
		} else {
			for _, e := range d.Sha512 {
				out = append(out, e.FileHash)
			}
		}
	case "best":
		var d bestDoc
		if err := control.Unmarshal(&d, strings.NewReader(text)); err != nil {
			return nil, err
		}
		out = d.BestChecksums.Checksums()
	case "dsc":
		var d control.DSC
		if err := control.Unmarshal(&d, strings.NewReader(text)); err != nil {
			return nil, err
		}
		for _, e := range d.ChecksumsSha256 {
			out = append(out, e.FileHash)
		}
	case "changes":
		var d control.Changes
		if err := control.Unmarshal(&d, strings.NewReader(text)); err != nil {
			return nil, err
		}
		for _, e := range d.ChecksumsSha256 {
			out = append(out, e.FileHash)
		}
	case "sourceindex":
		var d []control.SourceIndex
		if err := control.Unmarshal(&d, strings.NewReader(text)); err != nil {
			return nil, err
		}
		if len(d) != 1 {
			return nil, fmt.Errorf("%d paragraphs decoded", len(d))
		}
		for _, e := range d[0].ChecksumsSha256 {
			out = append(out, e.FileHash)
		}
	}
	return out, nil
}

// runVerifier feeds content to fh.Verifier() in the given chunks. verdict: accepted | rejected-by-verifier-error |
// rejected-by-write | rejected-at-close.
func runVerifier(fh control.FileHash, content []byte, chunks []int) (verdict string, detail string, second string) {
	if fh.Algorithm != "sha256" && fh.Algorithm != "sha512" {
		// Verifier() would call log.Fatalf (by design); never call it for such an entry
		return "not-callable", "entry algorithm is " + fh.Algorithm, ""
	}
	v, err := fh.Verifier()
	if err != nil || v == nil {
		return "rejected-by-verifier-error", fmt.Sprint(err), ""
	}
	off := 0
	for _, c := range chunks {
		n, err := v.Write(content[off : off+c])
		if n != c || err != nil {
			return "rejected-by-write", fmt.Sprintf("Write = (%d, %v)", n, err), ""
		}
		off += c
	}
	err = v.Close()
	err2 := v.Close()
	second = "second-close-nil"
	if err2 != nil {
		second = "second-close-error"
	}
	if err != nil {
		return "rejected-at-close", err.Error(), second
	}
	return "accepted", "", second
}

// checkVerify is the oracle of the verifier half. It returns the outcome class for the histogram too.
func checkVerify(scen string, in In) (*mc.Violation, string) {
	algo := ownAlgo(in.Carrier, in.Fields)
	if algo == "" || in.Entry < 0 || in.Entry > 1 {
		return nil, ""
	}
	contents := [2][]byte{unhex(in.Stream), unhex(in.Other)}
	target, other := contents[in.Entry], contents[1-in.Entry]
	fromHasher := strings.HasPrefix(in.Carrier, "hasher-")
	if fromHasher {
		// the entry is built by the library from a hasher that saw Stream; the verifier then sees the same
		// stream (true-digest) or the other one (other-stream)
		switch in.Kind {
		case "true-digest":
			target = contents[0]
		case "other-stream":
			target = contents[1]
		default:
			return nil, ""
		}
	}
	total := 0
	for _, c := range in.Chunks {
		if c < 0 {
			return nil, ""
		}
		total += c
	}
	if total != len(target) {
		return nil, ""
	}
	feat := verifyFeatures(in)
	var fh control.FileHash
	var want bool
	var viol *mc.Violation
	var verdict, detail, second string
	panicked, msg := mc.Guard(func() {
		if strings.HasPrefix(in.Carrier, "struct-") {
			// the entry is a FileHash value whose Hash field is the text itself (blanks and the empty text included)
			fh = control.FileHash{Algorithm: algo, Hash: in.RecText, Size: int64(len(target)), Filename: "pkg_1.0-1.dsc"}
			want = shouldAccept(in.RecText, algo, target)
		} else if fromHasher {
			h, err := hashio.NewHasher(algo)
			if err != nil {
				viol = mc.V(scen, "constructor", in, "hasher", err.Error(), feat...)
				return
			}
			h.Write(contents[0])
			fh = control.FileHashFromHasher("pkg_1.0-1.dsc", *h)
			want = bytes.Equal(refDigest(algo, contents[0]), refDigest(algo, target))
		} else {
			// the recorded hash of the listed entry, per field. For the selector with both fields present the
			// statement does not say which field is preferred: both fields are damaged alike and the entry's
			// own algorithm is that of the field its text came from.
			recs := map[string]string{algo: recorded(in.Kind, algo, target, other, in.RecText)}
			if in.Carrier == "best" && in.Fields == "both" {
				recs[otherAlgo(algo)] = recorded(in.Kind, otherAlgo(algo), target, other, in.RecText)
			}
			if recs[algo] == "" {
				return
			}
			text := paragraph(in, contents, recs["sha256"], recs["sha512"])
			es, err := entriesOf(in, text)
			if err != nil || len(es) != 2 {
				viol = mc.V(scen, "field-decodes-to-its-entries", in, "2 entries, nil error", fmt.Sprintf("%d entries, error %v", len(es), err), feat...)
				return
			}
			if es[in.Entry].Hash != recs[algo] {
				if o := otherAlgo(algo); recs[o] != "" && es[in.Entry].Hash == recs[o] {
					algo = o // the selector took the entry from the other field
				} else {
					viol = mc.V(scen, "field-decodes-to-its-entries", in, "entry "+fmt.Sprint(in.Entry)+" with hash text "+recs[algo], fmt.Sprintf("%+v", es[in.Entry]), feat...)
					return
				}
			}
			want = shouldAccept(es[in.Entry].Hash, algo, target)
			fh = es[in.Entry]
		}
		verdict, detail, second = runVerifier(fh, target, in.Chunks)
	})
	if panicked {
		return mc.V(scen, "no-panic", in, "no panic", "panic: "+msg, feat...), "panic"
	}
	if viol != nil {
		return viol, "decode-failed"
	}
	if verdict == "" {
		return nil, ""
	}
	got := verdict == "accepted"
	class := fmt.Sprintf("%s/%s", map[bool]string{true: "must-accept", false: "must-reject"}[want], verdict)
	if second != "" {
		class += "/" + second
	}
	if got != want {
		exp := "rejected"
		if want {
			exp = "accepted"
		}
		return mc.V(scen, "accepts-iff-digest-under-own-algorithm-equals-recorded", in,
			fmt.Sprintf("%s (entry's own algorithm: %s)", exp, algo),
			fmt.Sprintf("%s %s [entry: algorithm=%q hash=%q]", verdict, detail, fh.Algorithm, fh.Hash), feat...), class
	}
	return nil, class
}

// ---- enumeration -----------------------------------------------------------------------------

// compositions returns every ordered way of writing n as a sum of positive parts (n = 0: the empty list).
func compositions(n int) [][]int {
	if n == 0 {
		return [][]int{{}}
	}
	var out [][]int
	for mask := 0; mask < 1<<(n-1); mask++ {
		var parts []int
		run := 1
		for i := 0; i < n-1; i++ {
			if mask&(1<<i) != 0 {
				parts = append(parts, run)
				run = 1
			} else {
				run++
			}
		}
		parts = append(parts, run)
		out = append(out, parts)
	}
	return out
}

// withEmpty returns cs plus every way of inserting one empty chunk into each element of cs.
func withEmpty(cs [][]int) [][]int {
	out := append([][]int(nil), cs...)
	for _, c := range cs {
		for pos := 0; pos <= len(c); pos++ {
			d := make([]int, 0, len(c)+1)
			d = append(d, c[:pos]...)
			d = append(d, 0)
			d = append(d, c[pos:]...)
			out = append(out, d)
		}
	}
	return out
}

// fixedChunks cuts n into pieces of the given size.
func fixedChunks(n, size int) []int {
	var out []int
	for n > 0 {
		c := size
		if c > n {
			c = n
		}
		out = append(out, c)
		n -= c
	}
	return out
}

// selections: every non-empty ordered selection (no repetition) of the four names: 4+12+24+24 = 64.
func selections() [][]string {
	var out [][]string
	var rec func(cur []string, used int)
	rec = func(cur []string, used int) {
		if len(cur) > 0 {
			out = append(out, append([]string(nil), cur...))
		}
		for i, a := range allAlgos {
			if used&(1<<i) == 0 {
				rec(append(cur, a), used|1<<i)
			}
		}
	}
	rec(nil, 0)
	return out
}

func shortStreams(maxLen int) [][]byte {
	out := [][]byte{{}}
	level := [][]byte{{}}
	for l := 1; l <= maxLen; l++ {
		var next [][]byte
		for _, p := range level {
			for _, c := range []byte{0x00, 'a', 0xFF} {
				next = append(next, append(append([]byte(nil), p...), c))
			}
		}
		out = append(out, next...)
		level = next
	}
	return out
}

func pattern(n int) []byte {
	b := make([]byte, n)
	for i := range b {
		b[i] = byte((i*131 + 7) % 251)
	}
	return b
}

var longLens = []int{55, 56, 63, 64, 65, 111, 112, 119, 127, 128, 129, 1000}

// sumAts: positions at which Sum/Size are additionally observed.
func sumAts(chunks []int) []int {
	if len(chunks) <= 5 {
		out := []int{-1}
		for i := 0; i <= len(chunks); i++ {
			out = append(out, i)
		}
		return out
	}
	return []int{-1, len(chunks) / 2}
}

func lenClass(n int) string {
	switch {
	case n == 0:
		return "len0"
	case n <= 4:
		return "len1-4"
	case n <= 8:
		return "len5-8"
	}
	return "len55-1000"
}

type work struct {
	stream  []byte
	chunks  [][]int
	patLen  int               // > 0: stream == pattern(patLen); inputs carry the length instead of the bytes
	xorLen  int               // > 0: stream == nonPeriodic(xorLen); inputs carry the length instead of the bytes
	large   bool              // large stream: plain source only, observation at the end and mid-stream only
	allSels bool              // every selection with every way (no reduction)
	vias    map[bool][]string // non-nil: ways of writing (false) / reading (true) to use instead of all
}

// reducedSel: the selections used with the non-default ways of writing / reading (which exercise plumbing that
// does not depend on the order of many names): every single name, all four in table order and reversed, one pair.
func reducedSel(sel []string) bool {
	switch len(sel) {
	case 1:
		return true
	case 2:
		return sel[0] == "sha512" && sel[1] == "md5"
	case 4:
		return (sel[0] == "md5" && sel[1] == "sha1" && sel[2] == "sha256") || (sel[0] == "sha512" && sel[1] == "sha256" && sel[2] == "sha1")
	}
	return false
}

func hashScenario(r *mc.Run, name string, bounds map[string]interface{}, ws []work, ops []string, sels [][]string, srcs []string) {
	bounds["ways_of_writing"] = strings.Join(writerVias, ", ") + " (other than write: reduced selections, observation at end/mid)"
	bounds["ways_of_reading"] = strings.Join(readerVias, ", ") + " (other than read: reduced selections; helpers that choose their own buffer sizes once per stream); sources other than full with reduced selections"
	r.Scenario(name, bounds, len(ws), func(i int, st *mc.Stats) bool {
		w := ws[i]
		sh := ""
		if w.patLen == 0 && w.xorLen == 0 {
			sh = hex.EncodeToString(w.stream)
		}
		for ci, ch := range w.chunks {
			if ci%16 == 0 && r.Expired() {
				return false
			}
			for _, op := range ops {
				reader := op == "readers" || op == "reader1"
				ss := []string{""}
				vias := writerVias
				if reader {
					ss = append(append([]string(nil), srcs...), "zero-once")
					if w.large {
						ss = srcs
					}
					vias = readerVias
				}
				if w.vias != nil {
					vias = w.vias[reader]
				}
				for vi, via := range vias {
					chunkFree := reader && via != "read" && via != "readfull-chunks"
					if chunkFree && ci != 0 {
						continue
					}
					for _, src := range ss {
						for si, sel := range sels {
							// the full set of 64 selections is used with the plain way and the plain source; the other
							// ways / source styles concern plumbing that does not depend on the order of many names
							if (vi != 0 || (src != "" && src != "full")) && !w.allSels && !reducedSel(sel) {
								continue
							}
							ats := sumAts(ch)
							if w.large {
								ats = []int{-1, len(ch) / 2}
							}
							if vi != 0 {
								ats = []int{-1}
								if !reader && len(ch) > 0 {
									ats = []int{-1, len(ch) / 2}
								}
							}
							for _, at := range ats {
								in := In{Op: op, Stream: sh, PatLen: w.patLen, XorLen: w.xorLen, Chunks: ch, Algos: sel, SumAt: at, Src: src}
								if vi != 0 {
									in.Via = via
								}
								if chunkFree {
									in.Chunks = []int{len(w.stream)}
								}
								st.Evals++
								st.Traces++
								st.Transitions += int64(len(ch) + 1)
								if at >= 0 {
									st.Transitions++
								}
								if len(w.stream) > 0 {
									st.Nontrivial++
								}
								v := checkHashBytes(name, in, w.stream)
								cl := op
								if vi != 0 {
									cl += "/" + via
								}
								if v != nil {
									st.Violate(v)
									st.Class(cl + "/violation")
								} else if vi != 0 {
									st.Class(cl + "/agrees")
								} else {
									st.Class(cl + "/agrees/" + lenClass(len(w.stream)))
								}
								if i == len(ws)*2/3 && ci == len(w.chunks)/2 && (si == len(sels)*3/4 && vi == 0 || vi == 2 && len(sel) == 4 && sel[0] == "md5") && at == len(ch)/2 && src == ss[len(ss)/2] && op == ops[0] && st.WantSample() {
									st.Sample(in)
								}
							}
						}
					}
				}
			}
		}
		st.States++ // one state per stream; its chunkings/selections/observation points/ways are the transitions
		return true
	})
}

func selfCheck(r *mc.Run) {
	vec := []struct{ algo, in, want string }{
		{"md5", "", "d41d8cd98f00b204e9800998ecf8427e"},
		{"md5", "abc", "900150983cd24fb0d6963f7d28e17f72"},
		{"sha1", "", "da39a3ee5e6b4b0d3255bfef95601890afd80709"},
		{"sha1", "abc", "a9993e364706816aba3e25717850c26c9cd0d89d"},
		{"sha256", "", "e3b0c44298fc1c149afbf4c8996fb92427ae41e4649b934ca495991b7852b855"},
		{"sha256", "abc", "ba7816bf8f01cfea414140de5dae2223b00361a396177a9cb410ff61f20015ad"},
		{"sha512", "abc", "ddaf35a193617abacc417349ae20413112e6fa4e89a97ea20a9eeee64b55d39a2192992a274fc1a836ba3c23a3feebbd454d4423643ce80e2a9ac94fa54ca49f"},
	}
	for _, t := range vec {
		if hex.EncodeToString(refDigest(t.algo, []byte(t.in))) != t.want {
			r.HarnessError("reference digest %s(%q) is not the published test vector", t.algo, t.in)
		}
	}
	if n := len(selections()); n != 64 {
		r.HarnessError("selections(): %d, want 64", n)
	}
	for n, want := range map[int]int{0: 1, 1: 1, 4: 8, 8: 128} {
		if len(compositions(n)) != want {
			r.HarnessError("compositions(%d): %d, want %d", n, len(compositions(n)), want)
		}
	}
	// the verdict function: case-insensitive hexadecimal, exact length
	d := refDigest("sha256", []byte("abc"))
	if !shouldAccept(strings.ToUpper(hex.EncodeToString(d)), "sha256", []byte("abc")) || shouldAccept(hex.EncodeToString(d[:31]), "sha256", []byte("abc")) ||
		shouldAccept(hex.EncodeToString(d)+"00", "sha256", []byte("abc")) || shouldAccept(hex.EncodeToString(d), "sha512", []byte("abc")) {
		r.HarnessError("shouldAccept self-check failed")
	}
}

func Run(r *mc.Run) {
	r.Rule = "product enumeration: (stream x chunking x ordered algorithm selection x observation point x constructor/reader style) for the hashing half, " +
		"(carrier x fields present x recorded-hash kind x listed entry x stream x chunking) for the verifier half; cases are distinct by construction; " +
		"a hashing case is non-trivial when the stream is non-empty, a verifier case when the reference verdict could be decided only by hashing (every case)"
	r.Assume = []string{
		"reference digests are crypto/md5, crypto/sha1, crypto/sha256, crypto/sha512 of the whole string (checked against the published test vectors on every run)",
		"recorded hashes are hexadecimal text read case-insensitively: an upper-case rendering of the true digest equals the recorded hash and must be accepted",
		"FileHash.Verifier is never called on md5/sha1 entries (it terminates the process by design); the statement restricts verification to SHA-256/SHA-512 entries",
		"the verdict of a verifier is its first Close; a second Close is only required not to panic",
		"streams beyond 1000 bytes and bytes other than 0x00, 'a', 0xFF in the exhaustive short streams are not explored",
	}
	selfCheck(r)

	sels := selections()
	single := [][]string{{"md5"}, {"sha1"}, {"sha256"}, {"sha512"}}
	srcs := []string{"full", "onebyte", "dataeof"}
	// short streams: all compositions, plus one empty chunk anywhere for the exhaustive alphabet part
	shortWork := func(L int) ([]work, map[string]interface{}) {
		var short []work
		for _, s := range shortStreams(L) {
			short = append(short, work{stream: s, chunks: withEmpty(compositions(len(s)))})
		}
		for n := L + 1; n <= 8; n++ {
			short = append(short, work{stream: pattern(n), chunks: compositions(n)})
			short = append(short, work{stream: bytes.Repeat([]byte{0xFF}, n), chunks: compositions(n)})
		}
		for _, t := range auditTexts() { // alphabet audit: literals a change introduced, as stream contents
			cs := [][]int{{len(t)}, {0, len(t)}, fixedChunks(len(t), 1), fixedChunks(len(t), 3)}
			if len(t) <= 6 {
				cs = withEmpty(compositions(len(t)))
			}
			short = append(short, work{stream: []byte(t), chunks: cs})
		}
		nch := 0
		for _, w := range short {
			nch += len(w.chunks)
		}
		return short, map[string]interface{}{"alphabet": "00 61 ff", "exhaustive_max_len": L, "extra_lengths": fmt.Sprintf("%d..8 (two streams each)", L+1),
			"chunkings": "every composition; one empty chunk inserted at every position for the exhaustive part", "stream_chunking_pairs": nch,
			"algorithm_selections": len(sels), "observation_points": "end only, and before every chunk / after the last (<=5 chunks) or mid (more)"}
	}
	short, b := shortWork(r.Pick(4, 6))
	hashScenario(r, "writers-short", b, short, []string{"writers"}, sels, nil)
	shortR, b2 := shortWork(r.Pick(4, 5)) // three deliveries: one length less in the thorough tier
	b2["source_delivery"] = srcs
	hashScenario(r, "readers-short", b2, shortR, []string{"readers"}, sels, srcs)
	_, b3 := shortWork(r.Pick(4, 6))
	b3["source_delivery"] = srcs
	b3["algorithm_selections"] = "each single name"
	b3["constructors"] = "NewHasherWriter, NewHasherReader, NewHasher (Write*/Sum/Write*/Sum directly on the Hasher)"
	hashScenario(r, "singular-short", b3, short, []string{"writer1", "reader1", "hasher"}, single, srcs)

	// long streams: block and padding boundaries of all four algorithms
	var long []work
	for _, n := range longLens {
		s := pattern(n)
		cs := [][]int{fixedChunks(n, 1), fixedChunks(n, 3), fixedChunks(n, 64), {n}, {0, n}, append(append(fixedChunks(64, 64), 0), fixedChunks(n-minInt(n, 64), 64)...)}
		if n <= 64 {
			cs[5] = []int{n, 0}
		}
		long = append(long, work{stream: s, chunks: cs})
	}
	hashScenario(r, "long-streams", map[string]interface{}{"lengths": longLens, "chunk_sizes": "1, 3, 64, whole, empty+whole, 64 with an empty write after the first block",
		"algorithm_selections": len(sels), "ops": "writers, readers (3 deliveries), writer1, reader1, hasher"}, long, []string{"writers", "readers"}, sels, srcs)
	hashScenario(r, "long-streams-singular", map[string]interface{}{"lengths": longLens, "algorithm_selections": "each single name"}, long, []string{"writer1", "reader1", "hasher"}, single, srcs)

	// splits around the block sizes: a write/read SHORTER than a block followed by one of AT LEAST a block (and every
	// other order) - every 2- and 3-part split whose cut points lie around the block sizes of the four algorithms
	// (64 for MD5/SHA-1/SHA-256, 128 for SHA-512), counted from the start and from the end; non-periodic content, so
	// that bytes hashed out of order change the digest; every way of writing / reading.
	{
		var ws []work
		lens := []int{130, 200, 300, 1100}
		if !r.Quick() {
			lens = append(lens, 65, 129, 257, 4200)
		}
		for _, n := range lens {
			ws = append(ws, work{stream: nonPeriodic(n), chunks: blockSplits(n)})
		}
		nsp := 0
		for _, w := range ws {
			nsp += len(w.chunks)
		}
		six := append(append([][]string(nil), single...), []string{"md5", "sha1", "sha256", "sha512"}, []string{"sha512", "sha256", "sha1", "md5"})
		hashScenario(r, "block-boundary-splits", map[string]interface{}{"lengths": lens, "content": "xorshift bytes (non-periodic)",
			"cut_points": "1 7 15 63 64 65 127 128 129 and len minus each of them", "splits": "every 2- and 3-part split over the cut points", "stream_split_pairs": nsp,
			"algorithm_selections": "each single name, all four in both orders"}, ws, []string{"writers", "readers", "writer1", "reader1", "hasher"}, six, srcs)
	}

	// algorithm lists WITH repetition: every list of 1..3 names over the four (84), and the empty list. Every returned
	// Hasher must report the stream's length and its own algorithm's digest whatever else is in the list; the
	// hashers come back one per request or one per distinct name. Empty list (reference: the unchanged tree): no
	// error, no hashers, bytes pass through.
	{
		lists := [][]string{{}}
		for _, a := range allAlgos {
			lists = append(lists, []string{a})
			for _, b := range allAlgos {
				lists = append(lists, []string{a, b})
				for _, c := range allAlgos {
					lists = append(lists, []string{a, b, c})
				}
			}
		}
		var ws []work
		vias := map[bool][]string{false: {"write", "writestring", "copy-strings-reader", "bufio3-writestring"}, true: {"read", "readall", "copy-buffer"}}
		for _, st := range shortStreams(2) {
			ws = append(ws, work{stream: st, chunks: withEmpty(compositions(len(st))), vias: vias, allSels: true})
		}
		for _, st := range [][]byte{pattern(65), nonPeriodic(200)} {
			ws = append(ws, work{stream: st, chunks: [][]int{{len(st)}, {1, len(st) - 1}, {len(st) - 1, 1}, fixedChunks(len(st), 64)}, vias: vias, allSels: true})
		}
		hashScenario(r, "repeated-names", map[string]interface{}{"algorithm_lists": len(lists), "lists": "every list of 0..3 names over the four, with repetition",
			"streams": "all |s|<=2 over 00 61 ff with every composition (+ one empty chunk), pattern(65), xorshift(200)"}, ws, []string{"writers", "readers"}, lists, []string{"full", "dataeof"})
	}

	// large chunks: single Write calls / Read results beyond 64 KiB, 128 KiB and 1 MiB (no audit help needed)
	{
		const Ki, Mi = 1 << 10, 1 << 20
		lens := []int{64*Ki - 1, 64 * Ki, 64*Ki + 1, 128*Ki - 1, 128 * Ki, 128*Ki + 1, 256*Ki + 1, Mi, Mi + 1}
		if !r.Quick() {
			lens = append(lens, 3*Mi)
		}
		vias := map[bool][]string{
			false: {"write", "writestring", "copy-bytes-reader", "copy-plain-reader", "readfrom-if-any"},
			true:  {"read", "readall", "copy-buffer", "copy-plain-writer", "readfull"}}
		var ws []work
		for _, n := range lens {
			s := nonPeriodic(n)
			cs := [][]int{{n}}
			for _, c := range []int{64*Ki - 1, 64 * Ki, 64*Ki + 1, 128*Ki - 1, 128 * Ki, 128*Ki + 1, Mi - 1, Mi, Mi + 1} {
				if c < n && (n < 3*Mi || c == 64*Ki+1 || c == 128*Ki+1 || c >= Mi-1) {
					cs = append(cs, []int{c, n - c})
				}
			}
			for _, b := range []int{64*Ki + 1, Mi, 2 * Mi} { // buffer sizes of successive reads (piece sizes of successive writes)
				if b < n {
					cs = append(cs, fixedChunks(n, b))
				}
			}
			for _, c := range cs { // one shard per stream and chunking
				ws = append(ws, work{stream: s, xorLen: n, chunks: [][]int{c}, vias: vias, large: true})
			}
		}
		four := []string{"md5", "sha1", "sha256", "sha512"}
		b := map[string]interface{}{"lengths": lens, "content": "xorshift bytes", "stream_chunking_pairs": len(ws),
			"chunkings":   "everything in one piece; two pieces cut at 64Ki-1 64Ki 64Ki+1 128Ki-1 128Ki 128Ki+1 1Mi-1 1Mi 1Mi+1; pieces / read buffers of 64Ki+1, 1Mi, 2Mi; io.Copy's 32 KiB buffer (copy-plain-*)",
			"observation": "at the end, and mid-stream"}
		hashScenario(r, "large-chunks", b, ws, []string{"writers", "readers"}, [][]string{four, {"sha256"}, {"sha512"}}, []string{"full"})
		hashScenario(r, "large-chunks-singular", map[string]interface{}{"lengths": lens, "stream_chunking_pairs": len(ws), "constructors": "NewHasherWriter, NewHasherReader, NewHasher"},
			ws, []string{"writer1", "reader1", "hasher"}, [][]string{{"md5"}, {"sha512"}}, []string{"full"})
	}

	// alphabet audit: integers a change introduced (n-1, n, n+1 and, for n <= 24, 2^n-1, 2^n, 2^n+1) as stream
	// lengths and chunk sizes. Nothing on the unchanged tree.
	if lens := auditLens(); len(lens) > 0 {
		four := [][]string{{"md5", "sha1", "sha256", "sha512"}}
		var small, large []work
		for _, n := range lens {
			cs := [][]int{{n}, {0, n}}
			if n > 1 {
				cs = append(cs, []int{n - 1, 1}, []int{1, n - 1}, []int{n / 2, n - n/2})
			}
			for _, c := range lens {
				if c < n && n/c <= 4096 {
					cs = append(cs, fixedChunks(n, c))
				}
			}
			if n <= 1<<16 {
				if n/64 <= 4096 && n > 64 {
					cs = append(cs, fixedChunks(n, 64))
				}
				small = append(small, work{stream: pattern(n), patLen: n, chunks: cs})
			} else {
				large = append(large, work{stream: pattern(n), patLen: n, chunks: cs, vias: map[bool][]string{
					false: {"write", "writestring", "copy-strings-reader", "copy-bytes-reader", "copy-plain-reader", "bufio3-writestring"},
					true:  {"read", "readall", "copy-buffer", "copy-discard"}}})
			}
		}
		b := map[string]interface{}{"lengths": lens, "chunkings": "whole, empty+whole, (n-1,1), (1,n-1), halves, pieces of every other audited size, 64"}
		if len(small) > 0 {
			hashScenario(r, "audit-lengths", b, small, []string{"writers", "readers", "writer1", "reader1", "hasher"}, append(append([][]string(nil), single...), four...), []string{"full", "dataeof"})
		}
		if len(large) > 0 {
			hashScenario(r, "audit-lengths-large", map[string]interface{}{"lengths": lens, "selection": "all four names"}, large, []string{"writers", "readers"}, four, []string{"full"})
		}
	}

	unknownScenario(r)
	verifyScenarios(r)
	nearHashScenario(r)
	historyScenario(r)
	reuseScenario(r)
	namesScenario(r)
}

// nonPeriodic returns n bytes of a xorshift generator (no period within the lengths used here).
func nonPeriodic(n int) []byte {
	b := make([]byte, n)
	x := uint32(2463534242)
	for i := range b {
		x ^= x << 13
		x ^= x >> 17
		x ^= x << 5
		b[i] = byte(x >> 11)
	}
	return b
}

// blockSplits: every 2- and 3-part split of n whose cut points are among 1 7 15 63 64 65 127 128 129 and n minus those.
func blockSplits(n int) [][]int {
	seen := map[int]bool{}
	var cuts []int
	for _, c := range []int{1, 7, 15, 63, 64, 65, 127, 128, 129} {
		for _, p := range []int{c, n - c} {
			if p > 0 && p < n && !seen[p] {
				seen[p] = true
				cuts = append(cuts, p)
			}
		}
	}
	sort.Ints(cuts)
	var out [][]int
	for i, a := range cuts {
		out = append(out, []int{a, n - a})
		for _, b := range cuts[i+1:] {
			out = append(out, []int{a, b - a, n - b})
		}
	}
	return out
}

// auditTexts: string literals a change introduced into the code (none on the unchanged tree).
func auditTexts() []string { return gen.AuditStrings(nil, 6) }

// auditLens: for every new integer literal n: n-1, n, n+1, and for n <= 24 also 2^n-1, 2^n, 2^n+1 (within 1..2^24+1).
func auditLens() []int {
	seen := map[int]bool{}
	var out []int
	add := func(v int64) {
		if v >= 1 && v <= 1<<24+1 && !seen[int(v)] {
			seen[int(v)] = true
			out = append(out, int(v))
		}
	}
	for _, v := range gen.AuditInts(1, 1<<24+1, 9) {
		add(v)
	}
	for _, n := range audit.Get().Ints {
		if n >= 1 && n <= 24 {
			add(1<<uint(n) - 1)
			add(1 << uint(n))
			add(1<<uint(n) + 1)
		}
		if len(out) >= 15 {
			break
		}
	}
	sort.Ints(out)
	return out
}

func minInt(a, b int) int {
	if a < b {
		return a
	}
	return b
}

var unknownNames = []string{"", "MD5", "Sha256", "SHA512", "sha-256", "sha224", "sha384", "sha512/256", "sha3-256", "sha2560", "sha25", "sha256 ", " sha1", "crc32", "md4", "sha1\n"}

func unknownScenario(r *mc.Run) {
	unknownNames := unknownNames
	for _, t := range gen.AuditStrings(nil, 8) { // alphabet audit: a name a change special-cases is still not one of the four
		if !knownName(t) {
			unknownNames = append(unknownNames, t, strings.ToUpper(t))
		}
	}
	unknownNames = gen.Dedup(unknownNames)
	// valid contexts of length 0..2 into which the unknown name is inserted at every position
	var ctx [][]string
	for _, s := range selections() {
		if len(s) <= 2 {
			ctx = append(ctx, s)
		}
	}
	ctx = append(ctx, []string{})
	for _, a := range allAlgos { // contexts that repeat a name
		ctx = append(ctx, []string{a, a})
	}
	r.Scenario("unknown-names", map[string]interface{}{"unknown_names": unknownNames, "constructors": ctors,
		"plural_contexts": "the unknown name at every position of every ordered selection of <= 2 valid names and of every doubled name"}, len(unknownNames),
		func(i int, st *mc.Stats) bool {
			u := unknownNames[i]
			for _, c := range ctors {
				lists := [][]string{{u}}
				if strings.HasSuffix(c, "s") {
					lists = nil
					for _, cx := range ctx {
						for pos := 0; pos <= len(cx); pos++ {
							l := append(append(append([]string(nil), cx[:pos]...), u), cx[pos:]...)
							lists = append(lists, l)
						}
					}
				}
				for _, l := range lists {
					in := In{Op: "unknown", Ctor: c, Algos: l, SumAt: -1}
					st.Evals++
					st.Traces++
					st.Nontrivial++
					if v := checkUnknown("unknown-names", in); v != nil {
						st.Violate(v)
						st.Class(c + "/no-error")
					} else {
						st.Class(c + "/error")
					}
					if i == 3 && len(l) == 3 && l[1] == u && c == "NewHasherWriters" && l[0] == "sha1" && st.WantSample() {
						st.Sample(in)
					}
				}
			}
			return true
		})
}

func verifyScenarios(r *mc.Run) {
	// contents: Stream and a different stream chosen to be confusable (one more zero byte / one byte fewer)
	type pair struct {
		x, y   []byte
		chunks [][]int // chunkings of x
	}
	var pairs []pair
	Lv := r.Pick(3, 4)
	for _, s := range shortStreams(Lv) {
		cs := withEmpty(compositions(len(s)))
		pairs = append(pairs, pair{s, append(append([]byte(nil), s...), 0x00), cs})
		if len(s) > 0 {
			pairs = append(pairs, pair{s, s[:len(s)-1], cs})
		}
	}
	for _, n := range longLens {
		s := pattern(n)
		y := append([]byte(nil), s...)
		y[n-1] ^= 1
		pairs = append(pairs, pair{s, y, [][]int{fixedChunks(n, 1), fixedChunks(n, 3), fixedChunks(n, 64), {n}, {0, n}}})
	}
	// alphabet audit: pattern streams of the audited lengths, and the new string literals as recorded hash texts
	for _, n := range auditLens() {
		if n <= 1<<16 {
			s := pattern(n)
			y := append([]byte(nil), s...)
			y[n-1] ^= 1
			cs := [][]int{{n}, {0, n}, {n / 2, n - n/2}}
			if n > 64 {
				cs = append(cs, fixedChunks(n, 64))
			}
			pairs = append(pairs, pair{s, y, cs})
		}
	}
	type kindText struct{ kind, text string }
	var kinds []kindText
	for _, k := range recordedKinds {
		kinds = append(kinds, kindText{k, ""})
	}
	for _, t := range gen.AuditStrings(nil, 8) {
		kinds = append(kinds, kindText{"literal-text", t})
	}
	type cf struct{ carrier, fields string }
	var cfs []cf
	for _, c := range parsedCarriers {
		for _, f := range []string{"256", "512", "both"} {
			if ownAlgo(c, f) != "" {
				cfs = append(cfs, cf{c, f})
			}
		}
	}
	var cfNames []string
	for _, c := range cfs {
		cfNames = append(cfNames, c.carrier+"/"+c.fields)
	}
	r.Scenario("verifier-parsed-entries", map[string]interface{}{"carrier/fields": cfNames, "recorded": recordedKinds, "listed_entry": "0 and 1 of a two-file field",
		"streams":   fmt.Sprintf("all |s|<=%d over 00 61 ff (other stream: s+00, s minus last byte) and pattern streams of lengths %v (other: last bit flipped)", Lv, longLens),
		"chunkings": "every composition + one empty write anywhere (short); 1, 3, 64, whole, empty+whole (long)", "pairs": len(pairs)}, len(pairs),
		func(i int, st *mc.Stats) bool {
			p := pairs[i]
			for _, c := range cfs {
				for _, kt := range kinds {
					kind := kt.kind
					for entry := 0; entry < 2; entry++ {
						chunkings := p.chunks
						if entry == 1 {
							// the verified content is y: whole and bytewise
							chunkings = [][]int{{len(p.y)}, fixedChunks(len(p.y), 1)}
						}
						for _, ch := range chunkings {
							in := In{Op: "verify", Stream: hex.EncodeToString(p.x), Other: hex.EncodeToString(p.y), Chunks: ch, SumAt: -1,
								Carrier: c.carrier, Fields: c.fields, Kind: kind, Entry: entry, RecText: kt.text}
							v, class := checkVerify("verifier-parsed-entries", in)
							if class == "" {
								continue
							}
							st.Evals++
							st.Traces++
							st.Nontrivial++
							st.Transitions += int64(len(ch) + 3)
							st.Class(class)
							st.Violate(v)
							if (i == 20 || i == len(pairs)-1) && c.carrier == "best" && (kind == "other-algorithm" || kind == "true-digest") && c.fields == "512" && entry == 0 && len(ch) == len(chunkings[len(chunkings)-1]) && st.WantSample() {
								st.Sample(in)
							}
						}
					}
				}
			}
			st.States++
			return true
		})
	r.Scenario("verifier-entries-from-hasher", map[string]interface{}{"carriers": "FileHashFromHasher over NewHasher(sha256), NewHasher(sha512) fed with the stream",
		"verified_stream": "the same stream (must be accepted), the other stream (must be rejected)", "pairs": len(pairs)}, len(pairs),
		func(i int, st *mc.Stats) bool {
			p := pairs[i]
			for _, carrier := range []string{"hasher-sha256", "hasher-sha512"} {
				for _, kind := range []string{"true-digest", "other-stream"} {
					chunkings := p.chunks
					if kind == "other-stream" {
						chunkings = [][]int{{len(p.y)}, fixedChunks(len(p.y), 1)}
					}
					for _, ch := range chunkings {
						in := In{Op: "verify", Stream: hex.EncodeToString(p.x), Other: hex.EncodeToString(p.y), Chunks: ch, SumAt: -1, Carrier: carrier, Kind: kind}
						v, class := checkVerify("verifier-entries-from-hasher", in)
						if class == "" {
							continue
						}
						st.Evals++
						st.Traces++
						st.Nontrivial++
						st.Transitions += int64(len(ch) + 3)
						st.Class(class)
						st.Violate(v)
						if i == 33 && carrier == "hasher-sha512" && len(ch) == len(chunkings[len(chunkings)-1]) && st.WantSample() {
							st.Sample(in)
						}
					}
				}
			}
			st.States++
			return true
		})
}

// nearHashScenario: recorded hashes that differ from the true digest as little as possible - every single hex digit
// replaced by each of the 15 other digits (this contains every single-byte XOR with 0x01, 0x20 and 0x80), in
// lower- and upper-case spelling - must be rejected; the true digest in lower, upper and alternating case accepted.
func nearHashScenario(r *mc.Run) {
	streams := [][]byte{{}, {'a'}, {0x00, 0xff}, []byte("abc"), nonPeriodic(200), pattern(64)}
	type cf struct{ carrier, fields string }
	cfs := []cf{{"doc-sha256", "256"}, {"doc-sha512", "512"}, {"best", "256"}, {"best", "512"}, {"best", "both"}, {"dsc", "256"}, {"struct-sha256", ""}, {"struct-sha512", ""}}
	const digits = "0123456789abcdef"
	r.Scenario("verifier-near-hashes", map[string]interface{}{"streams": len(streams), "carrier/fields": fmt.Sprint(cfs),
		"recorded": "every single-hex-digit substitution of the true digest (position x 15 other digits; contains the single-byte XORs with 01, 20, 80), also spelled in upper case; true digest in lower / upper / alternating case; true digest with 1-2 characters (hex and not) appended or prepended, one or two deleted at start / middle / end, 0x prefix, doubled, half, and (FileHash values) empty or with blanks around / inside"},
		len(streams)*len(cfs), func(i int, st *mc.Stats) bool {
			s, c := streams[i/len(cfs)], cfs[i%len(cfs)]
			algo := ownAlgo(c.carrier, c.fields)
			t := hex.EncodeToString(refDigest(algo, s))
			alt := []byte(t)
			for k := range alt {
				if k%2 == 0 {
					alt[k] = strings.ToUpper(string(alt[k]))[0]
				}
			}
			texts := []string{t, strings.ToUpper(t), string(alt)}
			for p := 0; p < len(t); p++ {
				for d := 0; d < 16; d++ {
					if digits[d] != t[p] {
						n := t[:p] + string(digits[d]) + t[p+1:]
						texts = append(texts, n)
						if d >= 10 || p%8 == 0 {
							texts = append(texts, strings.ToUpper(n))
						}
					}
				}
			}
			// the true digest with characters appended / prepended / deleted, with a 0x prefix, doubled, odd length
			mid := len(t) / 2
			texts = append(texts, t+"0", t+"00", t+"z", t+"zz", t+"0z", t+"z0", t+"g", "0"+t, "00"+t, "z"+t, "0x"+t, "0X"+strings.ToUpper(t),
				t[1:], t[:mid]+t[mid+1:], t[:len(t)-1], t[2:], t[:len(t)-2], t+t, t+strings.ToUpper(t), t[:mid], t+":", t+"=")
			if strings.HasPrefix(c.carrier, "struct-") {
				texts = append(texts, "", " ", " "+t, t+" ", " "+t+" ", "\t"+t, t+"\n", t+" 0", t[:mid]+" "+t[mid:])
			}
			for ti, text := range texts {
				in := In{Op: "verify", Stream: hex.EncodeToString(s), Other: hex.EncodeToString(append(append([]byte(nil), s...), 0)), Chunks: []int{len(s)}, SumAt: -1,
					Carrier: c.carrier, Fields: c.fields, Kind: "near-hash", RecText: text}
				v, class := checkVerify("verifier-near-hashes", in)
				if class == "" {
					continue
				}
				st.Evals++
				st.Traces++
				st.Nontrivial++
				st.Class(class)
				st.Violate(v)
				if i == 7 && (ti == 1 || ti == 40) && st.WantSample() {
					st.Sample(in)
				}
			}
			st.States++
			return true
		})
}

func Replay(scenario string, raw json.RawMessage) []*mc.Violation {
	var in In
	if err := mc.UnmarshalInput(raw, &in); err != nil {
		return nil
	}
	var v *mc.Violation
	switch in.Op {
	case "history":
		v, _ = checkHistory(scenario, in)
	case "reuse":
		v, _ = checkReuse(scenario, in)
	case "names":
		v, _ = checkNames(scenario, in)
	case "verify":
		v, _ = checkVerify(scenario, in)
	case "unknown":
		v = checkUnknown(scenario, in)
	default:
		v = checkHash(scenario, in)
	}
	if v != nil {
		return []*mc.Violation{v}
	}
	return nil
}
