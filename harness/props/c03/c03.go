// Package c03: version strings parse to their parts and render back without loss.
package c03

import (
	"encoding/json"
	"fmt"
	"math/big"
	"strconv"
	"strings"

	"pault.ag/go/debian/version"

	"verifharness/gen"
	"verifharness/mc"
	"verifharness/props/reg"
	"verifharness/sched"
)

func init() { reg.Register(&reg.Prop{ID: "C03", Run: Run, Replay: Replay}) }

// ---------- A: grammar -> parts ----------

type PartsIn struct {
	EpochText string // "" = no epoch
	HasEpoch  bool
	Upstream  string
	HasRev    bool
	Revision  string
	Pre, Post string // surrounding whitespace
	Via       string // parse | control | text
}

func (in PartsIn) text() string {
	s := in.Upstream
	if in.HasEpoch {
		s = in.EpochText + ":" + s
	}
	if in.HasRev {
		s += "-" + in.Revision
	}
	return in.Pre + s + in.Post
}

func parseVia(via, s string) (version.Version, error) {
	var v version.Version
	var err error
	switch via {
	case "control":
		err = v.UnmarshalControl(s)
	case "text":
		err = v.UnmarshalText([]byte(s))
	default:
		v, err = version.Parse(s)
	}
	return v, err
}

func checkParts(scen string, in PartsIn) *mc.Violation {
	var want version.Version
	if in.HasEpoch {
		var e uint64
		for _, c := range in.EpochText {
			e = e*10 + uint64(c-'0')
		}
		want.Epoch = uint(e)
	}
	want.Version = in.Upstream
	if in.HasRev {
		want.Revision = in.Revision
	}
	var got version.Version
	var err error
	if p, msg := mc.Guard(func() { got, err = parseVia(in.Via, in.text()) }); p {
		return mc.V(scen, "parse-returns", in, "no panic", "panic: "+msg)
	}
	if err != nil {
		return mc.V(scen, "wellformed-accepted", in, fmt.Sprintf("%+v", want), "error: "+err.Error())
	}
	if got != want {
		return mc.V(scen, "parts-exact", in, fmt.Sprintf("%+v", want), fmt.Sprintf("%+v", got))
	}
	if again, err := parseVia(in.Via, in.text()); err != nil || again != want {
		return mc.V(scen, "parts-exact", in, fmt.Sprintf("%+v", want), fmt.Sprintf("parsed a second time: %+v, %v", again, err))
	}
	// the predicates derived from the parts: native = no revision text, empty = the zero value (never a parsed one)
	if n := got.IsNative(); n != (want.Revision == "") {
		return mc.V(scen, "parts-exact", in, fmt.Sprintf("IsNative()=%v for %+v", want.Revision == "", want), fmt.Sprint(n))
	}
	if got.Empty() {
		return mc.V(scen, "parts-exact", in, fmt.Sprintf("Empty()=false for %+v", want), "true")
	}
	return nil
}

// ---------- B: near misses -> rejected ----------

type RejectIn struct {
	Text  string
	Class string
	Via   string
}

func checkReject(scen string, in RejectIn) *mc.Violation {
	var got version.Version
	var err error
	if p, msg := mc.Guard(func() { got, err = parseVia(in.Via, in.Text) }); p {
		return mc.V(scen, "parse-returns", in, "no panic", "panic: "+msg)
	}
	if err == nil {
		return mc.V(scen, "near-miss-rejected", in, "error ("+in.Class+")", fmt.Sprintf("accepted as %+v", got), "class:"+in.Class)
	}
	// a string that was refused once is refused again (whatever the library remembers about it)
	if again, err2 := parseVia(in.Via, in.Text); err2 == nil {
		return mc.V(scen, "near-miss-rejected", in, "error ("+in.Class+") the second time too", fmt.Sprintf("accepted as %+v when the same string was parsed again", again), "class:"+in.Class)
	}
	// ... and whatever the receiver holds when the string arrives: a well-formed value, the pieces an earlier refusal of
	// the same string (differently padded) may have left behind, or a hand-built value whose rendering is this very string
	if in.Via == "control" || in.Via == "text" {
		into := func(v *version.Version, s string) error {
			if in.Via == "control" {
				return v.UnmarshalControl(s)
			}
			return v.UnmarshalText([]byte(s))
		}
		t := strings.TrimSpace(in.Text)
		recv := []version.Version{{Epoch: 7, Version: "7.7", Revision: "7"}, {Version: in.Text}, {Version: t}}
		pieces := version.Version{Version: t}
		if c := strings.Index(t, ":"); c >= 0 {
			if e, err := strconv.ParseUint(t[:c], 10, 63); err == nil {
				pieces.Epoch, pieces.Version = uint(e), t[c+1:]
			}
		}
		if h := strings.LastIndex(pieces.Version, "-"); h >= 0 {
			pieces.Version, pieces.Revision = pieces.Version[:h], pieces.Version[h+1:]
		}
		recv = append(recv, pieces)
		var padded version.Version
		into(&padded, "  "+in.Text+" ")
		recv = append(recv, padded)
		for _, r := range recv {
			r0 := r
			var e error
			if p, msg := mc.Guard(func() { e = into(&r, in.Text) }); p {
				return mc.V(scen, "parse-returns", in, "no panic", "panic: "+msg)
			}
			if e == nil {
				return mc.V(scen, "near-miss-rejected", in, "error ("+in.Class+") whatever the receiver held", fmt.Sprintf("accepted as %+v by a receiver that held %+v", r, r0), "class:"+in.Class)
			}
		}
	}
	return nil
}

// ---------- C: every accepted string round-trips ----------

type RTIn struct{ Text string }

func rtFeatures(v version.Version) []string {
	// predicates of the parsed value = of the input string
	var f []string
	if v.Epoch == 0 && strings.Contains(v.Version, ":") {
		f = append(f, "epoch0-colon-in-upstream")
	}
	if v.Revision == "" && strings.Contains(v.Version, "-") {
		f = append(f, "empty-revision-after-hyphen")
	}
	if v.Version == "" {
		f = append(f, "empty-upstream")
	}
	return f
}

func checkRT(scen string, in RTIn) []*mc.Violation {
	v, err := version.Parse(in.Text)
	if err != nil {
		return nil
	}
	var out []*mc.Violation
	feats := rtFeatures(v)
	// String
	if p, msg := mc.Guard(func() {
		s := v.String()
		v2, err := version.Parse(s)
		if err != nil {
			out = append(out, mc.V(scen, "string-roundtrip", in, fmt.Sprintf("%+v", v), fmt.Sprintf("String()=%q rejected: %v", s, err), feats...))
		} else if v2 != v {
			out = append(out, mc.V(scen, "string-roundtrip", in, fmt.Sprintf("%+v", v), fmt.Sprintf("String()=%q parses to %+v", s, v2), feats...))
		}
		// the rendering without the epoch is the same text minus "<epoch>:" and parses to the same upstream and revision
		if so := v.StringWithoutEpoch(); so != s && fmt.Sprintf("%d:%s", v.Epoch, so) != s {
			out = append(out, mc.V(scen, "string-roundtrip", in, fmt.Sprintf("String()=%q without the epoch prefix", s), fmt.Sprintf("StringWithoutEpoch()=%q", so), feats...))
		} else if !strings.Contains(v.Version, ":") {
			w := version.Version{Version: v.Version, Revision: v.Revision}
			if v6, err := version.Parse(so); err != nil || v6 != w {
				out = append(out, mc.V(scen, "string-roundtrip", in, fmt.Sprintf("%+v", w), fmt.Sprintf("StringWithoutEpoch()=%q parses to %+v, %v", so, v6, err), feats...))
			}
		}
		// the renderings the standard library derives from String / MarshalText: %v and %s of the value and of a pointer to
		// it, the value inside a struct and a slice through encoding/json
		for _, g := range []string{fmt.Sprintf("%v", v), fmt.Sprintf("%s", v), fmt.Sprintf("%v", &v), fmt.Sprint(v)} {
			if g != s {
				out = append(out, mc.V(scen, "string-roundtrip", in, fmt.Sprintf("fmt renders the value as String() does: %q", s), fmt.Sprintf("%q", g), feats...))
				break
			}
		}
		type holder struct {
			V  version.Version
			P  *version.Version
			L  []version.Version
			LP []*version.Version
		}
		vv0 := v
		// (through a pointer to the struct: MarshalText has a pointer receiver, so encoding/json only finds it on addressable values)
		if hb, err := json.Marshal(&holder{v, &vv0, []version.Version{v, v}, []*version.Version{&vv0}}); err == nil {
			var h holder
			if err := json.Unmarshal(hb, &h); err != nil || h.P == nil || len(h.L) != 2 || len(h.LP) != 1 || h.LP[0] == nil || *h.P != v || h.L[0] != v || h.L[1] != v || *h.LP[0] != v {
				out = append(out, mc.V(scen, "json-roundtrip", in, fmt.Sprintf("%+v inside a struct, behind a pointer and in lists", v), fmt.Sprintf("json %s: %v %+v", hb, err, h), feats...))
			}
		}
		c, err := v.MarshalControl()
		var v3 version.Version
		if err == nil {
			err = v3.UnmarshalControl(c)
		}
		if err != nil {
			out = append(out, mc.V(scen, "control-roundtrip", in, fmt.Sprintf("%+v", v), fmt.Sprintf("MarshalControl()=%q: %v", c, err), feats...))
		} else if v3 != v {
			out = append(out, mc.V(scen, "control-roundtrip", in, fmt.Sprintf("%+v", v), fmt.Sprintf("MarshalControl()=%q parses to %+v", c, v3), feats...))
		}
		vv := v
		t, err := vv.MarshalText()
		var v4 version.Version
		if err == nil {
			err = v4.UnmarshalText(t)
		}
		if err != nil {
			out = append(out, mc.V(scen, "text-roundtrip", in, fmt.Sprintf("%+v", v), fmt.Sprintf("MarshalText()=%q: %v", t, err), feats...))
		} else if v4 != v {
			out = append(out, mc.V(scen, "text-roundtrip", in, fmt.Sprintf("%+v", v), fmt.Sprintf("MarshalText()=%q parses to %+v", t, v4), feats...))
		}
		j, err := json.Marshal(&vv)
		var v5 version.Version
		if err == nil {
			err = json.Unmarshal(j, &v5)
		}
		if err != nil {
			out = append(out, mc.V(scen, "json-roundtrip", in, fmt.Sprintf("%+v", v), fmt.Sprintf("json %s: %v", j, err), feats...))
		} else if v5 != v {
			out = append(out, mc.V(scen, "json-roundtrip", in, fmt.Sprintf("%+v", v), fmt.Sprintf("json %s parses to %+v", j, v5), feats...))
		}
	}); p {
		out = append(out, mc.V(scen, "render-returns", in, "no panic", "panic: "+msg, feats...))
	}
	return out
}

func Run(r *mc.Run) {
	r.Rule = "A: full product of epoch texts x upstream strings x revisions x surrounding whitespace x entry point; B: one generator per rejection clause of the statement, every position; C: all strings up to the length bound over '01a.+~-: ' — non-trivial = accepted by Parse (C), any (A,B); distinct by construction"
	r.Assume = []string{"epochs in (2^31, 2^63) are not demanded either way (the statement does not fix the threshold)", "'+1:1.0' and '-0:1' are not in the rejected class (strtol accepts them)"}

	// ---- A ----
	epochs := []string{"", "0", "1", "00", "01", "7", "2147483647", "4294967296", "08", "09", "010", "0010", "017", "0000000000000000000012"}
	epochs = append(epochs, gen.AuditIntStrings(0, 1<<62, 9)...) // alphabet audit: numbers a change introduced into the code
	var ups []string
	upAlpha := append(gen.Chars("01aZ.+~-:"), gen.AuditChars(gen.Versionish, 3)...)
	for _, s := range gen.AllStrings(upAlpha, 2) {
		ups = append(ups, "0"+s, "1"+s)
	}
	for _, t := range append(gen.AuditStrings(gen.Versionish, 8), gen.AuditIntStrings(0, 1<<62, 9)...) {
		ups = append(ups, "1"+t, "1."+t+".2", "1"+t+"a")
	}
	revs := []string{}
	for _, s := range gen.AllStrings(gen.Chars("0aZ.+~"), 2) {
		if s != "" {
			revs = append(revs, s)
		}
	}
	for _, t := range append(gen.AuditStrings(gen.Versionish, 8), gen.AuditIntStrings(0, 1<<62, 9)...) {
		if !strings.ContainsAny(t, "-:") {
			revs = append(revs, t, "1"+t)
		}
	}
	ws := []string{"", " ", "\t", "\n", "\r", "\r\n", " \t "} // CR / CRLF: the line ending of a CRLF control file
	r.Scenario("A-grammar-to-parts", map[string]interface{}{"epoch_texts": epochs, "upstream": "digit + |s|<=2 over 01a.+~-: (':' only with epoch, '-' only with revision)", "revisions": "absent + |s| in 1..2 over 0a.+~", "whitespace": "none/space/tab/newline each side", "entry_points": "Parse UnmarshalControl UnmarshalText"},
		len(ups), func(i int, st *mc.Stats) bool {
			u := ups[i]
			for ei, e := range epochs {
				hasE := ei > 0
				if strings.Contains(u, ":") && !hasE {
					continue
				}
				for ri := -1; ri < len(revs); ri++ {
					hasR := ri >= 0
					if strings.Contains(u, "-") && !hasR {
						continue
					}
					rv := ""
					if hasR {
						rv = revs[ri]
					}
					for _, pre := range ws {
						for _, post := range ws {
							for _, via := range []string{"parse", "control", "text"} {
								in := PartsIn{e, hasE, u, hasR, rv, pre, post, via}
								st.Evals++
								st.Traces++
								st.Nontrivial++
								if v := checkParts("A-grammar-to-parts", in); v != nil {
									st.Violate(v)
									st.Class(v.Clause)
								} else {
									st.Class("parts-exact")
								}
								if via == "parse" && pre == "" && post == "" {
									// the rendering laws on every grammar-generated string as well
									for _, v := range checkRT("A-grammar-to-parts", RTIn{in.text()}) {
										st.Violate(v)
									}
								}
								if st.WantSample() && ei == 3 && ri == 7 && pre == " " && post == "\n" {
									st.Sample(in.text())
								}
							}
						}
					}
				}
			}
			return true
		})

	// ---- B ----
	var rej []RejectIn
	add := func(class string, texts ...string) {
		for _, t := range texts {
			rej = append(rej, RejectIn{t, class, ""})
		}
	}
	add("non-numeric-epoch", "a:1", "1a:1", ":1", "1.0:1", "~:1", "1 :1", "0x1:1", "1e1:1")
	// spellings of numbers that Go's base-detecting conversions accept but that are not decimal digit strings
	add("non-numeric-epoch", "0x1f:1.0", "0X1:1", "0b1:1", "0B11:1", "0o7:1", "0O7:1", "1_0:1", "0_1:1", "1e0:1", "0x:1", "١:1")
	// quoting is not part of the grammar (whatever the entry point)
	add("outside-alphabet", "\"1.0\"", "\"1:2.0-3\"", "'1.0'", "\"1.0", "1.0\"")
	add("negative-epoch", "-1:1", "-7:1.0-1", "-2147483648:1")
	add("oversized-epoch", "9223372036854775808:1", "18446744073709551616:1", "999999999999999999999999:1", "99999999999999999999:1.0-1")
	// a systematic family of oversized epochs (>= 2^63): leading digit x number of digits, repeated digits, and the
	// neighbours of 2^63 / 2^64 / 2^65 - a hand-rolled overflow test typically misses only part of this range
	lim := new(big.Int).Lsh(big.NewInt(1), 63)
	var huge []string
	for nd := 19; nd <= 26; nd++ {
		for _, d := range "123456789" {
			huge = append(huge, string(d)+strings.Repeat("0", nd-1), strings.Repeat(string(d), nd), string(d)+strings.Repeat("9", nd-1))
		}
	}
	for _, sh := range []uint{63, 64, 65, 66, 70, 80} {
		b := new(big.Int).Lsh(big.NewInt(1), sh)
		for _, delta := range []int64{-1, 0, 1, 1000} {
			huge = append(huge, new(big.Int).Add(b, big.NewInt(delta)).String())
		}
	}
	for _, h := range huge {
		if v, ok := new(big.Int).SetString(h, 10); ok && v.Cmp(lim) >= 0 {
			add("oversized-epoch", h+":1.0-1", h+":0")
		}
	}
	add("nothing-after-colon", "1:", "0:", "7:", "1: ")
	add("empty", "", " ", "\t\n")
	// embedded whitespace: every inner position of a family of valid strings
	valid := []string{"1.0", "1:1.0", "1.0-1", "1:1.0-1", "1a~+", "10", "0:1-a"}
	for _, v := range valid {
		for p := 1; p < len(v); p++ {
			for _, w := range []string{" ", "\t", "\n", " ", "\r"} {
				add("embedded-whitespace", v[:p]+w+v[p:])
			}
		}
	}
	// non-digit first character (of the upstream part), with and without epoch / revision; includes the empty upstream part
	for _, c := range []string{"a", "z", "A", ".", "+", "~", "-", ":"} {
		add("non-digit-first", c, c+"1", c+"1.0", "1:"+c+"1", c+"1-1", "0:"+c+"1-1")
	}
	add("non-digit-first", "-1", "0:-1", "1:-1", "-", "1:-", "-a")
	// characters outside the alphabet at every position of upstream and revision
	outside := []string{"_", "!", "/", "é", "*", "=", ",", "(", "\x00", "\x7f", "٣", "１", "²", "Ａ"}
	for _, c := range gen.AuditChars(nil, 6) {
		if !gen.Versionish(c) && strings.TrimSpace(c) != "" {
			outside = append(outside, c)
		}
	}
	for _, c := range outside {
		for _, v := range []string{"1.0", "1:1.0", "1.0-1"} {
			for p := 1; p <= len(v); p++ {
				if v[p-1] == ':' { // keep the epoch numeric: that is another class
					continue
				}
				add("outside-alphabet", v[:p]+c+v[p:])
			}
		}
	}
	// ':' in the revision is outside the revision alphabet
	add("outside-alphabet", "1:1.0-1:2", "1.0-a:b")
	var rejAll []RejectIn
	for _, x := range rej {
		for _, via := range []string{"parse", "control", "text"} {
			x.Via = via
			rejAll = append(rejAll, x)
		}
	}
	r.Scenario("B-near-miss-rejected", map[string]interface{}{"classes": "non-numeric/negative/oversized epoch, embedded whitespace (every inner position), nothing after colon, non-digit first character incl. empty upstream, outside alphabet (every position)", "cases": len(rejAll)},
		16, func(sh int, st *mc.Stats) bool {
			for i := sh; i < len(rejAll); i += 16 {
				st.Evals++
				st.Traces++
				st.Nontrivial++
				if v := checkReject("B-near-miss-rejected", rejAll[i]); v != nil {
					st.Violate(v)
					st.Class("accepted:" + rejAll[i].Class)
				} else {
					st.Class("rejected:" + rejAll[i].Class)
				}
				if st.WantSample() && i%101 == 0 {
					st.Sample(rejAll[i])
				}
			}
			return true
		})

	// the same entry points called at the same time on independent inputs: every schedule of small thread programs (instrumented build)
	sched.Explore(r, "concurrent-calls", ConcurrentPrograms())

	// ---- D: reused receiver ----
	reuse := []string{"1.0", "1:2.0-3", "2.1", "0:1", "1-1", "3:4", "5-6-7", "1.0~rc1", " 2.0 ", "", "x", "1:", "7:1.0-1+b2"}
	reuse = append(reuse, gen.AuditStrings(gen.Versionish, 3)...)
	// first texts that nothing else in this run hands to the library - not even another shard of this scenario as a second
	// text: whatever the library remembers per text, it meets each of them here first, on one goroutine
	private := []string{"31337:2.71828-1", "31337.5", "4:31337-0", "2.71828~rc9", "31337-9-9", " 8.8.8 ", "6:6.6-6", "9.9.9+b9"}
	r.Scenario("D-first-sighting-then-reuse", map[string]interface{}{"first_texts": private, "second_texts": len(reuse), "entry_points": "UnmarshalControl UnmarshalText json.Unmarshal"}, len(private), func(i int, st *mc.Stats) bool {
		via := []string{"text", "json", "control"}[i%3] // the first sighting of a text goes through one entry point
		for _, y := range reuse {
			in := ReuseIn{private[i], y, via}
			st.Evals++
			st.Traces++
			st.Nontrivial++
			if v := checkReuse("D-first-sighting-then-reuse", in); v != nil {
				st.Violate(v)
				st.Class(v.Clause)
			} else {
				st.Class("as-fresh")
			}
		}
		return true
	})
	r.Scenario("D-decode-into-reused-value", map[string]interface{}{"strings": reuse, "entry_points": "UnmarshalControl UnmarshalText json.Unmarshal", "pairs": len(reuse) * len(reuse)}, len(reuse), func(i int, st *mc.Stats) bool {
		for _, y := range reuse {
			for _, via := range []string{"control", "text", "json"} {
				in := ReuseIn{reuse[i], y, via}
				st.Evals++
				st.Traces++
				st.Nontrivial++
				if v := checkReuse("D-decode-into-reused-value", in); v != nil {
					st.Violate(v)
					st.Class(v.Clause)
				} else {
					st.Class("as-fresh")
				}
			}
		}
		return true
	})

	// ---- C ----
	sigma := append(append(gen.Chars("01aZ.+~-: "), "٣"), gen.AuditChars(nil, 2)...) // plus a non-ASCII decimal digit (unicode.IsDigit is true for it)
	L := r.Pick(5, 7)
	// shard on the first two symbols
	r.Scenario("C-accepted-roundtrip", map[string]interface{}{"alphabet": "01a.+~-: space and U+0663 (a non-ASCII decimal digit)", "max_len": L}, len(sigma)*len(sigma)+1, func(sh int, st *mc.Stats) bool {
		visit := func(s string) bool {
			st.Evals++
			if _, err := version.Parse(s); err != nil {
				st.Class("rejected")
				return true
			}
			st.Nontrivial++
			st.Traces++
			vs := checkRT("C-accepted-roundtrip", RTIn{s})
			if len(vs) == 0 {
				st.Class("accepted-roundtrips")
			} else {
				st.Class("accepted-roundtrip-broken")
			}
			for _, v := range vs {
				st.Violate(v)
			}
			if st.WantSample() && len(s) == L && strings.HasSuffix(s, "-a") {
				st.Sample(s)
			}
			return true
		}
		if sh == len(sigma)*len(sigma) {
			visit("")
			for _, a := range sigma {
				visit(a)
			}
			return true
		}
		pre := sigma[sh/len(sigma)] + sigma[sh%len(sigma)]
		for n := 0; n <= L-2; n++ {
			if r.Expired() {
				return false
			}
			gen.Odometer(sigma, n, func(s string) bool { return visit(pre + s) })
		}
		return true
	})
}

// ---------- D: decoding into a value that already holds a version ----------

type ReuseIn struct {
	First, Second string
	Via           string // control | text | json
}

func checkReuse(scen string, in ReuseIn) *mc.Violation {
	want, err := version.Parse(in.Second)
	if err != nil {
		return nil
	}
	var v version.Version
	dec := func(s string) error {
		switch in.Via {
		case "text":
			return v.UnmarshalText([]byte(s))
		case "json":
			b, _ := json.Marshal(s)
			return json.Unmarshal(b, &v)
		}
		return v.UnmarshalControl(s)
	}
	var e1, e2 error
	if p, msg := mc.Guard(func() { e1 = dec(in.First); e2 = dec(in.Second) }); p {
		return mc.V(scen, "parse-returns", in, "no panic", msg)
	}
	_ = e1
	if e2 != nil {
		return mc.V(scen, "wellformed-accepted", in, fmt.Sprintf("%+v", want), "error: "+e2.Error())
	}
	if v != want {
		return mc.V(scen, "parts-exact-into-reused-value", in, fmt.Sprintf("%+v", want), fmt.Sprintf("%+v", v))
	}
	// a value decoded earlier into a variable that was since reused is still decoded correctly into a fresh variable
	if firstWant, ferr := version.Parse(in.First); ferr == nil {
		var fresh version.Version
		var e3 error
		switch in.Via {
		case "text":
			e3 = fresh.UnmarshalText([]byte(in.First))
		case "json":
			b, _ := json.Marshal(in.First)
			e3 = json.Unmarshal(b, &fresh)
		default:
			e3 = fresh.UnmarshalControl(in.First)
		}
		if e3 != nil || fresh != firstWant {
			return mc.V(scen, "parts-exact-into-reused-value", in, fmt.Sprintf("%+v", firstWant), fmt.Sprintf("the first text decoded again into a fresh variable, after the variable it was first decoded into was reused: %+v %v", fresh, e3))
		}
	}
	// the text handed to UnmarshalText belongs to the caller: overwriting the buffer afterwards (with the other text, then
	// with filler) must not change what was parsed from it
	if in.Via == "text" {
		var w version.Version
		buf := []byte(in.Second)
		if p, msg := mc.Guard(func() { e2 = w.UnmarshalText(buf) }); p || e2 != nil {
			return mc.V(scen, "parse-returns", in, "as before", fmt.Sprint(msg, e2))
		}
		for i := range buf {
			if i < len(in.First) {
				buf[i] = in.First[i]
			} else {
				buf[i] = '9'
			}
		}
		if w != want || w.String() != want.String() {
			return mc.V(scen, "parts-exact-into-reused-value", in, fmt.Sprintf("%+v", want), fmt.Sprintf("after the caller reused its text buffer: %+v", w))
		}
	}
	return nil
}

func Replay(scenario string, raw json.RawMessage) []*mc.Violation {
	if scenario == "concurrent-calls" {
		return sched.Replay(scenario, ConcurrentPrograms(), raw)
	}
	switch {
	case strings.HasPrefix(scenario, "D-"):
		var in ReuseIn
		if mc.UnmarshalInput(raw, &in) == nil {
			if v := checkReuse(scenario, in); v != nil {
				return []*mc.Violation{v}
			}
		}
		return nil
	case strings.HasPrefix(scenario, "A-"):
		var rt RTIn
		if mc.UnmarshalInput(raw, &rt) == nil && rt.Text != "" {
			return checkRT(scenario, rt)
		}
		var in PartsIn
		if mc.UnmarshalInput(raw, &in) == nil {
			if v := checkParts(scenario, in); v != nil {
				return []*mc.Violation{v}
			}
		}
	case strings.HasPrefix(scenario, "B-"):
		var in RejectIn
		if mc.UnmarshalInput(raw, &in) == nil {
			if v := checkReject(scenario, in); v != nil {
				return []*mc.Violation{v}
			}
		}
	default:
		var in RTIn
		if mc.UnmarshalInput(raw, &in) == nil {
			return checkRT(scenario, in)
		}
	}
	return nil
}
