package c03

import (
	"fmt"

	"pault.ag/go/debian/version"

	"verifharness/sched"
)

// ConcurrentPrograms: parsing and rendering at the same time on independent strings.
func ConcurrentPrograms() []sched.Program {
	var ops []sched.Op
	for _, s := range []string{"1.0-1", "2:3.0~rc1+b2-1.1", " 1.0 ", "0:4:1.2-3", "1-2-3", "x:1", ""} {
		s := s
		ops = append(ops, sched.Op{Label: fmt.Sprintf("parse+render(%q)", s), F: func() string {
			v, err := version.Parse(s)
			var t, c version.Version
			e2 := t.UnmarshalText([]byte(s))
			e3 := c.UnmarshalControl(s)
			mt, _ := v.MarshalText()
			mc, _ := v.MarshalControl()
			return fmt.Sprintf("%+v %v|%+v %v|%+v %v|%s|%s|%s|%s", v, err, t, e2, c, e3, v.String(), v.StringWithoutEpoch(), mt, mc)
		}})
	}
	return sched.PairPrograms(ops)
}
