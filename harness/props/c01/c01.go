// Package c01: version comparison equals the dpkg order.
package c01

import (
	"encoding/json"
	"fmt"
	"os/exec"
	"strings"

	"pault.ag/go/debian/version"

	"verifharness/gen"
	"verifharness/mc"
	"verifharness/props/reg"
	"verifharness/sched"
)

func init() { reg.Register(&reg.Prop{ID: "C01", Run: Run, Replay: Replay}) }

// In is the replayable input: two versions given as struct fields (so strings Parse rejects reach Compare too).
type In struct {
	AE, BE uint
	AV, BV string
	AR, BR string
	Via    string // "struct" | "parse" | "less" | "parse-edit" | "cut"
}

func (in In) a() version.Version {
	return version.Version{Epoch: in.AE, Version: in.AV, Revision: in.AR}
}
func (in In) b() version.Version {
	return version.Version{Epoch: in.BE, Version: in.BV, Revision: in.BR}
}

func features(in In) []string {
	var f []string
	// input-describing predicates only
	return f
}

// checkPair is the oracle for one ordered pair: sign(Compare) must equal the reference sign.
func checkPair(scen string, in In) *mc.Violation {
	want := gen.RefCompare(gen.RefVersion{Epoch: uint64(in.AE), Upstream: in.AV, Revision: in.AR},
		gen.RefVersion{Epoch: uint64(in.BE), Upstream: in.BV, Revision: in.BR})
	return checkPairWant(scen, in, want)
}

func checkPairWant(scen string, in In, want int) *mc.Violation {
	var got int
	a, b := in.a(), in.b()
	switch in.Via {
	case "parse":
		pa, ea := version.Parse(a.String())
		pb, eb := version.Parse(b.String())
		if ea != nil || eb != nil {
			return nil // not parseable in this rendering: covered via struct
		}
		if pa != a || pb != b {
			return nil // rendering is ambiguous (C03's business); compare what was meant via struct only
		}
		got = gen.Sign(version.Compare(pa, pb))
	case "parse-edit":
		// both values come from ONE parsed text and get their parts assigned afterwards, as a caller that fills a parsed
		// template does: only the exported parts say what a Version is
		pa, ea := version.Parse("7:7.7-7")
		pb, eb := version.Parse("7:7.7-7")
		if ea != nil || eb != nil {
			return nil
		}
		pa.Epoch, pa.Version, pa.Revision = a.Epoch, a.Version, a.Revision
		pb.Epoch, pb.Version, pb.Revision = b.Epoch, b.Version, b.Revision
		got = gen.Sign(version.Compare(pa, pb))
	case "cut":
		// the strings of both values are windows onto shared buffers (one value's text a slice of the other's wherever
		// it occurs in it): the order is a function of the text, not of where its bytes live
		a.Version, b.Version = cutPair(a.Version, b.Version)
		a.Revision, b.Revision = cutPair(a.Revision, b.Revision)
		got = gen.Sign(version.Compare(a, b))
	case "less":
		s := version.Slice{a, b}
		l01, l10 := s.Less(0, 1), s.Less(1, 0)
		switch {
		case l01 && !l10:
			got = -1
		case !l01 && l10:
			got = 1
		case !l01 && !l10:
			got = 0
		default:
			got = 99 // both less: impossible for an order
		}
	default:
		got = gen.Sign(version.Compare(a, b))
		// the same pair asked again gets the same answer (whatever the library remembers about it)
		if again := gen.Sign(version.Compare(a, b)); again != got {
			return mc.V(scen, "sign-equals-policy-order", in, fmt.Sprint(want), fmt.Sprintf("%d the first time, %d when the same pair was compared again", got, again), features(in)...)
		}
	}
	if got != want {
		return mc.V(scen, "sign-equals-policy-order", in, fmt.Sprint(want), fmt.Sprint(got), features(in)...)
	}
	return nil
}

// cutPair returns x and y with the same text but shared storage: the shorter one sliced out of the longer one where it
// occurs there, otherwise both cut from one concatenation.
func cutPair(x, y string) (string, string) {
	if x != "" && y != "" {
		if i := strings.Index(y, x); i >= 0 {
			return y[i : i+len(x)], y
		}
		if i := strings.Index(x, y); i >= 0 {
			return x, x[i : i+len(y)]
		}
	}
	buf := strings.Clone(x + y)
	return buf[:len(x)], buf[len(x):]
}

func cls(c int) string {
	switch c {
	case -1:
		return "lt"
	case 0:
		return "eq"
	}
	return "gt"
}

// partPairs enumerates all ordered pairs of strs as upstream parts (rev=false) or revisions (rev=true).
func partPairs(r *mc.Run, name string, strs []string, bs []string, bounds interface{}) {
	keys := make([]gen.VerKey, len(strs))
	for i, s := range strs {
		keys[i] = gen.KeyOf(s)
	}
	bkeys := keys
	if bs == nil {
		bs = strs
	} else {
		bkeys = make([]gen.VerKey, len(bs))
		for i, s := range bs {
			bkeys[i] = gen.KeyOf(s)
		}
	}
	for _, rev := range []bool{false, true} {
		nm := name + "-upstream"
		if rev {
			nm = name + "-revision"
		}
		rev := rev
		r.Scenario(nm, bounds, len(strs), func(i int, st *mc.Stats) bool {
			a := strs[i]
			for j, b := range bs {
				var va, vb version.Version
				if rev {
					va.Revision, vb.Revision = a, b
					va.Version, vb.Version = "1", "1"
				} else {
					va.Version, vb.Version = a, b
				}
				want := gen.CmpKeys(keys[i], bkeys[j])
				got := gen.Sign(version.Compare(va, vb))
				st.Evals++
				st.Traces++
				if a != b {
					st.Nontrivial++
				}
				if got != want {
					st.Violate(checkPairWant(nm, In{AV: va.Version, BV: vb.Version, AR: va.Revision, BR: vb.Revision, Via: "struct"}, want))
				}
				st.Classes[cls(want)]++
			}
			st.States++ // one state per left operand (its pairs are the transitions)
			st.Transitions += int64(len(bs))
			if i%997 == 0 && st.WantSample() {
				st.Sample(map[string]string{"a": a, "b": bs[(i*7)%len(bs)], "part": nm})
			}
			return true
		})
	}
}

func selfCheck(r *mc.Run) {
	// the statement's worked examples and the suite's literals, against the reference
	lt := [][2]string{{"1.0~rc1", "1.0"}, {"1.0", "1.0+b1"}, {"9", "10"}, {"1.0-1", "1.0-2"}, {"a", "+"}, {"a", "."}, {"a", "-"},
		{"~", ""}, {"~~", "~"}, {"~", "a"}, {"", "a"}, {"1a", "1+"}, {"1.2.3", "1.2.10"}, {"99999999999999999999", "100000000000000000000"}}
	for _, p := range lt {
		if gen.CmpKeys(gen.KeyOf(p[0]), gen.KeyOf(p[1])) != -1 || gen.CmpKeys(gen.KeyOf(p[1]), gen.KeyOf(p[0])) != 1 {
			r.HarnessError("reference order self-check failed on %q < %q", p[0], p[1])
		}
	}
	eq := [][2]string{{"0", ""}, {"00", "0"}, {"1.00", "1.0"}, {"a0", "a"}, {"01", "1"}}
	for _, p := range eq {
		if gen.CmpKeys(gen.KeyOf(p[0]), gen.KeyOf(p[1])) != 0 {
			r.HarnessError("reference order self-check failed on %q = %q", p[0], p[1])
		}
	}
	if gen.RefCompare(gen.RefVersion{Upstream: "1.0"}, gen.RefVersion{Upstream: "1.0", Revision: "0"}) != 0 {
		r.HarnessError("reference: missing revision must equal revision 0")
	}
	// CmpKeys against the math/big formulation
	strs := gen.AllStrings(gen.Chars("019a~+."), 3)
	for _, a := range strs {
		for _, b := range strs {
			if gen.CmpKeys(gen.KeyOf(a), gen.KeyOf(b)) != gen.CmpPartBig(a, b) {
				r.HarnessError("CmpKeys vs big.Int disagree on %q %q", a, b)
				return
			}
		}
	}
}

// dpkgCross validates the REFERENCE against the real dpkg on syntactically valid versions. It never decides the property.
func dpkgCross(r *mc.Run, n int) {
	if _, err := exec.LookPath("dpkg"); err != nil {
		r.Extra["tool_crosschecks"] = map[string]interface{}{"dpkg": "skipped (not installed)"}
		return
	}
	ups := []string{}
	for _, s := range gen.AllStrings(gen.Chars("01a~+.-:"), 2) {
		ups = append(ups, "1"+s)
	}
	revs := []string{"", "0", "1", "~", "a", "+"}
	type v struct {
		s string
		r gen.RefVersion
	}
	var vs []v
	for _, e := range []uint64{0, 1} {
		for _, u := range ups {
			for _, rv := range revs {
				if strings.Contains(u, ":") && e == 0 {
					continue
				}
				if strings.Contains(u, "-") && rv == "" {
					continue
				}
				s := u
				if e > 0 {
					s = fmt.Sprintf("%d:%s", e, u)
				}
				if rv != "" {
					s += "-" + rv
				}
				vs = append(vs, v{s, gen.RefVersion{Epoch: e, Upstream: u, Revision: rv}})
			}
		}
	}
	done, bad := 0, 0
	step := len(vs)*len(vs)/n + 1
	// one shell process evaluates a batch of comparisons
	var script strings.Builder
	type pr struct{ i, j int }
	var prs []pr
	for k := int(r.Seed % int64(step)); k < len(vs)*len(vs); k += step {
		i, j := k/len(vs), k%len(vs)
		prs = append(prs, pr{i, j})
		fmt.Fprintf(&script, "if dpkg --compare-versions '%s' lt '%s' 2>/dev/null; then echo -1; elif dpkg --compare-versions '%s' eq '%s' 2>/dev/null; then echo 0; else echo 1; fi\n", vs[i].s, vs[j].s, vs[i].s, vs[j].s)
	}
	out, err := exec.Command("sh", "-c", script.String()).Output()
	if err != nil {
		r.Extra["tool_crosschecks"] = map[string]interface{}{"dpkg": "skipped: " + err.Error()}
		return
	}
	lines := strings.Fields(string(out))
	for k, p := range prs {
		if k >= len(lines) {
			break
		}
		want := gen.RefCompare(vs[p.i].r, vs[p.j].r)
		if fmt.Sprint(want) != lines[k] {
			bad++
			r.HarnessError("reference disagrees with dpkg on %q vs %q: ref %d dpkg %s", vs[p.i].s, vs[p.j].s, want, lines[k])
		}
		done++
	}
	r.Extra["tool_crosschecks"] = map[string]interface{}{"dpkg_pairs": done, "dpkg_disagreements_with_reference": bad}
}

func Run(r *mc.Run) {
	r.Rule = "all ordered pairs of version parts/versions over the stated alphabets and lengths; a pair is non-trivial when the two operands differ as strings; distinct by construction (product of distinct strings)"
	r.Assume = []string{"reference comparator gen.CmpKeys (tokenise-then-compare) is the Policy 5.6.12 order; cross-checked against dpkg --compare-versions and math/big on every run",
		"bytes outside [A-Za-z0-9.+~:-] and lengths beyond the bound are not explored"}
	selfCheck(r)
	dpkgCross(r, r.Pick(600, 6000))

	sigma13 := gen.Chars("0129azAZ~+-.:")
	// alphabet audit: characters / strings / numbers a change introduced into the code join the alphabets of this run
	sigma13 = append(sigma13, gen.AuditChars(gen.Versionish, 3)...)
	auditToks := append(gen.AuditStrings(gen.Versionish, 8), gen.AuditIntStrings(0, 1<<62, 9)...)
	L := r.Pick(3, 4)
	strs := gen.AllStrings(sigma13, L)
	partPairs(r, "sigma13", strs, nil, map[string]interface{}{"alphabet": "0129azAZ~+-.:", "max_len": L, "strings": len(strs)})

	sigma6 := gen.Chars("01a~+.")
	deep := gen.AllStrings(sigma6, r.Pick(5, 6))
	var bs []string
	if !r.Quick() {
		bs = gen.AllStrings(sigma6, 4)
	}
	partPairs(r, "sigma6-deep", deep, bs, map[string]interface{}{"alphabet": "01a~+.", "max_len_a": r.Pick(5, 6), "max_len_b": r.Pick(5, 4), "strings": len(deep)})

	toks := gen.Dedup(gen.AllStrings([]string{"0", "00", "1", "9", "09", "10", "99999999999999999999", "100000000000000000000", "a", "~", "+", "."}, 3))
	if len(auditToks) > 0 {
		toks = gen.Dedup(append(toks, gen.AllStrings(append([]string{"0", "1", "9", "a", "~", "+", ".", "-"}, auditToks...), 3)...))
	}
	partPairs(r, "digit-tokens", toks, nil, map[string]interface{}{"tokens": "0 00 1 9 09 10 99999999999999999999 100000000000000000000 a ~ + .", "max_tokens": 3, "strings": len(toks)})

	// parts longer than a machine word has bits: identical for 63 / 64 / 65 / 127 / 128 / 129 / 255 / 256 bytes, then every kind
	// of deciding difference
	var beyond []string
	filler := strings.Repeat("0.0~git20230512.1a+b", 20)
	for _, n := range []int{63, 64, 65, 127, 128, 129, 255, 256} {
		for _, t := range []string{"", "1", "9", "10", "1.9", "1.10", "a", "z", "~", "+", ".", "0", "00", "a1", "1a"} {
			beyond = append(beyond, filler[:n]+t)
		}
	}
	partPairs(r, "beyond-64-bytes", beyond, nil, map[string]interface{}{"shape": "a common prefix of 63..256 bytes followed by every kind of deciding difference", "strings": len(beyond)})

	lr := gen.LongRunStrings()
	partPairs(r, "long-runs", lr, nil, map[string]interface{}{"shape": "letter and digit runs of 7..17 characters continued by every class of character, cut short and continued differently, differing at every position class", "strings": len(lr)})

	// many components: dotted numbers with up to 8 components (more around any new integer constant of the code)
	maxComp := 8
	for _, n := range gen.AuditInts(2, 11, 3) {
		if int(n)+1 > maxComp {
			maxComp = int(n) + 1
		}
	}
	var dotted []string
	for k := 1; k <= maxComp; k++ {
		gen.Odometer([]string{"0", "1"}, k, func(s string) bool {
			dotted = append(dotted, strings.Join(strings.Split(s, ""), "."))
			return true
		})
	}
	for _, sep := range []string{"-", "+", "~", "a"} { // the same shape with other separators (fewer components)
		for k := 2; k <= 6; k++ {
			gen.Odometer([]string{"1", "2"}, k, func(s string) bool {
				dotted = append(dotted, strings.Join(strings.Split(s, ""), sep))
				return true
			})
		}
	}
	partPairs(r, "many-components", dotted, nil, map[string]interface{}{"shape": "d(.d)* with up to max_components components over {0,1}; d(sep d)* up to 6 over {1,2} for sep in - + ~ a", "max_components": maxComp, "strings": len(dotted)})

	// the k-th of up to 40 components decides, for every k; digit runs of up to 65537 significant digits
	ladders := gen.ComponentLadders()
	partPairs(r, "component-ladders", ladders, nil, map[string]interface{}{"shape": "9..40 components, differing from a base in exactly one component (every position) or in two adjacent ones with opposite signs; separators . + a", "strings": len(ladders)})
	ldr := gen.LongDigitRuns()
	partPairs(r, "long-digit-runs", ldr, nil, map[string]interface{}{"shape": "one deciding digit run of 1..65537 significant digits (lengths around 2^7, 2^8, 2^9, 2^16), small and large leading digit, leading zeros, a letter behind", "strings": len(ldr)})

	// comparisons made at the same time: every schedule of small thread programs (instrumented build)
	sched.Explore(r, "concurrent-comparisons", ConcurrentPrograms())

	// full versions
	var full []In
	ups := append(gen.AllStrings(gen.Chars("01a~+.-:"), 2), auditToks...)
	revs := append([]string{"", "0", "00", "1", "~", "a", "+"}, auditToks...)
	epochs := []uint{0, 1, 2, 10, 1 << 31, 1 << 32, 1<<63 - 1, 1 << 63, 1<<63 + 1, ^uint(0)}
	for _, v := range gen.AuditInts(0, 1<<62, 6) {
		epochs = append(epochs, uint(v))
	}
	for _, e := range epochs {
		for _, u := range ups {
			for _, rv := range revs {
				full = append(full, In{AE: e, AV: u, AR: rv})
			}
		}
	}
	if r.Quick() {
		// quick: thin the upstream set deterministically (every 3rd) to keep the pair count near 10^6
		var f2 []In
		for i, x := range full {
			if i%4 == 0 {
				f2 = append(f2, x)
			}
		}
		full = f2
	}
	for _, via := range []string{"struct", "parse", "less", "parse-edit", "cut"} {
		via := via
		r.Scenario("full-versions-"+via, map[string]interface{}{"epochs": "0 1 2 10 2^31 2^32 2^63-1 2^63 2^63+1 2^64-1", "upstream": "all |s|<=2 over 01a~+.-:", "revisions": revs, "versions": len(full)},
			len(full), func(i int, st *mc.Stats) bool {
				for j := range full {
					in := In{AE: full[i].AE, AV: full[i].AV, AR: full[i].AR, BE: full[j].AE, BV: full[j].AV, BR: full[j].AR, Via: via}
					st.Evals++
					st.Traces++
					if i != j {
						st.Nontrivial++
					}
					if v := checkPair("full-versions-"+via, in); v != nil {
						st.Violate(v)
					}
				}
				st.States++
				st.Transitions += int64(len(full))
				if i%211 == 0 && st.WantSample() {
					st.Sample(In{AE: full[i].AE, AV: full[i].AV, AR: full[i].AR, BE: full[(i*5)%len(full)].AE, BV: full[(i*5)%len(full)].AV, BR: full[(i*5)%len(full)].AR, Via: via})
				}
				return true
			})
	}
}

func Replay(scenario string, raw json.RawMessage) []*mc.Violation {
	if scenario == "concurrent-comparisons" {
		return sched.Replay(scenario, ConcurrentPrograms(), raw)
	}
	var in In
	if err := mc.UnmarshalInput(raw, &in); err != nil {
		return nil
	}
	if v := checkPair(scenario, in); v != nil {
		return []*mc.Violation{v}
	}
	return nil
}
