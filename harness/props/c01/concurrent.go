package c01

// Comparisons made at the same time. The statement quantifies over all pairs, not over programs that compare one pair
// at a time: two goroutines comparing different pairs must each get the answer of the reference. The schedules of small
// thread programs are enumerated by the shared cooperative scheduler (instrumented build).

import (
	"fmt"
	"sort"

	"pault.ag/go/debian/version"

	"verifharness/gen"
	"verifharness/sched"
)

func ConcurrentPrograms() []sched.Program {
	pairs := [][2]string{{"1.0-1", "1.0-2"}, {"1:0.1", "2.0"}, {"1.0~rc1", "1.0"}, {"2.4-0", "2.4"}, {"1.10", "1.9"}, {"1.0+b1", "1.0a"}, {"20230512", "202305121530"}, {"1.0-1ubuntuthree", "1.0-1ubuntu+esm1"}}
	op := func(p [2]string) sched.Op {
		return sched.Op{Label: fmt.Sprintf("Compare(%s, %s)", p[0], p[1]), F: func() string {
			a, ea := version.Parse(p[0])
			b, eb := version.Parse(p[1])
			if ea != nil || eb != nil {
				return "parse error"
			}
			s := version.Slice{a, b}
			return fmt.Sprintf("%d %v %v", gen.Sign(version.Compare(a, b)), s.Less(0, 1), s.Less(1, 0))
		}}
	}
	sortOp := func(texts ...string) sched.Op {
		return sched.Op{Label: fmt.Sprintf("sort%v", texts), F: func() string {
			var s version.Slice
			for _, t := range texts {
				v, _ := version.Parse(t)
				s = append(s, v)
			}
			sort.Sort(s)
			return fmt.Sprint(s)
		}}
	}
	var progs []sched.Program
	for i, a := range pairs {
		for j, b := range pairs {
			progs = append(progs, sched.Program{Name: fmt.Sprintf("compare-%d-with-%d", i, j), Threads: [][]sched.Op{{op(a)}, {op(b)}}})
		}
	}
	progs = append(progs,
		sched.Program{Name: "two-calls-against-one", Threads: [][]sched.Op{{op(pairs[0]), op(pairs[2])}, {op(pairs[4])}}},
		sched.Program{Name: "three-threads", Threads: [][]sched.Op{{op(pairs[1])}, {op(pairs[3])}, {op(pairs[5])}}},
		sched.Program{Name: "sort-with-compare", Threads: [][]sched.Op{{sortOp("1.0", "1.0~rc1", "1.0+b1", "0.9")}, {op(pairs[6])}}},
		sched.Program{Name: "sort-with-sort", Threads: [][]sched.Op{{sortOp("2", "1", "1.0-1", "1:0")}, {sortOp("1.10", "1.9", "1.9a")}}})
	return progs
}
