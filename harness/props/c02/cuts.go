package c02

// Values whose strings are windows onto one shared buffer. A caller that splits a line of text gets exactly such values
// (strings.Split, slicing a field, a prefix of another version); the order must be a function of the VALUE of the
// strings, not of where their bytes live, so every law is checked on all triples of windows and every pairwise answer is
// compared with the one for independently allocated copies of the same text.

import (
	"fmt"
	"sort"
	"strings"

	"pault.ag/go/debian/version"
	"verifharness/mc"
)

// CutIn is the replayable input: three windows [lo,hi) of Base used as upstream part (Rev=false) or as revision.
type CutIn struct {
	Base    string
	A, B, C [2]int
	Rev     bool
}

var cutBases = []string{"2.4pl1~rc1+b2", "1.0-1.0-1", "10.010a.~~", "abc+abc"}

func (in CutIn) vers(clone bool) [3]version.Version {
	var out [3]version.Version
	for i, w := range [3][2]int{in.A, in.B, in.C} {
		s := in.Base[w[0]:w[1]]
		if clone {
			s = strings.Clone(s)
		}
		if in.Rev {
			out[i] = version.Version{Version: "1", Revision: s}
		} else {
			out[i] = version.Version{Version: s}
		}
	}
	return out
}

func checkCut(scen string, in CutIn) *mc.Violation {
	if in.Base == "" {
		return nil
	}
	for _, w := range [3][2]int{in.A, in.B, in.C} {
		if w[0] < 0 || w[1] > len(in.Base) || w[0] > w[1] {
			return nil
		}
	}
	sh, cl := in.vers(false), in.vers(true)
	for i := 0; i < 3; i++ {
		for j := 0; j < 3; j++ {
			if got, want := sign(version.Compare(sh[i], sh[j])), sign(version.Compare(cl[i], cl[j])); got != want {
				return mc.V(scen, "depends-on-the-value-only", in, fmt.Sprintf("Compare(%q,%q) = %d as for separately allocated copies", sh[i], sh[j], want), fmt.Sprint(got))
			}
		}
	}
	a, b, c := sh[0], sh[1], sh[2]
	ab, ba, bc, ac := sign(version.Compare(a, b)), sign(version.Compare(b, a)), sign(version.Compare(b, c)), sign(version.Compare(a, c))
	if ab != -ba {
		return mc.V(scen, "antisymmetric", in, "sign Compare(a,b) = -sign Compare(b,a)", fmt.Sprintf("%d vs %d", ab, ba))
	}
	if ab <= 0 && bc <= 0 && ac > 0 {
		return mc.V(scen, "transitive", in, "a<=b and b<=c imply a<=c", fmt.Sprintf("ab=%d bc=%d ac=%d", ab, bc, ac))
	}
	if ab == 0 && ac != bc {
		return mc.V(scen, "equal-behave-identically", in, "Compare(a,b)=0 implies sign Compare(a,c) = sign Compare(b,c)", fmt.Sprintf("ac=%d bc=%d", ac, bc))
	}
	// the provided sort on the three shared-buffer values
	s := version.Slice{a, b, c}
	sort.Sort(s)
	for i := 0; i+1 < len(s); i++ {
		if version.Compare(cl3(s[i]), cl3(s[i+1])) > 0 {
			return mc.V(scen, "sort-non-decreasing", in, "non-decreasing result", fmt.Sprintf("%q", []version.Version(s)))
		}
	}
	return nil
}

func cl3(v version.Version) version.Version {
	return version.Version{Epoch: v.Epoch, Version: strings.Clone(v.Version), Revision: strings.Clone(v.Revision)}
}

func windows(n int) [][2]int {
	var w [][2]int
	for lo := 0; lo <= n; lo++ {
		for hi := lo; hi <= n; hi++ {
			if lo == hi && lo != 0 {
				continue // one empty window is enough
			}
			w = append(w, [2]int{lo, hi})
		}
	}
	return w
}

func addCutScenario(r *mc.Run) {
	type job struct {
		base string
		rev  bool
		a    [2]int
	}
	var jobs []job
	for _, b := range cutBases {
		for _, rev := range []bool{false, true} {
			for _, a := range windows(len(b)) {
				jobs = append(jobs, job{b, rev, a})
			}
		}
	}
	const scen = "values-cut-from-one-buffer"
	r.Scenario(scen, map[string]interface{}{"buffers": cutBases, "values": "every window [lo,hi) of a buffer, as upstream part and as revision", "triples": "all ordered triples of windows of one buffer", "oracle": "order laws + the same answers as for separately allocated copies"},
		len(jobs), func(i int, st *mc.Stats) bool {
			j := jobs[i]
			ws := windows(len(j.base))
			for _, b := range ws {
				for _, c := range ws {
					in := CutIn{j.base, j.a, b, c, j.rev}
					st.Evals++
					if j.a != b && b != c && j.a != c {
						st.Nontrivial++
					}
					if v := checkCut(scen, in); v != nil {
						st.Violate(v)
						st.Class("law-broken:" + v.Clause)
					}
				}
			}
			st.Class(fmt.Sprintf("rev=%v", j.rev))
			st.States++
			st.Transitions += int64(len(ws)) * int64(len(ws))
			if i%31 == 0 && st.WantSample() {
				st.Sample(CutIn{j.base, j.a, ws[(i*7+3)%len(ws)], ws[(i*11+5)%len(ws)], j.rev})
			}
			return true
		})
}
