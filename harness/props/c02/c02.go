// Package c02: version comparison is a total preorder; sorting is well defined.
// No reference comparator is involved: only the order laws themselves, on all triples, and sort results on all short slices.
package c02

import (
	"encoding/json"
	"fmt"
	"sort"
	"strings"

	"pault.ag/go/debian/version"

	"verifharness/gen"
	"verifharness/mc"
	"verifharness/props/c01"
	"verifharness/props/reg"
	"verifharness/sched"
)

func init() { reg.Register(&reg.Prop{ID: "C02", Run: Run, Replay: Replay}) }

type V3 struct {
	E uint
	V string
	R string
}

func (v V3) ver() version.Version { return version.Version{Epoch: v.E, Version: v.V, Revision: v.R} }

// TripleIn is the replayable input of the law scenario.
type TripleIn struct{ A, B, C V3 }

// SortIn is the replayable input of the sort scenario.
type SortIn struct{ S []V3 }

func sign(x int) int { return gen.Sign(x) }

// checkTriple evaluates all order laws on one ordered triple.
func checkTriple(scen string, in TripleIn) *mc.Violation {
	a, b, c := in.A.ver(), in.B.ver(), in.C.ver()
	ab, ba := sign(version.Compare(a, b)), sign(version.Compare(b, a))
	bc := sign(version.Compare(b, c))
	ac := sign(version.Compare(a, c))
	if aa := version.Compare(a, a); aa != 0 {
		return mc.V(scen, "reflexive", in, "Compare(a,a)=0", fmt.Sprint(aa))
	}
	if ab != -ba {
		return mc.V(scen, "antisymmetric", in, "sign Compare(a,b) = -sign Compare(b,a)", fmt.Sprintf("%d vs %d", ab, ba))
	}
	if ab <= 0 && bc <= 0 && ac > 0 {
		return mc.V(scen, "transitive", in, "a<=b and b<=c imply a<=c", fmt.Sprintf("ab=%d bc=%d ac=%d", ab, bc, ac))
	}
	// the sort adapter must order a pair exactly as Compare does
	if l := (version.Slice{a, b}).Less(0, 1); l != (ab < 0) {
		return mc.V(scen, "less-is-compare", in, fmt.Sprintf("Less(a,b) == (Compare(a,b) < 0) = %v", ab < 0), fmt.Sprint(l))
	}
	if ab == 0 && ac != bc {
		return mc.V(scen, "equal-behave-identically", in, "Compare(a,b)=0 implies sign Compare(a,c) = sign Compare(b,c)", fmt.Sprintf("ac=%d bc=%d", ac, bc))
	}
	return nil
}

// checkSort sorts a copy with the provided adapter and checks permutation + non-decreasing.
func checkSort(scen string, in SortIn) *mc.Violation {
	s := make(version.Slice, len(in.S))
	for i, v := range in.S {
		s[i] = v.ver()
	}
	orig := append(version.Slice(nil), s...)
	finished := true
	pan, msg := mc.Guard(func() { sort.Sort(s) })
	if pan {
		return mc.V(scen, "sort-terminates", in, "sort.Sort returns", "panic: "+msg)
	}
	_ = finished
	if len(s) != len(orig) {
		return mc.V(scen, "sort-permutation", in, "same length", fmt.Sprint(len(s)))
	}
	cnt := map[version.Version]int{}
	for _, v := range orig {
		cnt[v]++
	}
	for _, v := range s {
		cnt[v]--
	}
	for v, n := range cnt {
		if n != 0 {
			return mc.V(scen, "sort-permutation", in, "result is a permutation of the input (multiset of struct values)", fmt.Sprintf("%+v off by %d", v, n))
		}
	}
	for i := 0; i+1 < len(s); i++ {
		if version.Compare(s[i], s[i+1]) > 0 {
			return mc.V(scen, "sort-nondecreasing", in, "non-decreasing under Compare", fmt.Sprintf("%+v > %+v at %d in %+v", s[i], s[i+1], i, s))
		}
	}
	// the other ways the sort package drives the adapter: the result counts as sorted, a stable sort of the input gives a
	// non-decreasing permutation too, and reversing through sort.Reverse gives a non-increasing one
	if !sort.IsSorted(s) {
		return mc.V(scen, "sort-nondecreasing", in, "sort.IsSorted(result)", "false")
	}
	st := append(version.Slice(nil), orig...)
	rv := append(version.Slice(nil), orig...)
	if pan, msg := mc.Guard(func() { sort.Stable(st); sort.Sort(sort.Reverse(rv)) }); pan {
		return mc.V(scen, "sort-terminates", in, "sort.Stable / sort.Reverse return", "panic: "+msg)
	}
	for i := 0; i+1 < len(st); i++ {
		if version.Compare(st[i], st[i+1]) > 0 {
			return mc.V(scen, "sort-nondecreasing", in, "sort.Stable: non-decreasing under Compare", fmt.Sprintf("%+v > %+v at %d", st[i], st[i+1], i))
		}
		if version.Compare(rv[i], rv[i+1]) < 0 {
			return mc.V(scen, "sort-nondecreasing", in, "sort.Sort(sort.Reverse(s)): non-increasing under Compare", fmt.Sprintf("%+v < %+v at %d", rv[i], rv[i+1], i))
		}
	}
	cnt2 := map[version.Version]int{}
	for _, v := range orig {
		cnt2[v] += 2
	}
	for i := range st {
		cnt2[st[i]]--
		cnt2[rv[i]]--
	}
	for v, n := range cnt2 {
		if n != 0 {
			return mc.V(scen, "sort-permutation", in, "sort.Stable and sort.Reverse results are permutations of the input", fmt.Sprintf("%+v off by %d", v, n))
		}
	}
	// Less must agree with Compare on the sorted slice too
	for i := 0; i < len(s); i++ {
		for j := 0; j < len(s); j++ {
			if s.Less(i, j) != (version.Compare(s[i], s[j]) < 0) {
				return mc.V(scen, "less-is-compare", in, "Less(i,j) == Compare<0", fmt.Sprintf("i=%d j=%d", i, j))
			}
		}
	}
	return nil
}

func values(r *mc.Run) []V3 {
	alpha := "012aA~+.-"
	if !r.Quick() {
		alpha = "012aAz~+.-:"
	}
	ups := gen.AllStrings(gen.Chars(alpha), 2)
	revs := []string{"", "0", "1", "~", "a", "+1", "1a", "01"}
	var all []V3
	for _, e := range []uint{0, 1} {
		for _, u := range ups {
			for _, rv := range revs {
				if r.Quick() && len(u) == 2 && rv != "" && rv != "~" {
					continue // quick: length-2 upstream parts only with revision absent or "~"
				}
				all = append(all, V3{e, u, rv})
			}
		}
	}
	// longer digit runs (numbers sharing a prefix, trailing and embedded zeros) with and without a revision
	for _, u := range []string{"1rc1", "1RC1", "1Rc1", "1beta", "1Beta", "1ubuntu1", "1Ubuntu1", "1build1", "10", "100", "1000", "20", "200", "101", "110", "190", "1905", "19001", "1.10", "1.100", "1.20", "2.010", "2.01", "2.1"} {
		for _, e := range []uint{0, 1} {
			all = append(all, V3{e, u, ""}, V3{e, u, "10"}, V3{e, u, "100"})
		}
	}
	// the zero Version and its neighbours (values a caller leaves unset or builds by hand): ordered like any other value
	all = append(all, V3{0, "", ""}, V3{0, "", "1"}, V3{1, "", ""}, V3{0, "", "~"})
	// digit runs around the machine word sizes, plain and zero-padded to more characters than a larger value has
	for _, run := range []string{"99", "0000000000000000000099", "100", "00000000000000000000100", "4294967295", "4294967296", "9223372036854775807", "9223372036854775808",
		"18446744073709551615", "18446744073709551616", "20240101120000123456", "020240101120000123456"} {
		all = append(all, V3{0, run, ""}, V3{0, "0~git." + run, ""}, V3{0, "1", run})
	}
	// alphabet audit: values a change introduced into the code (strings, characters, numbers)
	for _, t := range append(append(gen.AuditStrings(gen.Versionish, 8), gen.AuditChars(gen.Versionish, 3)...), gen.AuditIntStrings(0, 1<<62, 9)...) {
		for _, e := range []uint{0, 1} {
			all = append(all, V3{e, t, ""}, V3{e, "1" + t, ""}, V3{e, "1" + t + "1", "1"}, V3{e, "1", t}, V3{e, "1.0", "1" + t}, V3{e, t, t})
		}
	}
	for _, v := range gen.AuditInts(0, 1<<62, 6) {
		all = append(all, V3{uint(v), "1", ""}, V3{uint(v), "1", "1"})
	}
	return all
}

func Run(r *mc.Run) {
	r.Rule = "all ordered triples over the value set (law scenario) and all sequences up to the length bound over a 15-element set (sort scenario); a triple is non-trivial when its three values are pairwise different structs; a sequence when it has >= 2 different elements; distinct by construction"
	r.Assume = []string{"no reference comparator: the laws are checked on the implementation's own answers", "values outside the enumerated set (longer strings, other bytes) are not explored"}
	vals := values(r)
	n := len(vals)
	r.Scenario("order-laws-all-triples", map[string]interface{}{"values": n, "epochs": "0 1", "upstream": "|s|<=2 over 012a~+.- (thorough adds :)", "revisions": "'' 0 1 ~ a +1 1a 01"},
		n, func(i int, st *mc.Stats) bool {
			a := vals[i]
			for j := 0; j < n; j++ {
				if j%64 == 0 && r.Expired() {
					return false
				}
				b := vals[j]
				for k := 0; k < n; k++ {
					in := TripleIn{a, b, vals[k]}
					st.Evals++
					if i != j && j != k && i != k {
						st.Nontrivial++
					}
					if v := checkTriple("order-laws-all-triples", in); v != nil {
						st.Violate(v)
						st.Class("law-broken:" + v.Clause)
					}
				}
				ab := sign(version.Compare(a.ver(), b.ver()))
				st.Class(fmt.Sprintf("ab=%d", ab))
			}
			st.States++
			st.Transitions += int64(n) * int64(n)
			if i%97 == 0 && st.WantSample() {
				st.Sample(TripleIn{a, vals[(i*13+5)%n], vals[(i*29+11)%n]})
			}
			return true
		})

	// epochs over the whole range of the field (values a caller builds as structs; the parser's limit is C03's business)
	var ext []V3
	for _, e := range []uint{0, 1, 2, 1 << 31, 1 << 32, 1 << 62, 1<<63 - 1, 1 << 63, 1<<63 + 1, ^uint(0) - 1, ^uint(0)} {
		for _, u := range []string{"0", "1"} {
			ext = append(ext, V3{e, u, ""}, V3{e, u, "1"})
		}
	}
	r.Scenario("epoch-extremes-all-triples", map[string]interface{}{"values": len(ext), "epochs": "0 1 2 2^31 2^32 2^62 2^63-1 2^63 2^63+1 2^64-2 2^64-1", "upstream": "0 1", "revisions": "'' 1"},
		len(ext), func(i int, st *mc.Stats) bool {
			for j := range ext {
				for k := range ext {
					st.Evals++
					if i != j && j != k && i != k {
						st.Nontrivial++
					}
					if v := checkTriple("epoch-extremes-all-triples", TripleIn{ext[i], ext[j], ext[k]}); v != nil {
						st.Violate(v)
						st.Class("law-broken:" + v.Clause)
					}
				}
				st.Class(fmt.Sprintf("ab=%d", sign(version.Compare(ext[i].ver(), ext[j].ver()))))
			}
			st.States++
			st.Transitions += int64(len(ext)) * int64(len(ext))
			return true
		})

	// long letter and digit runs (word-at-a-time widths): all triples over a thinned family
	var lrv []V3
	for i, t := range gen.LongRunStrings() {
		if i%3 == 0 {
			lrv = append(lrv, V3{0, t, ""})
		} else if i%3 == 1 && !strings.Contains(t, ":") {
			lrv = append(lrv, V3{0, "1", strings.ReplaceAll(t, "-", ".")})
		}
	}
	r.Scenario("order-laws-long-runs", map[string]interface{}{"values": len(lrv), "shape": "letter and digit runs of 7..17 characters, as upstream part and as revision"}, len(lrv), func(i int, st *mc.Stats) bool {
		for j := range lrv {
			for k := range lrv {
				st.Evals++
				if i != j && j != k && i != k {
					st.Nontrivial++
				}
				if v := checkTriple("order-laws-long-runs", TripleIn{lrv[i], lrv[j], lrv[k]}); v != nil {
					st.Violate(v)
					st.Class("law-broken:" + v.Clause)
				}
			}
		}
		st.States++
		st.Transitions += int64(len(lrv)) * int64(len(lrv))
		return true
	})

	addCutScenario(r)

	// many components and very long digit runs: a subset of C01's families (the laws need triples, so fewer values)
	var wide []V3
	for i, t := range gen.ComponentLadders() {
		// every 11th of the family, and all 9- and 16-component parts that differ from their base near the 8th / 16th component
		c := strings.Count(t, ".")
		if i%11 == 0 || ((c == 8 || c == 15 || c == 16) && i%3 == 0) {
			wide = append(wide, V3{0, t, ""})
			if i%4 == 0 {
				wide = append(wide, V3{0, "1", strings.ReplaceAll(t, ".", "+")})
			}
		}
	}
	for i, t := range gen.LongDigitRuns() {
		if len(t) < 2000 {
			wide = append(wide, V3{0, t, ""})
			if i%3 == 0 {
				wide = append(wide, V3{0, "1", t})
			}
		}
	}
	r.Scenario("order-laws-many-components-and-long-digit-runs", map[string]interface{}{"values": len(wide), "shape": "9..40 components differing in one position; digit runs of 1..1000 significant digits, as upstream part and as revision"}, len(wide), func(i int, st *mc.Stats) bool {
		for j := range wide {
			for k := range wide {
				st.Evals++
				if i != j && j != k && i != k {
					st.Nontrivial++
				}
				if v := checkTriple("order-laws-many-components-and-long-digit-runs", TripleIn{wide[i], wide[j], wide[k]}); v != nil {
					st.Violate(v)
					st.Class("law-broken:" + v.Clause)
				}
			}
		}
		st.States++
		st.Transitions += int64(len(wide)) * int64(len(wide))
		return true
	})
	// the sort adapter on slices of these values: windows of 24 consecutive values, as they are and reversed
	nw := len(wide) / 24
	r.Scenario("sort-many-components-and-long-digit-runs", map[string]interface{}{"slices": 2 * nw, "length": 24}, nw, func(w int, st *mc.Stats) bool {
		sl := append([]V3{}, wide[w*24:w*24+24]...)
		rv := make([]V3, len(sl))
		for i := range sl {
			rv[len(sl)-1-i] = sl[i]
		}
		for _, x := range [][]V3{sl, rv} {
			st.Evals++
			st.Nontrivial++
			if v := checkSort("sort-many-components-and-long-digit-runs", SortIn{x}); v != nil {
				st.Violate(v)
				st.Class("broken:" + v.Clause)
			} else {
				st.Class("sorted")
			}
		}
		return true
	})

	// comparisons and sorts made at the same time: every schedule of small thread programs (instrumented build)
	sched.Explore(r, "concurrent-comparisons", c01.ConcurrentPrograms())

	large := largeSlices()
	r.Scenario("sort-large-slices", map[string]interface{}{"slices": len(large), "lengths": "13..90", "family": "rotations, reversal, adjacent transpositions, stride interleavings, duplicates of a 45-element chain with equal-but-different spellings"}, len(large), func(i int, st *mc.Stats) bool {
		st.Evals++
		st.Nontrivial++
		if v := checkSort("sort-large-slices", SortIn{large[i]}); v != nil {
			st.Violate(v)
			st.Class("broken:" + v.Clause)
		} else {
			st.Class("sorted")
		}
		return true
	})

	// sorting: all sequences of length <= L over a 12-element set with equal-but-different spellings
	set := []V3{{0, "1.0", ""}, {0, "1.00", ""}, {0, "1.0", "0"}, {0, "1.0~rc1", ""}, {0, "1.0+b1", ""}, {0, "1.0a", ""},
		{0, "1.0", "1"}, {0, "1.0.", ""}, {1, "0.1", ""}, {0, "1.0~~", ""}, {0, "9", ""}, {0, "10", ""},
		// the same upstream text under different epochs, with revisions that order the other way round
		{1, "1.0", ""}, {1, "1.0", "0~"}, {2, "1.0", "1"}, {0, "", ""}}
	L := r.Pick(4, 5)
	m := len(set)
	r.Scenario("sort-all-sequences", map[string]interface{}{"set": set, "max_len": L}, m*m, func(sh int, st *mc.Stats) bool {
		// shard = first two elements; enumerate the remaining positions (and the shorter sequences once, in shard 0)
		if sh == 0 {
			st.Evals++
			st.Violate(checkSort("sort-all-sequences", SortIn{nil}))
			for i := 0; i < m; i++ {
				st.Evals++
				st.Violate(checkSort("sort-all-sequences", SortIn{[]V3{set[i]}}))
			}
		}
		for l := 2; l <= L; l++ {
			idx := make([]int, l)
			idx[0], idx[1] = sh/m, sh%m
			for {
				s := make([]V3, l)
				distinct := false
				for p, x := range idx {
					s[p] = set[x]
					if x != idx[0] {
						distinct = true
					}
				}
				st.Evals++
				if distinct {
					st.Nontrivial++
				}
				if v := checkSort("sort-all-sequences", SortIn{s}); v != nil {
					st.Violate(v)
					st.Class("broken:" + v.Clause)
				} else {
					st.Class(fmt.Sprintf("sorted-len-%d", l))
				}
				if st.WantSample() && l == L && idx[l-1] == 7 {
					st.Sample(SortIn{s})
				}
				p := l - 1
				for p >= 2 {
					idx[p]++
					if idx[p] < m {
						break
					}
					idx[p] = 0
					p--
				}
				if p < 2 {
					break
				}
			}
		}
		return true
	})
}

// largeSlices: slices longer than the small-input paths of the sort package (insertion sort up to 12 elements, then
// pattern-defeating quicksort with its own thresholds): for a 40-element chain with equal-but-different spellings every
// rotation, the reversal, every adjacent transposition, every interleaving of the two halves by a stride, and the same
// with each element duplicated.
func largeSlices() [][]V3 {
	var chain []V3
	for i := 0; i < 20; i++ {
		chain = append(chain, V3{0, fmt.Sprintf("1.%d", i), ""}, V3{0, fmt.Sprintf("1.%d", i), "0"})
	}
	chain = append(chain, V3{0, "1.5~rc1", ""}, V3{0, "1.05", ""}, V3{1, "0.1", ""}, V3{0, "1.19+b1", "1"}, V3{0, "1.19", "1~"})
	n := len(chain)
	var out [][]V3
	for r := 0; r < n; r++ {
		out = append(out, append(append([]V3{}, chain[r:]...), chain[:r]...))
	}
	rev := make([]V3, n)
	for i := range chain {
		rev[n-1-i] = chain[i]
	}
	out = append(out, rev)
	for i := 0; i+1 < n; i++ {
		t := append([]V3{}, chain...)
		t[i], t[i+1] = t[i+1], t[i]
		out = append(out, t)
		t2 := append([]V3{}, rev...)
		t2[i], t2[i+1] = t2[i+1], t2[i]
		out = append(out, t2)
	}
	for stride := 2; stride <= 7; stride++ {
		var t []V3
		for o := 0; o < stride; o++ {
			for i := o; i < n; i += stride {
				t = append(t, chain[i])
			}
		}
		out = append(out, t, append(append([]V3{}, t...), t...))
	}
	for _, m := range []int{13, 16, 17, 32, 33} {
		out = append(out, append([]V3{}, rev[:m]...), append([]V3{}, chain[n-m:]...))
	}
	return out
}

func Replay(scenario string, raw json.RawMessage) []*mc.Violation {
	if scenario == "concurrent-comparisons" {
		return sched.Replay(scenario, c01.ConcurrentPrograms(), raw)
	}
	var out []*mc.Violation
	if scenario == "sort-all-sequences" || scenario == "sort-large-slices" || scenario == "sort-many-components-and-long-digit-runs" {
		var in SortIn
		if mc.UnmarshalInput(raw, &in) == nil {
			if v := checkSort(scenario, in); v != nil {
				out = append(out, v)
			}
		}
		return out
	}
	if scenario == "values-cut-from-one-buffer" {
		var in CutIn
		if mc.UnmarshalInput(raw, &in) == nil {
			if v := checkCut(scenario, in); v != nil {
				out = append(out, v)
			}
		}
		return out
	}
	var in TripleIn
	if mc.UnmarshalInput(raw, &in) == nil {
		if v := checkTriple(scenario, in); v != nil {
			out = append(out, v)
		}
	}
	return out
}
