package c07

import (
	"fmt"
	"strings"

	"pault.ag/go/debian/control"

	"verifharness/sched"
)

// ConcurrentPrograms: documents read at the same time by independent readers.
func ConcurrentPrograms() []sched.Program {
	var ops []sched.Op
	for _, s := range []string{"A: v\nB-c: w\n x\n .\n\ty\n\nA: second\n", "Package: hello\nDescription: short\n long line one\n .\n long line two\n", "# comment\nX: 1\r\nY:\r\n z\r\n", " orphan\n", "A: v\nA: again\n", ""} {
		s := s
		ops = append(ops, sched.Op{Label: fmt.Sprintf("read(%q)", s), F: func() string {
			pr, err := control.NewParagraphReader(strings.NewReader(s), nil)
			if err != nil {
				return "error: " + err.Error()
			}
			ps, err := pr.All()
			var l []P
			e2 := control.Unmarshal(&l, strings.NewReader(s))
			return fmt.Sprintf("%s %v|%d %v", canonParas(ps), err, len(l), e2)
		}})
	}
	return sched.PairPrograms(ops)
}
