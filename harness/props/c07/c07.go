// Package c07: the control-file reader recovers every paragraph, field and value; all access paths agree;
// on arbitrary input a returned paragraph has a value for exactly the fields it lists, each listed once.
package c07

import (
	"encoding/json"
	"fmt"
	"io"
	"sort"
	"strings"

	"pault.ag/go/debian/control"

	"verifharness/gen"
	"verifharness/mc"
	"verifharness/props/reg"
	"verifharness/sched"
)

func init() { reg.Register(&reg.Prop{ID: "C07", Run: Run, Replay: Replay}) }

// In is the replayable input for the well-formed scenario.
type In struct {
	Text     string
	Expected string // canonical reference paragraphs (from the model)
	Delivery int    // gen.Delivery mode
	Devs     []string
}

type P struct {
	control.Paragraph
}

// PT is P seen through typed members as well: a decoded element must show, in its members, the values of its own
// paragraph and nothing else.
type PT struct {
	control.Paragraph
	A    string `control:"A"`
	Bc   string `control:"B-c"`
	X    string `control:"X"`
	Long string `control:"Long-Name9"`
}

// Stanza / Nested: the raw paragraph embedded one level further down, the way a package that wraps the library's types
// (struct{ Stanza } with its own extra members) sees it.
type Stanza struct {
	control.Paragraph
	A string `control:"A"`
}

type Nested struct {
	Stanza
	X string `control:"X"`
}

func (x Nested) nestedView(i int) error {
	for _, m := range []struct{ key, got string }{{"A", x.A}, {"X", x.X}} {
		if want := x.Paragraph.Values[m.key]; m.got != want {
			return fmt.Errorf("element %d: member for %q is %q, its own paragraph says %q", i, m.key, m.got, want)
		}
	}
	return nil
}

// typedView reports the first member of x that differs from the paragraph x itself carries.
func (x PT) typedView(i int) error {
	for _, m := range []struct{ key, got string }{{"A", x.A}, {"B-c", x.Bc}, {"X", x.X}, {"Long-Name9", x.Long}} {
		if want := x.Values[m.key]; m.got != want {
			return fmt.Errorf("element %d: member %s is %q but its paragraph has %q", i, m.key, m.got, want)
		}
	}
	return nil
}

func canonParas(ps []control.Paragraph) string {
	var ref []gen.RefPara
	for _, p := range ps {
		ref = append(ref, gen.RefPara{Order: p.Order, Values: p.Values})
	}
	return gen.CanonRef(ref)
}

// readPaths reads text through every access path; returns canonical results per path (or "error: ...").
func readPaths(text string, delivery int) map[string]string {
	out := map[string]string{}
	rd := func() io.Reader { return gen.Delivery(text, delivery) }
	guard := func(name string, f func() (string, error)) {
		var s string
		var err error
		if p, msg := mc.Guard(func() { s, err = f() }); p {
			out[name] = "panic: " + msg
			return
		}
		if err != nil {
			out[name] = "error: " + err.Error()
			return
		}
		out[name] = s
	}
	guard("next-loop", func() (string, error) {
		pr, err := control.NewParagraphReader(rd(), nil)
		if err != nil {
			return "", err
		}
		var ps []control.Paragraph
		for i := 0; i < 100000; i++ {
			p, err := pr.Next()
			if err == io.EOF {
				return canonParas(ps), nil
			}
			if err != nil {
				return "", err
			}
			ps = append(ps, *p)
		}
		return "", fmt.Errorf("no end of input after 100000 paragraphs")
	})
	guard("all", func() (string, error) {
		pr, err := control.NewParagraphReader(rd(), nil)
		if err != nil {
			return "", err
		}
		ps, err := pr.All()
		if err != nil {
			return "", err
		}
		return canonParas(ps), nil
	})
	guard("unmarshal-slice", func() (string, error) {
		var l []P
		if err := control.Unmarshal(&l, rd()); err != nil {
			return "", err
		}
		var ps []control.Paragraph
		for _, x := range l {
			ps = append(ps, x.Paragraph)
		}
		return canonParas(ps), nil
	})
	guard("unmarshal-typed-slice", func() (string, error) {
		var l []PT
		if err := control.Unmarshal(&l, rd()); err != nil {
			return "", err
		}
		var ps []control.Paragraph
		for i, x := range l {
			if err := x.typedView(i); err != nil {
				return "", err
			}
			ps = append(ps, x.Paragraph)
		}
		return canonParas(ps), nil
	})
	guard("unmarshal-nested-embed-slice", func() (string, error) {
		var l []Nested
		if err := control.Unmarshal(&l, rd()); err != nil {
			return "", err
		}
		var ps []control.Paragraph
		for i, x := range l {
			if err := x.nestedView(i); err != nil {
				return "", err
			}
			ps = append(ps, x.Paragraph)
		}
		return canonParas(ps), nil
	})
	guard("decoder-nested-embed-loop", func() (string, error) {
		dec, err := control.NewDecoder(rd(), nil)
		if err != nil {
			return "", err
		}
		var ps []control.Paragraph
		for i := 0; i < 100000; i++ {
			var x Nested
			err := dec.Decode(&x)
			if err == io.EOF {
				return canonParas(ps), nil
			}
			if err != nil {
				return "", err
			}
			if err := x.nestedView(i); err != nil {
				return "", err
			}
			ps = append(ps, x.Paragraph)
		}
		return "", fmt.Errorf("no end of input after 100000 paragraphs")
	})
	guard("decoder-typed-loop", func() (string, error) {
		dec, err := control.NewDecoder(rd(), nil)
		if err != nil {
			return "", err
		}
		var ps []control.Paragraph
		for i := 0; i < 100000; i++ {
			var x PT // a fresh value per paragraph: like encoding/json, Decode leaves members alone whose field is absent
			err := dec.Decode(&x)
			if err == io.EOF {
				return canonParas(ps), nil
			}
			if err != nil {
				return "", err
			}
			if err := x.typedView(i); err != nil {
				return "", err
			}
			ps = append(ps, x.Paragraph)
		}
		return "", fmt.Errorf("no end of input after 100000 paragraphs")
	})
	guard("unmarshal-plain-struct-slice", func() (string, error) {
		// an element type that does NOT embed the raw paragraph: still one element per paragraph, each showing its own
		// paragraph's values (a paragraph that has none of the members gives a zero element, it does not vanish)
		type plain struct {
			A    string `control:"A"`
			Bc   string `control:"B-c"`
			Long string `control:"Long-Name9"`
		}
		var l []plain
		if err := control.Unmarshal(&l, rd()); err != nil {
			return "", err
		}
		pr, err := control.NewParagraphReader(rd(), nil)
		if err != nil {
			return "", err
		}
		ps, err := pr.All()
		if err != nil {
			return "", err
		}
		if len(l) != len(ps) {
			return "", fmt.Errorf("%d elements for %d paragraphs", len(l), len(ps))
		}
		for i := range l {
			if l[i].A != ps[i].Values["A"] || l[i].Bc != ps[i].Values["B-c"] || l[i].Long != ps[i].Values["Long-Name9"] {
				return "", fmt.Errorf("element %d is %+v, its paragraph has A=%q B-c=%q Long-Name9=%q", i, l[i], ps[i].Values["A"], ps[i].Values["B-c"], ps[i].Values["Long-Name9"])
			}
		}
		return canonParas(ps), nil
	})
	guard("decoder-loop", func() (string, error) {
		dec, err := control.NewDecoder(rd(), nil)
		if err != nil {
			return "", err
		}
		var ps []control.Paragraph
		for i := 0; i < 100000; i++ {
			var x P
			err := dec.Decode(&x)
			if err == io.EOF {
				return canonParas(ps), nil
			}
			if err != nil {
				return "", err
			}
			ps = append(ps, x.Paragraph)
		}
		return "", fmt.Errorf("no end of input after 100000 paragraphs")
	})
	for j := 1; j <= 3; j++ {
		j := j
		guard(fmt.Sprintf("next-x%d-then-all", j), func() (string, error) {
			pr, err := control.NewParagraphReader(rd(), nil)
			if err != nil {
				return "", err
			}
			var ps []control.Paragraph
			for i := 0; i < j; i++ {
				p, err := pr.Next()
				if err == io.EOF {
					break
				}
				if err != nil {
					return "", err
				}
				ps = append(ps, *p)
			}
			rest, err := pr.All()
			if err != nil {
				return "", err
			}
			return canonParas(append(ps, rest...)), nil
		})
	}
	return out
}

func checkWellFormed(scen string, in In) []*mc.Violation {
	var vs []*mc.Violation
	res := readPaths(in.Text, in.Delivery)
	names := make([]string, 0, len(res))
	for k := range res {
		names = append(names, k)
	}
	sort.Strings(names)
	for _, k := range names {
		got := res[k]
		if got != in.Expected {
			clause := "paragraphs-fields-values-exact"
			if k != "next-loop" && got == res["next-loop"] {
				continue // same (wrong) answer as the primary path: reported once
			}
			if k != "next-loop" && res["next-loop"] == in.Expected {
				clause = "access-paths-agree"
			}
			vs = append(vs, mc.V(scen, clause, in, in.Expected, k+": "+got, in.Devs...))
		}
	}
	return vs
}

// ---- invariant on arbitrary input ----

type RawIn struct{ Text string }

func rawFeatures(s string) []string {
	var f []string
	lines := strings.Split(s, "\n")
	// orphan continuation: a line starting with blank/tab that is the first non-comment, non-blank line of a paragraph
	start := true
	keys := map[string]bool{}
	dup := false
	for _, l := range lines {
		t := strings.TrimSuffix(l, "\r")
		switch {
		case t == "":
			start = true
			keys = map[string]bool{}
		case strings.HasPrefix(t, "#"):
		case strings.HasPrefix(t, " ") || strings.HasPrefix(t, "\t"):
			if start {
				f = append(f, "continuation-without-field")
				start = false
			}
		default:
			start = false
			if i := strings.Index(t, ":"); i >= 0 {
				k := strings.TrimSpace(t[:i])
				if keys[k] {
					dup = true
				}
				keys[k] = true
			}
		}
	}
	if dup {
		f = append(f, "duplicate-field-name")
	}
	return gen.Dedup(f)
}

func checkInvariant(scen string, in RawIn) (vs []*mc.Violation, class string) {
	var pr *control.ParagraphReader
	var err error
	if p, msg := mc.Guard(func() { pr, err = control.NewParagraphReader(strings.NewReader(in.Text), nil) }); p {
		return []*mc.Violation{mc.V(scen, "reader-returns", in, "no panic", msg)}, "panic"
	}
	if err != nil {
		return nil, "open-error"
	}
	n := 0
	for i := 0; i < 100000; i++ {
		var p *control.Paragraph
		if pn, msg := mc.Guard(func() { p, err = pr.Next() }); pn {
			return []*mc.Violation{mc.V(scen, "reader-returns", in, "no panic", msg, rawFeatures(in.Text)...)}, "panic"
		}
		if err == io.EOF {
			return vs, fmt.Sprintf("eof-after-%d", n)
		}
		if err != nil {
			if p != nil {
				vs = append(vs, mc.V(scen, "no-value-with-error", in, "nil paragraph with an error", "non-nil", rawFeatures(in.Text)...))
			}
			return vs, "error"
		}
		n++
		seen := map[string]int{}
		for _, k := range p.Order {
			seen[k]++
		}
		for k, c := range seen {
			if c > 1 {
				vs = append(vs, mc.V(scen, "each-field-listed-once", in, "no repeated name in Order", fmt.Sprintf("%q listed %d times", k, c), rawFeatures(in.Text)...))
				break
			}
		}
		for _, k := range p.Order {
			if _, ok := p.Values[k]; !ok {
				vs = append(vs, mc.V(scen, "value-for-every-listed-field", in, "Values has every name of Order", fmt.Sprintf("%q missing", k), rawFeatures(in.Text)...))
			}
		}
		for k := range p.Values {
			if seen[k] == 0 {
				vs = append(vs, mc.V(scen, "no-value-for-unlisted-field", in, "keys(Values) = set(Order)", fmt.Sprintf("value for unlisted %q", k), rawFeatures(in.Text)...))
			}
		}
	}
	return append(vs, mc.V(scen, "reader-terminates", in, "end of input", "more than 1000 paragraphs")), "runaway"
}

// ---- exploration ----

// slimDelivery (thorough tier, two-deviation passes only): the byte-delivery deviation is limited to the six named modes
// and splits at the first, middle and last inner offset. Splits at EVERY offset are covered by the one-deviation pass of
// the same documents, which the thorough tier runs first; combined with a second deviation they multiplied the pass
// beyond its deadline.
func exploreDoc(scen string, d gen.DDoc, k int, st *mc.Stats) { exploreDocD(scen, d, k, false, st) }

func exploreDocD(scen string, d gen.DDoc, k int, slimDelivery bool, st *mc.Stats) {
	expected := gen.CanonRef(d.Ref())
	execs, div := mc.Explore(k, st, func(x *mc.X) {
		var opt gen.RenderOpt
		var devs []string
		dev := func(n int, label string) int {
			c := x.Deviate(n, label)
			if c != 0 {
				devs = append(devs, fmt.Sprintf("%s=%d", label, c))
			}
			return c
		}
		opt.CRLF = dev(2, "crlf") == 1
		opt.KV = dev(4, "kv")
		opt.BlankBefore = dev(4, "blank-before")
		opt.BlankAfter = dev(4, "blank-after")
		if len(d) > 1 {
			opt.BlankBetween = dev(3, "blank-between")
		}
		if opt.BlankAfter == 0 {
			opt.NoFinalNewline = dev(2, "no-final-newline") == 1
		}
		nl := len(d.PhysicalLines(opt))
		opt.CommentAt = dev(nl+2, "comment-at")
		if opt.CommentAt > 0 {
			opt.CommentText = x.Choose(len(gen.D822Comments), "comment-text") // part of the same deviation: every comment shape
			devs = append(devs, fmt.Sprintf("comment-text=%d", opt.CommentText))
		}
		// one line, or every line from some line on, with the other line ending
		nl2 := nl
		if opt.CommentAt > 0 {
			nl2++
		}
		// (every line when it is the only deviation; the first two, the middle and the last two lines when combined with another)
		pos := make([]int, 0, nl2)
		for p := 1; p <= nl2; p++ {
			if k < 2 || nl2 <= 5 || p <= 2 || p == nl2/2 || p >= nl2-1 {
				pos = append(pos, p)
			}
		}
		if c := dev(2*len(pos)+1, "other-ending"); c > 0 {
			opt.FlipAt, opt.FlipFrom = pos[(c-1)%len(pos)], c > len(pos)
		}
		text := d.Render(opt)
		var del int
		if nm := gen.DeliveryModes(len(text)); slimDelivery && nm > 9 {
			choices := []int{0, 1, 2, 3, 4, 5, 6, 6 + (nm-6)/2, nm - 1}
			del = gen.DeliveryForChoice(choices[dev(len(choices), "delivery")])
		} else {
			del = gen.DeliveryForChoice(dev(nm, "delivery"))
		}
		in := In{text, expected, del, devs}
		st.Evals++
		st.Traces++
		if len(devs) > 0 {
			st.Nontrivial++
		}
		vs := checkWellFormed(scen, in)
		if len(vs) == 0 {
			st.Class("all-paths-exact")
		}
		for _, v := range vs {
			st.Violate(v)
			st.Class(v.Clause)
		}
		if st.WantSample() && len(devs) == k && opt.CommentAt > 2 {
			st.Sample(in.Text)
		}
	})
	st.States += execs
	if div != "" {
		st.Violate(mc.V(scen, "harness-replay-divergence", In{Text: d.Render(gen.RenderOpt{})}, "deterministic", div))
	}
}

func Run(r *mc.Run) {
	r.Rule = "deb822 documents rendered from a model: all single-field shapes (11 first lines x every sequence of 0..2 continuation lines over 17 line shapes; thorough: also every sequence of exactly 3, under one deviation), all paragraphs of <=3 fields over 6 representative shapes, all documents of <=3 paragraphs over 8 representative paragraphs; rendering deviations (CRLF, key/value spacing, blank-line runs before/between/after, missing final newline, a comment of five shapes at every physical line boundary, byte delivery incl. a split at every offset, the final bytes together with io.EOF, answers without bytes) up to the deviation bound; 9 access paths per execution incl. decoding into typed members; field names recurring in other letter cases in later paragraphs; all interleavings of the calls of 2-3 readers alive at once. Invariant: all strings up to the length bound over 'A : space \\n # . \\r \\t'. Non-trivial = at least one deviation (well-formed) / at least one paragraph returned (invariant); distinct by construction"
	r.Assume = []string{"'trailing whitespace' is read as Unicode white space (unicode.IsSpace: also form feed, vertical tab, NBSP, ideographic space), on key lines and continuation lines alike",
		"an empty first line contributes no logical line (the convention all typed parsers rely on: 'Files:' followed by indented lines)",
		"whitespace-only lines are not blank lines (not part of the statement's well-formed documents)"}

	// base documents
	// quick: every shape with <= 2 continuation lines under 1 deviation; thorough: the same under 2 deviations, and
	// every shape with exactly 3 continuation lines under 1 deviation (scenario single-field-shapes-3)
	var single, single3 []gen.DDoc
	for _, f := range gen.D822FieldShapes("A", 2) {
		single = append(single, gen.DDoc{gen.DPara{f}})
	}
	if !r.Quick() {
		for _, f := range gen.D822FieldShapes("A", 3) {
			if len(f.Cont) == 3 {
				single3 = append(single3, gen.DDoc{gen.DPara{f}})
			}
		}
	}
	for _, f := range gen.D822AuditFields() { // alphabet audit
		single = append(single, gen.DDoc{gen.DPara{f}}, gen.DDoc{gen.DPara{{Name: "B-c", First: "w"}, f}, gen.DPara{f}})
	}
	var paras []gen.DPara
	ra, rb, rx := gen.D822RepFields("A"), gen.D822RepFields("B-c"), gen.D822RepFields("Long-Name9")
	for _, a := range ra {
		paras = append(paras, gen.DPara{a})
		for _, b := range rb {
			paras = append(paras, gen.DPara{a, b})
			for _, c := range rx {
				paras = append(paras, gen.DPara{a, b, c})
			}
		}
	}
	var multiField []gen.DDoc
	for _, p := range paras {
		multiField = append(multiField, gen.DDoc{p})
	}
	repParas := []gen.DPara{paras[0], paras[1], paras[2], paras[9], paras[50], paras[100], paras[200], paras[257]}
	var multiPara []gen.DDoc
	for _, a := range repParas {
		for _, b := range repParas {
			multiPara = append(multiPara, gen.DDoc{a, b})
			for _, c := range repParas {
				multiPara = append(multiPara, gen.DDoc{a, b, c})
			}
		}
	}
	// the same field names spelled in another letter case in a later paragraph (names are reported as written)
	recase := func(p gen.DPara, f func(string) string) gen.DPara {
		q := make(gen.DPara, len(p))
		for i, fl := range p {
			q[i] = fl
			q[i].Name = f(fl.Name)
		}
		return q
	}
	swapCase := func(s string) string {
		b := []byte(s)
		for i, c := range b {
			switch {
			case c >= 'a' && c <= 'z':
				b[i] = c - 32
			case c >= 'A' && c <= 'Z':
				b[i] = c + 32
			}
		}
		return string(b)
	}
	for _, a := range repParas {
		multiPara = append(multiPara, gen.DDoc{a, recase(a, swapCase)}, gen.DDoc{recase(a, strings.ToLower), a, recase(a, strings.ToUpper)}, gen.DDoc{a, repParas[0], recase(a, swapCase)})
	}
	k := r.Pick(1, 2)
	run1 := func(name string, docs []gen.DDoc, k int, slim bool) {
		r.Scenario(name, map[string]interface{}{"base_documents": len(docs), "deviation_bound": k, "access_paths": 9, "delivery_splits": map[bool]string{false: "every inner offset", true: "first, middle and last inner offset (every offset: in the one-deviation pass)"}[slim]}, len(docs), func(i int, st *mc.Stats) bool {
			if r.Expired() {
				return false
			}
			exploreDocD(name, docs[i], k, slim, st)
			return true
		})
	}
	run := func(name string, docs []gen.DDoc, k int) {
		if k >= 2 && !r.Quick() {
			// thorough: every single deviation with every delivery split, then pairs of deviations with the slim delivery set
			run1(name, docs, 1, false)
			run1(name+"-two-deviations", docs, k, true)
			return
		}
		run1(name, docs, k, false)
	}
	run("single-field-shapes", single, k)
	if len(single3) > 0 {
		run("single-field-shapes-3", single3, 1)
	}
	run("multi-field-paragraphs", multiField, k)
	run("multi-paragraph-documents", multiPara, k)
	// a second deviation on a thinner base set in quick (every 9th document), so interactions of two deviations are in the quick tier too
	if r.Quick() {
		var thin []gen.DDoc
		for i := 0; i < len(multiField); i += 9 {
			thin = append(thin, multiField[i])
		}
		for i := 0; i < len(multiPara); i += 9 {
			thin = append(thin, multiPara[i])
		}
		run("two-deviations-thin-base", thin, 2)
	}

	// documents larger than the products reach: many paragraphs, many fields in a paragraph, many continuation lines
	var largeDocs []gen.DDoc
	for _, n := range []int{10, 16, 17, 64, 65, 100, 257, 1000} {
		var d gen.DDoc
		for i := 0; i < n; i++ {
			d = append(d, repParas[i%len(repParas)])
		}
		largeDocs = append(largeDocs, d)
		var p gen.DPara
		reps := gen.D822RepFields("F")
		for i := 0; i < n && i < 300; i++ {
			f := reps[i%len(reps)]
			f.Name = fmt.Sprintf("Field-%d", i)
			p = append(p, f)
		}
		largeDocs = append(largeDocs, gen.DDoc{p}, gen.DDoc{repParas[1], p, repParas[2]})
		f := gen.DField{Name: "Description", First: "short"}
		for i := 0; i < n; i++ {
			f.Cont = append(f.Cont, gen.D822ContLines[i%len(gen.D822ContLines)])
		}
		largeDocs = append(largeDocs, gen.DDoc{gen.DPara{f, {Name: "After", First: "x"}}})
	}
	r.Scenario("large-documents", map[string]interface{}{"documents": len(largeDocs), "sizes": "10..1000 paragraphs, 10..300 fields in a paragraph, 10..1000 continuation lines", "renderings": "LF and CRLF, with and without final newline, three deliveries"}, len(largeDocs), func(i int, st *mc.Stats) bool {
		d := largeDocs[i]
		expected := gen.CanonRef(d.Ref())
		for _, opt := range []gen.RenderOpt{{}, {CRLF: true}, {NoFinalNewline: true}, {BlankBetween: 2, BlankAfter: 1}} {
			text := d.Render(opt)
			for _, del := range []int{0, 2, -2} {
				st.Evals++
				st.Traces++
				st.Nontrivial++
				vs := checkWellFormed("large-documents", In{text, expected, del, nil})
				if len(vs) == 0 {
					st.Class("all-paths-exact")
				}
				for _, v := range vs {
					st.Violate(v)
					st.Class(v.Clause)
				}
			}
		}
		return true
	})

	// several readers alive at once, every interleaving of their calls
	var inter []gen.DDoc
	for _, a := range repParas {
		inter = append(inter, gen.DDoc{a})
	}
	inter = append(inter, gen.DDoc{repParas[0], repParas[3]}, gen.DDoc{repParas[4], repParas[1], repParas[6]}, gen.DDoc{repParas[2], repParas[2]})
	interleavedScenario(r, inter)

	// the same entry points called at the same time on independent inputs: every schedule of small thread programs (instrumented build)
	sched.Explore(r, "concurrent-calls", ConcurrentPrograms())

	// long physical lines: around the 4096-byte default buffer of bufio (and its multiples) and far beyond
	lens := []int{4090, 4093, 4094, 4095, 4096, 4097, 4098, 8190, 8191, 8192, 8193, 20000}
	if r.Quick() {
		lens = []int{4094, 4095, 4096, 4097, 8192, 20000}
	}
	type longCase struct {
		where string
		n     int
	}
	var longs []longCase
	for _, w := range []string{"first-line", "continuation", "second-continuation", "comment", "field-name", "second-paragraph"} {
		for _, n := range lens {
			longs = append(longs, longCase{w, n})
		}
	}
	r.Scenario("long-lines", map[string]interface{}{"line_lengths": lens, "positions": "first line / continuation / second continuation / comment / field name / second paragraph", "options": "LF or CRLF, final newline or not, 3 byte deliveries"}, len(longs), func(i int, st *mc.Stats) bool {
		c := longs[i]
		fill := func(n int) string { return strings.Repeat("L", n) }
		doc := gen.DDoc{gen.DPara{{Name: "A", First: "v", Cont: []gen.DLine{{Marker: ' ', Text: "x"}, {Marker: ' ', Text: "y"}}}, {Name: "B-c", First: "w"}}, gen.DPara{{Name: "X", First: "z"}}}
		comment := ""
		switch c.where {
		case "first-line":
			doc[0][0].First = fill(c.n - 3) // "A: " + text is c.n bytes
		case "continuation":
			doc[0][0].Cont[0].Text = fill(c.n - 1)
		case "second-continuation":
			doc[0][0].Cont[1].Text = fill(c.n - 1)
		case "field-name":
			doc[0][1].Name = fill(c.n - 3)
		case "second-paragraph":
			doc[1][0].First = fill(c.n - 3)
		case "comment":
			comment = "#" + fill(c.n-1)
		}
		expected := gen.CanonRef(doc.Ref())
		for _, crlf := range []bool{false, true} {
			for _, nofinal := range []bool{false, true} {
				for del := 0; del < 3; del++ {
					text := doc.Render(gen.RenderOpt{CRLF: crlf, NoFinalNewline: nofinal})
					if comment != "" {
						eol := "\n"
						if crlf {
							eol = "\r\n"
						}
						// the long comment goes between the two continuation lines
						marker := " x" + eol
						text = strings.Replace(text, marker, marker+comment+eol, 1)
					}
					in := In{text, expected, del, []string{"long-" + c.where}}
					st.Evals++
					st.Traces++
					st.Nontrivial++
					vs := checkWellFormed("long-lines", in)
					if len(vs) == 0 {
						st.Class("all-paths-exact")
					}
					for _, v := range vs {
						// keep artefacts small: the input is reproducible from (position, length, options)
						st.Violate(v)
						st.Class(v.Clause)
					}
				}
			}
		}
		if st.WantSample() && i%7 == 0 {
			st.Sample(map[string]interface{}{"long_line_at": c.where, "length": c.n})
		}
		return true
	})

	// invariant on arbitrary input
	sigma := append([]string{"A", ":", " ", "\n", "#", ".", "\r", "\t"}, gen.AuditChars(nil, 2)...)
	L := r.Pick(7, 9)
	ns := len(sigma)
	r.Scenario("invariant-all-strings", map[string]interface{}{"alphabet": "A : space \\n # . \\r \\t", "max_len": L}, ns*ns+1, func(sh int, st *mc.Stats) bool {
		visit := func(s string) bool {
			st.Evals++
			vs, class := checkInvariant("invariant-all-strings", RawIn{s})
			st.Class(class)
			if strings.HasPrefix(class, "eof-after-") && class != "eof-after-0" {
				st.Nontrivial++
			}
			for _, v := range vs {
				st.Violate(v)
			}
			if st.WantSample() && class == "eof-after-2" {
				st.Sample(s)
			}
			return true
		}
		if sh == ns*ns {
			visit("")
			for _, a := range sigma {
				visit(a)
			}
			return true
		}
		pre := sigma[sh/ns] + sigma[sh%ns]
		for n := 0; n <= L-2; n++ {
			if r.Expired() {
				return false
			}
			gen.Odometer(sigma, n, func(s string) bool { return visit(pre + s) })
		}
		return true
	})
}

func Replay(scenario string, raw json.RawMessage) []*mc.Violation {
	if scenario == "concurrent-calls" {
		return sched.Replay(scenario, ConcurrentPrograms(), raw)
	}
	if scenario == "invariant-all-strings" {
		var in RawIn
		if mc.UnmarshalInput(raw, &in) == nil {
			vs, _ := checkInvariant(scenario, in)
			return vs
		}
		return nil
	}
	if scenario == "interleaved-readers" {
		var in InterIn
		if mc.UnmarshalInput(raw, &in) == nil && len(in.Texts) == len(in.Expected) {
			return checkInterleaved(scenario, in)
		}
		return nil
	}
	var in In
	if mc.UnmarshalInput(raw, &in) == nil {
		return checkWellFormed(scenario, in)
	}
	return nil
}
