package c07

// Several readers alive at once. A reader's answer depends on its own input only: whatever other readers (or decoders)
// exist and however their calls are interleaved with this one's, each returns the paragraphs of its own document.
// All interleavings of the Next calls of two (thorough: also three) readers are run on the calling goroutine; every
// returned paragraph is kept and compared only after the whole schedule.

import (
	"fmt"
	"io"
	"strings"

	"pault.ag/go/debian/control"

	"verifharness/gen"
	"verifharness/mc"
)

type InterIn struct {
	Texts    []string
	Expected []string // canonical reference paragraphs per reader
	Steps    []int    // schedule: which reader makes its next call (a reader's calls end with the one returning EOF)
	Decoder  []bool   // reader i is a Decoder filling a fresh struct per call instead of a ParagraphReader
}

func checkInterleaved(scen string, in InterIn) []*mc.Violation {
	n := len(in.Texts)
	type rd struct {
		pr   *control.ParagraphReader
		dec  *control.Decoder
		got  []control.Paragraph
		done bool
		err  error
	}
	rs := make([]*rd, n)
	var vs []*mc.Violation
	if p, msg := mc.Guard(func() {
		for i := range rs {
			rs[i] = &rd{}
			if i < len(in.Decoder) && in.Decoder[i] {
				rs[i].dec, rs[i].err = control.NewDecoder(strings.NewReader(in.Texts[i]), nil)
			} else {
				rs[i].pr, rs[i].err = control.NewParagraphReader(strings.NewReader(in.Texts[i]), nil)
			}
		}
		for _, s := range in.Steps {
			r := rs[s]
			if r.done || r.err != nil {
				continue
			}
			if r.dec != nil {
				var x P
				err := r.dec.Decode(&x)
				if err == io.EOF {
					r.done = true
				} else if err != nil {
					r.err = err
				} else {
					r.got = append(r.got, x.Paragraph)
				}
				continue
			}
			p, err := r.pr.Next()
			if err == io.EOF {
				r.done = true
			} else if err != nil {
				r.err = err
			} else {
				r.got = append(r.got, *p)
			}
		}
	}); p {
		return []*mc.Violation{mc.V(scen, "reader-returns", in, "no panic", msg)}
	}
	for i, r := range rs {
		if r.err != nil {
			vs = append(vs, mc.V(scen, "paragraphs-fields-values-exact", in, in.Expected[i], fmt.Sprintf("reader %d: error: %v", i, r.err)))
			continue
		}
		if !r.done {
			continue // the schedule did not run this reader to its end (not produced by the enumeration)
		}
		if got := canonParas(r.got); got != in.Expected[i] {
			vs = append(vs, mc.V(scen, "paragraphs-fields-values-exact", in, in.Expected[i], fmt.Sprintf("reader %d, its paragraphs compared after the whole schedule: %s", i, got)))
		}
	}
	return vs
}

// schedules enumerates all interleavings of counts[i] calls of reader i.
func schedules(counts []int, visit func([]int)) {
	total := 0
	for _, c := range counts {
		total += c
	}
	left := append([]int(nil), counts...)
	cur := make([]int, 0, total)
	var rec func()
	rec = func() {
		if len(cur) == total {
			visit(cur)
			return
		}
		for i := range left {
			if left[i] > 0 {
				left[i]--
				cur = append(cur, i)
				rec()
				cur = cur[:len(cur)-1]
				left[i]++
			}
		}
	}
	rec()
}

func interleavedScenario(r *mc.Run, docs []gen.DDoc) {
	type doc struct {
		text, want string
		calls      int
	}
	var ds []doc
	for _, d := range docs {
		ds = append(ds, doc{d.Render(gen.RenderOpt{}), gen.CanonRef(d.Ref()), len(d) + 1})
	}
	r.Scenario("interleaved-readers", map[string]interface{}{"documents": len(ds), "readers": r.Pick(2, 3), "kinds": "ParagraphReader / Decoder in every combination", "schedules": "all interleavings of the readers' calls"}, len(ds), func(i int, st *mc.Stats) bool {
		run := func(idx []int) {
			counts := make([]int, len(idx))
			in := InterIn{}
			for k, j := range idx {
				counts[k] = ds[j].calls
				in.Texts = append(in.Texts, ds[j].text)
				in.Expected = append(in.Expected, ds[j].want)
			}
			for mask := 0; mask < 1<<len(idx); mask++ {
				in.Decoder = make([]bool, len(idx))
				for k := range idx {
					in.Decoder[k] = mask&(1<<k) != 0
				}
				schedules(counts, func(s []int) {
					in.Steps = append([]int(nil), s...)
					st.Evals++
					st.Traces++
					st.Nontrivial++
					st.Transitions += int64(len(s))
					vs := checkInterleaved("interleaved-readers", in)
					if len(vs) == 0 {
						st.Class("each-reader-its-own-document")
					}
					for _, v := range vs {
						st.Violate(v)
						st.Class(v.Clause)
					}
				})
			}
		}
		for j := range ds {
			run([]int{i, j})
			if !r.Quick() && ds[i].calls+ds[j].calls <= 5 {
				for k := 0; k < len(ds); k += 3 {
					if ds[k].calls <= 3 {
						run([]int{i, j, k})
					}
				}
			}
		}
		return !r.Expired()
	})
}
