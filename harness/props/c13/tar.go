package c13

// Direct use of ArEntry.IsTarfile / ArEntry.Tarfile on the members Next returns, and deb.DecompressorFor.

import (
	"archive/tar"
	"bytes"
	"fmt"
	"io"

	"pault.ag/go/debian/deb"

	"verifharness/gen"
)

// TarSpec says what a member's bytes are as a tar: Valid = the bytes are Entries packed as a tar and encoded the way
// the member's name says (the listing must then be exactly Entries); !Valid = arbitrary bytes under whatever name
// (Tarfile may fail or give a reader that fails; it must not panic).
type TarSpec struct {
	Valid   bool
	Entries []gen.TarEntry `json:",omitempty"`
}

// tarStep: Seek(0); IsTarfile against the name model; Tarfile; list; close c times; Seek(0) + re-read.
func (s *sess) tarStep(op Op) *fail {
	e, x := s.got[op.I], s.exp[op.I]
	var spec *TarSpec
	if op.I < len(s.tars) {
		spec = s.tars[op.I]
	}
	wantTar := gen.ArmTarName(x.Name)
	if got := e.IsTarfile(); got != wantTar {
		return &fail{"istarfile", fmt.Sprintf("IsTarfile()=%v for the name %q (\".tar\" or \".tar.<ext>\" suffix)", wantTar, x.Name), fmt.Sprint(got)}
	}
	if off, err := e.Data.Seek(0, io.SeekStart); off != 0 || err != nil {
		return &fail{"reader-seek", "Seek(0, SeekStart) = (0, nil)", fmt.Sprintf("(%d, %v)", off, err)}
	}
	tr, closer, err := e.Tarfile()
	if !wantTar {
		if err == nil {
			return &fail{"tarfile", fmt.Sprintf("Tarfile() of %q, not a tar by name: an error", x.Name), "no error"}
		}
	} else {
		valid := spec != nil && spec.Valid
		if err != nil {
			if valid {
				return &fail{"tarfile", fmt.Sprintf("Tarfile() of %q opens (the member is a valid tar in that encoding)", x.Name), "error: " + err.Error()}
			}
		} else {
			if tr == nil {
				return &fail{"tarfile", "a tar reader or an error", "(nil reader, nil error)"}
			}
			var listed []gen.TarEntry
			var lerr error
			budget := 4096 // entries; a listing that does not end is cut here (and then is not "then io.EOF")
			if valid {
				budget = len(spec.Entries) + 2
			}
			for n := 0; n < budget; n++ {
				h, err := tr.Next()
				if err != nil {
					lerr = err
					break
				}
				body, err := io.ReadAll(io.LimitReader(tr, 1<<24))
				if err != nil {
					lerr = err
					break
				}
				listed = append(listed, gen.TarEntry{Name: h.Name, Body: body, Dir: h.Typeflag == tar.TypeDir})
			}
			if valid {
				ok := lerr == io.EOF && len(listed) == len(spec.Entries)
				for i := 0; ok && i < len(listed); i++ {
					w := spec.Entries[i]
					ok = listed[i].Name == w.Name && listed[i].Dir == w.Dir && bytes.Equal(listed[i].Body, w.Content())
				}
				if !ok {
					return &fail{"tarfile", "listing = " + descEntries(spec.Entries) + ", then io.EOF", descEntries(listed) + fmt.Sprintf(", then %v", lerr)}
				}
			}
			if closer == nil {
				return &fail{"tarfile", "a closer that can be called", "Tarfile returned a nil io.Closer"}
			}
			// Let the decoder finish with the member before the member is used again: the zstd decoder reads its input
			// in goroutines of its own, and the closer the library returns for it does not stop them; once the
			// decompressed stream has reported its end (or its error) nothing reads the member's Data any more.
			if rd, ok := closer.(io.Reader); ok {
				io.Copy(io.Discard, io.LimitReader(rd, 1<<26))
			}
			for c := 0; c < op.C; c++ {
				closer.Close() // what it returns is not judged; a panic is caught by step
			}
		}
	}
	// the member's own reader: rewind and re-read, still exactly its bytes
	if off, err := e.Data.Seek(0, io.SeekStart); off != 0 || err != nil {
		return &fail{"reader-seek", "Seek(0, SeekStart) = (0, nil) after Tarfile", fmt.Sprintf("(%d, %v)", off, err)}
	}
	got, msg := s.readRest(e.Data)
	if msg != "" || !bytes.Equal(got, x.Data) {
		return &fail{"reader-bytes", fmt.Sprintf("after Tarfile, re-reading #%d from 0 yields its %d bytes", op.I, len(x.Data)), fmt.Sprintf("%d bytes %s", len(got), msg)}
	}
	s.pos[op.I] = len(x.Data)
	return nil
}

func descEntries(es []gen.TarEntry) string {
	var b bytes.Buffer
	b.WriteByte('[')
	for i, e := range es {
		if i > 0 {
			b.WriteByte(' ')
		}
		fmt.Fprintf(&b, "%s(%d)", e.Name, len(e.Content()))
	}
	b.WriteByte(']')
	return b.String()
}

// checkDecompressor: DecompressorFor(ext) inverts the matching compressor; an extension the table does not have
// gives the reader unchanged ("uncompressed file or unknown compression scheme").
func checkDecompressor(ext string, encoded, payload []byte) *fail {
	var got []byte
	var err error
	rc, err := deb.DecompressorFor(ext)(bytes.NewReader(encoded))
	if err == nil {
		if rc == nil {
			return &fail{"decompressor", "a reader or an error", "(nil, nil)"}
		}
		got, err = io.ReadAll(io.LimitReader(rc, int64(len(payload))+1024))
		rc.Close()
		rc.Close()
	}
	if err != nil || !bytes.Equal(got, payload) {
		return &fail{"decompressor", fmt.Sprintf("DecompressorFor(%q) yields the %d payload bytes", ext, len(payload)), fmt.Sprintf("%d bytes, err=%v", len(got), err)}
	}
	return nil
}
