package c13

import (
	"bytes"
	"fmt"
	"os"
	"os/exec"
	"path/filepath"
	"strings"
	"sync"
	"sync/atomic"

	"verifharness/gen"
	"verifharness/mc"
)

// ---- the member alphabet ----

func data61() []byte {
	// 61 bytes (odd): the archive magic, binary bytes, a complete fake "name ... `\n" tail
	b := []byte(gen.ArmGlobalMagic)
	for i := 0; len(b) < 59; i++ {
		b = append(b, byte(i*37+1))
	}
	return append(b, '`', '\n')
}

const maxTS, maxID = "999999999999", "999999"

// shapes returns the member alphabet: names (1 byte, 13 bytes, 16 bytes without terminator, 16 bytes ending in
// '/', trailing '/', embedded blank, dots), data sizes 0 1 2 4 5 61 (with "`\n", "!<arch>\n", a leading '\n'),
// numeric columns blank / 0 / small / maximal width, mode 6 or 8 wide or blank, size column decimal / blank (for an
// empty member) / zero-padded to the full 10 columns.
func shapes() []gen.ArmMember {
	return []gen.ArmMember{
		{Name: "a", TS: "0", UID: "0", GID: "0", Mode: "100644", Data: []byte{}},
		{Name: "debian-binary", TS: "1577836800", UID: "0", GID: "0", Mode: "100644", Data: []byte("2.0\n")},
		{Name: "0123456789abcdef", TS: maxTS, UID: maxID, GID: maxID, Mode: "00100644", Data: []byte("\n")},
		{Name: "x/", TS: "0", UID: "0", GID: "0", Mode: "100644", Data: []byte("`\n")},
		{Name: "a b", TS: "1", UID: "2", GID: "3", Mode: "644", Data: []byte("ab`\nc")},
		{Name: "a b/", TS: "1361157466", UID: "501", GID: "20", Mode: "100644", Data: data61()},
		{Name: "blankcols", TS: "", UID: "", GID: "", Mode: "100644", Data: []byte("z")},
		{Name: "nomode/", TS: "0", UID: "0", GID: "0", Mode: "", Data: []byte{}},
		{Name: "blanksize", TS: "0", UID: "0", GID: "0", Mode: "100644", SizeSet: true, SizeText: "", Data: []byte{}},
		{Name: "0123456789abcde/", TS: "12", UID: "1000", GID: "1000", Mode: "100755", Data: []byte("\x00\xff\x00\xff\x00")},
		{Name: "zp", TS: "0", UID: "0", GID: "0", Mode: "100644", SizeSet: true, SizeText: "0000000061", Data: data61()},
		{Name: "b", TS: "", UID: "", GID: "", Mode: "", Data: []byte("`\n")},
		{Name: "c/", TS: maxTS, UID: "0", GID: maxID, Mode: "100644", Data: []byte("\n`\n!<")},
		{Name: "e.tar.gz", TS: "0", UID: maxID, GID: "0", Mode: "100644", Data: []byte("\x1f\x8b")},
	}
}

// column value classes for the independent-column product (scenario header-columns)
var (
	cpTS   = []string{"", "0", "7", "000000000010", maxTS}
	cpUID  = []string{"", "0", "1000", maxID}
	cpGID  = []string{"", "0", "100", maxID}
	cpMode = []string{"", "644", "100644", "00100644"}
)

func cpNames(more bool) []string {
	n := []string{"a", "debian-binary", "0123456789abcdef", "0123456789abcde/", "x/", "a b/", "a/b", "r.\xe9s", "data.ȺȺȺȺȺ", strings.Repeat("\xff", 16), "notes /", "x \t/", "0123456789abcd /"}
	if more {
		n = append(n, "a b", "e.tar.gz")
	}
	return n
}

func cpData(more bool) [][]byte {
	d := [][]byte{{}, []byte("\n"), []byte("`\n"), []byte("ab`\nc")}
	if more {
		d = append(d, data61())
	}
	return d
}

func cp0desc(more bool) map[string]interface{} {
	var sizes []int
	for _, d := range cpData(more) {
		sizes = append(sizes, len(d))
	}
	return map[string]interface{}{"name": cpNames(more), "timestamp": cpTS, "uid": cpUID, "gid": cpGID, "mode": cpMode, "data_sizes": sizes,
		"size_column": "decimal | zero-padded to 10 columns | blank (empty member only)"}
}

// columnProduct is the full product of the per-column value classes.
func columnProduct(more bool) []gen.ArmMember {
	var out []gen.ArmMember
	for _, name := range cpNames(more) {
		for _, ts := range cpTS {
			for _, uid := range cpUID {
				for _, gid := range cpGID {
					for _, mode := range cpMode {
						for _, d := range cpData(more) {
							m := gen.ArmMember{Name: name, TS: ts, UID: uid, GID: gid, Mode: mode, Data: d}
							out = append(out, m)
							z := m
							z.SizeSet, z.SizeText = true, fmt.Sprintf("%010d", len(d))
							out = append(out, z)
							if len(d) == 0 {
								bl := m
								bl.SizeSet, bl.SizeText = true, ""
								out = append(out, bl)
							}
						}
					}
				}
			}
		}
	}
	return out
}

// blankPattern names which of timestamp/uid/gid/mode are blank (histogram: every pattern must be populated).
func blankPattern(m gen.ArmMember) string {
	f := func(s string) byte {
		if s == "" {
			return '_'
		}
		return 'x'
	}
	return "member blank-pattern ts,uid,gid,mode=" + string([]byte{f(m.TS), f(m.UID), f(m.GID), f(m.Mode)})
}

// auditMembers turns the alphabet-audit delta into well-formed members and member counts.
func auditMembers() (ms []gen.ArmMember, counts []int) {
	mk := func(name, ts, uid, gid string, data []byte) {
		ms = append(ms, gen.ArmMember{Name: name, TS: ts, UID: uid, GID: gid, Mode: "100644", Data: data})
	}
	fill := func(n int, pat string) []byte {
		d := make([]byte, n)
		for i := range d {
			d[i] = pat[i%len(pat)]
		}
		return d
	}
	fits := func(v int64, w int) (string, bool) {
		t := fmt.Sprint(v)
		return t, v >= 0 && len(t) <= w
	}
	// new integers: data sizes, numeric column values, name lengths, member counts
	for _, v := range gen.AuditInts(0, 1<<62, 12) {
		if v <= 4<<20 {
			mk("size", "1", "2", "3", fill(int(v), "ab`\n!<arch>\n"))
		}
		ts, ok1 := fits(v, 12)
		id, ok2 := fits(v, 6)
		if ok1 {
			if !ok2 {
				id = "7"
			}
			mk("num", ts, id, id, []byte("x"))
		}
		if v >= 1 && v <= 16 {
			mk("abcdefghijklmnop"[:v], "1", "2", "3", []byte("xy"))
			if v >= 2 {
				mk("abcdefghijklmnop"[:v-1]+"/", "1", "2", "3", []byte("xy"))
			}
		}
		if v >= 4 && v <= 2000 {
			counts = append(counts, int(v))
		}
	}
	// new integers read as bit widths: values around 2^n
	for _, n := range gen.AuditInts(2, 62, 9) {
		for _, v := range []int64{1<<uint(n) - 1, 1 << uint(n), 1<<uint(n) + 1} {
			if ts, ok := fits(v, 12); ok {
				id, ok2 := fits(v, 6)
				if !ok2 {
					id = "7"
				}
				mk("bits", ts, id, id, []byte("x"))
			}
			if v <= 1<<20 {
				mk("bitsize", "1", "2", "3", fill(int(v), "z"))
			}
		}
	}
	// new strings: names, name prefixes / suffixes, data; digit strings as column values
	okName := func(n string) bool {
		t := strings.TrimSuffix(n, "/")
		return len(n) <= 16 && t != "" && t[0] > ' ' && t[0] < 0x7f && t[len(t)-1] > ' ' && t[len(t)-1] < 0x7f
	}
	for _, t := range gen.AuditStrings(nil, 8) {
		for _, n := range []string{t, t + "x", "x" + t, t + "/", t + ".tar"} {
			if okName(n) {
				mk(n, "1", "2", "3", []byte(t))
			}
		}
		if len(t) <= 12 && strings.Trim(t, "0123456789") == "" {
			id := t
			if len(id) > 6 {
				id = "7"
			}
			mk("numtext", t, id, id, []byte("x"))
		}
		mk("data", "1", "2", "3", fill(5, t))
	}
	return ms, counts
}

// archives lists every sequence of 0..maxN shape indices.
func archives(nShapes, maxN int) [][]int {
	out := [][]int{{}}
	lo := 0
	for n := 1; n <= maxN; n++ {
		hi := len(out)
		for _, p := range out[lo:hi] {
			for s := 0; s < nShapes; s++ {
				q := append(append(make([]int, 0, n), p...), s)
				out = append(out, q)
			}
		}
		lo = hi
	}
	return out
}

func build(sh []gen.ArmMember, idx []int) []gen.ArmMember {
	ms := make([]gen.ArmMember, len(idx))
	for i, s := range idx {
		ms[i] = sh[s]
	}
	return ms
}

func nontrivial(ms []gen.ArmMember) bool {
	if len(ms) >= 2 {
		return true
	}
	for _, m := range ms {
		if len(m.Data)%2 == 1 || len(m.Data) == 0 {
			return true
		}
	}
	return false
}

// schedules returns the fixed operation sequences run on EVERY archive (the full operation-sequence exploration
// runs on the smaller archive sets, see opseq).
func schedules(n int) [][]Op {
	nx := Op{K: "next"}
	var a, b, c []Op
	// a: read each member right after it is returned; then two more Next
	for i := 0; i < n; i++ {
		a = append(a, nx, Op{K: "all", I: i})
	}
	a = append(a, nx, nx)
	// b: iterate to the end (two EOFs) first, then use the readers last to first: part, rest, rewind
	for i := 0; i < n+2; i++ {
		b = append(b, nx)
	}
	for i := n - 1; i >= 0; i-- {
		b = append(b, Op{K: "skip", I: i}, Op{K: "part", I: i}, Op{K: "all", I: i}, Op{K: "seek", I: i})
	}
	b = append(b, nx)
	// c: after each Next re-read every earlier member from the start, first to last
	for i := 0; i < n; i++ {
		c = append(c, nx)
		for j := 0; j <= i; j++ {
			c = append(c, Op{K: "seek", I: j})
		}
	}
	c = append(c, nx)
	for j := 0; j < n; j++ {
		c = append(c, Op{K: "skip", I: j}, Op{K: "part", I: j})
	}
	return [][]Op{a, b, c}
}

// ---- binutils cross-check of the WRITER (never decides the property) ----

// bfdName is how GNU ar (BFD, ELF default target: 15 significant name bytes) lists a short name: up to the first
// NUL, else the first '/', else the first blank.
func bfdName(col string) string {
	col = (col + strings.Repeat(" ", 16))[:16]
	s := col[:15]
	for _, c := range []byte{0, '/', ' '} {
		if i := strings.IndexByte(s, c); i >= 0 {
			return s[:i]
		}
	}
	return s
}

func crossCheckAr(r *mc.Run, sh []gen.ArmMember, archs [][]int) {
	arPath, err := exec.LookPath("ar")
	if err != nil {
		r.Extra["tool_crosschecks"] = map[string]interface{}{"binutils_ar": "skipped (not installed)"}
		return
	}
	dir, err := os.MkdirTemp("", "c13ar")
	if err != nil {
		r.Extra["tool_crosschecks"] = map[string]interface{}{"binutils_ar": "skipped: " + err.Error()}
		return
	}
	defer os.RemoveAll(dir)
	var next, done, skippedBlank int64 = -1, 0, 0
	var wg sync.WaitGroup
	for w := 0; w < 8; w++ {
		wg.Add(1)
		go func(w int) {
			defer wg.Done()
			f := filepath.Join(dir, fmt.Sprintf("w%d.a", w))
			for {
				i := int(atomic.AddInt64(&next, 1))
				if i >= len(archs) {
					return
				}
				ms := build(sh, archs[i])
				blank := false
				for _, m := range ms {
					if m.SizeSet && strings.TrimSpace(m.SizeText) == "" {
						blank = true // binutils refuses a blank size column ("malformed archive"); the library reads it as 0
					}
				}
				if blank {
					atomic.AddInt64(&skippedBlank, 1)
					continue
				}
				if err := os.WriteFile(f, gen.ArmBuild(ms), 0o644); err != nil {
					r.HarnessError("writer cross-check: %v", err)
					return
				}
				tOut, err := exec.Command(arPath, "t", f).Output()
				if err != nil {
					r.HarnessError("writer cross-check: `ar t` rejects harness-built archive %v: %v", archs[i], err)
					return
				}
				var names []string
				var all []byte
				for _, m := range ms {
					names = append(names, bfdName(m.Name))
					all = append(all, m.Data...)
				}
				want := strings.Join(names, "\n")
				if len(names) > 0 {
					want += "\n"
				}
				if string(tOut) != want {
					r.HarnessError("writer cross-check: `ar t` lists %q, model says %q (archive %v)", tOut, want, archs[i])
					return
				}
				pOut, err := exec.Command(arPath, "p", f).Output()
				if err != nil || !bytes.Equal(pOut, all) {
					r.HarnessError("writer cross-check: `ar p` prints %q (%v), model says %q (archive %v)", pOut, err, all, archs[i])
					return
				}
				atomic.AddInt64(&done, 1)
			}
		}(w)
	}
	wg.Wait()
	r.Extra["tool_crosschecks"] = map[string]interface{}{"binutils_ar_archives_agreeing_t_and_p": done,
		"skipped_blank_size_column_refused_by_binutils": skippedBlank, "archives_offered": len(archs)}
}

// ---- Run ----

var opNames = [3]string{"all", "part", "seek"}

func decodeOp(c int) Op {
	if c == 0 {
		return Op{K: "next"}
	}
	c--
	return Op{K: opNames[c%3], I: c / 3}
}

// limiter keeps the violation records deterministic: at most one record per clause+convention per SHARD (the
// engine's own cap in Stats.Violate is per worker, and which worker takes which shard varies from run to run).
// Every violating execution is still counted in the outcome histogram ("violation:<clause>").
type limiter map[string]bool

func (l limiter) ok(key string) bool {
	if l[key] {
		return false
	}
	l[key] = true
	return true
}

func record(st *mc.Stats, v *mc.Violation) {
	if v != nil {
		st.Viol = append(st.Viol, v)
	}
}

func Run(r *mc.Run) {
	r.Rule = "every archive = every sequence of 0..N member shapes (with repetition) from the 14-shape alphabet; every execution = one archive x one ReaderAt convention x one operation sequence, all distinct by construction; an archive is non-trivial when it has >= 2 members or a member of odd or zero size (distinct_nontrivial counts such archives per scenario)"
	r.Assume = []string{
		"reference = the member list the archive was built from; the harness's writer (gen.ArmBuild) is cross-checked against binutils `ar t` / `ar p` on every run",
		"well-formed = global magic, 60-byte headers with decimal or blank numeric columns, data padded to even length; names of 1..16 bytes without leading blank, at most one trailing '/'",
		"member data and names outside the 14-shape alphabet, archives with more than N members, and ReaderAt implementations other than the two conventions are not explored",
		"operation sequences are explored exhaustively to depth 2n+2 for n<=2 (quick) / n<=3 (thorough); deeper interleavings are not",
	}
	sh := shapes()
	for _, m := range sh {
		if !wellFormed(m) {
			r.HarnessError("shape %q is not well-formed", m.Name)
			return
		}
	}
	maxN := r.Pick(3, 4)
	archs := archives(len(sh), maxN)

	// writer self-check: all archives with <= 2 members (quick) / <= 3 (thorough)
	var cc [][]int
	for _, a := range archs {
		if len(a) <= r.Pick(2, 3) {
			cc = append(cc, a)
		}
	}
	crossCheckAr(r, sh, cc)

	// ---- scenario 1: every archive x both conventions x the fixed schedules ----
	const chunk = 64
	nSh := (len(archs) + chunk - 1) / chunk
	r.Scenario("archives-all", map[string]interface{}{"member_shapes": len(sh), "members": fmt.Sprintf("0..%d", maxN), "archives": len(archs),
		"reader_kinds": gen.ArmReaderKinds, "schedules_per_archive": 3},
		nSh, func(shard int, st *mc.Stats) bool {
			lim := limiter{}
			for ai := shard * chunk; ai < (shard+1)*chunk && ai < len(archs); ai++ {
				ms := build(sh, archs[ai])
				b := gen.ArmBuild(ms)
				exp := expectAll(ms)
				nt := nontrivial(ms)
				for conv := 0; conv < len(gen.ArmReaderKinds); conv++ {
					for si, ops := range schedules(len(ms)) {
						i, f := runOps(b, exp, conv, ops)
						st.Evals++
						st.Traces++
						st.Transitions += int64(len(ops))
						if int64(len(ops)) > st.MaxDepth {
							st.MaxDepth = int64(len(ops))
						}
						if f != nil {
							st.Class("violation:" + f.clause)
							if lim.ok(f.clause + fmt.Sprint(conv)) {
								record(st, checkSeq("archives-all", In{Members: ms, Conv: conv, Ops: ops}))
							}
							_ = i
						} else {
							st.Class(fmt.Sprintf("ok members=%d reader=%d", len(ms), conv))
						}
						if ai%577 == 0 && conv == 1 && si == 1 && st.WantSample() {
							st.Sample(map[string]interface{}{"archive_hex": fmt.Sprintf("%x", b), "conv": conv, "ops": fmt.Sprint(ops)})
						}
					}
				}
				if nt {
					st.Nontrivial++
				}
			}
			return !r.Expired()
		})

	// ---- scenario 1b: the header columns vary INDEPENDENTLY ----
	// The 14 shapes above tie the columns together (e.g. timestamp/uid/gid are blank only all at once). Here one
	// member takes the full product of per-column values - every blank/filled pattern of timestamp x uid x gid x
	// mode, every width class per column, each column with its own distinct values so that a column read from the
	// wrong place or skipped because of a neighbour shows - and is placed as the sole / first / middle / last member
	// between neighbours whose columns are all filled with other values (a blank column must read 0, not what the
	// previous header had).
	cp := columnProduct(!r.Quick())
	prev := gen.ArmMember{Name: "p", TS: "11", UID: "22", GID: "33", Mode: "755", Data: []byte("odd")}
	next := gen.ArmMember{Name: "n/", TS: "44", UID: "55", GID: "66", Mode: "600", Data: []byte{}}
	posNames := []string{"sole", "first", "last", "middle"}
	const cchunk = 128
	r.Scenario("header-columns", map[string]interface{}{"product_members": len(cp), "columns": cp0desc(!r.Quick()),
		"positions": posNames, "readerat_conventions": 2, "schedules": "read after each Next; all Nexts then part/all/seek last to first"},
		(len(cp)+cchunk-1)/cchunk, func(shard int, st *mc.Stats) bool {
			lim := limiter{}
			for mi := shard * cchunk; mi < (shard+1)*cchunk && mi < len(cp); mi++ {
				m := cp[mi]
				for pi, ms := range [][]gen.ArmMember{{m}, {m, next}, {prev, m}, {prev, m, next}} {
					b := gen.ArmBuild(ms)
					exp := expectAll(ms)
					scheds := schedules(len(ms))[:2]
					for conv := 0; conv < 2; conv++ {
						for _, ops := range scheds {
							_, f := runOps(b, exp, conv, ops)
							st.Evals++
							st.Traces++
							st.Transitions += int64(len(ops))
							if f != nil {
								st.Class("violation:" + f.clause)
								if lim.ok(f.clause + fmt.Sprint(conv)) {
									record(st, checkSeq("header-columns", In{Members: ms, Conv: conv, Ops: ops}))
								}
							} else {
								st.Class("ok position=" + posNames[pi])
							}
						}
					}
					st.Nontrivial++
					if mi%1013 == 0 && pi == 3 && st.WantSample() {
						st.Sample(map[string]interface{}{"archive_hex": fmt.Sprintf("%x", b), "position": posNames[pi]})
					}
				}
				st.Class(blankPattern(m))
			}
			return !r.Expired()
		})

	// ---- scenario 1c: alphabet audit - literals a change introduced into the code under test (none on the
	// unchanged tree, then this scenario does not exist) become member data sizes, numeric column values (also read
	// as bit widths), name lengths, names / name prefixes / suffixes, data fillers, and member counts ----
	am, counts := auditMembers()
	if len(am)+len(counts) > 0 {
		r.Extra["alphabet_audit"] = map[string]interface{}{"members": len(am), "member_counts": counts}
		r.Scenario("audit-members", map[string]interface{}{"audit_members": len(am), "member_counts": counts, "positions": posNames, "readerat_conventions": 2},
			len(am)+len(counts), func(shard int, st *mc.Stats) bool {
				lim := limiter{}
				var sets [][]gen.ArmMember
				if shard < len(am) {
					m := am[shard]
					sets = [][]gen.ArmMember{{m}, {m, next}, {prev, m}, {prev, m, next}}
				} else {
					n := counts[shard-len(am)]
					ms := make([]gen.ArmMember, n)
					for i := range ms {
						ms[i] = gen.ArmMember{Name: fmt.Sprintf("m%d", i%1000), TS: "1", UID: "2", GID: "3", Mode: "644", Data: []byte("abc")[:i%3]}
					}
					sets = [][]gen.ArmMember{ms}
				}
				for _, ms := range sets {
					b := gen.ArmBuild(ms)
					exp := expectAll(ms)
					for conv := 0; conv < 2; conv++ {
						for _, ops := range schedules(len(ms))[:2] {
							_, f := runOps(b, exp, conv, ops)
							st.Evals++
							st.Traces++
							st.Transitions += int64(len(ops))
							if f != nil {
								st.Class("violation:" + f.clause)
								if lim.ok(f.clause + fmt.Sprint(conv)) {
									record(st, checkSeq("audit-members", In{Members: ms, Conv: conv, Ops: ops}))
								}
							} else {
								st.Class("ok")
							}
						}
					}
					st.Nontrivial++
				}
				return !r.Expired()
			})
	}

	// ---- scenario 1e: the padding byte. "Data padded to even length" does not say with what: ar(1) writes '\n',
	// other writers NUL. Every odd-sized member takes every padding byte, in every position of archives of 1..3
	// members; an odd-sized LAST member also without its padding byte. ----
	var padShapes []gen.ArmMember
	for _, d := range [][]byte{[]byte("z"), []byte("ab`\nc"), data61()} {
		for _, p := range []string{"\n", "\x00", " ", "x", "\xff"} {
			padShapes = append(padShapes, gen.ArmMember{Name: fmt.Sprintf("o%d", len(d)), TS: "1", UID: "2", GID: "3", Mode: "644", Data: d, Pad: p})
		}
	}
	padShapes = append(padShapes, gen.ArmMember{Name: "even", TS: "1", UID: "2", GID: "3", Mode: "644", Data: []byte("`\n")})
	padArchs := archives(len(padShapes), 3)[1:]
	r.Scenario("padding-byte", map[string]interface{}{"odd_sizes": []int{1, 5, 61}, "padding_bytes": []string{"\\n", "NUL", "blank", "x", "0xff"}, "members": "1..3",
		"archives": len(padArchs), "last_member": "padded, and (odd size) also unpadded", "readerat_conventions": 2, "schedules": 3},
		(len(padArchs)+chunk-1)/chunk, func(shard int, st *mc.Stats) bool {
			lim := limiter{}
			for ai := shard * chunk; ai < (shard+1)*chunk && ai < len(padArchs); ai++ {
				base := build(padShapes, padArchs[ai])
				variants := [][]gen.ArmMember{base}
				if last := len(base) - 1; len(base[last].Data)%2 == 1 && base[last].Pad == "\n" {
					np := append([]gen.ArmMember(nil), base...)
					np[last].NoPad, np[last].Pad = true, ""
					variants = append(variants, np)
				}
				for _, ms := range variants {
					b := gen.ArmBuild(ms)
					exp := expectAll(ms)
					for conv := 0; conv < 2; conv++ {
						for _, ops := range schedules(len(ms)) {
							_, f := runOps(b, exp, conv, ops)
							st.Evals++
							st.Traces++
							st.Transitions += int64(len(ops))
							if f != nil {
								st.Class("violation:" + f.clause)
								if lim.ok(f.clause + fmt.Sprint(conv)) {
									record(st, checkSeq("padding-byte", In{Members: ms, Conv: conv, Ops: ops}))
								}
							} else {
								st.Class("ok")
							}
						}
					}
					st.Nontrivial++
				}
			}
			return !r.Expired()
		})

	// ---- scenario 1g: SEQUENCES of names that other ar dialects treat specially (GNU/SysV name table "//" and
	// references "/<n>", symbol table "/", BSD "#1/<len>" names stored in the data). The statement knows none of them:
	// every member comes back under its RECORDED name column (padding and one trailing '/' removed: "//" -> "/",
	// "/" -> "", "/0" -> "/0", "/0/" -> "/0"; the pinned fixture long.a asserts the first two), recorded size, its bytes. ----
	sp := func(name string, data string) gen.ArmMember {
		return gen.ArmMember{Name: name, TS: "1", UID: "2", GID: "3", Mode: "644", Data: []byte(data)}
	}
	table := "control.tar.zst.partial/\nother-long-name.o/\n"
	special := []gen.ArmMember{
		sp("//", table), sp("//", ""), sp("/", "\x00\x00\x00\x01\x00\x00\x00\x52sym\x00"), sp("/", ""),
		sp("/0", "first"), sp("/25", "second"), sp("/999", "far"), sp("/0/", "slash"), sp("/x", "text"), sp("/-1", "neg"),
		sp("#1/20", "twenty-byte-name.o\x00\x00payload"), sp("#1/0", "payload"), sp("#1/99", "short"),
		sp("a", "plain"), sp("b.o/", "obj"),
		// GNU-terminated names whose RECORDED name ends in white space (the terminator, not the blank, ends the name),
		// next to the member they must not be confused with
		sp("notes /", "blank before the terminator"), sp("notes\t/", "tab before the terminator"), sp("notes", "the plain one"), sp("notes/", "terminated"),
	}
	spArchs := archives(len(special), 3)[1:]
	r.Scenario("special-name-sequences", map[string]interface{}{"member_shapes": len(special), "members": "1..3", "archives": len(spArchs), "readerat_conventions": 2, "schedules": 3,
		"names": []string{"// (table, empty)", "/ (symbols, empty)", "/0", "/25", "/999", "/0/", "/x", "/-1", "#1/20", "#1/0", "#1/99", "a", "b.o/"}},
		(len(spArchs)+chunk-1)/chunk, func(shard int, st *mc.Stats) bool {
			lim := limiter{}
			for ai := shard * chunk; ai < (shard+1)*chunk && ai < len(spArchs); ai++ {
				ms := build(special, spArchs[ai])
				b := gen.ArmBuild(ms)
				exp := expectAll(ms)
				for conv := 0; conv < 2; conv++ {
					for _, ops := range schedules(len(ms)) {
						_, f := runOps(b, exp, conv, ops)
						st.Evals++
						st.Traces++
						st.Transitions += int64(len(ops))
						if f != nil {
							st.Class("violation:" + f.clause)
							if lim.ok(f.clause + fmt.Sprint(conv)) {
								record(st, checkSeq("special-name-sequences", In{Members: ms, Conv: conv, Ops: ops}))
							}
						} else {
							st.Class("ok")
						}
					}
				}
				st.Nontrivial++
			}
			return !r.Expired()
		})

	// ---- scenario 1f: archives LONGER than any window a reader might keep (4 KiB, 8 KiB, 64 KiB): many members, so
	// that 60-byte headers start at every (even) residue modulo those sizes and straddle their multiples ----
	largeArchives(r)

	// ---- scenario 1d: members that are tars - IsTarfile / Tarfile called directly on what Next returns ----
	tarScenarios(r)

	// ---- scenario 2: every operation sequence ----
	type plan struct {
		name  string
		n     int
		idx   []int // shape indices used
		depth int
	}
	all := make([]int, len(sh))
	for i := range all {
		all[i] = i
	}
	// reduced data alphabets for 3 members: sizes 0, 5 (odd), 2 / plus 1 and 61
	red3 := []int{0, 4, 3}
	red5 := []int{0, 4, 3, 2, 5}
	plans := []plan{{"opseq-n0", 0, all, 2}, {"opseq-n1", 1, all, 4}, {"opseq-n2", 2, all, 6}}
	if r.Quick() {
		plans = append(plans, plan{"opseq-n3-depth7", 3, red3, 7})
	} else {
		plans = append(plans, plan{"opseq-n3", 3, red5, 8}, plan{"opseq-n4-depth7", 4, []int{0, 4}, 7})
	}
	for _, p := range plans {
		p := p
		var as [][]int
		for _, a := range archives(len(p.idx), p.n) {
			if len(a) == p.n {
				q := make([]int, p.n)
				for i, s := range a {
					q[i] = p.idx[s]
				}
				as = append(as, q)
			}
		}
		r.Scenario(p.name, map[string]interface{}{"members": p.n, "member_shapes": len(p.idx), "archives": len(as), "depth": p.depth,
			"ops": "next | all(i) | part(i) | seek(i) for every member i returned so far", "readerat_convention": "deviation, k=1"},
			len(as), func(shard int, st *mc.Stats) bool {
				ms := build(sh, as[shard])
				b := gen.ArmBuild(ms)
				exp := expectAll(ms)
				lim := limiter{}
				ok := true
				ops := make([]Op, 0, p.depth)
				execs, div := mc.Explore(1, st, func(x *mc.X) {
					if !ok {
						return
					}
					conv := x.Deviate(2, "readerat-convention")
					ops = ops[:0]
					s, f := open(b, exp, conv)
					for d := 0; f == nil && d < p.depth; d++ {
						op := decodeOp(x.Choose(1+3*len(s.got), "op"))
						ops = append(ops, op)
						f = s.step(op)
					}
					if f != nil {
						st.Class("violation:" + f.clause)
						if lim.ok(f.clause + fmt.Sprint(conv)) {
							record(st, checkSeq(p.name, In{Members: ms, Conv: conv, Ops: append([]Op(nil), ops...)}))
						}
					} else {
						st.Classes[okClass[conv]]++
					}
					if st.Evals&0xfff == 0 && r.Expired() {
						ok = false
					}
					st.Evals++
					st.Traces++
					if conv == 1 && st.Evals%100003 == 0 && st.WantSample() {
						st.Sample(map[string]interface{}{"archive_hex": fmt.Sprintf("%x", b), "conv": conv, "ops": fmt.Sprint(ops)})
					}
				})
				_ = execs
				if div != "" {
					r.HarnessError("%s: %s", p.name, div)
				}
				if nontrivial(ms) {
					st.Nontrivial++
				}
				return ok
			})
	}
}

var okClass = [2]string{"ok conv=0", "ok conv=1"}

// ---- large archives ----

func bigMember(i, size int) gen.ArmMember {
	d := make([]byte, size)
	for j := range d {
		d[j] = byte((i*7 + j) % 251)
	}
	return gen.ArmMember{Name: fmt.Sprintf("m%d", i), TS: fmt.Sprint(1000 + i), UID: fmt.Sprint(i % 1000), GID: "3", Mode: "644", Data: d}
}

func largeArchives(r *mc.Run) {
	type la struct {
		desc string
		ms   []gen.ArmMember
	}
	var as []la
	patterns := []struct {
		name string
		size func(i, n int) int
	}{
		{"all 0 bytes (stride 60)", func(i, n int) int { return 0 }},
		{"all 1 byte (stride 62)", func(i, n int) int { return 1 }},
		{"all 8 bytes (stride 68)", func(i, n int) int { return 8 }},
		{"sizes cycling 0..61", func(i, n int) int { return i % 62 }},
		{"a 4000-byte member first, then 8 bytes", func(i, n int) int {
			if i == 0 {
				return 4000
			}
			return 8
		}},
		{"a 70000-byte member in the middle, else 8 bytes", func(i, n int) int {
			if i == n/2 {
				return 70000
			}
			return 8
		}},
	}
	for _, n := range []int{13, 50, 64, 65, 80, 200, 1000} {
		for _, p := range patterns {
			ms := make([]gen.ArmMember, n)
			for i := range ms {
				ms[i] = bigMember(i, p.size(i, n))
			}
			as = append(as, la{fmt.Sprintf("%d members, %s", n, p.name), ms})
		}
	}
	// sweep: a first member of 0..67 bytes shifts the 80 following 68-byte strides over every even residue, so that
	// for every even k in [4096-59, 4096-1] some header starts at k modulo 4096
	for s0 := 0; s0 <= 67; s0++ {
		ms := []gen.ArmMember{bigMember(0, s0)}
		for i := 1; i <= 80; i++ {
			ms = append(ms, bigMember(i, 8))
		}
		as = append(as, la{fmt.Sprintf("first member %d bytes, then 80 members of 8 bytes", s0), ms})
	}
	// self-check of the generator: the sweep really puts a header start on every even offset of the last 60 bytes before 4096
	hit := map[int]bool{}
	for _, a := range as[len(as)-68:] {
		offs, _ := gen.ArmOffsets(a.ms)
		for _, o := range offs {
			hit[o%4096] = true
		}
	}
	for k := 4096 - 58; k < 4096; k += 2 {
		if !hit[k] {
			r.HarnessError("large-archives: no header starts at %d modulo 4096", k)
		}
	}
	kinds := []int{0, 8, 1}
	r.Scenario("large-archives", map[string]interface{}{"archives": len(as), "member_counts": []int{13, 50, 64, 65, 80, 200, 1000}, "size_patterns": len(patterns),
		"sweep":        "first member 0..67 bytes + 80 x 8 bytes: a header starts at every even offset in [4096-58, 4096-2] modulo 4096 (checked)",
		"reader_kinds": []string{gen.ArmReaderKinds[0], gen.ArmReaderKinds[8], gen.ArmReaderKinds[1]},
		"schedules":    "walk reading each member, two EOFs | walk to the end, read all members in REVERSE order, then rewind and re-read every member first to last"},
		len(as), func(ai int, st *mc.Stats) bool {
			lim := limiter{}
			ms := as[ai].ms
			n := len(ms)
			b := gen.ArmBuild(ms)
			exp := expectAll(ms)
			nx := Op{K: "next"}
			var s1, s2 []Op
			for i := 0; i < n; i++ {
				s1 = append(s1, nx, Op{K: "all", I: i})
			}
			s1 = append(s1, nx, nx)
			for i := 0; i < n+2; i++ {
				s2 = append(s2, nx)
			}
			for i := n - 1; i >= 0; i-- {
				s2 = append(s2, Op{K: "all", I: i})
			}
			for i := 0; i < n; i++ {
				s2 = append(s2, Op{K: "seek", I: i})
			}
			s2 = append(s2, nx)
			for _, conv := range kinds {
				for _, ops := range [][]Op{s1, s2} {
					_, f := runOps(b, exp, conv, ops)
					st.Evals++
					st.Traces++
					st.Transitions += int64(len(ops))
					if int64(len(ops)) > st.MaxDepth {
						st.MaxDepth = int64(len(ops))
					}
					if f != nil {
						st.Class("violation:" + f.clause)
						if lim.ok(f.clause + fmt.Sprint(conv)) {
							record(st, checkSeq("large-archives", In{Members: ms, Conv: conv, Ops: ops}))
						}
					} else {
						st.Class(fmt.Sprintf("ok %d bytes or more", len(b)/4096*4096))
					}
				}
			}
			st.Nontrivial++
			if ai%37 == 0 && st.WantSample() {
				st.Sample(map[string]interface{}{"archive": as[ai].desc, "bytes": len(b)})
			}
			return !r.Expired()
		})
}
