// Package c13: the ar reader returns every member of a well-formed archive with exact metadata and bytes,
// through independent, seekable, re-readable readers, and then reports end of archive (repeatedly).
package c13

import (
	"bytes"
	"encoding/json"
	"fmt"
	"io"

	"pault.ag/go/debian/deb"

	"verifharness/gen"
	"verifharness/mc"
	"verifharness/props/reg"
)

func init() { reg.Register(&reg.Prop{ID: "C13", Run: Run, Replay: Replay}) }

// Op is one operation on the iterator or on the reader of an already returned member.
//
//	next      Ar.Next()
//	all  i    read member i's Data from its current position to the end
//	part i    io.ReadFull of 2 bytes from member i's Data at its current position
//	seek i    Data.Seek(0, SeekStart), then read to the end
//	skip i    Data.Seek(3, SeekStart): moves member i's position (also past the end of a short member) without reading
//	tar  i c  IsTarfile / Tarfile of member i (after Seek(0)): list the tar, call the closer c (1 or 2) times, then
//	          Seek(0) and re-read the member (tar.go)
type Op struct {
	K string `json:"k"`
	I int    `json:"i,omitempty"`
	C int    `json:"c,omitempty"`
}

func (o Op) String() string {
	if o.K == "next" {
		return "next"
	}
	if o.K == "tar" {
		return fmt.Sprintf("tar(%d,close x%d)", o.I, o.C)
	}
	return fmt.Sprintf("%s(%d)", o.K, o.I)
}

// In is the replayable input: the member-list model the archive is built from (the reference), the ReaderAt
// end-of-input convention, and the operation sequence.
type In struct {
	Members []gen.ArmMember
	Conv    int // reader kind, see gen.ArmReaderKinds (0: bytes.Reader; 1: a full read ending exactly at end of input returns (n, io.EOF); 2..: position consumed, strings.Reader, SectionReader, os.File, lying Len)
	Ops     []Op
	// Tars, when set, is parallel to Members: what member i's bytes are as a tar (nil: no claim), see tar.go.
	Tars []*TarSpec `json:",omitempty"`
	// Dec, when set, makes this a deb.DecompressorFor input instead of an archive.
	Dec *DecIn `json:",omitempty"`
}

// DecIn: DecompressorFor(Ext) applied to Encoded must yield Payload.
type DecIn struct {
	Ext              string
	Encoded, Payload []byte
}

func features(conv int) []string {
	if f := gen.ArmReaderFeature(conv); f != "" {
		return []string{f}
	}
	return nil
}

// ---- executing one operation sequence against the real reader, comparing with the model at every step ----

type fail struct{ clause, want, got string }

type sess struct {
	release func()
	tars    []*TarSpec
	exp     []gen.ArmExpect
	ar      *deb.Ar
	got     []*deb.ArEntry
	pos     []int
	buf     []byte
	part    [2]byte
}

func open(b []byte, exp []gen.ArmExpect, conv int) (*sess, *fail) {
	s := &sess{exp: exp}
	max := 0
	for _, e := range exp {
		if len(e.Data) > max {
			max = len(e.Data)
		}
	}
	s.buf = make([]byte, 0, max+16)
	var err error
	rd, release := gen.ArmOpen(b, conv)
	s.release = release
	if p, msg := mc.Guard(func() { s.ar, err = deb.LoadAr(rd) }); p {
		release()
		return nil, &fail{"no-panic", "LoadAr returns", "panic: " + msg}
	}
	if err != nil || s.ar == nil {
		release()
		return nil, &fail{"opens", "LoadAr succeeds on a well-formed archive", fmt.Sprintf("error: %v", err)}
	}
	return s, nil
}

// readRest reads r to the end without trusting it to stop: more than cap(buf) bytes or repeated empty reads end it.
func (s *sess) readRest(r *io.SectionReader) ([]byte, string) {
	buf := s.buf[:0]
	empty := 0
	for {
		if len(buf) == cap(buf) {
			return buf, "reader delivers more bytes than any member has"
		}
		n, err := r.Read(buf[len(buf):cap(buf)])
		buf = buf[:len(buf)+n]
		if err == io.EOF {
			return buf, ""
		}
		if err != nil {
			return buf, "read error: " + err.Error()
		}
		if n == 0 {
			if empty++; empty > 2 {
				return buf, "reader returns (0, nil) repeatedly"
			}
		}
	}
}

func (s *sess) step(op Op) (f *fail) {
	defer func() {
		if e := recover(); e != nil {
			f = &fail{"no-panic", op.String() + " returns", fmt.Sprint("panic: ", e)}
		}
	}()
	if op.K == "next" {
		e, err := s.ar.Next()
		k := len(s.got)
		if k >= len(s.exp) {
			if e != nil || err != io.EOF {
				return &fail{"end-of-archive", fmt.Sprintf("(nil, io.EOF) after the %d member(s)", len(s.exp)), descNext(e, err)}
			}
			return nil
		}
		x := s.exp[k]
		if err != nil || e == nil {
			return &fail{"member-returned", fmt.Sprintf("member #%d %q", k, x.Name), descNext(e, err)}
		}
		if e.Name != x.Name || e.Timestamp != x.TS || e.OwnerID != x.UID || e.GroupID != x.GID || e.FileMode != x.Mode || e.Size != x.Size {
			return &fail{"member-metadata",
				fmt.Sprintf("#%d name=%q ts=%d uid=%d gid=%d mode=%q size=%d", k, x.Name, x.TS, x.UID, x.GID, x.Mode, x.Size),
				fmt.Sprintf("#%d name=%q ts=%d uid=%d gid=%d mode=%q size=%d", k, e.Name, e.Timestamp, e.OwnerID, e.GroupID, e.FileMode, e.Size)}
		}
		if e.Data == nil {
			return &fail{"reader-bytes", "a reader", "Data is nil"}
		}
		if e.Data.Size() != x.Size {
			return &fail{"reader-bytes", fmt.Sprintf("Data.Size()=%d", x.Size), fmt.Sprintf("Data.Size()=%d", e.Data.Size())}
		}
		s.got = append(s.got, e)
		s.pos = append(s.pos, 0)
		return nil
	}
	if op.I < 0 || op.I >= len(s.got) {
		return nil // not applicable (replay of a hand-edited input): ignored
	}
	r, data, pos := s.got[op.I].Data, s.exp[op.I].Data, s.pos[op.I]
	defer func() {
		if f == nil {
			f = s.positions(op)
		}
	}()
	switch op.K {
	case "tar":
		return s.tarStep(op)
	case "skip":
		off, err := r.Seek(3, io.SeekStart)
		if off != 3 || err != nil {
			return &fail{"reader-seek", "Seek(3, SeekStart) = (3, nil)", fmt.Sprintf("(%d, %v)", off, err)}
		}
		s.pos[op.I] = 3
		return nil
	case "all", "seek":
		if op.K == "seek" {
			off, err := r.Seek(0, io.SeekStart)
			if off != 0 || err != nil {
				return &fail{"reader-seek", "Seek(0, SeekStart) = (0, nil)", fmt.Sprintf("(%d, %v)", off, err)}
			}
			pos = 0
		}
		past := pos > len(data) // moved past the end by skip: a read yields nothing and leaves the position alone
		from := pos
		if past {
			from = len(data)
		}
		got, msg := s.readRest(r)
		if msg != "" || !bytes.Equal(got, data[from:]) {
			return &fail{"reader-bytes", fmt.Sprintf("%s of #%d from position %d: %q", op.K, op.I, pos, data[from:]), fmt.Sprintf("%q %s", got, msg)}
		}
		if !past {
			pos = len(data)
		}
		s.pos[op.I] = pos
	case "part":
		if pos > len(data) { // the reader was moved past the end: nothing to read, position unchanged
			n, err := io.ReadFull(r, s.part[:])
			if n != 0 || err != io.EOF {
				return &fail{"reader-bytes", fmt.Sprintf("ReadFull(2) of #%d past its end: 0 bytes, EOF", op.I), fmt.Sprintf("%d bytes, %v", n, err)}
			}
			return nil
		}
		k := len(data) - pos
		if k > 2 {
			k = 2
		}
		n, err := io.ReadFull(r, s.part[:])
		var wantErr error
		switch k {
		case 0:
			wantErr = io.EOF
		case 1:
			wantErr = io.ErrUnexpectedEOF
		}
		if n != k || err != wantErr || !bytes.Equal(s.part[:n], data[pos:pos+k]) {
			return &fail{"reader-bytes", fmt.Sprintf("ReadFull(2) of #%d at position %d: %q, %v", op.I, pos, data[pos:pos+k], wantErr),
				fmt.Sprintf("%q, %v", s.part[:n], err)}
		}
		s.pos[op.I] = pos + k
	}
	return nil
}

// positions: every reader handed out so far is where the model says it is - an operation on one member's reader
// must not move another member's (independent readers), empty members included.
func (s *sess) positions(op Op) *fail {
	for j, e := range s.got {
		off, err := e.Data.Seek(0, io.SeekCurrent)
		if err != nil || off != int64(s.pos[j]) {
			return &fail{"reader-independent", fmt.Sprintf("after %s the reader of member #%d is at position %d", op, j, s.pos[j]), fmt.Sprintf("(%d, %v)", off, err)}
		}
	}
	return nil
}

func descNext(e *deb.ArEntry, err error) string {
	if e == nil {
		return fmt.Sprintf("(nil, %v)", err)
	}
	return fmt.Sprintf("(member name=%q size=%d, %v)", e.Name, e.Size, err)
}

func expectAll(ms []gen.ArmMember) []gen.ArmExpect {
	exp := make([]gen.ArmExpect, len(ms))
	for i, m := range ms {
		exp[i] = gen.ArmExpected(m)
	}
	return exp
}

// runOps executes the whole sequence; it returns the index of the failing operation (-1: LoadAr) and the failure.
func runOps(b []byte, exp []gen.ArmExpect, conv int, ops []Op) (int, *fail) {
	return runOpsT(b, exp, nil, conv, ops)
}

func runOpsT(b []byte, exp []gen.ArmExpect, tars []*TarSpec, conv int, ops []Op) (int, *fail) {
	s, f := open(b, exp, conv)
	if f != nil {
		return -1, f
	}
	defer s.release()
	s.tars = tars
	for i, op := range ops {
		if f := s.step(op); f != nil {
			return i, f
		}
	}
	return len(ops), nil
}

// checkSeq is the oracle for one input.
func checkSeq(scen string, in In) *mc.Violation {
	if in.Dec != nil {
		var f *fail
		if p, msg := mc.Guard(func() { f = checkDecompressor(in.Dec.Ext, in.Dec.Encoded, in.Dec.Payload) }); p {
			f = &fail{"no-panic", "DecompressorFor returns", "panic: " + msg}
		}
		if f == nil {
			return nil
		}
		return mc.V(scen, f.clause, in, f.want, f.got)
	}
	for i, m := range in.Members {
		if m.NoPad && i == len(in.Members)-1 {
			m.NoPad = false // the LAST member may end the file without its padding byte
		}
		if !wellFormed(m) {
			return nil // the property speaks about well-formed archives only
		}
	}
	b := gen.ArmBuild(in.Members)
	i, f := runOpsT(b, expectAll(in.Members), in.Tars, in.Conv, in.Ops)
	if f == nil {
		return nil
	}
	cut := in
	if i >= 0 && i < len(in.Ops) {
		cut.Ops = in.Ops[:i+1]
	} else if i < 0 {
		cut.Ops = nil
	}
	v := mc.V(scen, f.clause, cut, f.want, f.got, features(in.Conv)...)
	v.Hex = fmt.Sprintf("%x", b)
	return v
}

func wellFormed(m gen.ArmMember) bool {
	if m.Magic != "" || m.NoPad || len(m.Name) > 16 || len(m.Pad) > 1 {
		return false
	}
	num := func(s string, w int) bool {
		if len(s) > w {
			return false
		}
		for i := 0; i < len(s); i++ {
			if s[i] < '0' || s[i] > '9' {
				return false
			}
		}
		return true
	}
	if !num(m.TS, 12) || !num(m.UID, 6) || !num(m.GID, 6) || len(m.Mode) > 8 {
		return false
	}
	if m.SizeSet {
		if !num(m.SizeText, 10) {
			return false
		}
		n := int64(0)
		for i := 0; i < len(m.SizeText); i++ {
			n = n*10 + int64(m.SizeText[i]-'0')
		}
		if n != int64(len(m.Data)) {
			return false
		}
	}
	return true
}

func Replay(scenario string, raw json.RawMessage) []*mc.Violation {
	var in In
	if err := mc.UnmarshalInput(raw, &in); err != nil {
		return nil
	}
	if v := checkSeq(scenario, in); v != nil {
		return []*mc.Violation{v}
	}
	return nil
}
