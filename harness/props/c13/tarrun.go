package c13

import (
	"fmt"

	"verifharness/gen"
	"verifharness/mc"
)

type tarShape struct {
	m    gen.ArmMember
	spec *TarSpec
	what string
}

func tm(name string, data []byte) gen.ArmMember {
	return gen.ArmMember{Name: name, TS: "1577836800", UID: "0", GID: "0", Mode: "100644", Data: data}
}

// tarShapes: three tar models x the six encodings of deb(5) under their names, a stored tar under an unknown
// extension, tar-shaped and not-tar-shaped names with arbitrary content.
func tarShapes(r *mc.Run) (valid, other []tarShape, unavailable map[string]string) {
	models := []struct {
		tag string
		es  []gen.TarEntry
	}{
		{"t0", nil},
		{"t1", []gen.TarEntry{{Name: "./control", Body: []byte("Package: a\nVersion: 1\n")}}},
		{"t2", []gen.TarEntry{{Name: "./", Dir: true}, {Name: "./usr/", Dir: true}, {Name: "./usr/x", Fill: 700}, {Name: "./empty"}}},
	}
	c := gen.NewDebCompressor()
	var blobs [][]byte
	for _, m := range models {
		blobs = append(blobs, gen.BuildTar(m.es))
	}
	if err := c.Prepare(gen.DebComps, blobs...); err != nil {
		r.HarnessError("compressors: %v", err)
	}
	unavailable = c.Unavailable()
	for mi, m := range models {
		for _, comp := range gen.DebComps {
			z, err := c.Compress(comp, blobs[mi])
			if err != nil {
				continue // recorded in unavailable
			}
			name := m.tag + ".tar" + gen.DebCompExt(comp)
			valid = append(valid, tarShape{tm(name, z), &TarSpec{Valid: true, Entries: m.es}, name})
		}
	}
	// a valid stored tar under an extension the table does not know is read as it is; trailing '/' on a tar name
	valid = append(valid,
		tarShape{tm("u.tar.foo", blobs[1]), &TarSpec{Valid: true, Entries: models[1].es}, "stored tar named .tar.foo"},
		tarShape{tm("s.tar/", blobs[1]), &TarSpec{Valid: true, Entries: models[1].es}, "stored tar, name with trailing /"},
		tarShape{tm(".tar", blobs[2]), &TarSpec{Valid: true, Entries: models[2].es}, "stored tar named .tar"})
	gz1, _ := c.Compress("gz", blobs[1])
	garbage := &TarSpec{}
	other = []tarShape{
		// tar by name, content is not
		{tm("g.tar", []byte("hello, not a tar")), garbage, "text under .tar"},
		{tm("g.tar.gz", []byte("not gzip at all")), garbage, "text under .tar.gz"},
		{tm("e.tar", []byte{}), garbage, "empty member under .tar"},
		{tm("h.tar", blobs[1][:700]), garbage, "stored tar cut inside the first body"},
		{tm("h.tar.gz", gz1[:len(gz1)/2]), garbage, "gzip stream cut in half"},
		{tm("x.tar.gz", blobs[1]), garbage, "stored tar under .tar.gz"},
		{tm("y.tar.", blobs[1]), &TarSpec{Valid: true, Entries: models[1].es}, "stored tar named .tar. (empty extension)"},
		// not a tar by name (content is a valid tar: the name decides)
		{tm("debian-binary", []byte("2.0\n")), nil, "debian-binary"},
		{tm("a.tar.gz.x", gz1), nil, "two extensions after .tar"},
		{tm("tarball", blobs[1]), nil, "no dot"},
		{tm("a.tgz", gz1), nil, ".tgz"},
		{tm("x.tar.g/z", blobs[1]), nil, "slash inside the extension"},
		{tm("my.tarx", blobs[1]), nil, ".tarx"},
		{tm("tar", blobs[1]), nil, "tar without dot"},
		// non-ASCII names: invalid UTF-8, runes whose case mapping changes their byte length, dots first / last / only
		{tm(".\xe9", blobs[1]), nil, "dot + one invalid UTF-8 byte"},
		{tm("r.\xe9s", blobs[1]), nil, "invalid UTF-8 in the extension"},
		{tm("data.ȺȺȺȺȺ", blobs[1]), nil, "U+023A x5 as extension"},
		{tm("data.\xe9t\xe9\xe9", blobs[1]), nil, "invalid UTF-8 x3 in the extension"},
		{tm("İ.tar", blobs[1]), &TarSpec{Valid: true, Entries: models[1].es}, "U+0130 stem, stored tar"},
		{tm("K.tar.gz", gz1), &TarSpec{Valid: true, Entries: models[1].es}, "U+212A stem, gzip tar"},
		{tm("a.tar.é", blobs[1]), &TarSpec{Valid: true, Entries: models[1].es}, "non-ASCII unknown extension, stored tar"},
		{tm(".", blobs[1]), nil, "a dot only"},
		{tm("a.", blobs[1]), nil, "dot last"},
	}
	return
}

func tarSchedules(n int) [][]Op {
	nx := Op{K: "next"}
	var a, b []Op
	// a: iterate to the end; per member: Tarfile (close once), the OTHER members' readers are where they were, Tarfile
	// again on the same member (close twice), rewind
	for i := 0; i <= n; i++ {
		a = append(a, nx)
	}
	for i := 0; i < n; i++ {
		a = append(a, Op{K: "tar", I: i, C: 1})
		for j := 0; j < n; j++ {
			if j != i {
				a = append(a, Op{K: "part", I: j})
			}
		}
		a = append(a, Op{K: "tar", I: i, C: 2}, Op{K: "seek", I: i})
	}
	// b: Tarfile right after each Next, earlier members re-read in between, last to first at the end
	for i := 0; i < n; i++ {
		b = append(b, nx, Op{K: "tar", I: i, C: 2})
		for j := 0; j < i; j++ {
			b = append(b, Op{K: "seek", I: j})
		}
	}
	b = append(b, nx)
	for i := n - 1; i >= 0; i-- {
		b = append(b, Op{K: "tar", I: i, C: 1}, Op{K: "all", I: i})
	}
	return [][]Op{a, b}
}

func tarScenarios(r *mc.Run) {
	valid, other, unavailable := tarShapes(r)
	all := append(append([]tarShape{}, valid...), other...)
	r.Extra["tar_encodings_unavailable"] = unavailable

	// ---- DecompressorFor ----
	c := gen.NewDebCompressor()
	payloads := [][]byte{{}, []byte("a"), gen.PatternBytes("p", 1000), gen.BuildTar([]gen.TarEntry{{Name: "./x", Fill: 3000}})}
	c.Prepare(gen.DebComps, payloads...)
	type dj struct {
		in   In
		what string
	}
	var decs []dj
	for _, comp := range gen.DebComps[1:] {
		for _, p := range payloads {
			if z, err := c.Compress(comp, p); err == nil {
				decs = append(decs, dj{In{Dec: &DecIn{Ext: gen.DebCompExt(comp), Encoded: z, Payload: p}}, comp})
			}
		}
	}
	for _, ext := range []string{"", ".tar", ".foo", ".GZ", "gz", ".gzip", ".Z"} { // not in the table: the reader as it is
		for _, p := range payloads[:3] {
			decs = append(decs, dj{In{Dec: &DecIn{Ext: ext, Encoded: p, Payload: p}}, "unknown " + ext})
		}
	}
	r.Scenario("decompressors", map[string]interface{}{"extensions": []string{".gz", ".xz", ".bz2", ".lzma", ".zst"}, "payload_sizes": []int{0, 1, 1000, len(payloads[3])},
		"unknown_extensions": []string{"", ".tar", ".foo", ".GZ", "gz", ".gzip", ".Z"}, "inputs": len(decs), "note": "SetXZMaxDict is a process-global knob and is not exercised"},
		len(decs), func(i int, st *mc.Stats) bool {
			st.Evals++
			st.Traces++
			st.Nontrivial++
			if v := checkSeq("decompressors", decs[i].in); v != nil {
				st.Class("violation:" + v.Clause)
				record(st, v)
			} else {
				st.Class("ok " + decs[i].what)
			}
			return true
		})

	// ---- fixed schedules on every archive of 1 and 2 tar-alphabet members (and 3 of a small subset) ----
	var archs [][]int
	for i := range all {
		archs = append(archs, []int{i})
		for j := range all {
			archs = append(archs, []int{i, j})
		}
	}
	small := []int{1, len(valid) - 3, len(valid) + 1, len(valid) + 8} // t0 gz, stored .tar.foo, garbage .tar.gz, a.tar.gz.x
	for _, i := range small {
		for _, j := range small {
			for _, k := range small {
				archs = append(archs, []int{i, j, k})
			}
		}
	}
	pick := func(idx []int) ([]gen.ArmMember, []*TarSpec) {
		ms := make([]gen.ArmMember, len(idx))
		ts := make([]*TarSpec, len(idx))
		for k, i := range idx {
			ms[k], ts[k] = all[i].m, all[i].spec
		}
		return ms, ts
	}
	var names []string
	for _, s := range all {
		names = append(names, s.m.Name)
	}
	const chunk = 16
	r.Scenario("tar-members", map[string]interface{}{"member_shapes": len(all), "names": names, "archives": len(archs), "readerat_conventions": 2, "schedules": 2},
		(len(archs)+chunk-1)/chunk, func(shard int, st *mc.Stats) bool {
			lim := limiter{}
			for ai := shard * chunk; ai < (shard+1)*chunk && ai < len(archs); ai++ {
				ms, ts := pick(archs[ai])
				b := gen.ArmBuild(ms)
				exp := expectAll(ms)
				for conv := 0; conv < 2; conv++ {
					for _, ops := range tarSchedules(len(ms)) {
						_, f := runOpsT(b, exp, ts, conv, ops)
						st.Evals++
						st.Traces++
						st.Transitions += int64(len(ops))
						if f != nil {
							st.Class("violation:" + f.clause)
							if lim.ok(f.clause + fmt.Sprint(conv)) {
								record(st, checkSeq("tar-members", In{Members: ms, Tars: ts, Conv: conv, Ops: ops}))
							}
						} else {
							st.Class(fmt.Sprintf("ok members=%d", len(ms)))
						}
					}
				}
				st.Nontrivial++
			}
			return !r.Expired()
		})

	// ---- every operation sequence, with the two Tarfile operations, on a small alphabet ----
	opsAlpha := []int{1, 6, len(valid) + 1, len(valid) + 9} // t0.tar.gz, t1 stored, garbage g.tar.gz, tarball
	var oa [][]int
	for _, i := range opsAlpha {
		oa = append(oa, []int{i})
		for _, j := range opsAlpha {
			oa = append(oa, []int{i, j})
		}
	}
	r.Scenario("tar-opseq", map[string]interface{}{"member_shapes": len(opsAlpha), "archives": len(oa), "depth": "2n+1",
		"ops": "next | all(i) | part(i) | seek(i) | tar(i, close once) | tar(i, close twice)", "readerat_convention": "deviation, k=1"},
		len(oa), func(shard int, st *mc.Stats) bool {
			ms, ts := pick(oa[shard])
			b := gen.ArmBuild(ms)
			exp := expectAll(ms)
			depth := 2*len(ms) + 1
			lim := limiter{}
			ok := true
			ops := make([]Op, 0, depth)
			_, div := mc.Explore(1, st, func(x *mc.X) {
				if !ok {
					return
				}
				conv := x.Deviate(2, "readerat-convention")
				ops = ops[:0]
				s, f := open(b, exp, conv)
				if s != nil {
					s.tars = ts
				}
				for d := 0; f == nil && d < depth; d++ {
					c := x.Choose(1+5*len(s.got), "op")
					var op Op
					switch {
					case c == 0:
						op = Op{K: "next"}
					case (c-1)%5 < 3:
						op = Op{K: opNames[(c-1)%5], I: (c - 1) / 5}
					default:
						op = Op{K: "tar", I: (c - 1) / 5, C: (c-1)%5 - 2}
					}
					ops = append(ops, op)
					f = s.step(op)
				}
				if f != nil {
					st.Class("violation:" + f.clause)
					if lim.ok(f.clause + fmt.Sprint(conv)) {
						record(st, checkSeq("tar-opseq", In{Members: ms, Tars: ts, Conv: conv, Ops: append([]Op(nil), ops...)}))
					}
				} else {
					st.Classes[okClass[conv]]++
				}
				if st.Evals&0xfff == 0 && r.Expired() {
					ok = false
				}
				st.Evals++
				st.Traces++
			})
			if div != "" {
				r.HarnessError("tar-opseq: %s", div)
			}
			st.Nontrivial++
			return ok
		})
}
