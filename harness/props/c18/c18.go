// Package c18: the text parsers are total, deterministic and safe to call concurrently.
package c18

import (
	"bufio"
	"bytes"
	"encoding/json"
	"fmt"
	"io"
	"os"
	"os/exec"
	"runtime"
	"strings"
	"sync"
	"time"

	"pault.ag/go/debian/changelog"
	"pault.ag/go/debian/control"
	"pault.ag/go/debian/deb"
	"pault.ag/go/debian/dependency"
	"pault.ag/go/debian/version"

	"verifharness/gen"
	"verifharness/mc"
	"verifharness/props/reg"
)

func init() { reg.Register(&reg.Prop{ID: "C18", Run: Run, Replay: Replay}) }

// Result of one parser call, in a canonical comparable form.
type Result struct {
	Summary  string // canonical rendering of the value (empty when none)
	Err      bool
	ErrText  string
	HasValue bool // a usable value was returned (non-nil pointer / non-empty slice); value-typed results are exempt
	// Inconsistent is set by an entry point that makes the same call on a fresh receiver and on one that held another
	// value before, when the two outcomes differ: the outcome then depends on more than the input.
	Inconsistent string
}

func (r Result) key() string { return fmt.Sprintf("%v|%v|%s", r.Err, r.HasValue, r.Summary) }

// EntryPoint is one parser entry point under test.
type EntryPoint struct {
	Name string
	Call func(in string) Result
}

func errRes(err error) (bool, string) {
	if err == nil {
		return false, ""
	}
	return true, err.Error()
}

var amd64 = dependency.Arch{ABI: "gnu", OS: "linux", CPU: "amd64"}

func canonParas(ps []control.Paragraph) string {
	var ref []gen.RefPara
	for _, p := range ps {
		ref = append(ref, gen.RefPara{Order: p.Order, Values: p.Values})
	}
	return gen.CanonRef(ref)
}

// rd is the reader an entry point hands to the library. An input that starts with the delivery marker is delivered under
// that mode of gen.Delivery (chunk sizes, the final bytes together with io.EOF, answers without bytes): how the bytes
// arrive is not part of "the input", so the outcome must not depend on it.
const deliveryMark = "\x00DELIVERY"

func withDelivery(mode int, text string) string {
	return fmt.Sprintf("%s%+d\x00%s", deliveryMark, mode, text)
}

func rd(in string) io.Reader {
	if strings.HasPrefix(in, deliveryMark) {
		rest := in[len(deliveryMark):]
		if i := strings.IndexByte(rest, 0); i > 0 {
			var m int
			if _, err := fmt.Sscanf(rest[:i], "%d", &m); err == nil {
				return gen.Delivery(rest[i+1:], m)
			}
		}
	}
	return strings.NewReader(in)
}

// EntryPoints lists every parser the property names.
var EntryPoints = []EntryPoint{
	{"version.Parse", func(in string) Result {
		v, err := version.Parse(in)
		e, t := errRes(err)
		s := ""
		if err == nil {
			s = fmt.Sprintf("%+v|%s", v, v.String())
		}
		return Result{s, e, t, false, ""}
	}},
	{"dependency.ParseArch", func(in string) Result {
		a, err := dependency.ParseArch(in)
		e, t := errRes(err)
		s := ""
		if a != nil {
			s = fmt.Sprintf("%+v|%s", *a, a.String())
		}
		return Result{s, e, t, a != nil, ""}
	}},
	// the receiver forms of the same parsers (what control.Unmarshal calls for typed members): decoding into a fresh value
	// and into one that was decoded into before are the same call on the same input
	{"dependency.Arch.UnmarshalControl", func(in string) Result {
		var fresh, reused dependency.Arch
		reused.UnmarshalControl("musl-linux-armhf")
		err := fresh.UnmarshalControl(in)
		err2 := reused.UnmarshalControl(in)
		e, t := errRes(err)
		res := Result{"", e, t, false, ""}
		if err == nil {
			res.Summary = fmt.Sprintf("%+v|%s", fresh, fresh.String())
		}
		if (err == nil) != (err2 == nil) || (err == nil && fresh != reused) {
			res.Inconsistent = fmt.Sprintf("fresh: %+v %v; after musl-linux-armhf: %+v %v", fresh, err, reused, err2)
		}
		return res
	}},
	{"version.Version.UnmarshalControl", func(in string) Result {
		var fresh, reused version.Version
		reused.UnmarshalControl("7:7.7-7")
		err := fresh.UnmarshalControl(in)
		err2 := reused.UnmarshalControl(in)
		e, t := errRes(err)
		res := Result{"", e, t, false, ""}
		if err == nil {
			res.Summary = fmt.Sprintf("%+v|%s", fresh, fresh.String())
		}
		if (err == nil) != (err2 == nil) || (err == nil && fresh != reused) {
			res.Inconsistent = fmt.Sprintf("fresh: %+v %v; after 7:7.7-7: %+v %v", fresh, err, reused, err2)
		}
		return res
	}},
	{"dependency.Dependency.UnmarshalControl", func(in string) Result {
		var fresh, reused dependency.Dependency
		reused.UnmarshalControl("x:any (>= 7) [!armhf] <y> | z, ${w}")
		err := fresh.UnmarshalControl(in)
		err2 := reused.UnmarshalControl(in)
		e, t := errRes(err)
		res := Result{"", e, t, false, ""}
		if err == nil {
			res.Summary = gen.CanonDep(&fresh) + "|" + fresh.String()
		}
		if (err == nil) != (err2 == nil) || (err == nil && gen.CanonDep(&fresh) != gen.CanonDep(&reused)) {
			res.Inconsistent = fmt.Sprintf("fresh: %s %v; after another field: %s %v", gen.CanonDep(&fresh), err, gen.CanonDep(&reused), err2)
		}
		return res
	}},
	{"dependency.ParseArchitectures", func(in string) Result {
		l, err := dependency.ParseArchitectures(in)
		e, t := errRes(err)
		return Result{fmt.Sprintf("%+v", l), e, t, len(l) > 0, ""}
	}},
	{"dependency.Parse", func(in string) Result {
		d, err := dependency.Parse(in)
		e, t := errRes(err)
		s := ""
		if d != nil {
			// the accessors and the renderer must be total on whatever the parser returns
			s = gen.CanonDep(d) + "|" + d.String() + fmt.Sprintf("|%d %d %d", len(d.GetPossibilities(amd64)), len(d.GetAllPossibilities()), len(d.GetSubstvars()))
		}
		return Result{s, e, t, d != nil, ""}
	}},
	{"control.ParagraphReader", func(in string) Result {
		pr, err := control.NewParagraphReader(rd(in), nil)
		if err != nil {
			e, t := errRes(err)
			return Result{"", e, t, pr != nil, ""}
		}
		ps, err := pr.All()
		e, t := errRes(err)
		var out bytes.Buffer
		for i := range ps {
			ps[i].WriteTo(&out)
		}
		return Result{canonParas(ps) + "|" + out.String(), e, t, len(ps) > 0, ""}
	}},
	{"control.ParagraphReader.Next", func(in string) Result {
		pr, err := control.NewParagraphReader(rd(in), nil)
		if err != nil {
			e, t := errRes(err)
			return Result{"", e, t, false, ""}
		}
		var ps []control.Paragraph
		for i := 0; i < 1000000; i++ {
			p, err := pr.Next()
			if err == io.EOF {
				return Result{canonParas(ps), false, "", false, ""}
			}
			if err != nil {
				return Result{canonParas(ps), true, err.Error(), p != nil, ""}
			}
			ps = append(ps, *p)
		}
		return Result{"runaway", true, "more than 1000000 paragraphs", true, ""}
	}},
	{"control.ParseDsc", func(in string) Result {
		d, err := control.ParseDsc(bufio.NewReader(rd(in)), "/x/y.dsc")
		e, t := errRes(err)
		s := ""
		if d != nil {
			s = fmt.Sprintf("%+v", *d)
		}
		return Result{s, e, t, d != nil, ""}
	}},
	{"control.ParseChanges", func(in string) Result {
		c, err := control.ParseChanges(bufio.NewReader(rd(in)), "/x/y.changes")
		e, t := errRes(err)
		s := ""
		if c != nil {
			s = fmt.Sprintf("%+v", *c)
		}
		return Result{s, e, t, c != nil, ""}
	}},
	{"control.ParseControl", func(in string) Result {
		c, err := control.ParseControl(bufio.NewReader(rd(in)), "/x/control")
		e, t := errRes(err)
		s := ""
		if c != nil {
			s = fmt.Sprintf("%+v", *c)
		}
		return Result{s, e, t, c != nil, ""}
	}},
	{"control.ParseBinaryIndex", func(in string) Result {
		l, err := control.ParseBinaryIndex(bufio.NewReader(rd(in)))
		e, t := errRes(err)
		return Result{fmt.Sprintf("%+v", l), e, t, len(l) > 0, ""}
	}},
	{"control.ParseSourceIndex", func(in string) Result {
		l, err := control.ParseSourceIndex(bufio.NewReader(rd(in)))
		e, t := errRes(err)
		return Result{fmt.Sprintf("%+v", l), e, t, len(l) > 0, ""}
	}},
	{"deb.Control", func(in string) Result {
		var c deb.Control
		err := control.Unmarshal(&c, rd(in))
		e, t := errRes(err)
		return Result{fmt.Sprintf("%+v", c), e, t, false, ""}
	}},
	{"control.Unmarshal(user document)", func(in string) Result {
		// a caller's own typed document: members of every shape a struct may have next to the decoded ones - pointers to its
		// own type (skipped), a pointer to a custom type, a nested struct behind a pointer, lists of documents
		var n userDoc
		err := control.Unmarshal(&n, rd(in))
		e, t := errRes(err)
		var l []userDoc
		err2 := control.Unmarshal(&l, rd(in))
		e2, t2 := errRes(err2)
		// and one that embeds pointers to structs of its own (an exported and an unexported type, both unset)
		var w wrappedDoc
		err3 := control.Unmarshal(&w, rd(in))
		e3, t3 := errRes(err3)
		return Result{fmt.Sprintf("%+v|%v|%d %v %s|%s %v %s", n.flat(), n.Parent == nil && n.Next == nil, len(l), e2, t2, w.flat(), e3, t3), e, t, false, ""}
	}},
	{"changelog.Parse", func(in string) Result {
		l, err := changelog.Parse(rd(in))
		e, t := errRes(err)
		return Result{fmt.Sprintf("%+v", l), e, t, len(l) > 0, ""}
	}},
	{"changelog.ParseOne", func(in string) Result {
		c, err := changelog.ParseOne(bufio.NewReader(rd(in)))
		e, t := errRes(err)
		s := ""
		if c != nil {
			s = fmt.Sprintf("%+v", *c)
		}
		return Result{s, e, t, c != nil, ""}
	}},
}

type userDoc struct {
	control.Paragraph
	Package string
	Version *version.Version
	Depends dependency.Dependency
	Parent  *userDoc   `control:"-"`
	Next    *userDoc   `control:"-"`
	Kids    []*userDoc `control:"-"`
	Note    string     `control:"X-Note"`
	// private bookkeeping a caller's type may carry: the decoder has no business with unexported members
	mu      sync.Mutex
	fetched time.Time
	cache   map[string]*userDoc
	note    string
}

// UserExtra / userPrivate: structs a caller's document type embeds by pointer.
type UserExtra struct {
	Section  string
	Priority string
}

type userPrivate struct {
	Origin string
}

type wrappedDoc struct {
	*UserExtra
	*userPrivate
	Package string
	Version version.Version
}

func (w wrappedDoc) flat() string {
	x, p := "<nil>", "<nil>"
	if w.UserExtra != nil {
		x = fmt.Sprintf("%+v", *w.UserExtra)
	}
	if w.userPrivate != nil {
		p = fmt.Sprintf("%+v", *w.userPrivate)
	}
	return fmt.Sprintf("%s|%s|%s|%s", w.Package, w.Version, x, p)
}

func (n userDoc) flat() string {
	v := "<nil>"
	if n.Version != nil {
		v = n.Version.String()
	}
	return fmt.Sprintf("%s|%s|%s|%s|%v", n.Package, v, gen.CanonDep(&n.Depends), n.Note, n.Order)
}

func init() {
	// the receiver forms start from the same seed texts as the functions they mirror
	seeds["version.Version.UnmarshalControl"] = seeds["version.Parse"]
	seeds["dependency.Arch.UnmarshalControl"] = seeds["dependency.ParseArch"]
	seeds["dependency.Dependency.UnmarshalControl"] = seeds["dependency.Parse"]
}

func entry(name string) *EntryPoint {
	for i := range EntryPoints {
		if EntryPoints[i].Name == name {
			return &EntryPoints[i]
		}
	}
	return nil
}

// In is the replayable input of the totality scenario.
type In struct {
	Entry string
	Text  string
}

// callGuarded runs one call under panic recovery and the hang guard.
func callGuarded(ep *EntryPoint, text string) (res Result, panicked bool, msg string, hung bool) {
	done := make(chan struct{})
	go func() {
		defer close(done)
		panicked, msg = mc.Guard(func() { res = ep.Call(text) })
	}()
	select {
	case <-done:
		return
	case <-time.After(120 * time.Second):
		return Result{}, false, "", true
	}
}

// checkTotal: returns normally; never both a usable value and an error.
func checkTotal(scen string, in In, fast bool) (*mc.Violation, Result) {
	ep := entry(in.Entry)
	if ep == nil {
		return nil, Result{}
	}
	var res Result
	var p, hung bool
	var msg string
	if fast {
		p, msg = mc.Guard(func() { res = ep.Call(in.Text) })
	} else {
		res, p, msg, hung = callGuarded(ep, in.Text)
	}
	if hung {
		return mc.V(scen, "returns-without-hanging", in, "returns", "no return within 120 s", "entry:"+in.Entry), res
	}
	if p {
		return mc.V(scen, "returns-without-panic", in, "a value or an error", "panic: "+msg, "entry:"+in.Entry), res
	}
	if res.Inconsistent != "" {
		return mc.V(scen, "outcome-depends-only-on-input", in, "the same outcome on a fresh receiver and on one that held another value", clip(res.Inconsistent), "entry:"+in.Entry), res
	}
	if res.Err && res.HasValue {
		return mc.V(scen, "never-value-and-error", in, "nil / empty result together with an error", fmt.Sprintf("error %q AND value %s", res.ErrText, clip(res.Summary)), "entry:"+in.Entry), res
	}
	return nil, res
}

func clip(s string) string {
	if len(s) > 200 {
		return s[:200] + "…"
	}
	return s
}

// alphabets per entry point: (symbols, max symbols quick, max symbols thorough)
type alpha struct {
	entries []string
	symbols []string
	q, t    int
	twice   bool // call twice, the second time under reversed map orders
}

// BindMapOrderToggle binds a context to the calling goroutine whose map-scan order can be flipped between sorted and
// reversed without rebinding (instrumented build); on the plain build both functions do nothing.
var BindMapOrderToggle = func() (setReverse func(bool), unbind func()) { return func(bool) {}, func() {} }

// typedTokens: field names (with and without case variants), values of every typed kind, separators.
// The quick tier uses the first typedQuick tokens (the most discriminating ones), thorough all of them.
var typedTokens = []string{"Source: ", "source: ", "SOURCE: ", "Package: ", "Version: ", "Architecture: ", "Files:", "Build-Depends: ", "Depends: ", "Installed-Size: ",
	"d41d8cd98f00b204e9800998ecf8427e 10 f_1.dsc", "12", "1:1.0-1", "a (>= 1) | b [amd64]", "((", "\n", " ", "x y", longHex + " 10 f",
	// thorough only:
	"VERSION: ", "Binary: ", "Checksums-Sha256:", "Essential: ", "d41d 10 devel optional f", "-3", "any all", "yes"}

const typedQuick = 19

// a digest token longer than any real digest (SHA-512 has 128 hex digits)
var longHex = strings.Repeat("ab", 130)

func alphabets(quick bool) []alpha {
	typed := typedTokens
	if quick {
		typed = typedTokens[:typedQuick]
	}
	return []alpha{
		{[]string{"version.Parse", "version.Version.UnmarshalControl"}, []string{"0", "1", "a", ".", "+", "~", "-", ":", " ", "\t", "é", "٣", "\f", "\xa0"}, 5, 7, false},
		{[]string{"dependency.ParseArch", "dependency.Arch.UnmarshalControl", "dependency.ParseArchitectures"}, []string{"a", "-", " ", "any", "all", "\n", "é", "!", "\f", "\xa0"}, 6, 8, false},
		{[]string{"dependency.Parse", "dependency.Dependency.UnmarshalControl"}, []string{"a", "b1", " ", ",", "|", "(", ")", "[", "]", "<", ">", "!", ":", "=", "$", "{", "}", "\n", "-", "é", ">=", "\t", "\f", "\xa0"}, 4, 5, false},
		{[]string{"control.ParagraphReader", "control.ParagraphReader.Next"}, []string{"A", ":", " ", "\n", "#", ".", "\r", "\t", "é", "\f", "\xa0"}, 6, 8, false},
		{[]string{"control.ParseDsc", "control.ParseChanges", "control.ParseControl", "control.ParseBinaryIndex", "control.ParseSourceIndex", "deb.Control", "control.Unmarshal(user document)"}, typed, 4, 4, true},
		{[]string{"changelog.Parse", "changelog.ParseOne"}, []string{"hello", " (", "1.0-1", ")", " unstable", ";", " urgency=low", "\n", "  * x", " -- ", "A <a@b>", "  ", "Mon, 02 Jan 2006 15:04:05 +0100", " ", "=", ",",
			"hello (1.0-1) unstable; urgency=low\n", " -- A <a@b>  Mon, 02 Jan 2006 15:04:05 +0100\n", "  * change\n"}, 4, 5, false},
	}
}

// valid seeds per entry point (for the byte-edit scenario and the determinism / schedule scenarios)
var seeds = map[string][]string{
	"version.Parse":                 {"1.0-1", "2:3.0~rc1+b2-1.1", " 1.0 ", "0:0-", "1:", "a", ""},
	"dependency.ParseArch":          {"amd64", "linux-any", "gnu-kfreebsd-amd64", "any", "all", "a-b-c-d", ""},
	"dependency.ParseArchitectures": {"any all", "amd64 i386  armhf", "linux-any\nkfreebsd-amd64", ""},
	"dependency.Parse": {"foo, bar | baz", "a:any (>= 1.0) [amd64 !i386] <!x y> <z>, ${misc:Depends}", "foo (>= 1", "foo [amd64", "a b", "foo,\n bar\n", "",
		// one seed per error path of the parser
		"foo (>= 1.0 beta)", "foo (>= 1.0 ", "foo [!a b]", "foo [a !b]", "foo <!!x>", "foo <x!y>", "foo (?? 1)", "foo (>", "${x", "a (>= 1) (<< 2)", "a [x] [y]", "a <x", "b (<< 2.0~rc1) | c (= 1:1-1)"},
	"control.ParagraphReader":          {"-----BEGIN PGP SIGNED MESSAGE-----\nHash: SHA256\n\nSource: x\nVersion: 1\n", "-----BEGIN PGP SIGNED MESSAGE-----\nHash: SHA256\n\nSource: x\n-----BEGIN PGP SIGNATURE-----\n\niQ==\n-----END PGP SIGNATURE-----\n", "-----BEGIN PGP MESSAGE-----\n\nxxxx\n-----END PGP MESSAGE-----\n", "A: 1\nB: 2\n c\n .\n\nC: 3\n", "# c\nA:\n x\n", "no colon\n", " orphan\n", "A: 1\r\n\r\nB: 2", ""},
	"control.ParagraphReader.Next":     {"-----BEGIN PGP SIGNED MESSAGE-----\nHash: SHA256\n\nSource: x\nVersion: 1\n", "-----BEGIN PGP SIGNED MESSAGE-----\nHash: SHA256\n\nSource: x\n-----BEGIN PGP SIGNATURE-----\n\niQ==\n-----END PGP SIGNATURE-----\n", "-----BEGIN PGP MESSAGE-----\n\nxxxx\n-----END PGP MESSAGE-----\n", "A: 1\nB: 2\n c\n .\n\nC: 3\n", "# c\nA:\n x\n", "no colon\n", " orphan\n", ""},
	"control.ParseDsc":                 {"-----BEGIN PGP SIGNED MESSAGE-----\nHash: SHA256\n\nSource: x\nVersion: 1\n", "-----BEGIN PGP SIGNED MESSAGE-----\nHash: SHA256\n\nSource: x\n-----BEGIN PGP SIGNATURE-----\n\niQ==\n-----END PGP SIGNATURE-----\n", "-----BEGIN PGP MESSAGE-----\n\nxxxx\n-----END PGP MESSAGE-----\n", "Format: 3.0 (quilt)\nSource: hello\nBinary: hello, hello-doc\nArchitecture: any all\nVersion: 2.10-1\nBuild-Depends: debhelper (>= 9)\nFiles:\n d41d8cd98f00b204e9800998ecf8427e 10 hello_2.10-1.dsc\n", "Version: a\n", "Files:\n x\n", ""},
	"control.ParseChanges":             {"-----BEGIN PGP SIGNED MESSAGE-----\nHash: SHA256\n\nSource: x\nVersion: 1\n", "-----BEGIN PGP SIGNED MESSAGE-----\nHash: SHA256\n\nSource: x\n-----BEGIN PGP SIGNATURE-----\n\niQ==\n-----END PGP SIGNATURE-----\n", "-----BEGIN PGP MESSAGE-----\n\nxxxx\n-----END PGP MESSAGE-----\n", "Format: 1.8\nSource: hello\nBinary: hello\nArchitecture: source\nVersion: 2.10-1\nFiles:\n d41d8cd98f00b204e9800998ecf8427e 10 devel optional hello_2.10-1.dsc\n", "Version: a\n", "Files:\n d41d 10 f\n", ""},
	"control.ParseControl":             {"-----BEGIN PGP SIGNED MESSAGE-----\nHash: SHA256\n\nSource: x\nVersion: 1\n", "-----BEGIN PGP SIGNED MESSAGE-----\nHash: SHA256\n\nSource: x\n-----BEGIN PGP SIGNATURE-----\n\niQ==\n-----END PGP SIGNATURE-----\n", "-----BEGIN PGP MESSAGE-----\n\nxxxx\n-----END PGP MESSAGE-----\n", "Source: hello\nBuild-Depends: debhelper (>= 9)\n\nPackage: hello\nArchitecture: any\nDepends: ${misc:Depends}, a | b\nDescription: x\n long\n", "Source: x\nBuild-Depends: ((\n", "Source: x\n\nPackage: y\nDepends: a b\n", ""},
	"control.ParseBinaryIndex":         {"-----BEGIN PGP SIGNED MESSAGE-----\nHash: SHA256\n\nSource: x\nVersion: 1\n", "-----BEGIN PGP SIGNED MESSAGE-----\nHash: SHA256\n\nSource: x\n-----BEGIN PGP SIGNATURE-----\n\niQ==\n-----END PGP SIGNATURE-----\n", "-----BEGIN PGP MESSAGE-----\n\nxxxx\n-----END PGP MESSAGE-----\n", "Package: hello\nVersion: 2.10-1\nInstalled-Size: 280\nArchitecture: amd64\nSize: 10\n\nPackage: b\nVersion: 1\n", "Package: a\nVersion: 1\n\nPackage: b\nVersion: !\n", "Package: a\nInstalled-Size: x\n", ""},
	"control.ParseSourceIndex":         {"-----BEGIN PGP SIGNED MESSAGE-----\nHash: SHA256\n\nSource: x\nVersion: 1\n", "-----BEGIN PGP SIGNED MESSAGE-----\nHash: SHA256\n\nSource: x\n-----BEGIN PGP SIGNATURE-----\n\niQ==\n-----END PGP SIGNATURE-----\n", "-----BEGIN PGP MESSAGE-----\n\nxxxx\n-----END PGP MESSAGE-----\n", "Package: hello\nBinary: hello, hello-doc\nVersion: 2.10-1\nArchitecture: any all\nFiles:\n d41d8cd98f00b204e9800998ecf8427e 10 hello_2.10-1.dsc\n\nPackage: b\nVersion: 1\n", "Package: a\nVersion: 1\n\nPackage: b\nFiles:\n x\n", ""},
	"deb.Control":                      {"-----BEGIN PGP SIGNED MESSAGE-----\nHash: SHA256\n\nSource: x\nVersion: 1\n", "-----BEGIN PGP SIGNED MESSAGE-----\nHash: SHA256\n\nSource: x\n-----BEGIN PGP SIGNATURE-----\n\niQ==\n-----END PGP SIGNATURE-----\n", "-----BEGIN PGP MESSAGE-----\n\nxxxx\n-----END PGP MESSAGE-----\n", "Package: hello\nVersion: 2.10-1\nArchitecture: amd64\nDepends: a | b\nInstalled-Size: 10\n", "Package: hello\n", "Package: hello\nVersion: 1\nArchitecture: amd64\nInstalled-Size: x\n", ""},
	"control.Unmarshal(user document)": {"Package: hello\nVersion: 2.10-1\nDepends: a | b\nX-Note: n\n", "Package: hello\n\nPackage: other\nVersion: 1\n", "Version: x\n", ""},
	"changelog.Parse":                  {"hello (1.0-1) unstable; urgency=low\n\n  * x\n\n -- A <a@b>  Mon, 02 Jan 2006 15:04:05 +0100\n\nhello (0.9-1) unstable; urgency=low\n\n  * y\n\n -- A <a@b>  Sun, 01 Jan 2006 15:04:05 +0100\n", "hello (1.0-1) unstable; urgency=low\n\n  * x\n", "hello (a) unstable;\n", ""},
	"changelog.ParseOne": {"hello (1.0-1) unstable; urgency=low\n\n  * x\n\n -- A <a@b>  Mon, 02 Jan 2006 15:04:05 +0100\n", " x\n", "",
		"hello (1.0-1) unstable; Urgency=medium, URGENCY=low, urgency=high, Binary-Only=yes, binary-only=no\n\n  * x\n\n -- A <a@b>  Mon, 02 Jan 2006 15:04:05 +0100\n",
		"hello (1.0-1) unstable experimental UNSTABLE; k=v=w, K=V, k=\n\n  * x\n\n -- A <a@b>  Mon, 02 Jan 2006 15:04:05 +0100\n"},
}

func Run(r *mc.Run) {
	r.Rule = "totality: for every parser entry point all symbol/token sequences up to a length bound over an alphabet holding every byte the parser branches on plus one representative of each other class (letter, digit, NUL-free UTF-8 letter, non-ASCII decimal digit, blanks), and every single and double byte edit of valid seeds; determinism: all ordered pairs of a seed set per entry point and across entry points; schedules: all interleavings with <= 2 preemptions of 2-3 threads over the scheduling points created by accesses to package-level variables (instrumented build), plus a free-running pass under the race detector. Non-trivial = the parser accepted the input (totality) / the two calls differ (determinism); distinct by construction"
	r.Assume = []string{"value-typed results (version.Version, deb.Control) are exempt from 'never both a value and an error' because Go cannot return 'no value' for them",
		"inputs longer than the bound (the statement's 64 KiB, addressed there by fuzzing) are not explored", "the Go memory model below sequential consistency is not modelled by the cooperative scheduler; unsynchronised sharing invisible to the instrumenter is left to the race-detector pass"}
	if os.Getenv("VERIF_C18_CHILD") == "" && os.Getenv("VERIF_C18_RACE_WORKER") == "" {
		// The exploration runs in a supervised child process: unsynchronised shared state inside a parser can bring
		// the Go runtime down ("fatal error: concurrent map writes") when 16 workers call it concurrently, which no
		// recover() can catch. Such a crash IS a violation of "safe to call concurrently" and is reported as one.
		if supervise(r) {
			return
		}
	}
	if os.Getenv("VERIF_C18_RACE_WORKER") != "" {
		raceWorker()
		r.Scenario("race-worker", nil, 1, func(_ int, st *mc.Stats) bool { st.Evals++; st.Nontrivial += 2; st.Sample("race worker"); return true })
		return
	}
	runTotality(r)
	runLong(r)
	runEdits(r)
	runDeterminism(r)
	runDeliveries(r)
	runMapOrders(r)
	runSchedules(r)
	runRace(r)
}

// ---- hang watchdog for the enumeration scenarios (calls are made directly, without a goroutine per call) ----

type slot struct {
	mu    sync.Mutex
	entry string
	text  string
	since time.Time
	busy  bool
}

var slots [64]slot

func enter(i int, entry, text string) *slot {
	s := &slots[i%len(slots)]
	s.mu.Lock()
	s.entry, s.text, s.since, s.busy = entry, text, time.Now(), true
	s.mu.Unlock()
	return s
}

func (s *slot) leave() {
	s.mu.Lock()
	s.busy = false
	s.mu.Unlock()
}

// watchdog reports a call that has not returned for 120 s (normal calls take microseconds, the slowest long input
// about 0.2 s) and ends the run.
func watchdog(r *mc.Run) {
	var ms runtime.MemStats
	for {
		time.Sleep(2 * time.Second)
		// a call that does not return may also allocate without end (a loop that appends): the run is ended long before
		// the machine is out of memory, and the call that has been busy longest is reported. 8 GiB is far above what the
		// enumeration needs (a few hundred MiB) and far below what the machine has.
		runtime.ReadMemStats(&ms)
		if ms.HeapAlloc > 8<<30 {
			var oldest *slot
			for i := range slots {
				s := &slots[i]
				s.mu.Lock()
				if s.busy && (oldest == nil || s.since.Before(oldest.since)) {
					oldest = s
				}
				s.mu.Unlock()
			}
			in := In{"(unknown)", ""}
			if oldest != nil {
				oldest.mu.Lock()
				in = In{oldest.entry, oldest.text}
				oldest.mu.Unlock()
			}
			r.Abort("totality-hang-watchdog", mc.V("totality-hang-watchdog", "returns-without-hanging", in, "the call returns", fmt.Sprintf("the process holds %d MiB of live heap while this call (the one busy longest) has not returned", ms.HeapAlloc>>20), "entry:"+in.Entry),
				"a parser call allocates without returning; the enumeration was abandoned")
		}
		for i := range slots {
			s := &slots[i]
			s.mu.Lock()
			stuck := s.busy && time.Since(s.since) > 120*time.Second
			in := In{s.entry, s.text}
			s.mu.Unlock()
			if stuck {
				r.Abort("totality-hang-watchdog", mc.V("totality-hang-watchdog", "returns-without-hanging", in, "the call returns", "no return within 120 s", "entry:"+in.Entry),
					"a parser call did not return; the enumeration was abandoned")
			}
		}
	}
}

func runTotality(r *mc.Run) {
	go watchdog(r)
	auditSyms := gen.Dedup(append(gen.AuditChars(nil, 3), gen.AuditStrings(gen.OneLine, 3)...)) // alphabet audit
	auditSyms = append(auditSyms, gen.AuditIntStrings(0, 1<<62, 3)...)
	for _, a := range alphabets(r.Quick()) {
		a := a
		a.symbols = gen.Dedup(append(append([]string{}, a.symbols...), auditSyms...))
		L := r.Pick(a.q, a.t)
		n := len(a.symbols)
		name := "totality-" + strings.Join(a.entries, "+")
		r.Scenario(name, map[string]interface{}{"symbols": a.symbols, "max_symbols": L, "entry_points": a.entries}, n*n+1, func(sh int, st *mc.Stats) bool {
			setReverse, unbind := func(bool) {}, func() {}
			if a.twice {
				setReverse, unbind = BindMapOrderToggle()
			}
			defer unbind()
			visit := func(s string) bool {
				for _, e := range a.entries {
					st.Evals++
					sl := enter(sh, e, s)
					v, res := checkTotal(name, In{e, s}, true)
					if v == nil && a.twice {
						// the same call again, with every map scan inside the library in the reverse order (instrumented
						// build; on the plain build simply a second call): the outcome must depend on the input only
						var res2 Result
						setReverse(true)
						p, msg := mc.Guard(func() { res2 = entry(e).Call(s) })
						setReverse(false)
						if p {
							v = mc.V(name, "returns-without-panic", In{e, s}, "a value or an error", "panic on the second call: "+msg, "entry:"+e)
						} else if res2.key() != res.key() {
							v = mc.V(name, "outcome-depends-only-on-input", In{e, s}, clip(res.key()), "second call: "+clip(res2.key()), "entry:"+e)
						}
					}
					sl.leave()
					if v != nil {
						st.Violate(v)
						st.Class(e + ":" + v.Clause)
					} else if res.Err {
						st.Class(e + ":error")
					} else {
						st.Class(e + ":value")
						st.Nontrivial++
					}
				}
				if st.WantSample() && len(s) > 6 && strings.Count(s, "\n") == 1 {
					st.Sample(In{a.entries[0], s})
				}
				return true
			}
			if sh == n*n {
				visit("")
				for _, s := range a.symbols {
					visit(s)
				}
				return true
			}
			pre := a.symbols[sh/n] + a.symbols[sh%n]
			for k := 0; k <= L-2; k++ {
				if r.Expired() {
					return false
				}
				gen.Odometer(a.symbols, k, func(s string) bool { return visit(pre + s) })
			}
			return true
		})
	}
}

var editBytes = []byte{0, ' ', '\n', ':', '-', '(', '[', '<', '$', ',', '0', 'a', 0xff, '\f', 0x85, 0xa0} // the last three: white space to unicode.IsSpace(rune(b)), not to the parsers

func editAlphabet() []byte {
	out := append([]byte{}, editBytes...)
	for _, c := range gen.AuditChars(nil, 4) {
		if len(c) == 1 {
			out = append(out, c[0])
		}
	}
	return out
}

// long inputs: each entry point on inputs of up to ~70 KB built by repeating one component of a valid seed (the statement
// speaks of inputs up to 64 KiB); the calls must return (watchdog) without panicking
func longInputs() []In {
	rep := strings.Repeat
	var out []In
	add := func(entry string, texts ...string) {
		for _, t := range texts {
			out = append(out, In{entry, t})
		}
	}
	add("version.Parse", "1."+rep("0", 70000), rep("9", 70000)+":1", "1-"+rep("a", 70000), rep("1:", 30000), rep(" ", 70000)+"1", "1"+rep("-", 70000))
	add("dependency.ParseArch", rep("a", 70000), rep("a-", 30000), "a-b-"+rep("c", 70000))
	add("dependency.ParseArchitectures", rep("amd64 ", 10000), rep(" ", 70000), rep("a-b-c\n", 10000))
	// (the parser accumulates names byte by byte, which is quadratic: single tokens are kept to 20 KB so that one call
	// stays far below the watchdog even on a loaded machine)
	add("dependency.Parse", rep("a", 20000), rep("a, ", 20000), rep("a | ", 15000)+"b", "a ("+rep(">", 20000), "a (>= "+rep("1", 20000)+")", "a ["+rep("x ", 30000)+"]", "a "+rep("<x> ", 15000), rep("(", 20000), rep("[", 20000), rep("${", 10000), "a "+rep("[x] ", 10)+rep(",", 60000), rep("\n", 70000)+"a")
	para := "A: 1\n" + rep(" c\n", 15000)
	add("control.ParagraphReader", para, rep("A: 1\n\n", 10000), rep("K"+": v\n", 1)+rep("# c\n", 15000), rep("\n", 70000), "A:"+rep(" ", 70000), rep("A", 70000)+": v\n", rep("A: 1\n", 10000))
	add("control.ParagraphReader.Next", para, rep("A: 1\n\n", 10000))
	add("control.ParseDsc", "Source: x\nFiles:\n"+rep(" d41d8cd98f00b204e9800998ecf8427e 10 f.dsc\n", 1500), "Source: x\nBinary: "+rep("a, ", 20000)+"b\n", "Source: x\nBuild-Depends: "+rep("a (>= 1), ", 7000)+"b\n", "Version: "+rep("1", 70000)+"\n")
	add("control.ParseChanges", "Source: x\nFiles:\n"+rep(" d41d8cd98f00b204e9800998ecf8427e 10 devel optional f.dsc\n", 1200), "Binary: "+rep("a ", 30000)+"\n", "Changes:\n"+rep(" line\n", 10000))
	add("control.ParseControl", "Source: x\n\n"+rep("Package: p\nArchitecture: any\nDepends: a | b\n\n", 1200), "Source: x\nUploaders: "+rep("A B <a@b>, ", 6000)+"\n")
	add("control.ParseBinaryIndex", rep("Package: p\nVersion: 1.0-1\nArchitecture: amd64\nInstalled-Size: 1\nSize: 2\n\n", 900), "Package: p\nTag: "+rep("a::b, ", 10000)+"c\n")
	add("control.ParseSourceIndex", rep("Package: p\nBinary: a, b\nVersion: 1.0-1\nArchitecture: any all\n\n", 1000))
	add("deb.Control", "Package: p\nVersion: 1\nArchitecture: amd64\nDescription: s\n"+rep(" long line\n", 6000))
	// lines whose length in bytes and in characters differ (2-, 3- and 4-byte UTF-8), around lengths at which messages
	// are commonly cut (60..100 characters), in every position where a parser quotes or measures its input
	for _, ch := range []string{"\u00e9", "\u65e5", "\U0001f600"} {
		for _, n := range []int{24, 25, 36, 37, 40, 72, 73, 80, 100} {
			w := rep(ch, n)
			add("control.ParagraphReader", w+"\n", " "+w+"\n", "A: 1\n"+w+"\n", "A: "+w+"\n "+w+"\n", w+": v\n", "#"+w+"\nA: v\n")
			add("control.ParagraphReader.Next", w+"\n", "A: 1\n\n "+w+"\n")
			add("control.ParseDsc", "Source: "+w+"\nVersion: "+w+"\n", "Source: x\nFiles:\n "+w+"\n", "Source: x\nBuild-Depends: "+w+" ("+w+")\n", "Source: x\nArchitecture: "+w+"\n")
			add("control.ParseChanges", "Source: x\nFiles:\n "+w+" 1 a b c\n", "Source: x\nChecksums-Sha256:\n "+w+"\n")
			add("control.ParseBinaryIndex", "Package: p\nInstalled-Size: "+w+"\n", "Package: p\nSize: "+w+"\n")
			add("version.Parse", w, "1:"+w, w+":1", "1-"+w)
			add("dependency.ParseArch", w, w+"-any", "any-"+w)
			add("dependency.Parse", w, "a ("+w+")", "a (>= "+w+")", "a ["+w+"]", "a <"+w+">", "a:"+w, "${"+w, w+" "+w)
			add("changelog.Parse", w+"\n", "hello ("+w+") unstable; urgency=low\n\n  * x\n\n -- A <a@b>  Mon, 02 Jan 2006 15:04:05 +0100\n", "hello (1.0-1) unstable; urgency=low\n\n  * x\n\n -- "+w+" <a@b>  Mon, 02 Jan 2006 15:04:05 +0100\n",
				"hello (1.0-1) unstable; urgency=low\n\n  * x\n\n -- A <a@b>  "+w+"\n", "hello (1.0-1) "+w+"; "+w+"\n\n  * x\n\n -- A <a@b>  Mon, 02 Jan 2006 15:04:05 +0100\n")
		}
	}
	// degenerate values of every list-typed and custom-typed field of the typed documents: empty, blank, only the
	// empty-line marker, only separators - alone in the document and next to well-formed fields
	degenerate := []string{"", " ", "\t", "\n .", "\n  \n .", "\n .\n .", ",", " , ", ", ,", "\n ,", "\n , ,\n .", " \n x", "|", "()", "[]", "<>", "${}"}
	typedFields := map[string][]string{
		"control.ParseDsc":         {"Binary", "Architecture", "Uploaders", "Files", "Checksums-Sha1", "Checksums-Sha256", "Build-Depends", "Build-Depends-Arch", "Build-Depends-Indep", "Version", "Format", "Source"},
		"control.ParseChanges":     {"Binary", "Architecture", "Closes", "Files", "Checksums-Sha1", "Checksums-Sha256", "Version", "Changes", "Distribution"},
		"control.ParseControl":     {"Uploaders", "Build-Depends", "Build-Depends-Indep", "Build-Conflicts", "Architecture", "Depends", "Source", "Package"},
		"control.ParseBinaryIndex": {"Tag", "Architecture", "Version", "Installed-Size", "Size", "Depends", "Package", "MD5sum", "SHA256"},
		"control.ParseSourceIndex": {"Binary", "Architecture", "Version", "Files", "Checksums-Sha256", "Package-List", "Build-Depends", "Package"},
		"deb.Control":              {"Architecture", "Version", "Depends", "Pre-Depends", "Installed-Size", "Package", "Multi-Arch"},
	}
	for _, ep := range []string{"control.ParseDsc", "control.ParseChanges", "control.ParseControl", "control.ParseBinaryIndex", "control.ParseSourceIndex", "deb.Control"} {
		for _, f := range typedFields[ep] {
			for _, v := range degenerate {
				add(ep, f+":"+v+"\n", "Source: x\nPackage: p\nVersion: 1\nArchitecture: any\n"+f+":"+v+"\nX-After: y\n", f+":"+v)
			}
		}
	}
	entry := "hello (1.0-1) unstable; urgency=low\n\n  * x\n\n -- A <a@b>  Mon, 02 Jan 2006 15:04:05 +0100\n\n"
	add("changelog.Parse", rep(entry, 600), "hello (1.0-1) unstable; urgency=low\n\n"+rep("  * x\n", 10000)+"\n -- A <a@b>  Mon, 02 Jan 2006 15:04:05 +0100\n", "hello (1.0-1) unstable; "+rep("k=v, ", 12000)+"z=1\n\n  * x\n\n -- A <a@b>  Mon, 02 Jan 2006 15:04:05 +0100\n", rep("\n", 70000))
	add("changelog.ParseOne", entry, "hello (1.0-1) "+rep("unstable ", 7000)+"; urgency=low\n\n  * x\n\n -- A <a@b>  Mon, 02 Jan 2006 15:04:05 +0100\n")
	return out
}

func runLong(r *mc.Run) {
	ins := longInputs()
	r.Scenario("totality-long-inputs", map[string]interface{}{"inputs": len(ins), "sizes": "up to ~70 KB, one repeated component each; plus lines of 24..100 multi-byte characters (2-, 3-, 4-byte UTF-8) in every position a parser measures or quotes"}, len(ins), func(i int, st *mc.Stats) bool {
		st.Evals++
		sl := enter(i, ins[i].Entry, ins[i].Text)
		v, res := checkTotal("totality-long-inputs", ins[i], true)
		sl.leave()
		if v != nil {
			// keep the artefact small: the text is reproducible from the generator; store its head and length
			st.Violate(v)
			st.Class(ins[i].Entry + ":" + v.Clause)
		} else if res.Err {
			st.Class(ins[i].Entry + ":error")
		} else {
			st.Class(ins[i].Entry + ":value")
			st.Nontrivial++
		}
		if st.WantSample() && i%9 == 0 {
			st.Sample(map[string]interface{}{"entry": ins[i].Entry, "bytes": len(ins[i].Text), "head": clip(ins[i].Text[:min(60, len(ins[i].Text))])})
		}
		return true
	})
}

func min(a, b int) int {
	if a < b {
		return a
	}
	return b
}

func runEdits(r *mc.Run) {
	type job struct{ entry, seed string }
	var jobs []job
	for _, ep := range EntryPoints {
		for _, s := range seeds[ep.Name] {
			if s != "" {
				jobs = append(jobs, job{ep.Name, s})
			}
		}
	}
	double := !r.Quick()
	r.Scenario("totality-byte-edits-of-seeds", map[string]interface{}{"seeds": len(jobs), "edit_bytes": editBytes, "edits": map[bool]string{false: "single", true: "single and double"}[double]}, len(jobs), func(i int, st *mc.Stats) bool {
		j := jobs[i]
		try := func(s string) {
			st.Evals++
			sl := enter(i, j.entry, s)
			v, res := checkTotal("totality-byte-edits-of-seeds", In{j.entry, s}, true)
			sl.leave()
			if v != nil {
				st.Violate(v)
				st.Class(j.entry + ":" + v.Clause)
			} else if res.Err {
				st.Class(j.entry + ":error")
			} else {
				st.Class(j.entry + ":value")
				st.Nontrivial++
			}
		}
		single := func(s string, f func(string)) {
			for p := 0; p <= len(s); p++ {
				if p < len(s) {
					f(s[:p] + s[p+1:]) // deletion
					f(s[:p])           // truncation
				}
				for _, b := range editAlphabet() {
					f(s[:p] + string([]byte{b}) + s[p:]) // insertion
					if p < len(s) {
						f(s[:p] + string([]byte{b}) + s[p+1:]) // substitution
					}
				}
			}
		}
		single(j.seed, func(s1 string) {
			try(s1)
			if double && len(j.seed) <= 60 {
				if r.Expired() {
					return
				}
				single(s1, try)
			}
		})
		return !r.Expired()
	})
}

// DetIn is the replayable input of the determinism scenario.
type DetIn struct {
	FirstEntry, FirstText string
	Entry, Text           string
}

func checkDet(scen string, in DetIn) *mc.Violation {
	ep, ep0 := entry(in.Entry), entry(in.FirstEntry)
	if ep == nil || ep0 == nil {
		return nil
	}
	var alone, after, twice Result
	if p, msg := mc.Guard(func() {
		alone = ep.Call(in.Text)
		ep0.Call(in.FirstText)
		after = ep.Call(in.Text)
		twice = ep.Call(in.Text)
	}); p {
		return mc.V(scen, "returns-without-panic", in, "no panic", msg, "entry:"+in.Entry)
	}
	if alone.key() != after.key() || alone.ErrText != after.ErrText {
		return mc.V(scen, "outcome-depends-only-on-input", in, clip(alone.key()), "after "+in.FirstEntry+": "+clip(after.key()), "entry:"+in.Entry)
	}
	if alone.key() != twice.key() || alone.ErrText != twice.ErrText {
		return mc.V(scen, "repeated-calls-identical", in, clip(alone.key()), clip(twice.key()), "entry:"+in.Entry)
	}
	return nil
}

// ---- the outcome does not depend on how the bytes are delivered ----

type DelIn struct {
	Entry, Text string
	Mode        int
}

var readerEntries = []string{"control.ParagraphReader", "control.ParagraphReader.Next", "control.ParseDsc", "control.ParseChanges", "control.ParseControl",
	"control.ParseBinaryIndex", "control.ParseSourceIndex", "deb.Control", "changelog.Parse", "changelog.ParseOne"}

func checkDelivery(scen string, in DelIn) *mc.Violation {
	ep := entry(in.Entry)
	if ep == nil {
		return nil
	}
	var whole, chunked Result
	if p, msg := mc.Guard(func() {
		whole = ep.Call(in.Text)
		chunked = ep.Call(withDelivery(in.Mode, in.Text))
	}); p {
		return mc.V(scen, "returns-without-panic", in, "no panic", msg, "entry:"+in.Entry)
	}
	if whole.key() != chunked.key() {
		return mc.V(scen, "outcome-depends-only-on-input", in, clip(whole.key()), fmt.Sprintf("the same bytes under delivery mode %d: %s", in.Mode, clip(chunked.key())), "entry:"+in.Entry)
	}
	return nil
}

func runDeliveries(r *mc.Run) {
	var ins []In
	for _, e := range readerEntries {
		for _, s := range seeds[e] {
			ins = append(ins, In{e, s})
		}
	}
	modes := []int{1, 2, -1, -2, -3}
	r.Scenario("determinism-across-deliveries", map[string]interface{}{"inputs": len(ins), "delivery_modes": "one byte per Read / 7-byte chunks / final bytes together with io.EOF (whole, chunked) / (0, nil) answers / a split at every offset up to 40 and at the last",
		"entry_points": readerEntries}, len(ins), func(i int, st *mc.Stats) bool {
		ms := append([]int{}, modes...)
		for off := 1; off < len(ins[i].Text) && off <= 40; off++ {
			ms = append(ms, 3+off)
		}
		if n := len(ins[i].Text); n > 41 {
			ms = append(ms, 3+n-1)
		}
		for _, m := range ms {
			st.Evals++
			st.Traces++
			st.Nontrivial++
			sl := enter(i, ins[i].Entry, ins[i].Text)
			v := checkDelivery("determinism-across-deliveries", DelIn{ins[i].Entry, ins[i].Text, m})
			sl.leave()
			if v != nil {
				st.Violate(v)
				st.Class("differs")
			} else {
				st.Class("identical")
			}
		}
		return true
	})
}

// ---- the outcome does not depend on the order in which the library scans its maps ----

func runMapOrders(r *mc.Run) {
	ins := detInputs()
	r.Scenario("determinism-under-reversed-map-scans", map[string]interface{}{"inputs": len(ins), "note": "instrumented build: every map scan inside the library in sorted and in reverse order; plain build: two plain calls"}, len(ins), func(i int, st *mc.Stats) bool {
		setReverse, unbind := BindMapOrderToggle()
		defer unbind()
		ep := entry(ins[i].Entry)
		if ep == nil {
			return true
		}
		st.Evals++
		st.Traces++
		st.Nontrivial++
		var a, b Result
		sl := enter(i, ins[i].Entry, ins[i].Text)
		p, msg := mc.Guard(func() {
			a = ep.Call(ins[i].Text)
			setReverse(true)
			b = ep.Call(ins[i].Text)
			setReverse(false)
		})
		sl.leave()
		switch {
		case p:
			st.Violate(mc.V("determinism-under-reversed-map-scans", "returns-without-panic", ins[i], "no panic", msg, "entry:"+ins[i].Entry))
		case a.key() != b.key() || a.ErrText != b.ErrText:
			st.Violate(mc.V("determinism-under-reversed-map-scans", "outcome-depends-only-on-input", ins[i], clip(a.key()), "with the library's map scans in reverse order: "+clip(b.key()), "entry:"+ins[i].Entry))
			st.Class("differs")
		default:
			st.Class("identical")
		}
		return true
	})
}

func detInputs() []In {
	var out []In
	for _, ep := range EntryPoints {
		for _, s := range seeds[ep.Name] {
			out = append(out, In{ep.Name, s})
		}
	}
	return out
}

func runDeterminism(r *mc.Run) {
	ins := detInputs()
	r.Scenario("determinism-all-ordered-pairs", map[string]interface{}{"inputs": len(ins), "pairs": len(ins) * len(ins)}, len(ins), func(i int, st *mc.Stats) bool {
		for _, x := range ins {
			in := DetIn{ins[i].Entry, ins[i].Text, x.Entry, x.Text}
			sl := enter(i, in.FirstEntry+" then "+in.Entry, in.FirstText+"\x00THEN\x00"+in.Text)
			st.Evals++
			st.Traces++
			if in.FirstEntry != in.Entry || in.FirstText != in.Text {
				st.Nontrivial++
			}
			if v := checkDet("determinism-all-ordered-pairs", in); v != nil {
				st.Violate(v)
				st.Class("differs")
			} else {
				st.Class("identical")
			}
			sl.leave()
		}
		return true
	})
}

func Replay(scenario string, raw json.RawMessage) []*mc.Violation {
	switch {
	case scenario == "determinism-across-deliveries":
		var in DelIn
		if mc.UnmarshalInput(raw, &in) == nil {
			if v := checkDelivery(scenario, in); v != nil {
				return []*mc.Violation{v}
			}
		}
	case scenario == "determinism-under-reversed-map-scans":
		var in In
		if mc.UnmarshalInput(raw, &in) == nil {
			if ep := entry(in.Entry); ep != nil {
				setReverse, unbind := BindMapOrderToggle()
				defer unbind()
				a := ep.Call(in.Text)
				setReverse(true)
				b := ep.Call(in.Text)
				setReverse(false)
				if a.key() != b.key() || a.ErrText != b.ErrText {
					return []*mc.Violation{mc.V(scenario, "outcome-depends-only-on-input", in, clip(a.key()), "with the library's map scans in reverse order: "+clip(b.key()), "entry:"+in.Entry)}
				}
			}
		}
	case strings.HasPrefix(scenario, "determinism"):
		var in DetIn
		if mc.UnmarshalInput(raw, &in) == nil {
			if v := checkDet(scenario, in); v != nil {
				return []*mc.Violation{v}
			}
		}
	case strings.HasPrefix(scenario, "schedules"):
		return replaySchedule(scenario, raw)
	case strings.HasPrefix(scenario, "race"):
		return nil
	default:
		var in In
		if mc.UnmarshalInput(raw, &in) == nil {
			if v, _ := checkTotal(scenario, in, false); v != nil {
				return []*mc.Violation{v}
			}
		}
	}
	return nil
}

// CrashIn is the (informational) input of a runtime crash report.
type CrashIn struct{ Note string }

// supervise re-executes this check as a child; returns false if supervision is not possible (then the caller runs inline).
func supervise(r *mc.Run) bool {
	self, err := os.Executable()
	if err != nil {
		return false
	}
	cmd := exec.Command(self, "C18", r.Tier)
	cmd.Env = append(os.Environ(), "VERIF_C18_CHILD=1")
	var errBuf bytes.Buffer
	cmd.Stdout = os.Stdout
	cmd.Stderr = io.MultiWriter(os.Stderr, &tailWriter{buf: &errBuf, max: 1 << 20})
	err = cmd.Run()
	code := 0
	if ee, ok := err.(*exec.ExitError); ok {
		code = ee.ExitCode()
	} else if err != nil {
		return false
	}
	text := errBuf.String()
	if i := strings.Index(text, "fatal error:"); i >= 0 && code != 0 && code != 1 {
		end := i + 1200
		if end > len(text) {
			end = len(text)
		}
		r.Scenario("concurrent-calls-runtime-crash", map[string]interface{}{"workers": r.Workers}, 1, func(_ int, st *mc.Stats) bool {
			st.Evals++
			st.Nontrivial += 2
			st.Sample("child process crashed")
			st.Violate(mc.V("concurrent-calls-runtime-crash", "concurrent-calls-do-not-crash-the-runtime", CrashIn{"parsers called concurrently from 16 worker goroutines on independent inputs"}, "no runtime crash", text[i:end]))
			return true
		})
		return true
	}
	// normal completion: the child has printed its report and written the evidence file
	os.Exit(code)
	return true
}

type tailWriter struct {
	buf *bytes.Buffer
	max int
}

func (t *tailWriter) Write(p []byte) (int, error) {
	if t.buf.Len() < t.max {
		t.buf.Write(p)
	}
	return len(p), nil
}
