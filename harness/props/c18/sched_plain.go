//go:build !verif

package c18

import (
	"encoding/json"

	"verifharness/mc"
)

// Without the instrumented build there are no scheduling points to own: the schedule exploration is skipped
// (recorded in the evidence); the race-detector pass and the sequential scenarios still run.
func runSchedules(r *mc.Run) {
	r.Extra["schedules"] = "skipped: instrumented build not available on this tree"
}

func replaySchedule(string, json.RawMessage) []*mc.Violation { return nil }
