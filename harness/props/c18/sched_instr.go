//go:build verif

package c18

import (
	"encoding/json"
	"fmt"
	"os"
	"runtime"
	"strings"
	"sync"
	"sync/atomic"
	"time"

	"pault.ag/go/debian/verifhook"

	"verifharness/mc"
)

// Locks of the code under test (sync.Mutex, sync.RWMutex, sync.Once - rewritten to verifhook.Lock etc. by the
// instrumenter) are modelled: taking and releasing one is a scheduling point, a thread that cannot take one waits
// inside the scheduler until something was released, and an execution in which every unfinished thread waits is
// reported as a deadlock. Code that synchronises correctly is therefore explored, not hung.
//
// Cooperative scheduler: exactly one worker runs at a time; every access to a package-level variable of the
// module (and, once an execution has performed such an access, every loop iteration of the parser packages) is a
// scheduling point at which the explorer decides who runs next. Choice 0 = the running thread continues;
// switching away from a runnable thread costs one preemption.

type call struct{ Entry, Text string }

// SchedIn is a replayable schedule: the thread programs and the choice vector.
type SchedIn struct {
	Threads [][]call
	Choices []int
}

type event struct {
	tid     int
	done    bool
	blocked bool // the thread could not take a lock of the code under test and waits for a release
}

type schedExec struct {
	threads  [][]call
	turn     []chan struct{}
	back     chan event
	touched  bool
	released bool // some lock was released since the scheduler last looked
	abort    bool // a deadlock was established: waiting threads unwind
	deadlock bool
	results  [][]Result
	points   int
}

type deadlockAbort struct{}

func (e *schedExec) point(tid int) {
	e.points++
	e.back <- event{tid: tid}
	<-e.turn[tid]
}

// block: the calling thread waits for a lock. The scheduler runs somebody else; the thread is enabled again once a
// lock was released (it then repeats its attempt). When every unfinished thread waits, the execution is a deadlock and
// the waiting threads are unwound by a panic that their call guards absorb.
func (e *schedExec) block(tid int) {
	e.points++
	e.back <- event{tid: tid, blocked: true}
	<-e.turn[tid]
	if e.abort {
		panic(deadlockAbort{})
	}
}

// runSchedule executes the thread programs under the schedule x decides; returns per-thread results.
func runSchedule(threads [][]call, x *mc.X) ([][]Result, int) {
	res, points, _ := runScheduleD(threads, x)
	return res, points
}

// executions are serialised process-wide: the thread programs of different shards share whatever state the library
// keeps (caches, locks), and a lock held by a parked thread of one execution would look like a deadlock to another
var schedMu sync.Mutex

func runScheduleD(threads [][]call, x *mc.X) ([][]Result, int, bool) {
	schedMu.Lock()
	defer schedMu.Unlock()
	n := len(threads)
	e := &schedExec{threads: threads, back: make(chan event), results: make([][]Result, n)}
	for i := 0; i < n; i++ {
		e.turn = append(e.turn, make(chan struct{}))
	}
	for i := 0; i < n; i++ {
		i := i
		go func() {
			<-e.turn[i]
			ctx := &verifhook.Ctx{
				OnAccess: func(int) { e.touched = true; e.point(i) },
				OnYield: func(int) {
					if e.touched {
						e.point(i)
					}
				},
				OnBlock:   func(int) { e.touched = true; e.block(i) },
				OnRelease: func(int) { e.touched = true; e.released = true; e.point(i) },
			}
			verifhook.Bind(ctx)
			for _, c := range threads[i] {
				var res Result
				if p, msg := mc.Guard(func() { res = entry(c.Entry).Call(c.Text) }); p {
					res = Result{Summary: "panic: " + msg, Err: true, ErrText: "panic"}
				}
				e.results[i] = append(e.results[i], res)
				if e.abort {
					break
				}
			}
			verifhook.Unbind()
			e.back <- event{tid: i, done: true}
		}()
	}
	done := make([]bool, n)
	waiting := make([]bool, n)
	cur := -1
	remaining := n
	// An exploration that is abandoned in the middle of an execution (x.Choose / x.Deviate panic when a replayed choice
	// vector no longer fits: the library kept state from an earlier execution) must not leave thread goroutines suspended
	// inside the library - one of them may hold a lock of the library, and every later call of this process would wait for
	// it for ever. The unfinished threads are therefore run to completion, one after the other, before the panic goes on.
	defer func() {
		if remaining == 0 {
			return
		}
		pv := recover()
		for pass := 0; remaining > 0 && pass < 4*n+4; pass++ {
			if pass >= n+1 {
				e.abort = true // still threads left after every one had its chance: they wait for each other - unwind them
			}
			for i := 0; i < n && remaining > 0; i++ {
				if done[i] {
					continue
				}
				e.turn[i] <- struct{}{}
				for {
					ev := <-e.back
					if ev.done {
						done[ev.tid] = true
						remaining--
						break
					}
					if ev.blocked && !e.abort {
						break // waits for a lock another unfinished thread holds: finish the others first
					}
					e.turn[ev.tid] <- struct{}{}
				}
			}
		}
		if pv != nil {
			panic(pv)
		}
	}()
	for remaining > 0 {
		if e.released {
			e.released = false
			for i := range waiting {
				waiting[i] = false
			}
		}
		var enabled []int
		if cur >= 0 && !done[cur] && !waiting[cur] {
			enabled = append(enabled, cur)
		}
		for i := 0; i < n; i++ {
			if !done[i] && !waiting[i] && i != cur {
				enabled = append(enabled, i)
			}
		}
		if len(enabled) == 0 {
			// every unfinished thread waits for a lock nobody will release
			e.deadlock, e.abort = true, true
			for i := 0; i < n; i++ {
				if !done[i] {
					e.turn[i] <- struct{}{}
					for {
						ev := <-e.back
						if ev.done {
							break
						}
						e.turn[ev.tid] <- struct{}{} // a scheduling point met while unwinding: keep going
					}
					done[i] = true
					remaining--
				}
			}
			break
		}
		var c int
		if cur >= 0 && !done[cur] && !waiting[cur] {
			c = x.Deviate(len(enabled), "preempt") // 0 = keep running; anything else preempts a runnable thread
		} else {
			c = x.Choose(len(enabled), "next")
		}
		cur = enabled[c]
		e.turn[cur] <- struct{}{}
		ev := <-e.back
		if ev.done {
			done[ev.tid] = true
			remaining--
		}
		if ev.blocked {
			waiting[ev.tid] = true
		}
	}
	return e.results, e.points, e.deadlock
}

func sequential(threads [][]call) [][]Result {
	schedMu.Lock()
	defer schedMu.Unlock()
	out := make([][]Result, len(threads))
	for i, t := range threads {
		for _, c := range t {
			var res Result
			if p, msg := mc.Guard(func() { res = entry(c.Entry).Call(c.Text) }); p {
				res = Result{Summary: "panic: " + msg, Err: true, ErrText: "panic"}
			}
			out[i] = append(out[i], res)
		}
	}
	return out
}

func compare(scen string, in SchedIn, want, got [][]Result) *mc.Violation {
	for i := range want {
		for j := range want[i] {
			if j >= len(got[i]) || want[i][j].key() != got[i][j].key() {
				g := "(missing)"
				if j < len(got[i]) {
					g = clip(got[i][j].key())
				}
				return mc.V(scen, "concurrent-call-equals-sequential-call", in, fmt.Sprintf("thread %d call %d (%s): %s", i, j, in.Threads[i][j].Entry, clip(want[i][j].key())), g, "entry:"+in.Threads[i][j].Entry)
			}
		}
	}
	return nil
}

func threadPrograms(quick bool) [][][]call {
	var out [][][]call
	for _, ep := range EntryPoints {
		var valid, failing []string
		for _, s := range seeds[ep.Name] {
			if s == "" {
				continue
			}
			var res Result
			if p, _ := mc.Guard(func() { res = ep.Call(s) }); p || res.Err {
				failing = append(failing, s)
			} else {
				valid = append(valid, s)
			}
		}
		if len(valid) < 2 {
			continue
		}
		// two threads, one call each, on the two richest seeds; and one thread doing two calls against another doing one
		out = append(out, [][]call{{{ep.Name, valid[0]}}, {{ep.Name, valid[1]}}})
		out = append(out, [][]call{{{ep.Name, valid[0]}, {ep.Name, valid[1]}}, {{ep.Name, valid[1]}}})
		// every error path first (state left behind by a failed call), then two threads on valid inputs
		last := valid[len(valid)-1]
		for _, f := range failing {
			out = append(out, [][]call{{{ep.Name, f}, {ep.Name, valid[1]}}, {{ep.Name, last}}})
		}
		if !quick && len(valid) >= 3 {
			out = append(out, [][]call{{{ep.Name, valid[0]}}, {{ep.Name, valid[1]}}, {{ep.Name, valid[2]}}})
		}
	}
	// across entry points that share a package
	out = append(out, [][]call{{{"dependency.Parse", seeds["dependency.Parse"][1]}}, {{"control.ParseControl", seeds["control.ParseControl"][0]}}, {{"version.Parse", seeds["version.Parse"][1]}}})
	out = append(out, [][]call{{{"control.ParseDsc", seeds["control.ParseDsc"][0]}}, {{"control.ParseChanges", seeds["control.ParseChanges"][0]}}})
	return out
}

const schedCap = 300000

var schedDiverged int64 // thread programs whose choice tree changed between executions (library state persists)

func runSchedules(r *mc.Run) {
	progs := threadPrograms(r.Quick())
	sites := map[string]interface{}{}
	if b, err := os.ReadFile(os.Getenv("VERIF_INSTR_REPORT")); err == nil {
		var rep map[string]interface{}
		if json.Unmarshal(b, &rep) == nil {
			sites["package_level_vars"] = rep["package_level_vars"]
			sites["pkgvar_access_sites"] = rep["pkgvar_access_sites"]
			sites["yield_sites"] = rep["yield_sites"]
		}
	}
	r.Extra["instrumentation"] = sites
	// one P while schedules are explored: sync.Pool and similar per-P runtime structures then behave the same in every
	// execution, so a replayed choice vector reaches the same scheduling points
	oldProcs := runtime.GOMAXPROCS(1)
	defer runtime.GOMAXPROCS(oldProcs)
	// executions of one scenario are sequential (one scheduler), scenarios run in parallel
	schedStart, schedWall := time.Now(), 30*time.Minute
	if r.Quick() {
		schedWall = 4 * time.Minute
	}
	r.Scenario("schedules-preemption-bounded", map[string]interface{}{"thread_programs": len(progs), "preemption_bound": 2, "execution_cap_per_program": schedCap, "wall_budget_s": schedWall.Seconds()}, len(progs), func(i int, st *mc.Stats) bool {
		threads := progs[i]
		want := sequential(threads)
		capped, overBudget := false, false
		var maxPoints int
		execs, div := mc.Explore(2, st, func(x *mc.X) {
			if capped {
				return
			}
			got, pts, dead := runScheduleD(threads, x)
			if pts > maxPoints {
				maxPoints = pts
			}
			st.Evals++
			st.Traces++
			if pts > 0 {
				st.Nontrivial++
			}
			in := SchedIn{threads, x.Choices()}
			if dead {
				st.Violate(mc.V("schedules-preemption-bounded", "returns-without-hanging", in, "every call returns", "deadlock: every unfinished thread waits for a lock of the library that no running thread will release"))
				st.Class("deadlock")
				capped = true
			} else if v := compare("schedules-preemption-bounded", in, want, got); v != nil {
				st.Violate(v)
				st.Class("differs-from-sequential")
				capped = true // a counterexample schedule for this program is enough; the remaining schedules are not executed
			} else {
				st.Class("equals-sequential")
			}
			if st.Evals > schedCap || time.Since(schedStart) > schedWall {
				capped, overBudget = true, true // a budget, not an oracle: the scenario then reports exhaustive=false
			}
		})
		st.States += execs
		st.Class(fmt.Sprintf("scheduling-points<=%d", bucket(maxPoints)))
		if st.WantSample() {
			st.Sample(map[string]interface{}{"threads": threads, "schedules_explored": execs, "scheduling_points_in_longest_execution": maxPoints})
		}
		if overBudget {
			st.Class("budget-reached:exploration-incomplete")
			return false
		}
		if div != "" {
			// the same choices did not reach the same scheduling points: the library keeps state from one execution to
			// the next (a cache that fills, a pool), so the choice tree of this program is not a fixed tree. That is not
			// a violation; the program's exploration is reported as incomplete.
			st.Class("state-persists-across-executions:exploration-incomplete")
			atomic.AddInt64(&schedDiverged, 1)
			return false
		}
		return true
	})
	r.Extra["thread_programs_whose_choice_tree_changed_between_executions"] = atomic.LoadInt64(&schedDiverged)
}

func bucket(n int) int {
	for _, b := range []int{0, 10, 100, 1000, 10000} {
		if n <= b {
			return b
		}
	}
	return 1000000
}

func replaySchedule(scen string, raw json.RawMessage) []*mc.Violation {
	var in SchedIn
	if mc.UnmarshalInput(raw, &in) != nil || len(in.Threads) == 0 {
		return nil
	}
	want := sequential(in.Threads)
	var out []*mc.Violation
	// replay exactly the recorded choice vector: Explore with bound 0 would re-enumerate, so drive X by hand through a single run
	mc.ExploreOne(in.Choices, func(x *mc.X) {
		got, _, dead := runScheduleD(in.Threads, x)
		if dead {
			out = append(out, mc.V(scen, "returns-without-hanging", in, "every call returns", "deadlock: every unfinished thread waits for a lock of the library that no running thread will release"))
		} else if v := compare(scen, in, want, got); v != nil {
			out = append(out, v)
		}
	})
	_ = strings.TrimSpace
	return out
}
