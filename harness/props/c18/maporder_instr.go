//go:build verif

package c18

import "pault.ag/go/debian/verifhook"

func init() {
	BindMapOrderToggle = func() (func(bool), func()) {
		reverse := false
		ctx := &verifhook.Ctx{MapOrder: func(site, n int) []int {
			if !reverse {
				return nil
			}
			p := make([]int, n)
			for i := range p {
				p[i] = n - 1 - i
			}
			return p
		}}
		verifhook.Bind(ctx)
		return func(b bool) { reverse = b }, verifhook.Unbind
	}
}
