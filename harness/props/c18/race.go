package c18

import (
	"fmt"
	"os"
	"os/exec"
	"strings"
	"sync"

	"verifharness/mc"
)

// RaceIn is the (informational) input of the race pass.
type RaceIn struct{ Note string }

// raceWorker runs the parser entry points free on real goroutines; it is executed in a child process built with -race.
func raceWorker() {
	var wg sync.WaitGroup
	for g := 0; g < 8; g++ {
		wg.Add(1)
		go func(g int) {
			defer wg.Done()
			for it := 0; it < 60; it++ {
				for ei, ep := range EntryPoints {
					ss := seeds[ep.Name]
					if len(ss) == 0 {
						continue
					}
					s := ss[(g+it+ei)%len(ss)]
					mc.Guard(func() { ep.Call(s) })
				}
			}
		}(g)
	}
	wg.Wait()
}

// runRace starts the -race build of this check as a child (VERIF_RACE_BIN) and reports detected races.
func runRace(r *mc.Run) {
	if os.Getenv("VERIF_C18_RACE_WORKER") != "" {
		return
	}
	bin := os.Getenv("VERIF_RACE_BIN")
	if bin == "" {
		r.Extra["race_pass"] = "skipped: no -race build available (VERIF_RACE_BIN unset)"
		return
	}
	r.Scenario("race-detector-free-running", map[string]interface{}{"goroutines": 8, "iterations": 60, "entry_points": len(EntryPoints)}, 1, func(_ int, st *mc.Stats) bool {
		cmd := exec.Command(bin, "C18", r.Tier)
		cmd.Env = append(os.Environ(), "VERIF_C18_RACE_WORKER=1", "VERIF_NO_EVIDENCE=1", "GORACE=halt_on_error=0 exitcode=66")
		out, err := cmd.CombinedOutput()
		st.Evals += int64(8 * 60 * len(EntryPoints))
		st.Nontrivial += int64(len(EntryPoints))
		text := string(out)
		if strings.Contains(text, "WARNING: DATA RACE") {
			i := strings.Index(text, "WARNING: DATA RACE")
			end := i + 1500
			if end > len(text) {
				end = len(text)
			}
			st.Violate(mc.V("race-detector-free-running", "no-data-race", RaceIn{"8 goroutines x 60 iterations over all entry points on their seed inputs, -race build"}, "no race report", text[i:end]))
			st.Class("race-reported")
			return true
		}
		if err != nil {
			st.Class("race-worker-failed")
			r.Extra["race_pass"] = fmt.Sprintf("race worker failed without a race report: %v: %s", err, clipTail(text))
			return true
		}
		st.Class("no-race-reported")
		return true
	})
}

func clipTail(s string) string {
	if len(s) > 400 {
		return s[len(s)-400:]
	}
	return s
}
