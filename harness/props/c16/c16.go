// Package c16: debsig verification covers the package content that was actually loaded.
//
// Signed packages are built byte-exactly (gen/debbuild.go, gen/pgpkeys.go), tampered with in every enumerated way,
// and each variant goes through the one unit LoadAndVerify = deb.Load, drain Deb.Data, Deb.CheckDebsig. The oracle is
// a soundness oracle: it only speaks when loading AND verification succeed.
package c16

import (
	"bytes"
	"encoding/json"
	"fmt"
	"os"
	"path/filepath"
	"sort"
	"strings"
	"sync"

	"golang.org/x/crypto/openpgp"
	"pault.ag/go/debian/deb"

	"verifharness/gen"
	"verifharness/mc"
	"verifharness/props/c14"
	"verifharness/props/reg"
)

func init() { reg.Register(&reg.Prop{ID: "C16", Run: Run, Replay: Replay}) }

// SigInfo says what the harness put into one "_gpg<Role>" member: a detached signature made by the key with
// fingerprint Signer over exactly the bytes Covers (before any byte fault was applied to the member).
type SigInfo struct {
	Role       string
	Signer     string // fingerprint
	SignerName string
	Covers     []byte
}

// In is the replayable input of every C16 scenario.
type In struct {
	Name         string
	Kind         string       // matrix | byte-fault | decoy | rename | coverage
	Fault        string       `json:",omitempty"` // description of the tampering
	Model        gen.DebModel // the content that was SIGNED
	Exp          c14.Expect
	Sigs         []SigInfo
	Ask          string   // role passed to CheckDebsig
	Keyring      []string // armoured public keys passed as keyring
	KeyringNames []string
	Orders       bool   `json:",omitempty"` // run under c14.ForEachMapOrder and judge the SET of outcomes
	Deb          []byte // the package, byte-exact

	// path inputs: the library is told a pathname (deb.Load's second argument, or deb.LoadFile) under which ANOTHER,
	// genuinely signed package (Good) can be found; what is verified must still be the members that were loaded.
	//   load-under-good-abs-path   Load(Deb bytes, absolute path of a file holding Good)
	//   load-under-good-rel-path   the same with a relative name, the working directory holding the file
	//   loadfile-then-replaced     LoadFile(file holding Deb); the file is atomically replaced by Good before CheckDebsig
	PathMode string `json:",omitempty"`
	Good     []byte `json:",omitempty"`

	// call-sequence inputs: the package is loaded ONCE and CheckDebsig is called len(Calls) times on that one Deb
	// (Ask / Keyring / KeyringNames above are unused then); Keys maps a key name to its armoured public key.
	Calls []Call            `json:",omitempty"`
	Keys  map[string]string `json:",omitempty"`
}

// NilRing as the only element of KeyringNames stands for the nil openpgp.EntityList (an empty KeyringNames is the
// non-nil empty list openpgp.EntityList{}).
const NilRing = "<nil>"

// Call is one CheckDebsig call of a sequence.
type Call struct {
	Ask          string
	KeyringNames []string
}

func (c Call) String() string { return fmt.Sprintf("CheckDebsig(%v, %q)", c.KeyringNames, c.Ask) }

// Outcome of one LoadAndVerify execution.
type Outcome struct {
	c14.Obs
	VerifyCalled bool
	VerifyOK     bool
	VerifyErr    string `json:",omitempty"`
	VerifyPanic  string `json:",omitempty"`
	Signer       string `json:",omitempty"` // fingerprint of the returned entity
	SignerNil    bool   `json:",omitempty"` // nil entity together with nil error
}

// LoadAndVerify is the unit of every scenario: Load the bytes, read the whole payload, check the signature for role
// against keyring, close. (The payload is read before the signature is checked because both use the same
// underlying section reader of the data member.)
func LoadAndVerify(b []byte, role string, keyring openpgp.EntityList) Outcome {
	var out Outcome
	out.Obs = c14.Observe(b, func(d *deb.Deb) {
		out.VerifyCalled = true
		panicked, msg := mc.Guard(func() {
			signer, err := d.CheckDebsig(keyring, role)
			if err != nil {
				out.VerifyErr = err.Error()
				if out.VerifyErr == "" {
					out.VerifyErr = "error"
				}
				return
			}
			out.VerifyOK = true
			if signer == nil {
				out.SignerNil = true
			} else {
				out.Signer = gen.PGPFingerprint(signer)
			}
		})
		if panicked {
			out.VerifyPanic = msg
		}
	})
	return out
}

// verifyInto performs one CheckDebsig call and records it.
func verifyInto(out *Outcome, d *deb.Deb, keyring openpgp.EntityList, role string) {
	out.VerifyCalled = true
	panicked, msg := mc.Guard(func() {
		signer, err := d.CheckDebsig(keyring, role)
		if err != nil {
			out.VerifyErr = err.Error()
			if out.VerifyErr == "" {
				out.VerifyErr = "error"
			}
			return
		}
		out.VerifyOK = true
		if signer == nil {
			out.SignerNil = true
		} else {
			out.Signer = gen.PGPFingerprint(signer)
		}
	})
	if panicked {
		out.VerifyPanic = msg
	}
}

var chdirMu sync.Mutex

// loadAndVerifyPath executes a path input (see In.PathMode) in a scratch directory.
func loadAndVerifyPath(in In, keyring openpgp.EntityList) Outcome {
	var out Outcome
	dir, err := os.MkdirTemp("", "verif-c16-path-")
	if err != nil {
		out.Obs.Skipped = true
		return out
	}
	defer os.RemoveAll(dir)
	good := filepath.Join(dir, "good_1.0_all.deb")
	os.WriteFile(good, in.Good, 0o644)
	verify := func(d *deb.Deb) { verifyInto(&out, d, keyring, in.Ask) }
	switch in.PathMode {
	case "load-under-good-abs-path":
		out.Obs = c14.ObserveWith(func() *c14.Session { return c14.OpenAs(in.Deb, good) }, verify)
	case "load-under-good-rel-path":
		chdirMu.Lock()
		defer chdirMu.Unlock()
		old, _ := os.Getwd()
		if os.Chdir(dir) != nil {
			out.Obs.Skipped = true
			return out
		}
		defer os.Chdir(old)
		out.Obs = c14.ObserveWith(func() *c14.Session { return c14.OpenAs(in.Deb, "good_1.0_all.deb") }, verify)
	case "loadfile-then-replaced":
		pkg := filepath.Join(dir, "pkg_1.0_all.deb")
		os.WriteFile(pkg, in.Deb, 0o644)
		out.Obs = c14.ObserveWith(func() *c14.Session { return c14.OpenFile(pkg) }, func(d *deb.Deb) {
			// atomic replacement: the loaded file descriptor keeps the old content, the NAME now leads to Good
			tmp := pkg + ".new"
			os.WriteFile(tmp, in.Good, 0o644)
			os.Rename(tmp, pkg)
			verify(d)
		})
	default:
		out.Obs.Skipped = true
	}
	return out
}

// LoadAndVerifySeq loads the bytes once, reads the payload, and performs the calls in order on the one Deb.
func LoadAndVerifySeq(b []byte, roles []string, keyrings []openpgp.EntityList) []Outcome {
	outs := make([]Outcome, len(roles))
	obs := c14.Observe(b, func(d *deb.Deb) {
		for i := range roles {
			out := &outs[i]
			out.VerifyCalled = true
			panicked, msg := mc.Guard(func() {
				signer, err := d.CheckDebsig(keyrings[i], roles[i])
				if err != nil {
					out.VerifyErr = err.Error()
					if out.VerifyErr == "" {
						out.VerifyErr = "error"
					}
					return
				}
				out.VerifyOK = true
				if signer == nil {
					out.SignerNil = true
				} else {
					out.Signer = gen.PGPFingerprint(signer)
				}
			})
			if panicked {
				out.VerifyPanic = msg
			}
		}
	})
	for i := range outs {
		outs[i].Obs = obs
	}
	return outs
}

// Class: outcome class in which error texts do not take part.
func (o Outcome) Class() string {
	switch {
	case o.Hang != "":
		return "NO-TERMINATION"
	case o.Panic != "":
		return "load-panic"
	case !o.Loaded:
		return "load-fails"
	case o.VerifyPanic != "":
		return "verify-panic"
	case !o.VerifyOK:
		return "verify-fails"
	}
	return "verified exposing " + o.Obs.Class()
}

// Stable is Brief without error texts, so that it does not depend on which failing execution came first.
func (o Outcome) Stable() string {
	s := o.Obs.Shape()
	switch {
	case !o.VerifyCalled:
	case o.VerifyPanic != "":
		s += "; CheckDebsig panics"
	case o.VerifyOK:
		s += "; CheckDebsig succeeds, signer " + o.Signer
		if o.SignerNil {
			s += "(nil entity)"
		}
	default:
		s += "; CheckDebsig fails"
	}
	return s
}

func (o Outcome) Brief() string {
	s := o.Obs.Brief()
	switch {
	case !o.VerifyCalled:
	case o.VerifyPanic != "":
		s += "; CheckDebsig panics: " + o.VerifyPanic
	case o.VerifyOK:
		s += "; CheckDebsig succeeds, signer " + o.Signer
		if o.SignerNil {
			s += "(nil entity)"
		}
	default:
		s += "; CheckDebsig fails: " + o.VerifyErr
	}
	return s
}

// ---------------------------------------------------------------- features (predicates of the input only)

func isControl(n string) bool { return strings.HasPrefix(n, "control.") }
func isData(n string) bool    { return strings.HasPrefix(n, "data.") }

func features(in In) []string {
	var f []string
	ms, _ := gen.ParseAr(in.Deb)
	nc, nd := 0, 0
	names := map[string]int{}
	role := false
	for _, m := range ms {
		if isControl(m.Name) {
			nc++
		}
		if isData(m.Name) {
			nd++
		}
		names[m.Name]++
		if m.Name == "_gpg"+in.Ask {
			role = true
		}
	}
	if nc > 1 {
		f = append(f, "decoy-control-member")
	}
	if nd > 1 {
		f = append(f, "decoy-data-member")
	}
	for n, k := range names {
		if k > 1 && (isControl(n) || isData(n)) {
			f = append(f, "decoy-has-same-name")
			break
		}
	}
	if !role {
		f = append(f, "asked-role-absent")
	}
	if in.Kind == "byte-fault" {
		f = append(f, "byte-altered")
	}
	if in.Kind == "coverage" {
		f = append(f, "signature-over-other-bytes")
	}
	if in.Kind == "rename" {
		f = append(f, "member-renamed")
	}
	if in.PathMode != "" {
		f = append(f, "pathname-leads-to-another-signed-package")
	}
	if in.Kind == "swap" {
		f = append(f, "member-replaced-original-kept-under-other-name")
	}
	switch {
	case has(in.KeyringNames, NilRing):
		f = append(f, "keyring-nil")
	case len(in.KeyringNames) == 0:
		f = append(f, "keyring-empty")
	}
	for _, s := range in.Sigs {
		if s.Role == in.Ask && !has(in.KeyringNames, s.SignerName) {
			f = append(f, "keyring-lacks-signer")
		}
	}
	sort.Strings(f)
	return f
}

func has(xs []string, x string) bool {
	for _, y := range xs {
		if y == x {
			return true
		}
	}
	return false
}

// ---------------------------------------------------------------- oracle

// judge returns the violations of one outcome: nothing unless Load and CheckDebsig both succeeded.
func judge(scen string, in In, o Outcome, keyFPs []string) []*mc.Violation {
	return judgeAs(scen, in, in, "", nil, o, keyFPs)
}

// judgeAs judges outcome o of the call described by in (its Ask / KeyringNames); the violation carries report as
// replayable input (the whole call sequence), ctx in front of the observation, and the extra features.
func judgeAs(scen string, in, report In, ctx string, extra []string, o Outcome, keyFPs []string) []*mc.Violation {
	if !o.Loaded || !o.VerifyOK {
		return nil
	}
	var vs []*mc.Violation
	bad := func(clause, exp, obs string) {
		vs = append(vs, mc.V(scen, clause, report, exp, ctx+obs, append(features(in), extra...)...))
	}
	// (0) success comes with a signer, and a keyring without keys can never make verification succeed
	if o.SignerNil {
		bad("success-names-a-signer", "an error, or a non-nil signer entity", o.Stable())
	}
	if len(keyFPs) == 0 {
		kind := "the empty list openpgp.EntityList{}"
		if has(in.KeyringNames, NilRing) {
			kind = "the nil openpgp.EntityList"
		}
		bad("no-key-no-success", "CheckDebsig fails: the supplied keyring ("+kind+") holds no key", o.Stable())
	}
	ms, err := gen.ParseAr(in.Deb)
	if err != nil {
		bad("harness-archive-unreadable", "archive readable by gen.ParseAr", err.Error())
		return vs
	}
	byName := map[string][][]byte{}
	nc, nd := 0, 0
	var names []string
	for _, m := range ms {
		byName[m.Name] = append(byName[m.Name], m.Data)
		names = append(names, m.Name)
		if isControl(m.Name) {
			nc++
		}
		if isData(m.Name) {
			nd++
		}
	}
	what := fmt.Sprintf("members %v, role %q, keyring %v", names, in.Ask, in.KeyringNames)
	// (1) a second control or data member makes loading or verification fail
	if nc > 1 || nd > 1 {
		bad("second-control-or-data-member-fails", "Load or CheckDebsig fails: the archive has "+fmt.Sprint(nc)+" control.* and "+fmt.Sprint(nd)+" data.* members ("+what+")", o.Stable())
	}
	// (2) the role asked for is present
	if len(byName["_gpg"+in.Ask]) == 0 {
		bad("absent-role-fails", "CheckDebsig fails: no member _gpg"+in.Ask+" ("+what+")", o.Stable())
		return vs
	}
	// (3) the signer is a key that made one of that member's signature packets, and it is in the keyring
	// (several SigInfo entries with the same Role describe a member made of several signature packets)
	var sis []*SigInfo
	for i := range in.Sigs {
		if in.Sigs[i].Role == in.Ask {
			sis = append(sis, &in.Sigs[i])
		}
	}
	if len(sis) == 0 {
		bad("absent-role-fails", "CheckDebsig fails: the harness put no signature into _gpg"+in.Ask, o.Stable())
		return vs
	}
	var bySigner []*SigInfo
	var who []string
	for _, si := range sis {
		who = append(who, fmt.Sprintf("%s (%s)", si.Signer, si.SignerName))
		if si.Signer == o.Signer {
			bySigner = append(bySigner, si)
		}
	}
	if o.SignerNil || len(bySigner) == 0 || !has(keyFPs, o.Signer) {
		bad("signer-is-a-keyring-key-that-signed", fmt.Sprintf("failure, or signer among %v only if it is in the keyring %v", who, in.KeyringNames), o.Stable())
	}
	// (4) one of that signer's packets covers debian-binary ‖ control ‖ data of the members the loader exposed
	var cat []byte
	okCat := true
	for _, n := range []string{"debian-binary", "control." + o.ControlExt, "data." + o.DataExt} {
		c := byName[n]
		if len(c) == 0 {
			okCat = false
			break
		}
		cat = append(cat, c[len(c)-1]...)
	}
	covered := false
	var lens []string
	cands := bySigner
	if len(cands) == 0 {
		cands = sis
	}
	for _, si := range cands {
		lens = append(lens, fmt.Sprintf("%d bytes by %s", len(si.Covers), si.SignerName))
		if okCat && bytes.Equal(cat, si.Covers) {
			covered = true
		}
	}
	if !covered {
		bad("signature-covers-the-exposed-members", fmt.Sprintf("Load or CheckDebsig fails: no signature packet of the member (%s) is over debian-binary‖control.%s‖data.%s of this archive (%s; %s)",
			strings.Join(lens, ", "), o.ControlExt, o.DataExt, what, in.Fault), o.Stable())
	}
	// (5) what was exposed is the signed content
	cin := c14.In{Model: in.Model, Exp: in.Exp, Verdict: "must-load", Deb: in.Deb}
	for _, d := range c14.CompareContent(cin, o.Obs) {
		// The member NAMES are not covered by a debsig signature. If a signed member was renamed to another
		// encoding suffix, the loader decodes the (verified, unchanged) bytes differently; the statement does not
		// speak about that, so the decoded content is compared only while a member with the name the signer used is still in the archive — clause (4)
		// above still demands that the bytes are the signed ones.
		if d[0] == "data-stream-lists-packaged-files" && (o.DataErr != "" || len(byName[in.Model.DataName()]) == 0) {
			continue
		}
		if d[0] == "control-fields-equal-packaged-paragraph" && len(byName[in.Model.ControlName()]) == 0 {
			continue
		}
		bad("exposed-content-is-the-signed-content", "signed content: "+d[1], "CheckDebsig succeeds while Load exposed: "+d[2])
	}
	return vs
}

// Check is the oracle for one input: one execution, or the set of outcomes over the explored map orders.
func Check(scen string, in In) ([]*mc.Violation, []Outcome) {
	if len(in.Calls) > 0 {
		return checkSeq(scen, in)
	}
	keyring, err := gen.PGPReadKeyring(in.Keyring...)
	if err != nil {
		return []*mc.Violation{mc.V(scen, "harness-keyring-unreadable", in, "armoured keys parse", err.Error())}, nil
	}
	if has(in.KeyringNames, NilRing) {
		keyring = nil // the zero value of openpgp.EntityList, as in `var keys openpgp.EntityList`
	}
	var fps []string
	for _, e := range keyring {
		fps = append(fps, gen.PGPFingerprint(e))
	}
	var outs []Outcome
	// once an order with an unsound outcome has been found the remaining orders are not executed (the input is
	// already a counterexample; on a sound tree every order is executed)
	stopped := false
	run := func() {
		if stopped {
			return
		}
		var o Outcome
		if in.PathMode != "" {
			o = loadAndVerifyPath(in, keyring)
		} else {
			o = LoadAndVerify(in.Deb, in.Ask, keyring)
		}
		if o.Skipped {
			return // an earlier execution of this process did not terminate: nothing more is executed
		}
		outs = append(outs, o)
		if o.Hang != "" {
			stopped = true
			return
		}
		if in.Orders && len(judge(scen, in, o, fps)) > 0 {
			stopped = true
		}
	}
	if in.Orders {
		c14.ForEachMapOrder(run)
	} else {
		run()
	}
	var vs []*mc.Violation
	seenClass := map[string]bool{}
	best := map[string]*mc.Violation{}
	for _, o := range outs {
		if o.Hang != "" {
			best["load-and-verification-return"] = mc.V(scen, "load-and-verification-return", in, "Load and CheckDebsig return (with or without an error)", o.Hang, features(in)...)
			continue
		}
		c := o.Class()
		if seenClass[c] {
			continue
		}
		seenClass[c] = true
		for _, v := range judge(scen, in, o, fps) {
			// one violation per clause; of several unsound outcomes report the one with the smallest rendering, so
			// that the report does not depend on which came first
			if b := best[v.Clause]; b == nil || v.Observed < b.Observed {
				best[v.Clause] = v
			}
		}
	}
	for _, v := range best {
		vs = append(vs, v)
	}
	sort.Slice(vs, func(i, j int) bool { return vs[i].Clause < vs[j].Clause })
	return vs, outs
}

// checkSeq is the oracle for a call sequence on one loaded Deb: every call is judged by itself, independent of the
// calls before it — it may succeed only if the asked role's member exists, its signature is by a key in the keyring
// passed to THAT call, over the bytes of the exposed members. (A later call may fail for reasons of its own, e.g.
// because a reader was consumed by an earlier call: a soundness oracle does not object.)
func checkSeq(scen string, in In) ([]*mc.Violation, []Outcome) {
	rings := map[string]openpgp.EntityList{}
	for name, arm := range in.Keys {
		el, err := gen.PGPReadKeyring(arm)
		if err != nil {
			return []*mc.Violation{mc.V(scen, "harness-keyring-unreadable", in, "armoured keys parse", err.Error())}, nil
		}
		rings[name] = el
	}
	roles := make([]string, len(in.Calls))
	krs := make([]openpgp.EntityList, len(in.Calls))
	fps := make([][]string, len(in.Calls))
	for i, c := range in.Calls {
		roles[i] = c.Ask
		krs[i] = openpgp.EntityList{}
		for _, n := range c.KeyringNames {
			krs[i] = append(krs[i], rings[n]...)
		}
		if has(c.KeyringNames, NilRing) {
			krs[i] = nil
		}
		for _, e := range krs[i] {
			fps[i] = append(fps[i], gen.PGPFingerprint(e))
		}
	}
	outs := LoadAndVerifySeq(in.Deb, roles, krs)
	if len(outs) > 0 && outs[0].Skipped {
		return nil, nil
	}
	if len(outs) > 0 && outs[0].Hang != "" {
		return []*mc.Violation{mc.V(scen, "load-and-verification-return", in, "Load and every CheckDebsig call return", outs[0].Hang, "call-sequence")}, outs
	}
	best := map[string]*mc.Violation{}
	history := ""
	for i, c := range in.Calls {
		view := in
		view.Ask, view.KeyringNames, view.Calls = c.Ask, c.KeyringNames, nil
		if view.KeyringNames == nil {
			view.KeyringNames = []string{}
		}
		ctx := fmt.Sprintf("call %d of %d on the same Deb, %s%s: ", i+1, len(in.Calls), c, history)
		extra := []string{"call-sequence"}
		if i > 0 {
			extra = append(extra, "not-the-first-call-on-this-deb")
		}
		for _, v := range judgeAs(scen, view, in, ctx, extra, outs[i], fps[i]) {
			if best[v.Clause] == nil {
				best[v.Clause] = v
			}
		}
		res := "failed"
		if outs[i].VerifyOK {
			res = "succeeded"
		}
		if history == "" {
			history = " after "
		} else {
			history += ", "
		}
		history += c.String() + " " + res
	}
	var vs []*mc.Violation
	for _, v := range best {
		vs = append(vs, v)
	}
	sort.Slice(vs, func(i, j int) bool { return vs[i].Clause < vs[j].Clause })
	return vs, outs
}

func Replay(scenario string, raw json.RawMessage) []*mc.Violation {
	var in In
	if err := mc.UnmarshalInput(raw, &in); err != nil {
		return nil
	}
	if in.Orders {
		old := c14.MapOrderReps
		c14.MapOrderReps = 16 * old
		defer func() { c14.MapOrderReps = old }()
	}
	vs, _ := Check(scenario, in)
	return vs
}
