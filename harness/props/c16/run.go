package c16

import (
	"bytes"
	"fmt"
	"os"
	"os/exec"
	"path/filepath"
	"strings"
	"sync/atomic"

	"verifharness/audit"
	"verifharness/gen"
	"verifharness/mc"
	"verifharness/props/c14"
)

var roles = []string{"origin", "maint", "archive"}

// alphabet audit: literals a change introduced into the tree under test (none on the unchanged tree)

// auditRoles: new strings usable as a debsig role ("_gpg"+role must fit an ar name).
func auditRoles(max int) []string {
	return gen.AuditStrings(func(s string) bool {
		s2 := strings.TrimPrefix(s, "_gpg")
		return gen.Nameish(s2) && len(s2) <= 12 && !has(roles, s2)
	}, max)
}

// auditMemberNames: new strings usable as an ar member name.
func auditMemberNames(max int) []string {
	return gen.AuditStrings(func(s string) bool {
		return len(s) <= 16 && gen.OneLine(s) && !strings.ContainsAny(s, " /\t") && s != "debian-binary"
	}, max)
}

// base is one signed-content model with its three canonical members.
type base struct {
	name  string
	model gen.DebModel
	exp   c14.Expect
	mem   []gen.ArMember // debian-binary, control.tar*, data.tar*
}

func (b base) signed() []byte {
	var s []byte
	for _, m := range b.mem {
		s = append(s, m.Data...)
	}
	return s
}

type env struct {
	r      *mc.Run
	c      *gen.DebCompressor
	k1, k2 *gen.PGPKey
}

func (e *env) key(name string) *gen.PGPKey {
	if name == "K2" {
		return e.k2
	}
	return e.k1
}

func (e *env) keyring(names ...string) (arm []string) {
	arm = []string{}
	for _, n := range names {
		if n == NilRing {
			continue
		}
		arm = append(arm, e.key(n).Public)
	}
	return
}

// sigMember makes "_gpg<role>" signed by key over covers.
func (e *env) sigMember(role, key string, covers []byte) (gen.ArMember, SigInfo) {
	k := e.key(key)
	sig, err := k.DetachSign(covers)
	if err != nil {
		e.r.HarnessError("DetachSign: %v", err)
	}
	return gen.ArMember{Name: "_gpg" + role, Data: sig}, SigInfo{Role: role, Signer: k.Fingerprint, SignerName: k.Name, Covers: covers}
}

func (e *env) newBase(cc, dc, binary string) (base, error) {
	m, exp := c14.SampleModel(cc, dc)
	name := cc + "/" + dc
	if binary != "" {
		m.Binary = binary
		name += fmt.Sprintf(" debian-binary=%q", binary)
	}
	mem, err := m.Members(e.c)
	if err != nil {
		return base{}, err
	}
	return base{name: name, model: m, exp: exp, mem: mem}, nil
}

// mk builds an input from a member list.
func (e *env) mk(b base, kind, name, fault string, members []gen.ArMember, sigs []SigInfo, ask string, keys []string, orders bool) In {
	if keys == nil {
		keys = []string{}
	}
	return In{Name: b.name + " " + name, Kind: kind, Fault: fault, Model: b.model, Exp: b.exp, Sigs: sigs, Ask: ask,
		Keyring: e.keyring(keys...), KeyringNames: keys, Orders: orders, Deb: gen.BuildAr(members)}
}

// askedFor: the roles requested for a package in which role r is present: r itself, every other real role, and
// near-misses of r, all of which are absent.
func askedFor(r string, all []string) []string {
	out := append([]string{}, all...)
	title := strings.ToUpper(r[:1]) + r[1:]
	for _, a := range []string{r, "_gpg" + r, "gpg" + r, r + "x", r + "s", r + "-security", r[:len(r)-1], strings.ToUpper(r), title, r + " ", " " + r, r + "\x00", "", "_gpg", r + r, r + "/"} {
		if !has(out, a) {
			out = append(out, a)
		}
	}
	return out
}

// otherRings: besides the signer's own ring [K1] every tampering scenario is also run with the signer among others
// (first / last), an unrelated ring, the empty non-nil list and the nil list.
var otherRings = [][]string{{"K1", "K2"}, {"K2", "K1"}, {"K2"}, {}, {NilRing}}

// widen appends, for every stride-th input, copies under the other keyrings (package bytes are shared).
func (e *env) widen(ins []In, stride int, rings [][]string) []In {
	n := len(ins)
	for i := 0; i < n; i += stride {
		for _, kr := range rings {
			in := ins[i]
			in.KeyringNames = append([]string{}, kr...)
			in.Keyring = e.keyring(kr...)
			in.Name += fmt.Sprintf(" [keyring %v]", kr)
			ins = append(ins, in)
		}
	}
	return ins
}

func insertAt(ms []gen.ArMember, pos int, extra ...gen.ArMember) []gen.ArMember {
	out := append([]gen.ArMember(nil), ms[:pos]...)
	out = append(out, extra...)
	return append(out, ms[pos:]...)
}

// expectVerify: the input is an untampered package asked for a present role with the signer in the keyring.
func expectVerify(in In) bool {
	if in.Kind != "matrix" {
		return false
	}
	for _, s := range in.Sigs {
		if s.Role == in.Ask && has(in.KeyringNames, s.SignerName) {
			return true
		}
	}
	return false
}

func simpleClass(o Outcome) string {
	c := o.Class()
	if strings.HasPrefix(c, "verified") {
		return "verified"
	}
	return c
}

// runIns checks inputs inside one shard.
func runIns(r *mc.Run, scen string, ins []In, st *mc.Stats) bool {
	for i, in := range ins {
		if r.Expired() {
			return false
		}
		vs, outs := Check(scen, in)
		if len(outs) == 0 {
			for _, v := range vs {
				st.Violate(v)
			}
			return false // the process has seen a hang (or the keyring was unreadable): stop
		}
		st.Evals += int64(len(outs))
		st.Traces += int64(len(outs))
		st.Transitions += int64(len(outs))
		st.States++
		if !expectVerify(in) {
			// counted by the case's label (unique per enumerated variant), not by its bytes: the keys - hence the signature
			// bytes - differ from run to run, and two faults of a signature byte may or may not coincide
			st.DistinctNontrivial(scen + "|" + in.Name + "|" + in.Ask + "|" + strings.Join(in.KeyringNames, ",") + "|" + fmt.Sprint(in.Calls))
		}
		classes := map[string]bool{}
		for _, o := range outs {
			classes[simpleClass(o)] = true
		}
		for c := range classes {
			if c == "verified" {
				switch {
				case len(vs) > 0:
					c = "verified-UNSOUND"
				case expectVerify(in):
					c = "verified-as-it-should"
				default:
					c = "verified-sound (content untouched)"
				}
			}
			st.Class(in.Kind + ":" + c)
		}
		if in.Orders {
			st.Class(fmt.Sprintf("%s:outcome-set-size-%d", in.Kind, len(classesOf(outs))))
		}
		for _, v := range vs {
			st.Violate(v)
		}
		if len(outs) > 0 && st.WantSample() && (i%29 == 3 || len(vs) > 0) {
			st.Sample(map[string]interface{}{"case": in.Name, "fault": in.Fault, "ask": in.Ask, "keyring": in.KeyringNames, "bytes": len(in.Deb), "observed": outs[0].Brief()})
		}
	}
	return true
}

func classesOf(outs []Outcome) map[string]bool {
	m := map[string]bool{}
	for _, o := range outs {
		m[o.Class()] = true
	}
	return m
}

func chunk(ins []In, n int) [][]In {
	var out [][]In
	for len(ins) > 0 {
		k := n
		if k > len(ins) {
			k = len(ins)
		}
		out = append(out, ins[:k])
		ins = ins[k:]
	}
	return out
}

func (e *env) scenario(name string, bounds map[string]interface{}, ins []In, per int) {
	bounds["inputs"] = len(ins)
	ch := chunk(ins, per)
	e.r.Scenario(name, bounds, len(ch), func(i int, st *mc.Stats) bool { return runIns(e.r, name, ch[i], st) })
}

func Run(r *mc.Run) {
	c14.MapOrderBound = 2
	defer func() {
		r.Extra["map_order_executions_explicit"] = atomic.LoadInt64(&c14.MapOrderExecs)
		r.Extra["map_order_calls_capped"] = atomic.LoadInt64(&c14.MapOrderCapped)
		r.Extra["map_orders"] = c14.MapOrderNote
	}()
	r.Rule = "every enumerated (package bytes, role asked, keyring) triple is executed through LoadAndVerify = deb.Load + drain Deb.Data + Deb.CheckDebsig; distinct cases are counted by sha256 of the triple; non-trivial = every case except the untampered package asked for its own role with the signer in the keyring (those are the vacuity guard)"
	r.Assume = []string{
		"soundness oracle only: nothing is demanded when Load or CheckDebsig fails; when both succeed the signer, the role, the signed byte string and the exposed content are compared with what the harness built",
		"signatures are binary detached RSA-1024/SHA-256 signatures made by golang.org/x/crypto/openpgp (cross-checked with gpgv when installed); forging is out of scope, only the enumerated tamperings are explored",
		"the payload is read before CheckDebsig is called (both use the data member's section reader)",
		"a byte altered inside the _gpg member itself may leave a signature that still verifies (redundant encoding); that is sound because the three signed members are untouched, and is counted in the histogram",
		c14.MapOrderNote,
	}
	r.Extra["map_orders"] = c14.MapOrderNote
	e := &env{r: r, c: gen.NewDebCompressor()}
	var err error
	if e.k1, err = gen.NewPGPKey("K1"); err != nil {
		r.HarnessError("key generation: %v", err)
		return
	}
	if e.k2, err = gen.NewPGPKey("K2"); err != nil {
		r.HarnessError("key generation: %v", err)
		return
	}
	r.Extra["keys"] = map[string]string{"K1": e.k1.Fingerprint, "K2": e.k2.Fingerprint}

	// the last column is the content of debian-binary ("" = the usual "2.0\n"); deb(5) allows further lines, the loader
	// reads only the first, and the signer signs the whole member
	pairs := [][3]string{{"gz", "gz", ""}, {"none", "none", ""}, {"gz", "gz", "2.0\nextra line\n"}}
	if !r.Quick() {
		pairs = append(pairs, [3]string{"xz", "zst", ""}, [3]string{"none", "none", "2.0\n\n"})
	}
	var bases []base
	for _, p := range pairs {
		b, err := e.newBase(p[0], p[1], p[2])
		if err != nil {
			fmt.Fprintf(os.Stderr, "C16: base %s/%s not covered: %v\n", p[0], p[1], err)
			r.Extra["base_not_covered_"+p[0]+"_"+p[1]] = err.Error()
			continue
		}
		bases = append(bases, b)
	}
	if len(bases) == 0 {
		r.HarnessError("no base package could be built")
		return
	}
	gpgvCross(e, bases[0])

	// ---- vacuity guard: the untampered package must verify
	var vac []string
	for _, b := range bases {
		sm, si := e.sigMember("origin", "K1", b.signed())
		in := e.mk(b, "matrix", "untampered", "", append(append([]gen.ArMember(nil), b.mem...), sm), []SigInfo{si}, "origin", []string{"K1"}, false)
		_, outs := Check("vacuity-guard", in)
		if len(outs) != 1 || !outs[0].Loaded || !outs[0].VerifyOK {
			msg := "untampered package " + b.name + " does not verify"
			if len(outs) == 1 {
				msg += ": " + outs[0].Brief()
			}
			vac = append(vac, msg)
			fmt.Fprintln(os.Stderr, "C16: VACUOUS:", msg)
		}
	}
	r.Extra["vacuous"] = len(vac) > 0
	if len(vac) > 0 {
		r.Extra["vacuity_reasons"] = vac
	}

	// ---- scenario 1: role present x role asked x keyring
	// present roles: the three debsig roles and roles whose member name "_gpg"+role is 5, 15 and 16 bytes long (the last
	// fills the ar name column exactly)
	allRoles := append([]string{}, roles...)
	allRoles = append(allRoles, "x", "maintainers", "distribution")
	for _, a := range auditRoles(3) {
		allRoles = append(allRoles, strings.TrimPrefix(a, "_gpg"))
	}
	r.Extra["alphabet_audit"] = audit.Evidence()
	keyrings := [][]string{{"K1"}, {"K2"}, {"K1", "K2"}, {"K2", "K1"}, {}, {NilRing}}
	seqKeyrings := [][]string{{"K1"}, {"K2"}, {"K1", "K2"}, {}, {NilRing}}
	var ins []In
	for _, b := range bases {
		for _, pos := range []string{"end", "after-debian-binary"} {
			place := func(sms ...gen.ArMember) []gen.ArMember {
				if pos == "end" {
					return append(append([]gen.ArMember(nil), b.mem...), sms...)
				}
				return insertAt(b.mem, 1, sms...)
			}
			for _, present := range allRoles {
				sm, si := e.sigMember(present, "K1", b.signed())
				for _, ask := range askedFor(present, allRoles) {
					for _, kr := range keyrings {
						ins = append(ins, e.mk(b, "matrix", fmt.Sprintf("signed %s by K1 (sig %s), ask %s, keyring %v", present, pos, ask, kr), "", place(sm), []SigInfo{si}, ask, kr, false))
					}
				}
			}
			// two signatures, and the same two with their member names swapped
			smO, siO := e.sigMember("origin", "K1", b.signed())
			smM, siM := e.sigMember("maint", "K2", b.signed())
			swO, swM := smO, smM
			swO.Name, swM.Name = "_gpgmaint", "_gpgorigin"
			xO, xM := siO, siM
			xO.Role, xM.Role = "maint", "origin"
			for _, ask := range askedFor("origin", allRoles) {
				for _, kr := range keyrings {
					ins = append(ins, e.mk(b, "matrix", fmt.Sprintf("origin by K1 + maint by K2 (sig %s), ask %s, keyring %v", pos, ask, kr), "", place(smO, smM), []SigInfo{siO, siM}, ask, kr, false))
					ins = append(ins, e.mk(b, "matrix", fmt.Sprintf("roles swapped: _gpgmaint holds K1's, _gpgorigin holds K2's signature (sig %s), ask %s, keyring %v", pos, ask, kr), "signature members renamed into each other", place(swO, swM), []SigInfo{xO, xM}, ask, kr, false))
				}
			}
		}
	}
	e.scenario("role-keyring-matrix", map[string]interface{}{"bases": names(bases), "role_present": allRoles, "role_asked": fmt.Sprintf("for a present role r: %q", askedFor("<r>", allRoles)), "keyrings": keyrings,
		"signature_member_position": []string{"end", "after-debian-binary"}, "extra": "two-signature package and the same with the two signature members' names swapped"}, ins, 8)

	// ---- scenario 1b: CALL SEQUENCES on one loaded Deb: all sequences of <= 3 CheckDebsig calls over
	// (role in {origin, maint, archive, ""}) x (keyring in {[K1],[K2],[K1,K2],{}}), for a package signed by K1 as origin and
	// for one signed twice (origin by K1, maint by K2). Each call is judged independently of the history.
	{
		seqRoles := []string{"origin", "maint", "archive", ""}
		for _, a := range auditRoles(1) {
			seqRoles = append(seqRoles, strings.TrimPrefix(a, "_gpg"))
		}
		var alphabet []Call
		for _, ro := range seqRoles {
			for _, kr := range seqKeyrings {
				alphabet = append(alphabet, Call{Ask: ro, KeyringNames: append([]string{}, kr...)})
			}
		}
		type seqPkg struct {
			b    base
			name string
			deb  []byte
			sigs []SigInfo
		}
		var pkgs []seqPkg
		nSeqBases := r.Pick(1, 2)
		for _, b := range bases[:nSeqBases] {
			smO, siO := e.sigMember("origin", "K1", b.signed())
			smM, siM := e.sigMember("maint", "K2", b.signed())
			pkgs = append(pkgs,
				seqPkg{b, "signed origin by K1", gen.BuildAr(append(append([]gen.ArMember(nil), b.mem...), smO)), []SigInfo{siO}},
				seqPkg{b, "signed origin by K1 and maint by K2", gen.BuildAr(append(append([]gen.ArMember(nil), b.mem...), smO, smM)), []SigInfo{siO, siM}})
		}
		keysArm := map[string]string{"K1": e.k1.Public, "K2": e.k2.Public}
		maxLen := 3
		nSeq := 0
		for l, p := 1, len(alphabet); l <= maxLen; l, p = l+1, p*len(alphabet) {
			nSeq += p
		}
		mkSeq := func(pk seqPkg, calls []Call) In {
			var parts []string
			for _, c := range calls {
				parts = append(parts, c.String())
			}
			return In{Name: pk.b.name + " " + pk.name + ": " + strings.Join(parts, "; "), Kind: "sequence", Model: pk.b.model, Exp: pk.b.exp, Sigs: pk.sigs,
				Keyring: []string{}, KeyringNames: []string{}, Deb: pk.deb, Calls: append([]Call(nil), calls...), Keys: keysArm}
		}
		// one shard per (package, first call): the sequence [first] and all its extensions
		e.r.Scenario("call-sequences", map[string]interface{}{"packages": []string{"signed origin by K1", "signed origin by K1 and maint by K2"}, "bases": names(bases[:nSeqBases]),
			"roles": seqRoles, "keyrings": seqKeyrings, "calls_alphabet": len(alphabet), "max_calls": maxLen, "sequences_per_package": nSeq,
			"oracle": "each call judged alone: success only if the asked role's member exists and is a signature by a key in the keyring passed to THAT call over the exposed members; failures are never objected to"},
			len(pkgs)*len(alphabet), func(si int, st *mc.Stats) bool {
				pk, first := pkgs[si/len(alphabet)], alphabet[si%len(alphabet)]
				ins := []In{mkSeq(pk, []Call{first})}
				for _, c2 := range alphabet {
					ins = append(ins, mkSeq(pk, []Call{first, c2}))
					for _, c3 := range alphabet {
						ins = append(ins, mkSeq(pk, []Call{first, c2, c3}))
					}
				}
				return runIns(e.r, "call-sequences", ins, st)
			})
	}

	// ---- scenario 1c: PATHNAMES that lead to another, genuinely signed package (one worker: one mode changes the working
	// directory). The bytes that are loaded are tampered / differently signed / unsigned; verification must be about them.
	{
		var pins []In
		for _, b := range bases[:2] {
			smG, siG := e.sigMember("origin", "K1", b.signed())
			goodDeb := gen.BuildAr(append(append([]gen.ArMember(nil), b.mem...), smG))
			evilCtl, err1 := e.c.Compress(b.model.ControlComp, gen.DebModel{Fields: []gen.DebField{{Key: "Package", Value: "evil"}, {Key: "Version", Value: "9"}, {Key: "Architecture", Value: "all"}}}.ControlTar())
			evilDat, err2 := e.c.Compress(b.model.DataComp, gen.BuildTar([]gen.TarEntry{{Name: "./etc/cron.d/evil", Body: []byte("* * * * * root true\n")}}))
			if err1 != nil || err2 != nil {
				r.HarnessError("path scenario content: %v %v", err1, err2)
				break
			}
			repl := func(i int, d []byte) []gen.ArMember {
				ms := append([]gen.ArMember(nil), b.mem...)
				ms[i].Data = d
				return ms
			}
			k2members := repl(1, evilCtl)
			var k2signed []byte
			for _, m := range k2members {
				k2signed = append(k2signed, m.Data...)
			}
			smK2, siK2 := e.sigMember("origin", "K2", k2signed)
			type tv struct {
				name string
				ms   []gen.ArMember
				sigs []SigInfo
			}
			tvs := []tv{
				{"attacker's control, the good signature member copied", append(repl(1, evilCtl), smG), []SigInfo{siG}},
				{"attacker's data, the good signature member copied", append(repl(2, evilDat), smG), []SigInfo{siG}},
				{"debian-binary with a further line, the good signature member copied", append(repl(0, []byte("2.0\nevil\n")), smG), []SigInfo{siG}},
				{"attacker's control, genuinely signed by K2 (keyring holds K1 only)", append(k2members, smK2), []SigInfo{siK2}},
				{"attacker's control, no signature member at all", repl(1, evilCtl), nil},
			}
			for _, mode := range []string{"load-under-good-abs-path", "load-under-good-rel-path", "loadfile-then-replaced"} {
				for _, t := range tvs {
					in := e.mk(b, "path", mode+": "+t.name, "the loaded bytes: "+t.name+"; the pathname leads to the genuine package signed by K1", t.ms, t.sigs, "origin", []string{"K1"}, false)
					in.PathMode, in.Good = mode, goodDeb
					if len(t.sigs) == 1 && t.sigs[0].SignerName == "K2" {
						// what K2 signed is the attacker's control: that is this input's signed content
						in.Model.Fields = []gen.DebField{{Key: "Package", Value: "evil"}, {Key: "Version", Value: "9"}, {Key: "Architecture", Value: "all"}}
						in.Exp = c14.Expect{Package: "evil", Upstream: "9", Arch: "all"}
					}
					pins = append(pins, in)
				}
			}
		}
		pins = e.widen(pins, 1, [][]string{{"K1", "K2"}, {NilRing}})
		e.r.Scenario("pathname-confusion", map[string]interface{}{"bases": names(bases[:2]), "modes": []string{"load-under-good-abs-path", "load-under-good-rel-path (chdir)", "loadfile-then-replaced (atomic rename before CheckDebsig)"},
			"loaded_bytes": []string{"attacker's control + copied signature", "attacker's data + copied signature", "debian-binary extended + copied signature", "signed by K2", "unsigned"},
			"keyrings":     "[K1], [K1 K2], nil", "workers": 1, "inputs": len(pins)}, 1, func(_ int, st *mc.Stats) bool { return runIns(e.r, "pathname-confusion", pins, st) })
	}

	// ---- scenario 2: every byte of the three signed members and of the signature member, 2 (thorough 3) other values;
	// ---- scenario 2b: length-changing faults of the same four members: a byte inserted at every position (2 values),
	// the byte at every position deleted, truncation at every position, and a list of appended suffixes.
	// Inputs are generated inside the shards (position chunks) so that they are never all in memory.
	xors := []byte{0x01, 0x80}
	if !r.Quick() {
		xors = append(xors, 0xff)
	}
	suffixes := []string{"\n", "x", "\x00", "\n\n", "xy", "extra line\n", "2.0\n", strings.Repeat("\x00", 512)}
	for _, n := range gen.AuditInts(1, 1<<16, 6) { // alphabet audit: new integer literals as appended lengths
		suffixes = append(suffixes, strings.Repeat("\x00", int(n)))
	}
	for _, a := range gen.AuditStrings(gen.OneLine, 3) {
		suffixes = append(suffixes, a, a+"\n")
	}
	inserted := []byte{0x00, 'x'}
	type fshard struct {
		b      int
		mi     int
		kind   string // xor | insert | delete | truncate | append
		lo, hi int
	}
	fulls := make([][]gen.ArMember, len(bases))
	sis := make([]SigInfo, len(bases))
	for bi, b := range bases {
		sm, si := e.sigMember("origin", "K1", b.signed())
		fulls[bi] = append(append([]gen.ArMember(nil), b.mem...), sm)
		sis[bi] = si
	}
	const chunkLen = 128
	faultRingStride := r.Pick(16, 4) // every n-th faulted position is also run under the five other keyrings
	var xorShards, lenShards []fshard
	positions := 0
	for bi := range bases {
		for mi := range fulls[bi] {
			n := len(fulls[bi][mi].Data)
			positions += n
			for lo := 0; lo < n; lo += chunkLen {
				hi := lo + chunkLen
				if hi > n {
					hi = n
				}
				xorShards = append(xorShards, fshard{bi, mi, "xor", lo, hi})
				for _, k := range []string{"insert", "delete", "truncate"} {
					lenShards = append(lenShards, fshard{bi, mi, k, lo, hi})
				}
			}
			// inserting after the last byte = appending one byte: covered by the suffix list
			lenShards = append(lenShards, fshard{bi, mi, "append", 0, len(suffixes)})
		}
	}
	genFaults := func(sh fshard) []In {
		b, full, si := bases[sh.b], fulls[sh.b], sis[sh.b]
		orig := full[sh.mi].Data
		name := full[sh.mi].Name
		var out []In
		emit := func(label, fault string, d []byte) {
			ms := append([]gen.ArMember(nil), full...)
			ms[sh.mi].Data = d
			out = append(out, e.mk(b, "byte-fault", label, fault, ms, []SigInfo{si}, "origin", []string{"K1"}, false))
		}
		for i := sh.lo; i < sh.hi; i++ {
			switch sh.kind {
			case "xor":
				for _, x := range xors {
					d := append([]byte(nil), orig...)
					d[i] ^= x
					emit(fmt.Sprintf("%s[%d]^=%#02x", name, i, x), fmt.Sprintf("byte %d of member %s xor %#02x", i, name, x), d)
				}
			case "insert":
				for _, v := range inserted {
					d := append(append(append([]byte(nil), orig[:i]...), v), orig[i:]...)
					emit(fmt.Sprintf("%s insert %#02x at %d", name, v, i), fmt.Sprintf("byte %#02x inserted before offset %d of member %s", v, i, name), d)
				}
			case "delete":
				d := append(append([]byte(nil), orig[:i]...), orig[i+1:]...)
				emit(fmt.Sprintf("%s delete [%d]", name, i), fmt.Sprintf("byte %d of member %s deleted", i, name), d)
			case "truncate":
				emit(fmt.Sprintf("%s truncated to %d", name, i), fmt.Sprintf("member %s truncated to its first %d bytes", name, i), append([]byte(nil), orig[:i]...))
			case "append":
				sfx := suffixes[i]
				emit(fmt.Sprintf("%s + %d bytes %.12q", name, len(sfx), sfx), fmt.Sprintf("%d bytes %.20q appended to member %s", len(sfx), sfx, name), append(append([]byte(nil), orig...), sfx...))
			}
		}
		if sh.kind == "append" {
			return e.widen(out, 1, otherRings)
		}
		return e.widen(out, faultRingStride, otherRings)
	}
	e.r.Scenario("byte-faults", map[string]interface{}{"bases": names(bases), "members": "debian-binary, control.tar*, data.tar*, _gpgorigin", "byte_positions": positions, "xor_values": fmt.Sprintf("%#v", xors),
		"keyrings": fmt.Sprintf("[K1] for every fault; %v for every %d-th faulted input", otherRings, faultRingStride)},
		len(xorShards), func(i int, st *mc.Stats) bool { return runIns(e.r, "byte-faults", genFaults(xorShards[i]), st) })
	e.r.Scenario("length-faults", map[string]interface{}{"bases": names(bases), "members": "debian-binary, control.tar*, data.tar*, _gpgorigin", "byte_positions": positions,
		"insert_values_at_every_position": fmt.Sprintf("%#v", inserted), "delete_at_every_position": true, "truncate_at_every_position": true, "appended_suffixes": suffixes,
		"keyrings": fmt.Sprintf("[K1] for every fault; %v for every %d-th faulted input and for every appended suffix", otherRings, faultRingStride)},
		len(lenShards), func(i int, st *mc.Stats) bool { return runIns(e.r, "length-faults", genFaults(lenShards[i]), st) })

	// ---- scenario 3: decoy control.* / data.* members at every position, each under the explored map orders
	ins = nil
	var sized []In
	for _, b := range bases {
		sm, si := e.sigMember("origin", "K1", b.signed())
		full := append(append([]gen.ArMember(nil), b.mem...), sm)
		for _, dc := range e.decoys(b, r.Quick()) {
			for pos := 0; pos <= len(full); pos++ {
				in := e.mk(b, "decoy", fmt.Sprintf("decoy %s at position %d", dc.name, pos), "inserted "+dc.name+" at member position "+fmt.Sprint(pos),
					insertAt(full, pos, dc.mem...), []SigInfo{si}, "origin", []string{"K1"}, true)
				if strings.HasSuffix(dc.name, " bytes)") {
					// the decoy-SIZE variants: signer's keyring only; quick: before, between and after
					if !r.Quick() || pos == 0 || pos == 2 || pos == len(full) {
						sized = append(sized, in)
					}
					continue
				}
				ins = append(ins, in)
			}
		}
	}
	ins = append(e.widen(ins, 1, otherRings), sized...)
	e.scenario("decoy-members", map[string]interface{}{"keyrings": fmt.Sprintf("[K1] and %v", otherRings), "bases": names(bases), "decoys": decoyNames(e, bases[0], r.Quick()), "positions": "every member position 0..4",
		"orders": c14.MapOrderNote, "repetitions_per_variant": c14.MapOrderReps}, ins, 1)

	// ---- scenario 3a: decoy NAME alphabet - an extra member whose name is a near-variant of control.tar* / data.tar*
	// (letter case, "./" prefix, trailing slash, trailing NUL, leading blank), holding the attacker's tar, before /
	// between / after the real members, under the explored map orders. (The exact-prefix second members are in
	// decoy-members above.) On a loader that matches names exactly these are just extra members.
	ins = nil
	nameDecoys := map[string][]string{}
	for _, b := range bases[:2] {
		sm, si := e.sigMember("origin", "K1", b.signed())
		full := append(append([]gen.ArMember(nil), b.mem...), sm)
		evil := gen.DebModel{Fields: []gen.DebField{{Key: "Package", Value: "evil"}, {Key: "Version", Value: "9"}, {Key: "Architecture", Value: "all"}}}
		evilDataTar := gen.BuildTar([]gen.TarEntry{{Name: "./etc/cron.d/evil", Body: []byte("* * * * * root true\n")}})
		variants := func(stem string) []string { // stem = "control" | "data"
			up := strings.ToUpper(stem[:1]) + stem[1:]
			inv := strings.ToLower(stem[:1]) + strings.ToUpper(stem[1:])
			// prefix-extension variants (the name goes on after the stem before ".tar") and names that merely END like the real ones
			ext := []string{stem + "2.tar.gz", stem + "x.tar", stem + "-o.tar.gz", stem + "_1.tar", stem + "s.tar", stem + "base.tar", "x" + stem + ".tar", "my" + stem + ".tar.gz", stem + "2.tar"}
			return append(ext, up+".tar", strings.ToUpper(stem)+".TAR", strings.ToUpper(stem)+".TAR.GZ", up+".tar.gz", inv+".tar", stem+".TAR",
				"./"+stem+".tar", stem+".tar/", stem+".tar\x00", " "+stem+".tar", stem+".Tar.gz")
		}
		for _, stem := range []string{"control", "data"} {
			raw := evil.ControlTar()
			if stem == "data" {
				raw = evilDataTar
			}
			for _, n := range append(variants(stem), auditMemberNames(2)...) {
				if len(n) > 16 {
					continue
				}
				comp := "none"
				if strings.HasSuffix(strings.ToLower(strings.TrimRight(n, "/\x00")), ".gz") {
					comp = "gz"
				}
				z, err := e.c.Compress(comp, raw)
				if err != nil {
					r.HarnessError("decoy name content: %v", err)
					continue
				}
				if !has(nameDecoys[stem], n) {
					nameDecoys[stem] = append(nameDecoys[stem], n)
				}
				poss := []int{0, 2, len(full)}
				if r.Quick() {
					poss = []int{0, len(full)} // quick: before and after; thorough also between
				}
				for _, pos := range poss {
					ins = append(ins, e.mk(b, "decoy", fmt.Sprintf("decoy %q (attacker's %s tar, %s) at position %d", n, stem, comp, pos),
						fmt.Sprintf("inserted member %q holding the attacker's %s tar at position %d", n, stem, pos),
						insertAt(full, pos, gen.ArMember{Name: n, Data: z}), []SigInfo{si}, "origin", []string{"K1"}, true))
				}
			}
		}
	}
	c14.MapOrderBound = r.Pick(1, 2)
	e.scenario("decoy-names", map[string]interface{}{"bases": names(bases[:2]), "names": nameDecoys, "positions": "before (0), after (end); thorough also between (2)",
		"content": "the attacker's control / data tar, stored or gzip according to the (lower-cased) suffix", "map_order_deviation_bound": c14.MapOrderBound, "orders": c14.MapOrderNote}, ins, 1)
	c14.MapOrderBound = 2

	// ---- scenario 3b: SWAPS - a member's content is replaced by the attacker's and the originally signed bytes stay in
	// the archive under another name (so a verifier that selects members differently from the loader could still find
	// them); for each of the four members, each name of a name alphabet, every position, under the explored map orders.
	ins = nil
	altNames := func(name string) []string {
		cands := []string{"_" + name, "old-" + name, "x" + name, name + ".orig", "." + name, strings.ToUpper(name)}
		switch {
		case strings.HasSuffix(name, ".tar.gz"):
			cands = append(cands, strings.TrimSuffix(name, ".gz")+".xz", strings.TrimSuffix(name, ".gz"))
		case strings.HasSuffix(name, ".tar"):
			cands = append(cands, name+".gz", name+".xz")
		}
		cands = append(cands, auditMemberNames(4)...)
		var out []string
		for _, c := range cands {
			if len(c) <= 16 && c != name && !has(out, c) {
				out = append(out, c)
			}
		}
		return out
	}
	swapNames := map[string][]string{}
	for _, b := range bases[:2] {
		sm, si := e.sigMember("origin", "K1", b.signed())
		full := append(append([]gen.ArMember(nil), b.mem...), sm)
		dcs := e.decoys(b, true)
		evilCtl, err1 := e.c.Compress(b.model.ControlComp, gen.DebModel{Fields: []gen.DebField{{Key: "Package", Value: "evil"}, {Key: "Version", Value: "9"}, {Key: "Architecture", Value: "all"}}}.ControlTar())
		evilDat, err2 := e.c.Compress(b.model.DataComp, gen.BuildTar([]gen.TarEntry{{Name: "./etc/cron.d/evil", Body: []byte("* * * * * root true\n")}}))
		if err1 != nil || err2 != nil {
			r.HarnessError("swap content: %v %v", err1, err2)
			break
		}
		// alphabet audit: a further member under a name the change introduced, holding the attacker's control tar
		for _, a := range auditMemberNames(4) {
			for pos := 0; pos <= len(full); pos++ {
				ins = append(ins, e.mk(b, "decoy", fmt.Sprintf("audit: further member %q at position %d", a, pos), "inserted member "+a+" (attacker's control tar) at position "+fmt.Sprint(pos),
					insertAt(full, pos, gen.ArMember{Name: a, Data: dcs[1].mem[0].Data}), []SigInfo{si}, "origin", []string{"K1"}, true))
			}
		}
		sm2, si2 := e.sigMember("origin", "K2", b.signed())
		repl := [][]byte{[]byte("2.0\nevil\n"), evilCtl, evilDat, sm2.Data}
		for mi := range full {
			alts := altNames(full[mi].Name)
			swapNames[full[mi].Name] = alts
			for _, alt := range alts {
				for pos := 0; pos <= len(full); pos++ {
					if r.Quick() && pos%2 == 1 {
						continue // quick: positions 0, 2, 4 (before, between, after); thorough: every position
					}
					ms := append([]gen.ArMember(nil), full...)
					ms[mi].Data = repl[mi]
					ms = insertAt(ms, pos, gen.ArMember{Name: alt, Data: full[mi].Data})
					sigs := []SigInfo{si}
					if mi == 3 {
						sigs = []SigInfo{si2} // _gpgorigin now holds K2's signature; K1's is kept under the other name; keyring stays [K1]
					}
					ins = append(ins, e.mk(b, "swap", fmt.Sprintf("%s replaced, original kept as %s at position %d", full[mi].Name, alt, pos),
						fmt.Sprintf("content of %s replaced by the attacker's; the signed original kept as member %q at position %d", full[mi].Name, alt, pos),
						ms, sigs, "origin", []string{"K1"}, true))
				}
			}
		}
	}
	swapRings := [][]string{{NilRing}}
	if !r.Quick() {
		swapRings = [][]string{{"K2", "K1"}, {}, {NilRing}}
	}
	ins = e.widen(ins, r.Pick(3, 5), swapRings)
	c14.MapOrderBound = r.Pick(1, 2)
	e.scenario("swapped-members", map[string]interface{}{"keyrings": fmt.Sprintf("[K1] for every variant; %v for position 0 of every (member, name)", swapRings), "bases": names(bases[:2]), "kept_original_names": swapNames, "positions": "quick: 0, 2, 4 (before, between, after); thorough: every member position 0..4",
		"replacement":                "debian-binary -> \"2.0\\nevil\\n\"; control/data -> the attacker's tar in the same encoding; _gpgorigin -> K2's signature (keyring stays [K1])",
		"names_longer_than_16_bytes": "dropped (ar name field)", "map_order_deviation_bound": c14.MapOrderBound, "orders": c14.MapOrderNote}, ins, 1)
	c14.MapOrderBound = 2

	// ---- scenario 4: signed or signature members renamed
	ins = nil
	for _, b := range bases {
		sm, si := e.sigMember("origin", "K1", b.signed())
		full := append(append([]gen.ArMember(nil), b.mem...), sm)
		type rn struct {
			idx int
			to  string
		}
		cn, dn := b.mem[1].Name, b.mem[2].Name
		var rns []rn
		for _, to := range []string{"control.tar", "control.tar.gz", "control.tar.xz", "control.tar.zst", "control.tgz", "xcontrol.tar.gz", "control"} {
			if to != cn {
				rns = append(rns, rn{1, to})
			}
		}
		for _, to := range []string{"data.tar", "data.tar.gz", "data.tar.bz2", "data.tar.zst", "data.tar.lzma", "data", "xdata.tar"} {
			if to != dn {
				rns = append(rns, rn{2, to})
			}
		}
		rns = append(rns, rn{0, "debian-binar"}, rn{0, "debian_binary"}, rn{3, "_gpgmaint"}, rn{3, "_gpgarchive"}, rn{3, "_gpgOrigin"}, rn{3, "_gpg"}, rn{3, "gpgorigin"}, rn{3, "_gpgorigin2"})
		for _, x := range rns {
			ms := append([]gen.ArMember(nil), full...)
			ms[x.idx].Name = x.to
			sis := []SigInfo{si}
			if x.idx == 3 {
				sis[0].Role = strings.TrimPrefix(x.to, "_gpg")
				if !strings.HasPrefix(x.to, "_gpg") {
					sis = nil
				}
			}
			asks := []string{"origin"}
			if x.idx == 3 {
				asks = append(append([]string{}, roles...), "", "Origin", "origin2")
			}
			for _, ask := range asks {
				ins = append(ins, e.mk(b, "rename", fmt.Sprintf("%s renamed %s, ask %q", full[x.idx].Name, x.to, ask), "member "+full[x.idx].Name+" renamed to "+x.to, ms, sis, ask, []string{"K1"}, false))
			}
		}
		// member order changed (the signature is defined over binary‖control‖data whatever the file order)
		for _, perm := range [][]int{{0, 2, 1, 3}, {3, 0, 1, 2}, {1, 0, 2, 3}, {2, 1, 0, 3}} {
			var ms []gen.ArMember
			for _, i := range perm {
				ms = append(ms, full[i])
			}
			ins = append(ins, e.mk(b, "rename", fmt.Sprintf("member order %v", perm), "members reordered", ms, []SigInfo{si}, "origin", []string{"K1"}, false))
		}
	}
	ins = e.widen(ins, 1, otherRings)
	e.scenario("renames", map[string]interface{}{"keyrings": fmt.Sprintf("[K1] and %v", otherRings), "bases": names(bases), "what": "each signed member and the signature member renamed (other encodings, near-miss names), roles asked {origin,maint,archive,\"\",Origin,origin2} for renamed signatures, 4 member reorderings"}, ins, 8)

	// ---- scenario 5: a valid signature by K1 over some OTHER concatenation
	ins = nil
	for _, b := range bases {
		bin, ctl, dat := b.mem[0].Data, b.mem[1].Data, b.mem[2].Data
		cat := func(parts ...[]byte) []byte { return bytes.Join(parts, nil) }
		alts := []struct {
			name string
			b    []byte
		}{
			{"control‖data (no debian-binary)", cat(ctl, dat)}, {"debian-binary‖control", cat(bin, ctl)}, {"debian-binary‖data", cat(bin, dat)},
			{"debian-binary", bin}, {"control", ctl}, {"data", dat}, {"the empty string", nil},
			{"data‖control‖debian-binary", cat(dat, ctl, bin)}, {"debian-binary‖data‖control", cat(bin, dat, ctl)}, {"control‖debian-binary‖data", cat(ctl, bin, dat)},
			{"debian-binary‖control‖data‖\"x\"", cat(bin, ctl, dat, []byte("x"))}, {"all but the last byte", cat(bin, ctl, dat[:len(dat)-1])},
			{"all but the first byte", cat(bin, ctl, dat)[1:]}, {"the whole .deb file", gen.BuildAr(b.mem)},
			{"debian-binary‖control‖data twice", cat(bin, ctl, dat, bin, ctl, dat)},
		}
		// what a verifier that forgot to rewind would hash: the part of each member the loader has not consumed
		if para := gen.RenderDebControl(b.model.Fields); bytes.Contains(ctl, para) {
			rest := ctl[bytes.Index(ctl, para)+len(para):]
			alts = append(alts, struct {
				name string
				b    []byte
			}{"the unread rest of the control member", rest}, struct {
				name string
				b    []byte
			}{"debian-binary‖unread rest of control‖data", cat(bin, rest, dat)}, struct {
				name string
				b    []byte
			}{"unread rest of control‖data", cat(rest, dat)})
		}
		// members stored in another order, with K1's valid signature over the concatenation in ARCHIVE order
		for _, perm := range [][]int{{0, 2, 1}, {1, 0, 2}, {1, 2, 0}, {2, 0, 1}, {2, 1, 0}} {
			var ms []gen.ArMember
			var cov []byte
			var ns []string
			for _, i := range perm {
				ms = append(ms, b.mem[i])
				cov = append(cov, b.mem[i].Data...)
				ns = append(ns, b.mem[i].Name)
			}
			sm, si := e.sigMember("origin", "K1", cov)
			ins = append(ins, e.mk(b, "coverage", fmt.Sprintf("members stored as %v, signature over that archive order", ns),
				fmt.Sprintf("members stored in the order %v; _gpgorigin is K1's valid signature over their concatenation in that order", ns),
				append(ms, sm), []SigInfo{si}, "origin", []string{"K1"}, false))
		}
		// signature members made of SEVERAL packets (binary detached signatures concatenated): a package verifies only if
		// some packet by a keyring key is over the right bytes
		{
			other := cat(bin, ctl, dat[:len(dat)/2])
			type pk struct {
				key   string
				what  string
				bytes []byte
			}
			right := func(k string) pk { return pk{k, "the right bytes", cat(bin, ctl, dat)} }
			empty := func(k string) pk { return pk{k, "the empty message", nil} }
			wrong := func(k string) pk { return pk{k, "other bytes", other} }
			onlyData := func(k string) pk { return pk{k, "the data member only", dat} }
			multi := [][]pk{
				{wrong("K1"), empty("K1")}, {empty("K1"), wrong("K1")}, {wrong("K1"), onlyData("K1")}, {onlyData("K1"), empty("K1")},
				{wrong("K2"), empty("K1")}, {empty("K2"), wrong("K1")}, {wrong("K1"), empty("K2")}, {right("K2"), empty("K1")}, {right("K2"), wrong("K1")},
				{right("K1"), wrong("K1")}, {wrong("K1"), right("K1")}, {right("K2"), right("K1")}, {wrong("K2"), right("K1")}, {right("K1"), empty("K2")},
				{wrong("K1"), wrong("K2"), empty("K1")}, {wrong("K2"), wrong("K1"), empty("K2")}, {empty("K1"), empty("K1"), empty("K1")}, {wrong("K1"), empty("K1"), right("K1")},
				{empty("K1")}, {empty("K2"), empty("K2")},
			}
			for _, m := range multi {
				var data []byte
				var sigs []SigInfo
				var desc []string
				for _, p := range m {
					sm, si := e.sigMember("origin", p.key, p.bytes)
					data = append(data, sm.Data...)
					sigs = append(sigs, si)
					desc = append(desc, p.key+" over "+p.what)
				}
				ins = append(ins, e.mk(b, "coverage", fmt.Sprintf("signature member of %d packets: %s", len(m), strings.Join(desc, "; ")),
					"_gpgorigin holds the packets ["+strings.Join(desc, "; ")+"]",
					append(append([]gen.ArMember(nil), b.mem...), gen.ArMember{Name: "_gpgorigin", Data: data}), sigs, "origin", []string{"K1"}, false))
			}
		}
		for _, a := range alts {
			sm, si := e.sigMember("origin", "K1", a.b)
			ins = append(ins, e.mk(b, "coverage", "signature over "+a.name, "_gpgorigin is K1's valid signature over "+a.name,
				append(append([]gen.ArMember(nil), b.mem...), sm), []SigInfo{si}, "origin", []string{"K1"}, false))
		}
	}
	ins = e.widen(ins, 1, otherRings)
	e.scenario("signed-byte-string", map[string]interface{}{"keyrings": fmt.Sprintf("[K1] and %v", otherRings), "bases": names(bases), "alternatives": "20 multi-packet signature members (1-3 packets by K1 / K2 over the right bytes, other bytes, the data member only, the empty message; every keyring) + 5 member reorderings signed in archive order + 15 wrong concatenations (subsets, permutations, extensions, truncations of debian-binary‖control‖data) + 3 unread-remainder variants on the stored base"}, ins, 4)
}

func names(bs []base) []string {
	var n []string
	for _, b := range bs {
		n = append(n, b.name)
	}
	return n
}

type decoy struct {
	name string
	mem  []gen.ArMember
}

func decoyNames(e *env, b base, quick bool) []string {
	var n []string
	for _, d := range e.decoys(b, quick) {
		n = append(n, d.name)
	}
	return n
}

// decoys returns the attacker's extra members for a base: a second control.* and/or data.* member under a
// different extension (or the same name), with attacker-chosen content.
func (e *env) decoys(b base, quick bool) []decoy {
	other := func(orig string) []string {
		var o []string
		for _, c := range []string{"none", "gz", "zst"} {
			if c != orig {
				o = append(o, c)
			}
		}
		if quick {
			return o[:1]
		}
		return o
	}
	comp := func(c string, raw []byte) []byte {
		z, err := e.c.Compress(c, raw)
		if err != nil {
			e.r.HarnessError("decoy: %v", err)
		}
		return z
	}
	// a copy of the signed control data with one field changed
	changed := b.model
	changed.Fields = append([]gen.DebField(nil), b.model.Fields...)
	for i := range changed.Fields {
		if changed.Fields[i].Key == "Depends" {
			changed.Fields[i].Value = "libc6 (>= 2.14), backdoor"
		}
	}
	evil := gen.DebModel{Fields: []gen.DebField{{Key: "Package", Value: "evil"}, {Key: "Version", Value: "9"}, {Key: "Architecture", Value: "all"}}}
	evilData := gen.BuildTar([]gen.TarEntry{{Name: "./etc/cron.d/evil", Body: []byte("* * * * * root true\n")}})
	chData := append([]gen.TarEntry(nil), b.model.DataFiles...)
	for i := range chData {
		if len(chData[i].Body) > 0 {
			nb := append([]byte(nil), chData[i].Body...)
			nb[0] ^= 0x20
			chData[i].Body = nb
			break
		}
	}
	var out []decoy
	for _, c := range other(b.model.ControlComp) {
		n := "control.tar" + gen.DebCompExt(c)
		out = append(out,
			decoy{n + " (copy of the signed control with Depends changed)", []gen.ArMember{{Name: n, Data: comp(c, changed.ControlTar())}}},
			decoy{n + " (attacker's own control)", []gen.ArMember{{Name: n, Data: comp(c, evil.ControlTar())}}})
	}
	out = append(out, decoy{"control.sig (not a tar)", []gen.ArMember{{Name: "control.sig", Data: []byte("garbage")}}})
	for _, c := range other(b.model.DataComp) {
		n := "data.tar" + gen.DebCompExt(c)
		out = append(out,
			decoy{n + " (attacker's payload)", []gen.ArMember{{Name: n, Data: comp(c, evilData)}}},
			decoy{n + " (signed payload with one byte changed)", []gen.ArMember{{Name: n, Data: comp(c, gen.BuildTar(chData))}}})
	}
	c0, d0 := other(b.model.ControlComp)[0], other(b.model.DataComp)[0]
	out = append(out, decoy{"control.tar" + gen.DebCompExt(c0) + " + data.tar" + gen.DebCompExt(d0) + " (both replaced)", []gen.ArMember{
		{Name: "control.tar" + gen.DebCompExt(c0), Data: comp(c0, evil.ControlTar())}, {Name: "data.tar" + gen.DebCompExt(d0), Data: comp(d0, evilData)}}})
	// same name as the signed member
	out = append(out,
		decoy{b.mem[1].Name + " (same name, Depends changed)", []gen.ArMember{{Name: b.mem[1].Name, Data: comp(b.model.ControlComp, changed.ControlTar())}}},
		decoy{b.mem[2].Name + " (same name, attacker's payload)", []gen.ArMember{{Name: b.mem[2].Name, Data: comp(b.model.DataComp, evilData)}}})
	// decoy SIZE: a second control.* / data.* member that is empty, one byte, a few bytes (the full-size ones are above)
	for _, n := range []string{"control.tar" + gen.DebCompExt(c0), "data.tar" + gen.DebCompExt(d0), b.mem[1].Name, b.mem[2].Name, "control.sig", "data.img"} {
		for _, body := range [][]byte{{}, {0}, []byte("garbage")} {
			out = append(out, decoy{fmt.Sprintf("%s (%d bytes)", n, len(body)), []gen.ArMember{{Name: n, Data: body}}})
		}
	}
	return out
}

// gpgvCross validates the SIGNER (never the library): gpgv accepts the harness-made signature over the signed bytes
// and rejects it over altered bytes.
func gpgvCross(e *env, b base) {
	tc := map[string]interface{}{}
	e.r.Extra["tool_crosschecks"] = tc
	if _, err := exec.LookPath("gpgv"); err != nil {
		tc["gpgv"] = "skipped (not installed)"
		return
	}
	dir, err := os.MkdirTemp("", "verif-c16-")
	if err != nil {
		tc["gpgv"] = "skipped: " + err.Error()
		return
	}
	defer os.RemoveAll(dir)
	sm, _ := e.sigMember("origin", "K1", b.signed())
	os.WriteFile(filepath.Join(dir, "k1.gpg"), e.k1.PublicBinary(), 0o644)
	os.WriteFile(filepath.Join(dir, "sig"), sm.Data, 0o644)
	os.WriteFile(filepath.Join(dir, "good"), b.signed(), 0o644)
	bad := append([]byte(nil), b.signed()...)
	bad[len(bad)/2] ^= 1
	os.WriteFile(filepath.Join(dir, "bad"), bad, 0o644)
	run := func(data string) (string, error) {
		cmd := exec.Command("gpgv", "--homedir", dir, "--keyring", filepath.Join(dir, "k1.gpg"), filepath.Join(dir, "sig"), filepath.Join(dir, data))
		out, err := cmd.CombinedOutput()
		return string(out), err
	}
	good, gerr := run("good")
	switch {
	case gerr == nil && strings.Contains(good, "Good signature"):
		badOut, berr := run("bad")
		if berr == nil || !strings.Contains(badOut, "BAD signature") {
			e.r.HarnessError("gpgv does not reject the harness signature over altered bytes: %v %s", berr, badOut)
		}
		tc["gpgv"] = "harness signature: Good over the signed bytes, BAD over altered bytes"
	case strings.Contains(good, "BAD signature"):
		e.r.HarnessError("gpgv says BAD signature for a harness-made signature: %s", good)
	default:
		tc["gpgv"] = "skipped: gpgv could not use the test key: " + strings.TrimSpace(good)
	}
}
