// Package c04: dependency fields parse into exactly the structure they denote.
package c04

import (
	"encoding/json"
	"fmt"
	"strings"
	"sync/atomic"

	"pault.ag/go/debian/dependency"

	"verifharness/gen"
	"verifharness/mc"
	"verifharness/props/reg"
	"verifharness/sched"
)

func init() { reg.Register(&reg.Prop{ID: "C04", Run: Run, Replay: Replay}) }

// In is the replayable input for the "well-formed" scenarios: the text and the canonical structure it denotes.
type In struct {
	Text  string
	Canon string   // expected canonical structure (from the model)
	Devs  []string // spacing deviations taken, "kind=alt" (input description; used as features)
	Via   string   // "parse" | "control"
}

func parseVia(via, s string) (*dependency.Dependency, error) {
	if via == "control" {
		d := &dependency.Dependency{}
		if err := d.UnmarshalControl(s); err != nil {
			return nil, err
		}
		return d, nil
	}
	return dependency.Parse(s)
}

// self-check of the two reference components against each other: every rendering of a model AST must be accepted by the
// independent recogniser with exactly that AST (a disagreement is a harness error, never a VIOLATION)
var (
	selfCheckFailures int64
	selfCheckExample  atomic.Value
)

func selfCheck(in In) {
	ast, reason := gen.Recognise(in.Text)
	if reason != "" || ast.Canon() != in.Canon {
		if atomic.AddInt64(&selfCheckFailures, 1) == 1 {
			selfCheckExample.Store(fmt.Sprintf("%q: recogniser says %q / %s, renderer model says %s", in.Text, reason, ast.Canon(), in.Canon))
		}
	}
}

func checkDenotes(scen string, in In) *mc.Violation {
	selfCheck(in)
	if in.Via == "control-reused" {
		// the same text decoded into a Dependency that already holds another field's relations
		d := &dependency.Dependency{}
		var err error
		if p, msg := mc.Guard(func() { d.UnmarshalControl("zz (>= 9) [i386] <q> | ${v}, yy"); err = d.UnmarshalControl(in.Text) }); p {
			return mc.V(scen, "parse-returns", in, "no panic", "panic: "+msg, in.Devs...)
		}
		if err != nil {
			return mc.V(scen, "wellformed-accepted", in, in.Canon, "error: "+err.Error(), in.Devs...)
		}
		if got := gen.CanonDep(d); got != in.Canon {
			return mc.V(scen, "structure-exact", in, in.Canon, got, in.Devs...)
		}
		return nil
	}
	var d *dependency.Dependency
	var err error
	if p, msg := mc.Guard(func() { d, err = parseVia(in.Via, in.Text) }); p {
		return mc.V(scen, "parse-returns", in, "no panic", "panic: "+msg, in.Devs...)
	}
	if err != nil {
		return mc.V(scen, "wellformed-accepted", in, in.Canon, "error: "+err.Error(), in.Devs...)
	}
	if got := gen.CanonDep(d); got != in.Canon {
		return mc.V(scen, "structure-exact", in, in.Canon, got, in.Devs...)
	}
	return nil
}

// HeldIn: two fields parsed one after the other; the first result is looked at again after the second call.
type HeldIn struct {
	First, Second In
}

// checkHeld: a parsed value belongs to its caller - whatever the library is asked next, the value must still denote
// the field it was parsed from (no relation, alternative, qualifier, architecture list or profile group of an earlier
// result may live in storage that a later call writes to).
func checkHeld(scen string, in HeldIn) *mc.Violation {
	var d1, d2 *dependency.Dependency
	var e1, e2 error
	var before string
	if p, msg := mc.Guard(func() {
		d1, e1 = parseVia(in.First.Via, in.First.Text)
		if e1 == nil {
			before = gen.CanonDep(d1)
		}
		d2, e2 = parseVia(in.Second.Via, in.Second.Text)
	}); p {
		return mc.V(scen, "parse-returns", in, "no panic", "panic: "+msg)
	}
	if e1 != nil || e2 != nil || before != in.First.Canon {
		return nil // each field on its own is the other scenarios' business
	}
	if got := gen.CanonDep(d2); got != in.Second.Canon {
		return mc.V(scen, "structure-exact", in, in.Second.Canon, "second field, parsed after the first: "+got)
	}
	if after := gen.CanonDep(d1); after != in.First.Canon {
		return mc.V(scen, "structure-exact", in, in.First.Canon, "the first result, looked at again after the second call: "+after)
	}
	// the same on ONE object decoded into twice: the relations the caller took from it after the first call are the
	// caller's, and the object denotes the second field afterwards
	if in.First.Via == "control" {
		var d dependency.Dependency
		var kept []dependency.Relation
		var ea, eb error
		if p, msg := mc.Guard(func() {
			ea = d.UnmarshalControl(in.First.Text)
			kept = d.Relations
			eb = d.UnmarshalControl(in.Second.Text)
		}); p {
			return mc.V(scen, "parse-returns", in, "no panic", "panic: "+msg)
		}
		if ea == nil && eb == nil {
			if got := gen.CanonDep(&d); got != in.Second.Canon {
				return mc.V(scen, "structure-exact", in, in.Second.Canon, "second field, decoded into the object that held the first: "+got)
			}
			if got := gen.CanonDep(&dependency.Dependency{Relations: kept}); got != in.First.Canon {
				return mc.V(scen, "structure-exact", in, in.First.Canon, "the relations taken from the object after the first call, looked at again after the second: "+got)
			}
		}
	}
	// a result belongs to its caller in the other direction too: the caller may overwrite every part of it (resolve a
	// qualifier, rename, clear a list) and later parses - of the same or of another field - are unaffected
	var d3, d4 *dependency.Dependency
	var e3, e4 error
	if p, msg := mc.Guard(func() {
		scribble(d1)
		scribble(d2)
		d3, e3 = parseVia(in.First.Via, in.First.Text)
		d4, e4 = parseVia(in.Second.Via, in.Second.Text)
	}); p {
		return mc.V(scen, "parse-returns", in, "no panic", "panic: "+msg)
	}
	if e3 != nil || e4 != nil {
		return mc.V(scen, "wellformed-accepted", in, in.First.Canon, fmt.Sprintf("after the caller modified earlier results: %v / %v", e3, e4))
	}
	if got := gen.CanonDep(d3); got != in.First.Canon {
		return mc.V(scen, "structure-exact", in, in.First.Canon, "parsed again after the caller modified the earlier results: "+got)
	}
	if got := gen.CanonDep(d4); got != in.Second.Canon {
		return mc.V(scen, "structure-exact", in, in.Second.Canon, "parsed again after the caller modified the earlier results: "+got)
	}
	return nil
}

// scribble overwrites everything reachable from a parsed field.
func scribble(d *dependency.Dependency) {
	for ri := range d.Relations {
		for pi := range d.Relations[ri].Possibilities {
			p := &d.Relations[ri].Possibilities[pi]
			p.Name = "scribbled"
			if p.Arch != nil {
				*p.Arch = dependency.Arch{ABI: "sx", OS: "sy", CPU: "sz"}
			}
			if p.Version != nil {
				p.Version.Operator, p.Version.Number = "??", "scribbled"
			}
			if p.Architectures != nil {
				p.Architectures.Not = !p.Architectures.Not
				for ai := range p.Architectures.Architectures {
					p.Architectures.Architectures[ai] = dependency.Arch{ABI: "sx", OS: "sy", CPU: "sz"}
				}
			}
			for gi := range p.StageSets {
				for si := range p.StageSets[gi].Stages {
					p.StageSets[gi].Stages[si].Name = "scribbled"
					p.StageSets[gi].Stages[si].Not = !p.StageSets[gi].Stages[si].Not
				}
			}
		}
	}
}

// MalIn is the replayable input for the corruption scenario.
type MalIn struct {
	Text string
	Edit string // description of the edit (input feature)
}

func checkCorrupted(scen string, in MalIn) (*mc.Violation, string) {
	ast, reason := gen.Recognise(in.Text)
	var d *dependency.Dependency
	var err error
	if p, msg := mc.Guard(func() { d, err = dependency.Parse(in.Text) }); p {
		return mc.V(scen, "parse-returns", in, "no panic", "panic: "+msg), "panic"
	}
	switch {
	case reason == "":
		want := ast.Canon()
		if err != nil {
			return mc.V(scen, "wellformed-accepted", in, want, "error: "+err.Error()), "ref-accepts"
		}
		if got := gen.CanonDep(d); got != want {
			return mc.V(scen, "structure-exact", in, want, got), "ref-accepts"
		}
		return nil, "ref-accepts"
	case gen.StatementReason(reason):
		if err == nil {
			return mc.V(scen, "malformed-rejected", in, "error ("+reason+")", "accepted as "+gen.CanonDep(d), "reason:"+reason), "ref-rejects:" + reason
		}
		if d != nil {
			return mc.V(scen, "malformed-no-result", in, "nil result with the error", "non-nil result", "reason:"+reason), "ref-rejects:" + reason
		}
		return nil, "ref-rejects:" + reason
	}
	if err == nil {
		return nil, "unclassified-accepted"
	}
	return nil, "unclassified-rejected"
}

// exploreSpacing enumerates all renderings of d with at most k non-default gaps.
func exploreSpacing(scen string, d gen.ADep, k int, st *mc.Stats) {
	segs := d.Segments()
	canon := d.Canon()
	labels := make([]string, gen.GapCount(segs))
	for i := range labels {
		labels[i] = fmt.Sprintf("gap%d", i)
	}
	execs, div := mc.Explore(k, st, func(x *mc.X) {
		var devs []string
		text := gen.RenderSegs(segs, func(gi int, kind gen.GapKind) string {
			alts := gen.GapAlternatives(kind)
			c := x.Deviate(1+len(alts), labels[gi])
			if c == 0 {
				return gen.GapDefault(kind)
			}
			devs = append(devs, fmt.Sprintf("gap%d=%q", kind, alts[c-1]))
			return alts[c-1]
		})
		for _, via := range []string{"parse", "control"} {
			in := In{text, canon, devs, via}
			st.Evals++
			st.Traces++
			if len(devs) > 0 {
				st.Nontrivial++
			}
			if v := checkDenotes(scen, in); v != nil {
				st.Violate(v)
				st.Class(v.Clause)
			} else {
				st.Class("structure-exact")
			}
			if st.WantSample() && len(devs) == k && via == "parse" && strings.Contains(text, "\n") {
				st.Sample(in.Text)
			}
		}
	})
	st.States += execs
	if div != "" {
		st.Violate(mc.V(scen, "harness-replay-divergence", In{Text: d.Render()}, "deterministic replay", div))
	}
}

var editAlphabet = []string{"(", ")", "[", "]", "<", ">", "!", "$", "{", "}", ",", "|", " ", "a"}

func Run(r *mc.Run) {
	r.Rule = "ASTs rendered by an independent renderer: full product of single-possibility shapes; all fields of <=3/4 possibilities over an 8-element representative set with every ,/| assignment; every rendering with <=k non-default whitespace gaps (k=1 quick, 2 thorough; alternatives '', ' ', '  ', tab, newline, newline+space); every single deletion / insertion / substitution (14 symbols) of the canonical renderings of <=2-possibility fields, classified by an independent recogniser. Non-trivial = at least one spacing deviation or one edit; distinct by construction"
	r.Assume = []string{"legal spacing per Policy 7.1: whitespace (blank, tab, newline of a folded field) may appear between any two tokens, must separate names inside [ ] and < >, and is otherwise insignificant",
		"malformed inputs whose rejection reason is not listed in the statement (empty name, stray closer, empty group, trailing comma, deprecated < >) place no demand",
		"architecture names denote triples per gen.DenoteArch"}

	sh := gen.DepShapes(r.Quick())
	r.Scenario("single-possibility-shapes", map[string]interface{}{"shapes": len(sh)}, len(sh), func(i int, st *mc.Stats) bool {
		d := gen.ADep{gen.ARel{sh[i]}}
		for _, via := range []string{"parse", "control", "control-reused"} {
			in := In{d.Render(), d.Canon(), nil, via}
			st.Evals++
			st.Traces++
			st.Nontrivial++
			if v := checkDenotes("single-possibility-shapes", in); v != nil {
				st.Violate(v)
				st.Class(v.Clause)
			} else {
				st.Class("structure-exact")
			}
		}
		if st.WantSample() && i%397 == 11 {
			st.Sample(d.Render())
		}
		return true
	})

	reps := gen.DepRepresentatives()
	fl := gen.DepFields(reps, r.Pick(3, 4))
	r.Scenario("fields-default-spacing", map[string]interface{}{"representatives": len(reps), "max_possibilities": r.Pick(3, 4), "fields": len(fl)}, 64, func(shard int, st *mc.Stats) bool {
		for i := shard; i < len(fl); i += 64 {
			d := fl[i]
			in := In{d.Render(), d.Canon(), nil, "parse"}
			st.Evals++
			st.Traces++
			st.Nontrivial++
			if v := checkDenotes("fields-default-spacing", in); v != nil {
				st.Violate(v)
				st.Class(v.Clause)
			} else {
				st.Class("structure-exact")
			}
			if st.WantSample() && i%1201 == 77 {
				st.Sample(in.Text)
			}
		}
		return true
	})

	// fields larger than the products above reach: many relations / alternatives / architectures / groups / stages
	lg := gen.LargeDeps()
	r.Scenario("large-fields", map[string]interface{}{"fields": len(lg), "sizes": "8..257 relations or alternatives, 5..33 architectures / profile groups / stages, long names and numbers", "renderings": "default spacing; one relation per folded line"}, len(lg), func(i int, st *mc.Stats) bool {
		for _, via := range []string{"parse", "control", "control-reused"} {
			for _, folded := range []bool{false, true} {
				text := lg[i].Render()
				if folded {
					text = strings.ReplaceAll(text, ", ", ",\n ")
				}
				in := In{text, lg[i].Canon(), nil, via}
				st.Evals++
				st.Traces++
				st.Nontrivial++
				if v := checkDenotes("large-fields", in); v != nil {
					st.Violate(v)
					st.Class(v.Clause)
				} else {
					st.Class("structure-exact")
				}
			}
		}
		return true
	})

	// results held across calls: all ordered pairs of the <=2-possibility fields (and of the single shapes, thinned)
	heldSet := gen.DepFields(reps, 2)
	for i := 0; i < len(sh); i += r.Pick(97, 23) {
		heldSet = append(heldSet, gen.ADep{gen.ARel{sh[i]}})
	}
	r.Scenario("results-held-across-calls", map[string]interface{}{"fields": len(heldSet), "pairs": len(heldSet) * len(heldSet), "entry_points": "Parse / UnmarshalControl"}, len(heldSet), func(i int, st *mc.Stats) bool {
		for j := range heldSet {
			for _, via := range []string{"parse", "control"} {
				in := HeldIn{In{heldSet[i].Render(), heldSet[i].Canon(), nil, via}, In{heldSet[j].Render(), heldSet[j].Canon(), nil, via}}
				st.Evals++
				st.Traces++
				st.Nontrivial++
				if v := checkHeld("results-held-across-calls", in); v != nil {
					st.Violate(v)
					st.Class(v.Clause)
				} else {
					st.Class("both-exact")
				}
			}
		}
		return true
	})

	// the same entry points called at the same time on independent inputs: every schedule of small thread programs (instrumented build)
	sched.Explore(r, "concurrent-calls", ConcurrentPrograms())

	// a refused field leaves nothing behind: every malformed field of the statement's list, then a well-formed one
	malformed := []string{"foo (>= 1", "foo (>= 1.0 ", "foo [amd64", "foo [amd64 ", "${x", "${shlibs:Depends", "a <x", "a <!x ", "a (?? 1)", "a b", "a [!x y]", "a (>= 1) (<< 2)", "a [x] [y]", "a (>= 1", "a:any (", "a | ${"}
	r.Scenario("well-formed-after-malformed", map[string]interface{}{"malformed": malformed, "then": len(heldSet)}, len(malformed), func(i int, st *mc.Stats) bool {
		for _, d := range heldSet {
			for _, via := range []string{"parse", "control"} {
				st.Evals++
				st.Traces++
				st.Nontrivial++
				in := HeldIn{In{malformed[i], "", nil, via}, In{d.Render(), d.Canon(), nil, via}}
				var d2 *dependency.Dependency
				var e2 error
				if p, msg := mc.Guard(func() { parseVia(via, in.First.Text); d2, e2 = parseVia(via, in.Second.Text) }); p {
					st.Violate(mc.V("well-formed-after-malformed", "parse-returns", in, "no panic", msg))
					continue
				}
				if e2 != nil {
					st.Violate(mc.V("well-formed-after-malformed", "wellformed-accepted", in, in.Second.Canon, "after the malformed field: error: "+e2.Error()))
				} else if got := gen.CanonDep(d2); got != in.Second.Canon {
					st.Violate(mc.V("well-formed-after-malformed", "structure-exact", in, in.Second.Canon, "after the malformed field: "+got))
					st.Class("changed")
				} else {
					st.Class("exact")
				}
			}
		}
		return true
	})

	// spacing deviations
	k := r.Pick(1, 2)
	small := gen.DepFields(reps, 2)
	var bases []gen.ADep
	bases = append(bases, small...)
	// plus every 7th full shape (quick) / every shape (thorough) as a single-possibility field
	step := r.Pick(7, 1)
	for i := 0; i < len(sh); i += step {
		bases = append(bases, gen.ADep{gen.ARel{sh[i]}})
	}
	r.Scenario("spacing-deviations", map[string]interface{}{"base_fields": len(bases), "deviation_bound": k, "gap_alternatives": []string{"", " ", "  ", "\t", "\n", "\n "}}, len(bases), func(i int, st *mc.Stats) bool {
		if r.Expired() {
			return false
		}
		exploreSpacing("spacing-deviations", bases[i], k, st)
		return true
	})

	// single-edit corruptions
	r.Scenario("single-edit-corruptions", map[string]interface{}{"base_fields": len(small), "edit_alphabet": editAlphabet}, len(small), func(i int, st *mc.Stats) bool {
		base := small[i].Render()
		try := func(text, edit string) {
			if text == base {
				return
			}
			in := MalIn{text, edit}
			st.Evals++
			v, class := checkCorrupted("single-edit-corruptions", in)
			st.Class(class)
			if !strings.HasPrefix(class, "unclassified") {
				st.Traces++
				st.Nontrivial++
			}
			if v != nil {
				st.Violate(v)
			}
			if st.WantSample() && strings.HasPrefix(class, "ref-rejects") && i%17 == 3 {
				st.Sample(map[string]string{"text": text, "class": class})
			}
		}
		for p := 0; p < len(base); p++ {
			try(base[:p]+base[p+1:], fmt.Sprintf("delete@%d", p))
			for _, c := range editAlphabet {
				try(base[:p]+c+base[p+1:], fmt.Sprintf("subst@%d:%s", p, c))
			}
		}
		for p := 0; p <= len(base); p++ {
			for _, c := range editAlphabet {
				try(base[:p]+c+base[p:], fmt.Sprintf("insert@%d:%s", p, c))
			}
		}
		return true
	})

	// constructed malformations (second clauses, two names, truncation inside a group, mixed negation, unknown operators)
	r.Scenario("constructed-malformations", map[string]interface{}{"base_shapes": len(sh)}, len(sh), func(i int, st *mc.Stats) bool {
		for _, in := range constructed(sh[i]) {
			st.Evals++
			v, class := checkCorrupted("constructed-malformations", in)
			st.Class(class)
			if !strings.HasPrefix(class, "unclassified") {
				st.Traces++
				st.Nontrivial++
			}
			if v != nil {
				st.Violate(v)
			}
			if st.WantSample() && i%211 == 5 && strings.HasPrefix(class, "ref-rejects") {
				st.Sample(map[string]string{"text": in.Text, "class": class})
			}
		}
		return true
	})
	if n := atomic.LoadInt64(&selfCheckFailures); n > 0 {
		r.HarnessError("renderer and recogniser disagree on %d renderings, e.g. %v", n, selfCheckExample.Load())
	}
	r.Extra["renderer_recogniser_self_check"] = "every rendering accepted by the recogniser with the model's AST"
}

// constructed returns statement-listed malformations built from a well-formed possibility (not reachable by one edit).
func constructed(p gen.APoss) []MalIn {
	var out []MalIn
	base := gen.ADep{gen.ARel{p}}
	segs := base.Segments()
	text := base.Render()
	_ = segs
	// positions right after each closer and at the end of the name/qualifier: candidate insertion points
	var points []int
	nameEnd := len(p.Name)
	if p.Qual != "" {
		nameEnd += 1 + len(p.Qual)
	}
	points = append(points, nameEnd)
	for i := nameEnd; i < len(text); i++ {
		if text[i] == ')' || text[i] == ']' || text[i] == '>' {
			points = append(points, i+1)
		}
	}
	for _, at := range points {
		if strings.Contains(p.Groups, "v") {
			out = append(out, MalIn{text[:at] + " (<< 9)" + text[at:], fmt.Sprintf("second-version@%d", at)})
		}
		if strings.Contains(p.Groups, "a") {
			out = append(out, MalIn{text[:at] + " [i386]" + text[at:], fmt.Sprintf("second-arch@%d", at)})
		}
		out = append(out, MalIn{text[:at] + " b" + text[at:], fmt.Sprintf("two-names@%d", at)})
	}
	// every prefix that ends inside an open group is unterminated
	var open byte
	closer := map[byte]byte{'(': ')', '[': ']', '<': '>'}
	for i := 0; i < len(text); i++ {
		c := text[i]
		if open == 0 {
			if c == '(' || c == '[' || c == '<' {
				open = c
			}
		} else if c == closer[open] {
			open = 0
		}
		if open != 0 {
			out = append(out, MalIn{text[:i+1], fmt.Sprintf("truncated-inside-group@%d", i+1)})
		}
	}
	// mixed negation: flip the negation of every proper non-empty subset of names
	if len(p.Archs) >= 2 {
		n := len(p.Archs)
		for mask := 1; mask < (1<<n)-1; mask++ {
			var el []string
			for i, a := range p.Archs {
				neg := p.ArchNot
				if mask&(1<<i) != 0 {
					neg = !neg
				}
				if neg {
					a = "!" + a
				}
				el = append(el, a)
			}
			q := p
			q.Groups = strings.Replace(p.Groups, "a", "", 1)
			t := gen.ADep{gen.ARel{q}}.Render() + " [" + strings.Join(el, " ") + "]"
			out = append(out, MalIn{t, fmt.Sprintf("mixed-negation:%b", mask)})
		}
	}
	// unknown operators
	if strings.Contains(p.Groups, "v") {
		for _, op := range []string{"<>", "!=", "><", "!", "!>", "!<"} {
			out = append(out, MalIn{strings.Replace(text, "("+p.Op+" ", "("+op+" ", 1), "unknown-operator:" + op})
		}
	}
	return out
}

func Replay(scenario string, raw json.RawMessage) []*mc.Violation {
	if scenario == "concurrent-calls" {
		return sched.Replay(scenario, ConcurrentPrograms(), raw)
	}
	if scenario == "single-edit-corruptions" || scenario == "constructed-malformations" {
		var in MalIn
		if mc.UnmarshalInput(raw, &in) == nil {
			if v, _ := checkCorrupted(scenario, in); v != nil {
				return []*mc.Violation{v}
			}
		}
		return nil
	}
	if scenario == "well-formed-after-malformed" {
		var in HeldIn
		if mc.UnmarshalInput(raw, &in) == nil {
			parseVia(in.First.Via, in.First.Text)
			d2, e2 := parseVia(in.Second.Via, in.Second.Text)
			if e2 != nil {
				return []*mc.Violation{mc.V(scenario, "wellformed-accepted", in, in.Second.Canon, "after the malformed field: error: "+e2.Error())}
			}
			if got := gen.CanonDep(d2); got != in.Second.Canon {
				return []*mc.Violation{mc.V(scenario, "structure-exact", in, in.Second.Canon, "after the malformed field: "+got)}
			}
		}
		return nil
	}
	if scenario == "results-held-across-calls" {
		var in HeldIn
		if mc.UnmarshalInput(raw, &in) == nil {
			if v := checkHeld(scenario, in); v != nil {
				return []*mc.Violation{v}
			}
		}
		return nil
	}
	var in In
	if mc.UnmarshalInput(raw, &in) == nil {
		if v := checkDenotes(scenario, in); v != nil {
			return []*mc.Violation{v}
		}
	}
	return nil
}
