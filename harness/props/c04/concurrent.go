package c04

import (
	"fmt"

	"pault.ag/go/debian/dependency"

	"verifharness/gen"
	"verifharness/sched"
)

// ConcurrentPrograms: relationship fields parsed at the same time.
func ConcurrentPrograms() []sched.Program {
	var ops []sched.Op
	for _, s := range []string{"libc6 (>= 2.36), zlib1g (<< 1:1.3~)", "a:any (>= 1.0) [amd64 !i386] <!x y> <z> | ${misc:Depends}, b", "gcc:native [linux-any] | clang (= 16.0-1)", "foo (>= 1", "${shlibs:Depends}", "p <!nocheck>, q <cross> <!stage1>"} {
		s := s
		ops = append(ops, sched.Op{Label: fmt.Sprintf("Parse(%q)", s), F: func() string {
			d, err := dependency.Parse(s)
			var u dependency.Dependency
			e2 := u.UnmarshalControl(s)
			return fmt.Sprintf("%s %v|%s %v", gen.CanonDep(d), err, gen.CanonDep(&u), e2)
		}})
	}
	return sched.PairPrograms(ops)
}
