// Package c08: writing paragraphs and reading them back preserves their content.
package c08

import (
	"bytes"
	"encoding/json"
	"fmt"
	"io"
	"strings"

	"pault.ag/go/debian/control"

	"verifharness/gen"
	"verifharness/mc"
	"verifharness/props/reg"
	"verifharness/sched"
)

func init() { reg.Register(&reg.Prop{ID: "C08", Run: Run, Replay: Replay}) }

// In: a paragraph given as ordered (name, value) pairs.
type In struct {
	Names  []string
	Values []string
	Exact  bool // true: values came from the reader (informational)
}

func (in In) para() control.Paragraph {
	p := control.Paragraph{Values: map[string]string{}}
	for i, n := range in.Names {
		p.Order = append(p.Order, n)
		p.Values[n] = in.Values[i]
	}
	return p
}

func features(in In) []string {
	var f []string
	for _, v := range in.Values {
		if strings.HasPrefix(v, "\n") {
			f = append(f, "value-begins-with-empty-line")
			break
		}
	}
	return f
}

func write(p control.Paragraph) (string, error) {
	var b bytes.Buffer
	err := p.WriteTo(&b)
	return b.String(), err
}

func readAll(text string) ([]control.Paragraph, error) {
	pr, err := control.NewParagraphReader(strings.NewReader(text), nil)
	if err != nil {
		return nil, err
	}
	return pr.All()
}

func eqUpToNewline(a, b string) bool {
	return strings.TrimSuffix(a, "\n") == strings.TrimSuffix(b, "\n")
}

// check runs clauses (a) no blank line, (b) reads back, (c) 4 write/read cycles are stable.
func check(scen string, in In) []*mc.Violation {
	var vs []*mc.Violation
	feats := features(in)
	p := in.para()
	var t string
	var err error
	if pn, msg := mc.Guard(func() { t, err = write(p) }); pn {
		return []*mc.Violation{mc.V(scen, "write-returns", in, "no panic", msg, feats...)}
	}
	if err != nil {
		return []*mc.Violation{mc.V(scen, "write-succeeds", in, "nil error", err.Error(), feats...)}
	}
	// the same paragraph built through the library's own helpers writes the same text: Set for each field (every
	// field first set to a placeholder, then to its value - the order must not change), and Update from a paragraph
	// that carries the values onto one that carries placeholders
	if len(in.Names) > 0 {
		built := control.Paragraph{Values: map[string]string{}}
		holder := control.Paragraph{Values: map[string]string{}}
		var t2, t3 string
		if pn, msg := mc.Guard(func() {
			for _, n := range in.Names {
				built.Set(n, "placeholder")
				holder.Set(n, "placeholder")
			}
			for i := len(in.Names) - 1; i >= 0; i-- {
				built.Set(in.Names[i], in.Values[i])
			}
			t2, _ = write(built)
			u := holder.Update(p)
			t3, _ = write(u)
		}); pn {
			return []*mc.Violation{mc.V(scen, "write-returns", in, "no panic", msg, feats...)}
		}
		if t2 != t {
			vs = append(vs, mc.V(scen, "same-fields-same-order", in, fmt.Sprintf("%q", t), fmt.Sprintf("built with Set: %q", t2), feats...))
		}
		if t3 != t {
			vs = append(vs, mc.V(scen, "same-fields-same-order", in, fmt.Sprintf("%q", t), fmt.Sprintf("placeholders.Update(paragraph): %q", t3), feats...))
		}
	}
	// writing is not changing: the same paragraph object written a second and a third time gives the same text
	for n := 2; n <= 3; n++ {
		if again, err := write(p); err != nil || again != t {
			vs = append(vs, mc.V(scen, "cycles-stable", in, fmt.Sprintf("%q", t), fmt.Sprintf("the same paragraph written for the %d. time: %q %v", n, again, err), feats...))
			break
		}
	}
	// (a)
	body := strings.TrimSuffix(t, "\n")
	for _, l := range strings.Split(body, "\n") {
		if strings.TrimSpace(l) == "" {
			vs = append(vs, mc.V(scen, "no-empty-or-whitespace-only-line", in, "every written line has visible text", fmt.Sprintf("%q", t), feats...))
			break
		}
	}
	if !strings.HasSuffix(t, "\n") && len(in.Names) > 0 {
		vs = append(vs, mc.V(scen, "written-text-ends-with-newline", in, "terminated last line", fmt.Sprintf("%q", t), feats...))
	}
	// (b)
	ps, err := readAll(t)
	if err != nil {
		return append(vs, mc.V(scen, "written-form-reads-back", in, "readable", fmt.Sprintf("%q: %v", t, err), feats...))
	}
	if len(in.Names) == 0 {
		return vs
	}
	if len(ps) != 1 {
		return append(vs, mc.V(scen, "written-form-reads-back", in, "one paragraph", fmt.Sprintf("%q reads as %d paragraphs", t, len(ps)), feats...))
	}
	q := ps[0]
	if strings.Join(q.Order, "\x00") != strings.Join(in.Names, "\x00") {
		vs = append(vs, mc.V(scen, "same-fields-same-order", in, fmt.Sprint(in.Names), fmt.Sprint(q.Order), feats...))
	} else {
		for i, n := range in.Names {
			got := q.Values[n]
			// the statement's equality is "up to one trailing newline", for reader-produced values as well
			ok := eqUpToNewline(got, in.Values[i])
			if !ok {
				vs = append(vs, mc.V(scen, "same-logical-lines", in, fmt.Sprintf("%s=%q", n, in.Values[i]), fmt.Sprintf("written %q reads as %q", t, got), feats...))
				break
			}
		}
	}
	// (c) cycles: text stable from the first written form on, values stable from the first read on
	prevText, prev := t, q
	for c := 0; c < 4; c++ {
		t2, err := write(prev)
		if err != nil {
			vs = append(vs, mc.V(scen, "cycles-stable", in, "rewrite succeeds", err.Error(), feats...))
			break
		}
		if t2 != prevText {
			vs = append(vs, mc.V(scen, "cycles-stable", in, fmt.Sprintf("%q", prevText), fmt.Sprintf("cycle %d wrote %q", c+1, t2), feats...))
			break
		}
		ps2, err := readAll(t2)
		if err != nil || len(ps2) != 1 {
			vs = append(vs, mc.V(scen, "cycles-stable", in, "one paragraph", fmt.Sprintf("cycle %d: %v / %d paragraphs", c+1, err, len(ps2)), feats...))
			break
		}
		if gen.CanonRef([]gen.RefPara{{Order: ps2[0].Order, Values: ps2[0].Values}}) != gen.CanonRef([]gen.RefPara{{Order: prev.Order, Values: prev.Values}}) {
			vs = append(vs, mc.V(scen, "cycles-stable", in, "values unchanged", fmt.Sprintf("cycle %d changed values", c+1), feats...))
			break
		}
		prev = ps2[0]
	}
	return vs
}

// ---- encoder sequences ----

type P struct{ control.Paragraph }

type EncIn struct {
	Paras []In
	Slice bool  // one Encode call with a slice instead of one call per paragraph
	Calls []int // if set: sizes of consecutive Encode calls; 1 = a struct, -1 = a slice of one, n>1 = a slice of n paragraphs
	// Refused: per-paragraph mode only; before the call with each of these indexes (len(Paras) = after the last one) the
	// encoder is given a value it cannot encode. The refused call contributes nothing and changes nothing.
	Refused []int `json:",omitempty"`
}

// unencodable has a member of a kind the encoder does not support: Encode returns an error for it.
type unencodable struct {
	Name  string
	Ratio float64
}

func checkEnc(scen string, in EncIn) []*mc.Violation {
	var b bytes.Buffer
	enc, err := control.NewEncoder(&b)
	if err != nil {
		return []*mc.Violation{mc.V(scen, "encoder-created", in, "nil error", err.Error())}
	}
	var feats []string
	for _, p := range in.Paras {
		feats = append(feats, features(p)...)
	}
	feats = gen.Dedup(feats)
	var list []P
	for _, p := range in.Paras {
		list = append(list, P{p.para()})
	}
	if pn, msg := mc.Guard(func() {
		if len(in.Calls) > 0 {
			pos := 0
			for _, c := range in.Calls {
				switch {
				case c == 1:
					err = enc.Encode(&list[pos])
					pos++
				case c == -1:
					err = enc.Encode(list[pos : pos+1])
					pos++
				default:
					err = enc.Encode(list[pos : pos+c])
					pos += c
				}
				if err != nil {
					break
				}
			}
		} else if in.Slice {
			err = enc.Encode(list)
		} else {
			refuse := func(i int) bool {
				for _, k := range in.Refused {
					if k == i {
						if e := enc.Encode(&unencodable{"refused", 1.5}); e == nil {
							err = fmt.Errorf("a struct with a float64 member was encoded without an error")
							return false
						}
					}
				}
				return true
			}
			for i := range list {
				if !refuse(i) {
					break
				}
				if err = enc.Encode(&list[i]); err != nil {
					break
				}
			}
			if err == nil {
				refuse(len(list))
			}
		}
	}); pn {
		return []*mc.Violation{mc.V(scen, "encode-returns", in, "no panic", msg, feats...)}
	}
	if err != nil {
		return []*mc.Violation{mc.V(scen, "encode-succeeds", in, "nil error", err.Error(), feats...)}
	}
	ps, err := readAll(b.String())
	if err != nil {
		return []*mc.Violation{mc.V(scen, "encoded-reads-back", in, "readable", fmt.Sprintf("%q: %v", b.String(), err), feats...)}
	}
	var wantParas []In // the paragraphs that have at least one field
	for _, p := range in.Paras {
		if len(p.Names) > 0 {
			wantParas = append(wantParas, p)
		}
	}
	if len(ps) != len(wantParas) {
		return []*mc.Violation{mc.V(scen, "same-number-of-paragraphs", in, fmt.Sprint(len(wantParas)), fmt.Sprintf("%d from %q", len(ps), b.String()), feats...)}
	}
	for i, p := range wantParas {
		if strings.Join(ps[i].Order, "\x00") != strings.Join(p.Names, "\x00") {
			return []*mc.Violation{mc.V(scen, "same-fields-same-order", in, fmt.Sprint(p.Names), fmt.Sprint(ps[i].Order), feats...)}
		}
		for j, n := range p.Names {
			if !eqUpToNewline(ps[i].Values[n], p.Values[j]) {
				return []*mc.Violation{mc.V(scen, "same-logical-lines", in, fmt.Sprintf("%q", p.Values[j]), fmt.Sprintf("%q", ps[i].Values[n]), feats...)}
			}
		}
	}
	// and through the decoder too: as many Decode calls succeed as paragraphs were encoded
	dec, err := control.NewDecoder(bytes.NewReader(b.Bytes()), nil)
	n := 0
	for err == nil && n <= len(in.Paras) {
		var x P
		if err = dec.Decode(&x); err == nil {
			n++
		}
	}
	if n != len(wantParas) || err != io.EOF {
		return []*mc.Violation{mc.V(scen, "same-number-of-paragraphs", in, fmt.Sprint(len(wantParas)), fmt.Sprintf("decoder: %d then %v", n, err), feats...)}
	}
	return nil
}

func lineValues(maxLines int) []string {
	lines := []string{"a", "", " ind", "b c", "\ttab", "#c", "k: v", "5% %s", "J\xf6rg", " .", "gioco di abilit\u00e0"}
	sym := []string{"0", "1", "2", "3", "4", "5", "6", "7", "8", "9", ":"}
	for i, t := range gen.AuditStrings(gen.OneLine, 2) { // alphabet audit: lines made of literals a change introduced
		if strings.TrimSpace(t) != "" && strings.TrimRight(t, " \t") == t && t != "." {
			lines = append(lines, t)
			sym = append(sym, string(rune('a'+i)))
		}
	}
	var out []string
	seqs := gen.AllStrings(sym, maxLines)
	for _, s := range seqs {
		if len(s) == 0 || s[0] == '1' {
			continue // the first line must be non-empty to be representable (see the known finding W3); it may be indented
		}
		var ls []string
		for _, c := range s {
			if c >= 'a' {
				ls = append(ls, lines[11+int(c-'a')])
			} else {
				ls = append(ls, lines[c-'0']) // '0'..'9' and ':' (the character after '9') index the fixed lines
			}
		}
		v := strings.Join(ls, "\n")
		out = append(out, v, v+"\n")
	}
	return out
}

func Run(r *mc.Run) {
	r.Rule = "all values that are sequences of 1..4/5 lines over {a, empty, blank-indented, 'b c', tab-indented, '#c', 'k: v'} with a non-empty (possibly indented) first line, with and without a trailing newline; all ordered pairs of a 60-value subset as two-field paragraphs; every paragraph the reader itself returns on the C07 base documents; encoder call sequences of 1..3 paragraphs over 7 representative paragraphs (and one slice call). Non-trivial = value has more than one line; distinct by construction"
	r.Assume = []string{"values are sequences of text lines without trailing blanks; the first line is non-empty and not indented (otherwise the value is not representable: the reader trims the first line and treats an empty first line as 'starts on the next line')"}

	vals := lineValues(r.Pick(4, 5))
	// logical lines around the buffer sizes of bufio (4096) and the token limit of bufio.Scanner (65536), alone and between others
	for _, n := range []int{4095, 4096, 4097, 65535, 65536, 65537, 200000} {
		long := strings.Repeat("x", n)
		vals = append(vals, long, "a\n"+long+"\nb\n", long+"\n\n"+long, "first\n "+long)
	}
	r.Scenario("single-field-values", map[string]interface{}{"values": len(vals), "max_lines": r.Pick(4, 5)}, 16, func(sh int, st *mc.Stats) bool {
		for i := sh; i < len(vals); i += 16 {
			in := In{[]string{"Key"}, []string{vals[i]}, false}
			st.Evals++
			st.Traces++
			if strings.Contains(strings.TrimSuffix(vals[i], "\n"), "\n") {
				st.Nontrivial++
			}
			vs := check("single-field-values", in)
			if len(vs) == 0 {
				st.Class("roundtrips")
			}
			for _, v := range vs {
				st.Violate(v)
				st.Class(v.Clause)
			}
			if st.WantSample() && i%131 == 17 {
				st.Sample(vals[i])
			}
		}
		return true
	})

	var sub []string
	for i := 0; i < len(vals) && len(sub) < 60; i += len(vals)/60 + 1 {
		sub = append(sub, vals[i])
	}
	sub = append(sub, "", "x")
	r.Scenario("two-field-paragraphs", map[string]interface{}{"values": len(sub)}, len(sub), func(i int, st *mc.Stats) bool {
		for _, b := range sub {
			in := In{[]string{"A", "B-c"}, []string{sub[i], b}, false}
			st.Evals++
			st.Traces++
			st.Nontrivial++
			vs := check("two-field-paragraphs", in)
			if len(vs) == 0 {
				st.Class("roundtrips")
			}
			for _, v := range vs {
				st.Violate(v)
				st.Class(v.Clause)
			}
		}
		return true
	})

	// reader-produced paragraphs
	var docs []gen.DDoc
	for _, f := range gen.D822AuditFields() {
		docs = append(docs, gen.DDoc{gen.DPara{f}})
	}
	for _, f := range gen.D822FieldShapes("A", r.Pick(2, 3)) {
		docs = append(docs, gen.DDoc{gen.DPara{f}})
	}
	ra, rb, rx := gen.D822RepFields("A"), gen.D822RepFields("B-c"), gen.D822RepFields("Long-Name9")
	for _, a := range ra {
		for _, b := range rb {
			docs = append(docs, gen.DDoc{gen.DPara{a, b}})
			for _, c := range rx {
				docs = append(docs, gen.DDoc{gen.DPara{a, b, c}})
			}
		}
	}
	r.Scenario("reader-produced-paragraphs", map[string]interface{}{"documents": len(docs)}, 16, func(sh int, st *mc.Stats) bool {
		for i := sh; i < len(docs); i += 16 {
			for _, crlf := range []bool{false, true} {
				ps, err := readAll(docs[i].Render(gen.RenderOpt{CRLF: crlf}))
				if err != nil {
					st.Class("reader-error")
					continue
				}
				for _, p := range ps {
					in := In{Exact: true}
					for _, k := range p.Order {
						in.Names = append(in.Names, k)
						in.Values = append(in.Values, p.Values[k])
					}
					st.Evals++
					st.Traces++
					st.Nontrivial++
					vs := check("reader-produced-paragraphs", in)
					if len(vs) == 0 {
						st.Class("identity")
					}
					for _, v := range vs {
						st.Violate(v)
						st.Class(v.Clause)
					}
					if st.WantSample() && i%211 == 13 {
						st.Sample(in)
					}
				}
			}
		}
		return true
	})

	// a struct that embeds the raw paragraph next to typed members, written through the encoder: fields the struct does not
	// know - including names that differ from a member's key only in letter case - are the reader's and go back unchanged
	wdocs := []string{
		"Package: x\nHomePage: https://example.org\nsection: Devel\nBUGS: mailto:a@b\n",
		"Package: x\nHomepage: https://example.org/a\nHOMEPAGE: https://example.org/b\n",
		"homepage: h\nPackage: x\nSection: devel\nsection: again\n",
		"Package: x\nX-Other: y\nbugs: lower\nBugs: proper\n",
		"Package: x\nSection: devel\nHomePage: kept\n",
	}
	// a typed member whose value has every shape the reader produces (indented first line, first line on the line after the
	// key, empty lines at the start / inside / at the end, tabs), between fields the struct does not know
	for _, val := range []string{
		"\n   * first item\n   * second item\n .\n .\n", " one\n .\n two\n", "\n .\n after an empty line\n", " \t tabbed first\n\tcont\n",
		"\n\tonly a tab line\n", " x\n .\n", " x\n .\n .\n .\n", "   three blanks first\n", " a\n  b\n   c\n", "\n .\n", " trailing blanks   \n", " v\n \t.\n w\n",
	} {
		wdocs = append(wdocs, "Package: x\nHomepage:"+val+"X-Other: z\n", "Bugs:"+val+"Package: x\n", "Package: x\nsection: lower\nSection:"+val,
			"Package: x\nDescription:"+val+"X-Other: z\n")
	}
	// typed members that are present but empty (one, two, all of them; first, in the middle, last), with fields the struct
	// does not know before, between and behind them; and paragraphs that lack the members altogether
	for _, d := range []string{
		"Package: x\nHomepage:\nSection:\nX-After: y\n", "Homepage:\nPackage: x\nSection:\nBugs:\nX-After: y\nX-Last: z\n",
		"Package: x\nHomepage:\nX-Mid: m\nSection:\nX-After: y\n", "Package: x\nX-A: a\nX-B: b\nHomepage:\nBugs:\nDescription:\nX-C: c\nX-D: d\nX-E: e\n",
		"Package: x\nHomepage: h\nSection:\nBugs:\nX-After: y\n", "Package: x\nSection:\nBugs: b\nHomepage:\n", "Package: x\n", "X-Only: y\n",
		"Package: x\nDescription: short\n long\n .\n more\nX-After: y\n", "Package: x\nDescription:\n long only\nX-After: y\n", "Package: x\nDescription: short\n",
	} {
		wdocs = append(wdocs, d)
	}
	r.Scenario("typed-wrapper-over-raw-paragraph", map[string]interface{}{"documents": len(wdocs), "members": "Homepage Section Bugs", "note": "read, encode the struct, read: same fields in the same order with the same values (up to one trailing newline), no blank line inside the written paragraph"}, len(wdocs), func(i int, st *mc.Stats) bool {
		st.Evals++
		st.Traces++
		st.Nontrivial++
		vs, cls := checkWrapped("typed-wrapper-over-raw-paragraph", wdocs[i])
		for _, v := range vs {
			st.Violate(v)
		}
		st.Class(cls)
		return true
	})

	// the same entry points called at the same time on independent inputs: every schedule of small thread programs (instrumented build)
	sched.Explore(r, "concurrent-calls", ConcurrentPrograms())

	// encoder sequences
	reps := []In{
		{[]string{"A"}, []string{"v"}, false},
		{[]string{"A", "B"}, []string{"v", "w\nx\n"}, false},
		{[]string{"A"}, []string{"a\n\n\nb\n"}, false},
		{[]string{"Long-Name9", "X"}, []string{"1\n ind\n", "y"}, false},
		{[]string{"A"}, []string{""}, false},
		{[]string{"A", "B"}, []string{"v\nw", ""}, false},
		{[]string{"Description"}, []string{"short\nlong line\n\nmore\n"}, false},
		{nil, nil, false}, // a paragraph without fields: it contributes nothing, and must not glue its neighbours together
	}
	var seqs []EncIn
	for _, a := range reps {
		seqs = append(seqs, EncIn{Paras: []In{a}}, EncIn{Paras: []In{a}, Slice: true})
		for _, b := range reps {
			seqs = append(seqs, EncIn{Paras: []In{a, b}}, EncIn{Paras: []In{a, b}, Slice: true})
			for _, c := range reps {
				seqs = append(seqs, EncIn{Paras: []In{a, b, c}}, EncIn{Paras: []In{a, b, c}, Slice: true})
			}
		}
	}
	// a call the encoder refuses (a value it cannot encode) before, between and after the successful ones
	for _, a := range reps {
		for _, b := range reps {
			for _, rf := range [][]int{{0}, {1}, {2}, {0, 1}, {1, 1}, {0, 1, 2}} {
				seqs = append(seqs, EncIn{Paras: []In{a, b}, Refused: rf})
			}
			seqs = append(seqs, EncIn{Paras: []In{a, b, a}, Refused: []int{1}}, EncIn{Paras: []In{a, b, a}, Refused: []int{2}}, EncIn{Paras: []In{a, b, a}, Refused: []int{1, 2}})
		}
	}
	// every way of splitting 2..4 paragraphs into consecutive Encode calls, each call a struct or a slice
	var splits [][]int
	var rec func(left int, cur []int)
	rec = func(left int, cur []int) {
		if left == 0 {
			splits = append(splits, append([]int{}, cur...))
			return
		}
		rec(left-1, append(cur, 1))
		rec(left-1, append(cur, -1))
		for n := 2; n <= left; n++ {
			rec(left-n, append(cur, n))
		}
	}
	for total := 2; total <= 4; total++ {
		rec(total, nil)
	}
	for _, sp := range splits {
		n := 0
		for _, c := range sp {
			if c < 0 {
				n++
			} else {
				n += c
			}
		}
		var ps []In
		for i := 0; i < n; i++ {
			ps = append(ps, reps[(i*3+len(sp))%len(reps)])
		}
		seqs = append(seqs, EncIn{Paras: ps, Calls: sp})
	}
	// large: 13..257 paragraphs through one encoder (one call each / one slice / slices of 16), paragraphs of up to 300
	// fields, values of up to 1000 lines
	for _, n := range []int{13, 16, 17, 64, 65, 100, 257} {
		var ps []In
		for i := 0; i < n; i++ {
			ps = append(ps, reps[(i*5+1)%len(reps)])
		}
		calls16 := []int{}
		for left := n; left > 0; left -= 16 {
			if left >= 16 {
				calls16 = append(calls16, 16)
			} else if left == 1 {
				calls16 = append(calls16, 1)
			} else {
				calls16 = append(calls16, left)
			}
		}
		seqs = append(seqs, EncIn{Paras: ps}, EncIn{Paras: ps, Slice: true}, EncIn{Paras: ps, Calls: calls16})
		var names, vals []string
		for i := 0; i < n && i < 300; i++ {
			names = append(names, fmt.Sprintf("Field-%d", i))
			vals = append(vals, []string{"v", "", "one\ntwo", " ind\nx\n", "a\n\nb\n"}[i%5])
		}
		big := In{Names: names, Values: vals}
		seqs = append(seqs, EncIn{Paras: []In{big, reps[0], big}})
		lines := make([]string, n*4)
		for i := range lines {
			lines[i] = []string{"line", "", " indented", "#c", "k: v"}[i%5]
		}
		lines[0] = "first"
		seqs = append(seqs, EncIn{Paras: []In{{Names: []string{"Description", "After"}, Values: []string{strings.Join(lines, "\n"), "x"}}}})
	}
	r.Scenario("encoder-sequences", map[string]interface{}{"representative_paragraphs": len(reps), "max_calls": 3, "mixed_struct_and_slice_call_splits": len(splits), "sequences": len(seqs)}, 16, func(sh int, st *mc.Stats) bool {
		for i := sh; i < len(seqs); i += 16 {
			st.Evals++
			st.Traces++
			if len(seqs[i].Paras) > 1 {
				st.Nontrivial++
			}
			vs := checkEnc("encoder-sequences", seqs[i])
			if len(vs) == 0 {
				st.Class(fmt.Sprintf("%d-paragraphs-back", len(seqs[i].Paras)))
			}
			for _, v := range vs {
				st.Violate(v)
				st.Class(v.Clause)
			}
		}
		return true
	})
}

// wrapped embeds the raw paragraph next to typed members.
type wrapped struct {
	control.Paragraph
	Homepage string
	Section  string
	Bugs     string `control:"Bugs"`
	Long     string `control:"Description" multiline:"true"`
}

// checkWrapped: read doc, decode it into the struct, encode the struct, read again.
func checkWrapped(scen, doc string) ([]*mc.Violation, string) {
	in := In{Names: []string{"document"}, Values: []string{doc}}
	orig, err := readAll(doc)
	if err != nil || len(orig) != 1 {
		return nil, "reader-error"
	}
	var w wrapped
	var out bytes.Buffer
	var e2 error
	if p, msg := mc.Guard(func() {
		if e2 = control.Unmarshal(&w, strings.NewReader(doc)); e2 == nil {
			e2 = control.Marshal(&out, &w)
		}
	}); p || e2 != nil {
		return []*mc.Violation{mc.V(scen, "write-succeeds", in, "decode and encode succeed", fmt.Sprint(msg, e2))}, "changed"
	}
	for _, line := range strings.Split(strings.TrimSuffix(out.String(), "\n"), "\n") {
		if strings.TrimSpace(line) == "" {
			return []*mc.Violation{mc.V(scen, "no-blank-line-inside-paragraph", in, "no empty or whitespace-only line inside the written paragraph", fmt.Sprintf("%q", out.String()))}, "changed"
		}
	}
	back, err := readAll(out.String())
	if err != nil || len(back) != 1 {
		return []*mc.Violation{mc.V(scen, "written-form-reads-back", in, "one paragraph", fmt.Sprintf("%q: %v", out.String(), err))}, "changed"
	}
	// "values equal up to one trailing newline"
	upTo := func(m map[string]string) map[string]string {
		o := map[string]string{}
		for k, v := range m {
			o[k] = strings.TrimSuffix(v, "\n")
		}
		return o
	}
	// a typed member whose value is empty is an optional zero field: it is omitted (C09's rule), everything else stays
	want := gen.RefPara{Values: map[string]string{}}
	for _, k := range orig[0].Order {
		typed := k == "Homepage" || k == "Section" || k == "Bugs" || k == "Description"
		if typed && strings.TrimSpace(orig[0].Values[k]) == "" {
			continue
		}
		want.Order = append(want.Order, k)
		want.Values[k] = orig[0].Values[k]
	}
	if a, b := gen.CanonRef([]gen.RefPara{{Order: want.Order, Values: upTo(want.Values)}}), gen.CanonRef([]gen.RefPara{{Order: back[0].Order, Values: upTo(back[0].Values)}}); a != b {
		clause, feats := "same-fields-same-order", []string(nil)
		if strings.Join(orig[0].Order, "\x00") == strings.Join(back[0].Order, "\x00") {
			clause = "same-logical-lines"
		}
		for _, k := range orig[0].Order {
			if strings.HasPrefix(orig[0].Values[k], "\n") {
				feats = []string{"value-begins-with-empty-line"} // not representable by the writer: known finding W3a
			}
		}
		return []*mc.Violation{mc.V(scen, clause, in, a, b, feats...)}, "changed"
	}
	return nil, "identity"
}

func Replay(scenario string, raw json.RawMessage) []*mc.Violation {
	if scenario == "typed-wrapper-over-raw-paragraph" {
		var in In
		if mc.UnmarshalInput(raw, &in) == nil && len(in.Values) == 1 {
			vs, _ := checkWrapped(scenario, in.Values[0])
			return vs
		}
		return nil
	}
	if scenario == "concurrent-calls" {
		return sched.Replay(scenario, ConcurrentPrograms(), raw)
	}
	if scenario == "encoder-sequences" {
		var in EncIn
		if mc.UnmarshalInput(raw, &in) == nil {
			return checkEnc(scenario, in)
		}
		return nil
	}
	var in In
	if mc.UnmarshalInput(raw, &in) == nil {
		return check(scenario, in)
	}
	return nil
}
