package c08

import (
	"bytes"
	"fmt"

	"pault.ag/go/debian/control"

	"verifharness/sched"
)

// ConcurrentPrograms: paragraphs written at the same time, each into its own buffer (directly and through an encoder).
func ConcurrentPrograms() []sched.Program {
	paras := []In{
		{Names: []string{"Binary", "Version"}, Values: []string{"coreutils", "9.1-1"}},
		{Names: []string{"Description"}, Values: []string{"short\nlong line\n\nmore\n"}},
		{Names: []string{"A", "B"}, Values: []string{" indented first\nx", ""}},
		{Names: []string{"Long-Name9"}, Values: []string{"1\n ind\n\n\nend"}},
	}
	var ops []sched.Op
	for i, p := range paras {
		p := p
		ops = append(ops, sched.Op{Label: fmt.Sprintf("WriteTo(paragraph %d)", i), F: func() string {
			para := p.para()
			var b bytes.Buffer
			err := para.WriteTo(&b)
			var e bytes.Buffer
			enc, err2 := control.NewEncoder(&e)
			if err2 == nil {
				x := P{p.para()}
				err2 = enc.Encode(&x)
				if err2 == nil {
					err2 = enc.Encode(&x)
				}
			}
			return fmt.Sprintf("%q %v|%q %v", b.String(), err, e.String(), err2)
		}})
	}
	return sched.PairPrograms(ops)
}
