// Package c14: .deb loading exposes the package's control data and payload faithfully.
//
// Packages are built byte-exactly from a model (gen/debbuild.go), loaded with the real deb.Load, and everything the
// loader exposes is compared with the model the bytes were built from.
package c14

import (
	"bytes"
	"encoding/json"
	"fmt"
	"reflect"
	"sort"
	"strings"

	"verifharness/gen"
	"verifharness/mc"
	"verifharness/props/reg"
)

func init() { reg.Register(&reg.Prop{ID: "C14", Run: Run, Replay: Replay}) }

// Expect is the typed reading of the control paragraph, written by hand next to each paragraph model (so the
// library's own parsers are not their own oracle).
type Expect struct {
	Package, Source, Maintainer, MultiArch, Section, Priority, Homepage string
	Description                                                         string // logical value: lines joined by "\n"
	Epoch                                                               uint
	Upstream, Revision                                                  string
	Arch                                                                string
	InstalledSize                                                       int
	Deps                                                                map[string]string   // Control struct field -> canonical text
	DepNames                                                            map[string][]string // Control struct field -> package names in order
}

// In is the replayable input of every C14 scenario: the exact bytes plus the model they were built from.
type In struct {
	Name       string       // label of the configuration
	Model      gen.DebModel // what the bytes were built from
	Exp        Expect
	Layout     string            `json:",omitempty"` // "" canonical | "data-before-control"
	Extra      string            `json:",omitempty"` // "" | "gpgorigin-end" | "underscore-end" | "underscore-after-binary" | "unrelated-first"
	Drop       string            `json:",omitempty"` // "" | "debian-binary" | "control" | "data"
	Dup        string            `json:",omitempty"` // "" | "control-end" | "control-adjacent" | "data-end" | "data-adjacent" | "both-end"
	ExtraCount int               `json:",omitempty"` // this many further members _x001, _x002, ... at the end
	RawExtra   []gen.ArMember    `json:",omitempty"` // further members given verbatim (names such as "/" and "//") ...
	RawPos     int               `json:",omitempty"` // ... inserted at this position
	SecondName string            `json:",omitempty"` // a further member with this name (see secondMember) ...
	SecondPos  int               `json:",omitempty"` // ... inserted at this position of the member list
	WantStruct map[string]string `json:",omitempty"` // field-model inputs: canonical rendering of every deb.Control field (replaces Exp)
	Verdict    string            // "must-load" | "must-reject" | "lenient" (may be rejected; if it loads it must be faithful) | "unconstrained" (only determinism)
	Orders     bool              `json:",omitempty"` // run under ForEachMapOrder instead of two plain loads
	Deb        []byte            // the package, byte-exact (base64 in JSON)
}

func features(in In) []string {
	var f []string
	if in.Layout != "" {
		f = append(f, in.Layout)
	}
	if in.Extra != "" {
		f = append(f, "extra-"+in.Extra)
	}
	if in.Drop != "" {
		f = append(f, "missing-"+in.Drop)
	}
	switch {
	case strings.HasPrefix(in.Dup, "control"):
		f = append(f, "two-control-members")
	case strings.HasPrefix(in.Dup, "data"):
		f = append(f, "two-data-members")
	case strings.HasPrefix(in.Dup, "both"):
		f = append(f, "two-control-members", "two-data-members")
	}
	switch {
	case strings.HasPrefix(in.SecondName, "control."):
		f = append(f, "two-control-members")
	case strings.HasPrefix(in.SecondName, "data."):
		f = append(f, "two-data-members")
	}
	if in.SecondName != "" && !strings.HasPrefix(in.SecondName, "control.tar") && !strings.HasPrefix(in.SecondName, "data.tar") {
		f = append(f, "second-member-name-not-tar")
	}
	if len(in.RawExtra) > 0 {
		f = append(f, "extra-member-with-slash-name")
	}
	if in.Model.BinaryContent() != "2.0\n" {
		f = append(f, "debian-binary-not-2.0")
	}
	for _, e := range in.Model.ControlEntries {
		if e == "control" {
			f = append(f, "control-entry-without-dot-slash")
		}
	}
	return f
}

// ---------------------------------------------------------------- models

type paragraph struct {
	name   string
	fields []gen.DebField
	exp    Expect
}

func paragraphs() []paragraph {
	return []paragraph{
		{"minimal", []gen.DebField{{Key: "Package", Value: "hello"}, {Key: "Version", Value: "1.0-1"}, {Key: "Architecture", Value: "amd64"}},
			Expect{Package: "hello", Upstream: "1.0", Revision: "1", Arch: "amd64"}},
		{"full", []gen.DebField{
			{Key: "Package", Value: "libfoo-bar2.0"},
			{Key: "Source", Value: "foo-src"},
			{Key: "Version", Value: "1:2.0~rc1-1+b1"},
			{Key: "Architecture", Value: "all"},
			{Key: "Maintainer", Value: "Jane Q. Public <jane@example.org>"},
			{Key: "Installed-Size", Value: "1234"},
			{Key: "Multi-Arch", Value: "foreign"},
			{Key: "Depends", Value: "libc6 (>= 2.14), foo | bar (<< 2)"},
			{Key: "Recommends", Value: "baz"},
			{Key: "Suggests", Value: "qux-doc"},
			{Key: "Breaks", Value: "old (<< 1.0)"},
			{Key: "Replaces", Value: "old (<< 1.0)"},
			{Key: "Built-Using", Value: "gcc-12 (= 12.2.0-14)"},
			{Key: "Section", Value: "libs"},
			{Key: "Priority", Value: "optional"},
			{Key: "Homepage", Value: "https://example.org/foo"},
			{Key: "Description", Value: "short summary\n long line one\n .\n second paragraph"},
		}, Expect{Package: "libfoo-bar2.0", Source: "foo-src", Epoch: 1, Upstream: "2.0~rc1", Revision: "1+b1", Arch: "all",
			Maintainer: "Jane Q. Public <jane@example.org>", InstalledSize: 1234, MultiArch: "foreign", Section: "libs", Priority: "optional",
			Homepage: "https://example.org/foo", Description: "short summary\nlong line one\n\nsecond paragraph",
			Deps: map[string]string{"Depends": "libc6 (>= 2.14), foo | bar (<< 2)", "Recommends": "baz", "Suggests": "qux-doc",
				"Breaks": "old (<< 1.0)", "Replaces": "old (<< 1.0)", "BuiltUsing": "gcc-12 (= 12.2.0-14)"},
			DepNames: map[string][]string{"Depends": {"libc6", "foo", "bar"}, "Recommends": {"baz"}, "Suggests": {"qux-doc"},
				"Breaks": {"old"}, "Replaces": {"old"}, "BuiltUsing": {"gcc-12"}}}},
		{"custom", []gen.DebField{
			{Key: "Package", Value: "x"},
			{Key: "Version", Value: "0.939000"},
			{Key: "Architecture", Value: "i386"},
			{Key: "Maintainer", Value: "M <m@example.org>"},
			{Key: "X-Custom-Field", Value: "some value: with colon"},
			{Key: "Description", Value: "one line only"},
		}, Expect{Package: "x", Upstream: "0.939000", Arch: "i386", Maintainer: "M <m@example.org>", Description: "one line only"}},
	}
}

// bigParagraph is the "full" model with a Description folded over as many lines as it takes to reach descBytes.
func bigParagraph(name string, descBytes int) paragraph {
	p := paragraphs()[1]
	var folded, logical strings.Builder
	folded.WriteString("a long extended description")
	logical.WriteString("a long extended description")
	for i := 0; folded.Len() < descBytes; i++ {
		if i%40 == 39 {
			folded.WriteString("\n .")
			logical.WriteString("\n")
			continue
		}
		line := fmt.Sprintf("line %06d of the extended description; it is here only to make the control file large.", i)
		folded.WriteString("\n " + line)
		logical.WriteString("\n" + line)
	}
	fields := append([]gen.DebField(nil), p.fields...)
	for i := range fields {
		if fields[i].Key == "Description" {
			fields[i].Value = folded.String()
		}
	}
	p.name, p.fields = name, fields
	p.exp.Description = logical.String()
	return p
}

var controlEntrySets = [][]string{
	{"./control"},
	{"./md5sums", "./control"},
	{"./", "./postinst", "./control", "./conffiles"},
	{"control"},
}

func dataFileSets() [][]gen.TarEntry {
	return [][]gen.TarEntry{
		{},
		{{Name: "./usr/bin/hello", Body: []byte("#!/bin/sh\necho hello\n")}},
		{{Name: "./", Dir: true}, {Name: "./usr/share/doc/x/README", Body: []byte("read me\n\x00\xff binary tail")}, {Name: "./empty", Body: []byte{}}},
	}
}

var extras = []string{"", "gpgorigin-end", "underscore-end", "underscore-after-binary", "unrelated-first"}
var layouts = []string{"", "data-before-control"}

// logical value of a folded field as the deb822 rules give it: continuation lines lose their first blank, a lone
// "." is an empty line.
func unfold(v string) string {
	lines := strings.Split(v, "\n")
	for i := 1; i < len(lines); i++ {
		l := strings.TrimPrefix(lines[i], " ")
		if l == "." {
			l = ""
		}
		lines[i] = l
	}
	return strings.Join(lines, "\n")
}

// assemble builds the member list for a configuration.
func assemble(c *gen.DebCompressor, in *In) ([]gen.ArMember, error) {
	mem, err := in.Model.Members(c)
	if err != nil {
		return nil, err
	}
	bin, ctl, dat := mem[0], mem[1], mem[2]
	var out []gen.ArMember
	if in.Extra == "unrelated-first" {
		out = append(out, gen.ArMember{Name: "unrelated", Data: []byte("not part of the format\n")})
	}
	if in.Drop != "debian-binary" {
		out = append(out, bin)
	}
	if in.Extra == "underscore-after-binary" {
		out = append(out, gen.ArMember{Name: "_future", Data: []byte("ignored by dpkg\n")})
	}
	dupComp := func(orig string) string {
		if orig == "gz" {
			return "none"
		}
		return "gz"
	}
	var dupCtl, dupDat *gen.ArMember
	if strings.HasPrefix(in.Dup, "control") || strings.HasPrefix(in.Dup, "both") {
		m2 := in.Model
		m2.Fields = append([]gen.DebField(nil), in.Model.Fields...)
		for i := range m2.Fields {
			if m2.Fields[i].Key == "Package" {
				m2.Fields[i].Value = "second-control-member"
			}
		}
		m2.ControlComp = dupComp(in.Model.ControlComp)
		z, err := c.Compress(m2.ControlComp, m2.ControlTar())
		if err != nil {
			return nil, err
		}
		dupCtl = &gen.ArMember{Name: m2.ControlName(), Data: z}
	}
	if strings.HasPrefix(in.Dup, "data") || strings.HasPrefix(in.Dup, "both") {
		m2 := in.Model
		m2.DataFiles = []gen.TarEntry{{Name: "./second-data-member", Body: []byte("other payload\n")}}
		m2.DataComp = dupComp(in.Model.DataComp)
		z, err := c.Compress(m2.DataComp, m2.DataTar())
		if err != nil {
			return nil, err
		}
		dupDat = &gen.ArMember{Name: m2.DataName(), Data: z}
	}
	addCtl := func() {
		if in.Drop != "control" {
			out = append(out, ctl)
			if dupCtl != nil && strings.HasSuffix(in.Dup, "adjacent") {
				out = append(out, *dupCtl)
			}
		}
	}
	addDat := func() {
		if in.Drop != "data" {
			out = append(out, dat)
			if dupDat != nil && strings.HasSuffix(in.Dup, "adjacent") {
				out = append(out, *dupDat)
			}
		}
	}
	if in.Layout == "data-before-control" {
		addDat()
		addCtl()
	} else {
		addCtl()
		addDat()
	}
	switch in.Extra {
	case "gpgorigin-end":
		out = append(out, gen.ArMember{Name: "_gpgorigin", Data: []byte("not really a signature")})
	case "underscore-end":
		out = append(out, gen.ArMember{Name: "_extra", Data: []byte("x")})
	}
	if strings.HasSuffix(in.Dup, "end") {
		if dupCtl != nil {
			out = append(out, *dupCtl)
		}
		if dupDat != nil {
			out = append(out, *dupDat)
		}
	}
	for i := 1; i <= in.ExtraCount; i++ {
		out = append(out, gen.ArMember{Name: fmt.Sprintf("_x%03d", i), Data: []byte(fmt.Sprintf("member %d\n", i))})
	}
	if len(in.RawExtra) > 0 {
		pos := in.RawPos
		if pos > len(out) {
			pos = len(out)
		}
		out = append(out[:pos:pos], append(append([]gen.ArMember{}, in.RawExtra...), out[pos:]...)...)
	}
	if in.SecondName != "" {
		sm, err := secondMember(c, in)
		if err != nil {
			return nil, err
		}
		pos := in.SecondPos
		if pos > len(out) {
			pos = len(out)
		}
		out = append(out[:pos:pos], append([]gen.ArMember{sm}, out[pos:]...)...)
	}
	return out, nil
}

// secondMember builds the further control.* / data.* member named in.SecondName. If the name looks like a tar
// (".tar" or ".tar.<encoding>" suffix) it IS one, in that encoding, with content that differs from the model's
// (Package: second-control-member / file ./second-data-member); any other name carries bytes that are no tar.
func secondMember(c *gen.DebCompressor, in *In) (gen.ArMember, error) {
	name := in.SecondName
	isCtl := strings.HasPrefix(name, "control.")
	comp := ""
	switch {
	case strings.HasSuffix(name, ".tar"):
		comp = "none"
	default:
		for _, k := range gen.DebComps[1:] {
			if strings.HasSuffix(name, ".tar."+k) {
				comp = k
			}
		}
	}
	if comp == "" {
		return gen.ArMember{Name: name, Data: []byte("this member is not a tar archive\n")}, nil
	}
	m2 := in.Model
	var raw []byte
	if isCtl {
		m2.Fields = append([]gen.DebField(nil), in.Model.Fields...)
		for i := range m2.Fields {
			if m2.Fields[i].Key == "Package" {
				m2.Fields[i].Value = "second-control-member"
			}
		}
		raw = m2.ControlTar()
	} else {
		raw = gen.BuildTar([]gen.TarEntry{{Name: "./second-data-member", Body: []byte("other payload\n")}})
	}
	z, err := c.Compress(comp, raw)
	return gen.ArMember{Name: name, Data: z}, err
}

// ---------------------------------------------------------------- oracle

func eqField(got, want string) bool { return strings.TrimRight(got, "\n") == want }

// compare returns the violations of one observation against the model ("" scenario filled by caller).
func compare(scen string, in In, o Obs) []*mc.Violation {
	var vs []*mc.Violation
	bad := func(clause, exp, obs string) {
		vs = append(vs, mc.V(scen, clause, in, exp, obs, features(in)...))
	}
	members, err := gen.ParseAr(in.Deb)
	if err != nil {
		// the harness only builds archives its own reader understands
		bad("harness-archive-unreadable", "archive readable by gen.ParseAr", err.Error())
		return vs
	}
	switch in.Verdict {
	case "must-reject":
		if o.Loaded {
			bad("malformed-package-rejected", "Load returns an error (debian-binary="+mc.Q(in.Model.BinaryContent())+", members "+memberNames(members)+")", o.Brief())
		}
		return vs
	case "unconstrained":
		return vs
	case "lenient":
		if !o.Loaded && o.Panic == "" {
			return vs
		}
	}
	if !o.Loaded {
		bad("well-formed-package-loads", "Load succeeds", o.Brief())
		return vs
	}
	// extensions
	wantCE, wantDE := strings.TrimPrefix(in.Model.ControlName(), "control."), strings.TrimPrefix(in.Model.DataName(), "data.")
	if o.ControlExt != wantCE || o.DataExt != wantDE {
		bad("extensions-are-member-suffixes", fmt.Sprintf("ControlExt=%q DataExt=%q", wantCE, wantDE), fmt.Sprintf("ControlExt=%q DataExt=%q", o.ControlExt, o.DataExt))
	}
	// ar index
	var wantKeys []string
	wantSizes := map[string]int64{}
	for _, m := range members {
		wantKeys = append(wantKeys, m.Name)
		wantSizes[m.Name] = int64(len(m.Data))
	}
	sort.Strings(wantKeys)
	if !reflect.DeepEqual(o.Keys, wantKeys) || !o.NameOK {
		bad("ar-index-lists-all-members", fmt.Sprint(wantKeys), fmt.Sprintf("%v (entry names consistent: %v)", o.Keys, o.NameOK))
	} else if !reflect.DeepEqual(o.Sizes, wantSizes) {
		bad("ar-index-lists-all-members", fmt.Sprint(wantSizes), fmt.Sprint(o.Sizes))
	}
	for _, d := range CompareContent(in, o) {
		bad(d[0], d[1], d[2])
	}
	return vs
}

// CompareContent compares the control fields and the payload of a successful load with the model; each difference
// is {clause, expected, observed}. (C16 reuses it: "the exposed content is the signed content".)
func CompareContent(in In, o Obs) [][3]string {
	var out [][3]string
	// control fields
	var diffs, wants []string
	if in.WantStruct != nil {
		wants, diffs = compareStruct(in, o)
	} else {
		w2, d2 := compareExpect(in, o)
		wants, diffs = w2, d2
	}
	var wantOrder []string
	for _, f := range in.Model.Fields {
		wantOrder = append(wantOrder, f.Key)
		if got, ok := o.Values[f.Key]; !ok || !eqField(got, unfold(f.Value)) {
			diffs = append(diffs, fmt.Sprintf("Values[%s]=%q", f.Key, got))
			wants = append(wants, fmt.Sprintf("Values[%s]=%q", f.Key, unfold(f.Value)))
		}
	}
	if len(o.Values) != len(in.Model.Fields) || !reflect.DeepEqual(o.Order, wantOrder) {
		diffs = append(diffs, fmt.Sprintf("Order=%v (%d values)", o.Order, len(o.Values)))
		wants = append(wants, fmt.Sprintf("Order=%v (%d values)", wantOrder, len(in.Model.Fields)))
	}
	if len(diffs) > 0 {
		out = append(out, [3]string{"control-fields-equal-packaged-paragraph", strings.Join(wants, "; "), strings.Join(diffs, "; ")})
	}
	// payload
	if v := comparePayload(in.Model.DataFiles, o); v != "" {
		out = append(out, [3]string{"data-stream-lists-packaged-files", describeFiles(in.Model.DataFiles), v})
	}
	return out
}

// compareExpect: the fixed typed fields against the hand-written Expect of a paragraph model.
func compareExpect(in In, o Obs) (wants, diffs []string) {
	e := in.Exp
	type pair struct{ name, got, want string }
	ps := []pair{
		{"Package", o.Package, e.Package}, {"Source", o.Source, e.Source}, {"Maintainer", o.Maintainer, e.Maintainer},
		{"MultiArch", o.MultiArch, e.MultiArch}, {"Section", o.Section, e.Section}, {"Priority", o.Priority, e.Priority},
		{"Homepage", o.Homepage, e.Homepage}, {"Description", o.Description, e.Description},
		{"Version.Version", o.Upstream, e.Upstream}, {"Version.Revision", o.Revision, e.Revision},
		{"Version.Epoch", fmt.Sprint(o.Epoch), fmt.Sprint(e.Epoch)},
		{"Architecture", o.Arch, e.Arch}, {"Architecture.CPU", o.ArchCPU, e.Arch},
		{"InstalledSize", fmt.Sprint(o.InstalledSize), fmt.Sprint(e.InstalledSize)},
	}
	for _, dn := range []string{"Depends", "Recommends", "Suggests", "Breaks", "Replaces", "BuiltUsing"} {
		ps = append(ps, pair{dn, o.Deps[dn], e.Deps[dn]}, pair{dn + " names", fmt.Sprint(o.DepNames[dn]), fmt.Sprint(e.DepNames[dn])})
	}
	for _, p := range ps {
		if !eqField(p.got, p.want) {
			diffs = append(diffs, fmt.Sprintf("%s=%q", p.name, p.got))
			wants = append(wants, fmt.Sprintf("%s=%q", p.name, p.want))
		}
	}
	return
}

func memberNames(ms []gen.ArMember) string {
	var n []string
	for _, m := range ms {
		n = append(n, m.Name)
	}
	return fmt.Sprint(n)
}

func describeFiles(fs []gen.TarEntry) string {
	var s []string
	for _, f := range fs {
		if f.Dir {
			s = append(s, f.Name+" (dir)")
		} else {
			s = append(s, fmt.Sprintf("%s (%d bytes)", f.Name, len(f.Content())))
		}
	}
	return fmt.Sprint(s)
}

// comparePayload returns "" when the observed stream lists exactly the model's entries with their bytes.
func comparePayload(want []gen.TarEntry, o Obs) string {
	if o.DataErr != "" {
		return "error while reading Deb.Data: " + o.DataErr
	}
	if len(o.Files) != len(want) {
		return fmt.Sprintf("%d entries: %s", len(o.Files), describeObs(o.Files))
	}
	for i, w := range want {
		g := o.Files[i]
		if g.Name != w.Name || g.Dir != w.Dir || g.Type != "" || (!w.Dir && !bytes.Equal(g.Body, w.Content())) {
			return fmt.Sprintf("entry %d differs: %s", i, describeObs(o.Files))
		}
	}
	return ""
}

func describeObs(fs []FileObs) string {
	var s []string
	for _, f := range fs {
		if f.Dir {
			s = append(s, f.Name+" (dir)")
		} else {
			s = append(s, fmt.Sprintf("%s (%d bytes)", f.Name, len(f.Body)))
		}
	}
	return fmt.Sprint(s)
}

// Check is the oracle for one input: it executes deb.Load on in.Deb (twice, or once per explored map order when
// in.Orders), compares every outcome with the model and requires all outcomes to be the same.
func Check(scen string, in In) ([]*mc.Violation, []Obs) {
	var obs []Obs
	if in.Orders {
		// stop executing further orders once two different outcome classes have been seen (already a counterexample)
		seen := map[string]bool{}
		ForEachMapOrder(func() {
			if len(seen) > 1 {
				return
			}
			o := Observe(in.Deb, nil)
			obs = append(obs, o)
			seen[o.Class()] = true
		})
	} else {
		obs = append(obs, Observe(in.Deb, nil), Observe(in.Deb, nil))
	}
	var vs []*mc.Violation
	seenClause := map[string]bool{}
	classes := map[string]Obs{}
	kept := obs[:0:0]
	for _, o := range obs {
		if !o.Skipped {
			kept = append(kept, o)
		}
	}
	obs = kept
	for _, o := range obs {
		if o.Hang != "" {
			// a library call that does not return is a violation whatever the verdict of the input
			if !seenClause["terminates"] {
				seenClause["terminates"] = true
				vs = append(vs, mc.V(scen, "terminates", in, "deb.Load, reading Deb.Data and Close return (loading is total; other workers load other packages at the same time)",
					o.Hang, append(features(in), "other-packages-loaded-concurrently")...))
			}
			continue
		}
		c := o.Class()
		if _, ok := classes[c]; ok {
			continue
		}
		classes[c] = o
		for _, v := range compare(scen, in, o) {
			if !seenClause[v.Clause] {
				seenClause[v.Clause] = true
				vs = append(vs, v)
			}
		}
	}
	if len(classes) > 1 {
		var briefs []string
		for _, o := range classes {
			briefs = append(briefs, o.Shape())
		}
		sort.Strings(briefs)
		vs = append(vs, mc.V(scen, "same-bytes-same-result", in, "every load of the same bytes gives the same result",
			fmt.Sprintf("%d distinct results: %s", len(briefs), strings.Join(briefs, " || ")), features(in)...))
	}
	return vs, obs
}

// outcomeClass names the histogram bucket of an input's first observation.
func outcomeClass(in In, o Obs) string {
	switch {
	case o.Hang != "":
		return in.Verdict + ":NO-TERMINATION"
	case o.Skipped:
		return in.Verdict + ":not-executed-after-hang"
	case o.Panic != "":
		return in.Verdict + ":panic"
	case !o.Loaded:
		return in.Verdict + ":rejected"
	case o.DataErr != "":
		return in.Verdict + ":loaded-data-error"
	}
	return in.Verdict + ":loaded"
}

// ---------------------------------------------------------------- replay

func Replay(scenario string, raw json.RawMessage) []*mc.Violation {
	if scenario == "interleaved-debs" {
		return replayMulti(scenario, raw)
	}
	if scenario == "loadfile-path-kinds" {
		return replayPath(scenario, raw)
	}
	if scenario == "object-histories" {
		return replayHist(scenario, raw)
	}
	if scenario == "xz-maxdict-history" {
		return replayKnob(scenario, raw)
	}
	var in In
	if err := mc.UnmarshalInput(raw, &in); err != nil {
		return nil
	}
	if in.Orders {
		// confirmation of a counterexample that needs a particular map order: more repetitions than the run used
		old := MapOrderReps
		MapOrderReps = 16 * old
		defer func() { MapOrderReps = old }()
	}
	vs, _ := Check(scenario, in)
	return vs
}

// SampleModel returns the "full" paragraph model with its typed reading, a control tar of four entries and a payload
// of a directory, a file with binary bytes and an empty file, in the given encodings (shared with C16).
func SampleModel(controlComp, dataComp string) (gen.DebModel, Expect) {
	p := paragraphs()[1]
	return gen.DebModel{Fields: p.fields, ControlEntries: controlEntrySets[2], DataFiles: dataFileSets()[2], ControlComp: controlComp, DataComp: dataComp}, p.exp
}
