package c14

import (
	"fmt"
	"reflect"
	"strings"

	"pault.ag/go/debian/deb"
	"pault.ag/go/debian/dependency"
	"pault.ag/go/debian/version"

	"verifharness/gen"
	"verifharness/mc"
)

// The packaged control paragraph as a FIELD MODEL: the fields of deb.Control are found by reflection (a field added
// to the struct is checked without anyone remembering to), every field has a small alphabet of legal values — among
// them the values Policy enumerates — and the expected typed value of each comes from the harness's own references
// (gen.Recognise for dependency fields, gen.DenoteArch for architectures, gen.DField.RefValue for folded text).

// fvar is one legal way to write a field: first line + continuation lines (without the leading blank), and the
// canonical rendering the typed struct field must have.
type fvar struct {
	Lines []string
	Want  string
}

type fspec struct {
	Key      string // Debian field name
	Go       string // struct field name ("" = not in the struct: raw Paragraph only)
	Kind     string // scalar int bool version arch dep other
	Required bool
	Vars     []fvar // Vars[0] is the baseline
}

func q(s string) string { return fmt.Sprintf("%q", s) }

func kindOf(t reflect.Type) string {
	switch {
	case t == reflect.TypeOf(version.Version{}):
		return "version"
	case t == reflect.TypeOf(dependency.Arch{}):
		return "arch"
	case t == reflect.TypeOf(dependency.Dependency{}):
		return "dep"
	}
	switch t.Kind() {
	case reflect.String:
		return "scalar"
	case reflect.Int, reflect.Int8, reflect.Int16, reflect.Int32, reflect.Int64, reflect.Uint, reflect.Uint8, reflect.Uint16, reflect.Uint32, reflect.Uint64:
		return "int"
	case reflect.Bool:
		return "bool"
	}
	return "other"
}

// canon renders a decoded struct field canonically.
func canon(f reflect.Value, kind string) string {
	switch kind {
	case "scalar":
		return q(f.String())
	case "int":
		if f.CanInt() {
			return fmt.Sprint(f.Int())
		}
		return fmt.Sprint(f.Uint())
	case "bool":
		return fmt.Sprint(f.Bool())
	case "version":
		v := f.Interface().(version.Version)
		return fmt.Sprintf("%d|%s|%s", v.Epoch, v.Version, v.Revision)
	case "arch":
		a := f.Interface().(dependency.Arch)
		return a.ABI + "/" + a.OS + "/" + a.CPU
	case "dep":
		d := f.Interface().(dependency.Dependency)
		return gen.CanonDep(&d)
	}
	return fmt.Sprintf("%#v", f.Interface())
}

func zeroOf(kind string) string {
	switch kind {
	case "scalar":
		return q("")
	case "int":
		return "0"
	case "bool":
		return "false"
	case "version":
		return "0||"
	case "arch":
		return "//"
	case "dep":
		return ""
	}
	return "?"
}

// structFields lists the fields of deb.Control (without the embedded Paragraph): Go name, Debian key, kind, required.
func structFields() []fspec {
	t := reflect.TypeOf(deb.Control{})
	var out []fspec
	for i := 0; i < t.NumField(); i++ {
		f := t.Field(i)
		if f.Anonymous || f.PkgPath != "" {
			continue
		}
		key := f.Tag.Get("control")
		if key == "" {
			key = f.Name
		}
		out = append(out, fspec{Key: key, Go: f.Name, Kind: kindOf(f.Type), Required: f.Tag.Get("required") == "true"})
	}
	return out
}

// observeStruct renders every field of a decoded deb.Control.
func observeStruct(c *deb.Control) map[string]string {
	out := map[string]string{}
	v := reflect.ValueOf(c).Elem()
	for _, f := range structFields() {
		out[f.Go] = canon(v.FieldByName(f.Go), f.Kind)
	}
	return out
}

// ---- variant constructors

func scalar(s string) fvar { return fvar{[]string{s}, q(s)} }

func multi(first string, cont ...string) fvar {
	f := gen.DField{Name: "x", First: first}
	for _, c := range cont {
		f.Cont = append(f.Cont, gen.DLine{Marker: ' ', Text: c})
	}
	return fvar{append([]string{first}, cont...), q(f.RefValue())}
}

func intv(n int) fvar { return fvar{[]string{fmt.Sprint(n)}, fmt.Sprint(n)} }

func ver(s string) fvar {
	var epoch uint64
	t := s
	if i := strings.Index(t, ":"); i >= 0 {
		for _, c := range t[:i] {
			epoch = epoch*10 + uint64(c-'0')
		}
		t = t[i+1:]
	}
	rev := ""
	if i := strings.LastIndex(t, "-"); i >= 0 {
		rev, t = t[i+1:], t[:i]
	}
	return fvar{[]string{s}, fmt.Sprintf("%d|%s|%s", epoch, t, rev)}
}

func archv(n string) fvar {
	a := gen.DenoteArch(n)
	if a.All {
		return fvar{[]string{n}, "all/all/all"}
	}
	return fvar{[]string{n}, a.ABI + "/" + a.OS + "/" + a.CPU}
}

func depv(lines ...string) fvar {
	ast, reason := gen.Recognise(strings.Join(lines, "\n"))
	if reason != "" {
		panic("harness dependency variant not well-formed: " + reason + ": " + strings.Join(lines, "|"))
	}
	return fvar{lines, ast.Canon()}
}

func depShapes() []fvar {
	return []fvar{
		depv("debhelper (>= 9), libfoo-dev"),
		depv("single"),
		depv("a | b (<< 2.0~rc1) [amd64 linux-any], c (= 1:1.0-1)"),
		depv("debhelper (>= 9),", "libfoo-dev [!amd64 !i386] <!nocheck>,", "c:any"),
		depv("x (>> 1), y (<= 2) | z"),
	}
}

// fieldModel: the struct's fields with their alphabets, then fields that exist only in the raw paragraph.
func fieldModel() []fspec {
	table := map[string][]fvar{
		"Package":        {scalar("hello"), scalar("libfoo-bar2.0+x")},
		"Source":         {scalar("hello-src"), scalar("hello-src (2.10-1)")},
		"Version":        {ver("2.10-1+b1"), ver("1:2.10-1"), ver("0.939000"), ver("1.0~rc1-0.1")},
		"Architecture":   {archv("amd64"), archv("all"), archv("any"), archv("linux-any"), archv("i386")},
		"Maintainer":     {scalar("Santiago Vila <sanvila@debian.org>")},
		"Installed-Size": {intv(280), intv(0), intv(1), intv(2147483647)},
		"Multi-Arch":     {scalar("same"), scalar("no"), scalar("foreign"), scalar("allowed")},
		"Built-Using":    {depv("gcc-12 (= 12.2.0-14)"), depv("gcc-12 (= 12.2.0-14), glibc (= 2.36-9)")},
		"Section":        {scalar("devel"), scalar("non-free/libs"), scalar("contrib/net")},
		"Priority":       {scalar("optional"), scalar("required"), scalar("important"), scalar("standard"), scalar("extra")},
		"Homepage":       {scalar("https://www.gnu.org/software/hello/")},
		"Description":    {multi("example package", "long text", ".", "more text after an empty line", ".", "end"), scalar("short one-line description"), multi("summary", "one continuation line")},
	}
	var out []fspec
	for _, f := range structFields() {
		switch {
		case table[f.Key] != nil:
			f.Vars = table[f.Key]
		case f.Kind == "dep":
			f.Vars = depShapes()
		case f.Kind == "scalar":
			f.Vars = []fvar{scalar("value"), scalar("another value: with colon")}
		case f.Kind == "int":
			f.Vars = []fvar{intv(7), intv(0)}
		case f.Kind == "version":
			f.Vars = []fvar{ver("1.0-1"), ver("2:3.4~5-6")}
		case f.Kind == "arch":
			f.Vars = []fvar{archv("amd64"), archv("all")}
		case f.Kind == "bool":
			f.Vars = []fvar{{[]string{"yes"}, "true"}, {[]string{"no"}, "false"}}
		default:
			f.Vars = []fvar{{[]string{"1"}, "?"}} // a type this model has no reference for: presence only
		}
		out = append(out, f)
	}
	// Policy fields deb.Control does not decode, and a user-defined one: they must survive in the raw paragraph
	out = append(out,
		fspec{Key: "Essential", Kind: "scalar", Vars: []fvar{scalar("yes"), scalar("no")}},
		fspec{Key: "Pre-Depends", Kind: "scalar", Vars: []fvar{scalar("libc6 (>= 2.14)")}},
		fspec{Key: "X-Custom-Field", Kind: "scalar", Vars: []fvar{scalar("some value: with colon"), multi("first", "second line")}})
	// on the unchanged struct the paragraph-only fields follow Description; keep Description last as dpkg-deb does
	for i, f := range out {
		if f.Key == "Description" {
			d := out[i]
			out = append(append(out[:i:i], out[i+1:]...), d)
			break
		}
	}
	return out
}

// fieldChoice: per field of the model the chosen variant; -1 = field absent.
type fieldChoice []int

// buildFields renders a choice into the model's paragraph and the expected struct rendering.
func buildFields(model []fspec, ch fieldChoice) ([]gen.DebField, map[string]string) {
	var fields []gen.DebField
	want := map[string]string{}
	for i, f := range model {
		if ch[i] < 0 {
			if f.Go != "" {
				want[f.Go] = zeroOf(f.Kind)
			}
			continue
		}
		v := f.Vars[ch[i]]
		fields = append(fields, gen.DebField{Key: f.Key, Value: strings.Join(v.Lines, "\n ")})
		if f.Go != "" {
			want[f.Go] = v.Want
		}
	}
	return fields, want
}

// binaryAlphabet: contents of debian-binary that a format-2.0 reader must accept (deb(5): "the file may contain
// further lines, which must be ignored").
var binaryAlphabet = []string{"2.0\n", "2.0\nextra line\n", "2.0\n\n", "2.0\nfuture: field\nmore\n"}

// fieldInputs enumerates the baseline and every execution with at most k deviations (a field takes another variant, an
// optional field is absent, debian-binary takes another accepted content).
func fieldInputs(k int, pairs [][2]string) []In {
	model := fieldModel()
	type dev struct {
		field, choice int // field == len(model): debian-binary
		label         string
	}
	var devs []dev
	for i, f := range model {
		for c := 1; c < len(f.Vars); c++ {
			devs = append(devs, dev{i, c, fmt.Sprintf("%s: %s", f.Key, strings.Join(f.Vars[c].Lines, "\\n "))})
		}
		if !f.Required {
			devs = append(devs, dev{i, -1, f.Key + " absent"})
		}
	}
	for c := 1; c < len(binaryAlphabet); c++ {
		devs = append(devs, dev{len(model), c, fmt.Sprintf("debian-binary=%q", binaryAlphabet[c])})
	}
	var out []In
	mk := func(ds []dev) {
		ch := make(fieldChoice, len(model))
		bin := 0
		var labels []string
		for _, d := range ds {
			if d.field == len(model) {
				bin = d.choice
			} else {
				ch[d.field] = d.choice
			}
			labels = append(labels, d.label)
		}
		fields, want := buildFields(model, ch)
		for _, pr := range pairs {
			in := In{Model: gen.DebModel{Fields: fields, ControlEntries: controlEntrySets[2], DataFiles: dataFileSets()[1], ControlComp: pr[0], DataComp: pr[1]},
				WantStruct: want, Verdict: "must-load"}
			if bin != 0 {
				in.Model.Binary = binaryAlphabet[bin]
			}
			in.Name = fmt.Sprintf("field model %s/%s: baseline", pr[0], pr[1])
			if len(labels) > 0 {
				in.Name = fmt.Sprintf("field model %s/%s: %s", pr[0], pr[1], strings.Join(labels, " + "))
			}
			out = append(out, in)
		}
	}
	mk(nil)
	for a := range devs {
		mk([]dev{devs[a]})
		if k >= 2 {
			for b := a + 1; b < len(devs); b++ {
				if devs[b].field != devs[a].field {
					mk([]dev{devs[a], devs[b]})
				}
			}
		}
	}
	return out
}

// compareStruct: every struct field against the expected canonical rendering.
func compareStruct(in In, o Obs) (wants, gots []string) {
	for _, f := range structFields() {
		w, ok := in.WantStruct[f.Go]
		if !ok {
			w = zeroOf(f.Kind) // a field the struct gained after the input was recorded
		}
		if w == "?" {
			continue
		}
		if g := o.Struct[f.Go]; g != w {
			wants = append(wants, f.Go+"="+w)
			gots = append(gots, f.Go+"="+g)
		}
	}
	return
}

var _ = mc.Q
