package c14

import (
	"encoding/json"
	"fmt"

	"pault.ag/go/debian/deb"

	"verifharness/gen"
	"verifharness/mc"
)

// deb.SetXZMaxDict is a process-global knob: "SetXZMaxDict updates the maximum dictionary size parameter for XZ
// decompressing. If zero is supplied, the default max dictionary size will be used." The default of the decoder
// (github.com/xi2/xz) is 64 MiB. The history scenario calls it in every sequence of <= 3 values and then loads xz
// packages of known dictionary sizes: a package loads iff its dictionary <= the limit in force (the last call; 0 or
// no call = 64 MiB). It runs LAST and on one goroutine (the knob rewrites a package-level map), and restores 0.

const xzDefaultLimit = 64 << 20

// KnobIn is the replayable input of the xz-maxdict-history scenario.
type KnobIn struct {
	Name  string
	Calls []uint32 // deb.SetXZMaxDict arguments, in order (none = never called since the default was restored)
	Dict  int64    // LZMA2 dictionary size the xz members of Pkg declare
	Pkg   In
}

func limitAfter(calls []uint32) int64 {
	if len(calls) == 0 || calls[len(calls)-1] == 0 {
		return xzDefaultLimit
	}
	return int64(calls[len(calls)-1])
}

// CheckKnob performs the calls, loads the package, restores the default.
func CheckKnob(scen string, k KnobIn) ([]*mc.Violation, []Obs) {
	defer deb.SetXZMaxDict(0)
	for _, v := range k.Calls {
		deb.SetXZMaxDict(v)
	}
	in := k.Pkg
	limit := limitAfter(k.Calls)
	in.Verdict = "must-load"
	if k.Dict > limit {
		in.Verdict = "must-reject"
	}
	obs := []Obs{Observe(in.Deb, nil), Observe(in.Deb, nil)}
	if obs[0].Skipped || obs[1].Skipped {
		return nil, nil
	}
	var vs []*mc.Violation
	seen := map[string]bool{}
	ctx := fmt.Sprintf("after SetXZMaxDict calls %v (limit in force %d bytes), xz dictionary %d bytes: ", k.Calls, limit, k.Dict)
	for _, o := range obs {
		if o.Hang != "" {
			vs = append(vs, mc.V(scen, "terminates", k, "Load returns", o.Hang, "xz-maxdict-set"))
			break
		}
		for _, v := range compare(scen, in, o) {
			if !seen[v.Clause] {
				seen[v.Clause] = true
				clause := v.Clause
				if clause == "malformed-package-rejected" {
					clause = "xz-dictionary-limit-enforced"
				}
				vs = append(vs, mc.V(scen, clause, k, ctx+v.Expected, v.Observed, "xz-maxdict-set"))
			}
		}
	}
	if obs[0].Class() != obs[1].Class() && obs[0].Hang == "" && obs[1].Hang == "" {
		vs = append(vs, mc.V(scen, "same-bytes-same-result", k, "two loads under the same limit agree", obs[0].Shape()+" || "+obs[1].Shape(), "xz-maxdict-set"))
	}
	return vs, obs
}

func replayKnob(scenario string, raw json.RawMessage) []*mc.Violation {
	var k KnobIn
	if err := json.Unmarshal(raw, &k); err != nil {
		return nil
	}
	vs, _ := CheckKnob(scenario, k)
	return vs
}

// knobScenario: all call sequences of length <= 3 over {0, 1 MiB, 8 MiB, 64 MiB} x packages with 1 / 8 / 64 MiB dictionaries.
func knobScenario(r *mc.Run, c *gen.DebCompressor, comps []string) {
	if !has(comps, "xz") {
		return
	}
	vals := []uint32{0, 1 << 20, 8 << 20, 64 << 20}
	dicts := []int64{1 << 20, 8 << 20, 64 << 20}
	ps := paragraphs()
	var pkgs []In
	for _, d := range dicts {
		v := fmt.Sprintf("xz:dict=%d", d)
		in := mkIn(ps[1], controlEntrySets[2], dataFileSets()[2], v, v, "", "")
		in.Name = fmt.Sprintf("control and data xz with a %d-byte dictionary", d)
		if err := finish(c, &in); err != nil {
			r.HarnessError("xz-maxdict-history: %v", err)
			return
		}
		ms, _ := gen.ParseAr(in.Deb)
		if len(ms) != 3 || gen.XZDictSize(ms[1].Data) != d || gen.XZDictSize(ms[2].Data) != d {
			r.HarnessError("xz-maxdict-history: the builder did not produce a %d-byte dictionary", d)
			return
		}
		pkgs = append(pkgs, in)
	}
	var seqs [][]uint32
	var rec func(cur []uint32)
	rec = func(cur []uint32) {
		seqs = append(seqs, append([]uint32(nil), cur...))
		if len(cur) == 3 {
			return
		}
		for _, v := range vals {
			rec(append(cur, v))
		}
	}
	rec(nil)
	r.Scenario("xz-maxdict-history", map[string]interface{}{"knob_values": vals, "never_called": "the empty sequence (after the default was restored with 0)", "max_calls": 3,
		"sequences": len(seqs), "xz_dictionaries": dicts, "oracle": "loads (faithfully) iff dictionary <= limit in force; limit = last call, 0 / no call = 64 MiB (doc comment of SetXZMaxDict + xi2/xz DefaultDictMax); over the limit -> rejected",
		"workers": "1, run after every other scenario (process-global knob); SetXZMaxDict(0) after every sequence"}, 1, func(_ int, st *mc.Stats) bool {
		for _, sq := range seqs {
			for i, p := range pkgs {
				if r.Expired() {
					return false
				}
				k := KnobIn{Name: fmt.Sprintf("SetXZMaxDict%v then load %s", sq, p.Name), Calls: sq, Dict: dicts[i], Pkg: p}
				vs, obs := CheckKnob("xz-maxdict-history", k)
				if obs == nil {
					return false
				}
				st.Evals += int64(len(obs))
				st.Traces += int64(len(obs))
				st.Transitions += int64(len(sq) + len(obs))
				st.States++
				st.DistinctNontrivial(k.Name)
				if dicts[i] > limitAfter(sq) {
					st.Class("over-the-limit:" + map[bool]string{true: "loaded", false: "rejected"}[obs[0].Loaded])
				} else {
					st.Class("within-the-limit:" + map[bool]string{true: "loaded", false: "rejected"}[obs[0].Loaded])
				}
				for _, v := range vs {
					st.Violate(v)
				}
				if st.WantSample() && st.States%60 == 5 {
					st.Sample(map[string]interface{}{"case": k.Name, "observed": obs[0].Brief()})
				}
			}
		}
		return true
	})
}
