package c14

import (
	"encoding/json"
	"fmt"
	"strings"

	"verifharness/gen"
	"verifharness/mc"
)

// Several Debs alive at the same time: the library hands out streaming readers (Deb.Data), so a caller may load a
// second package before it has read the first one's payload. Every package must still expose ITS OWN content.

// Op is one step of a schedule over several packages.
//
//	load      deb.Load of package Pkg
//	read      drain Deb.Data of package Pkg
//	close     Deb.Close of package Pkg
//	alternate round-robin over all loaded packages, one tar entry (with body) at a time, until all are exhausted
type Op struct {
	Kind string
	Pkg  int `json:",omitempty"`
}

func (o Op) String() string {
	if o.Kind == "alternate" {
		return "read all alternately entry by entry"
	}
	return fmt.Sprintf("%s #%d", o.Kind, o.Pkg)
}

// MultiIn is the replayable input of the interleaved-debs scenario.
type MultiIn struct {
	Name string
	Pkgs []In // each with its own model and bytes; verdict must-load
	Ops  []Op
}

// CheckMulti executes the schedule on ONE goroutine-chain (each step guarded against non-termination) and compares
// what every package exposed with that package's model.
func CheckMulti(scen string, m MultiIn) ([]*mc.Violation, []Obs) {
	sess := make([]*Session, len(m.Pkgs))
	var vs []*mc.Violation
	feats := []string{"several-debs-alive"}
	var done []string
	for i, op := range m.Ops {
		op := op
		ok := Guarded(func() {
			switch op.Kind {
			case "load":
				sess[op.Pkg] = Open(m.Pkgs[op.Pkg].Deb)
			case "read":
				if s := sess[op.Pkg]; s != nil {
					s.ReadPayload()
				}
			case "close":
				if s := sess[op.Pkg]; s != nil {
					s.Close()
				}
			case "alternate":
				for more := true; more; {
					more = false
					for _, s := range sess {
						if s != nil && s.Next() {
							more = true
						}
					}
				}
			}
		})
		if !ok {
			vs = append(vs, mc.V(scen, "terminates", m, "every step returns", fmt.Sprintf("step %d (%s) did not return within %s after [%s]", i+1, op, HangGuard, strings.Join(done, ", ")), feats...))
			return vs, nil
		}
		done = append(done, op.String())
	}
	var obs []Obs
	seen := map[string]bool{}
	for k, s := range sess {
		if s == nil {
			continue
		}
		obs = append(obs, s.O)
		for _, v := range compare(scen, m.Pkgs[k], s.O) {
			if seen[v.Clause] {
				continue
			}
			seen[v.Clause] = true
			vs = append(vs, mc.V(scen, v.Clause, m, fmt.Sprintf("package #%d (%s): %s", k, m.Pkgs[k].Name, v.Expected),
				fmt.Sprintf("package #%d after [%s]: %s", k, strings.Join(done, ", "), v.Observed), feats...))
		}
	}
	return vs, obs
}

// chains returns all interleavings of n three-step chains load<read<close.
func chains(n int) [][]Op {
	kinds := []string{"load", "read", "close"}
	var out [][]Op
	pos := make([]int, n)
	var rec func(cur []Op)
	rec = func(cur []Op) {
		if len(cur) == 3*n {
			out = append(out, append([]Op(nil), cur...))
			return
		}
		for p := 0; p < n; p++ {
			if pos[p] < 3 {
				pos[p]++
				rec(append(cur, Op{Kind: kinds[pos[p]-1], Pkg: p}))
				pos[p]--
			}
		}
	}
	rec(nil)
	return out
}

// pairSchedules: every interleaving of two load/read/close chains (20), plus the entry-by-entry alternation.
func pairSchedules() [][]Op {
	s := chains(2)
	s = append(s, []Op{{Kind: "load", Pkg: 0}, {Kind: "load", Pkg: 1}, {Kind: "alternate"}, {Kind: "close", Pkg: 0}, {Kind: "close", Pkg: 1}})
	return s
}

// tripleSchedules: all three loaded first, payloads read in each of the 6 orders, then closed; plus the alternation;
// plus "close the first before the others are read".
func tripleSchedules() [][]Op {
	var out [][]Op
	loads := []Op{{Kind: "load", Pkg: 0}, {Kind: "load", Pkg: 1}, {Kind: "load", Pkg: 2}}
	closes := []Op{{Kind: "close", Pkg: 0}, {Kind: "close", Pkg: 1}, {Kind: "close", Pkg: 2}}
	for _, p := range [][3]int{{0, 1, 2}, {0, 2, 1}, {1, 0, 2}, {1, 2, 0}, {2, 0, 1}, {2, 1, 0}} {
		s := append([]Op(nil), loads...)
		for _, k := range p {
			s = append(s, Op{Kind: "read", Pkg: k})
		}
		out = append(out, append(s, closes...))
		// close each one right after reading it
		s2 := append([]Op(nil), loads...)
		for _, k := range p {
			s2 = append(s2, Op{Kind: "read", Pkg: k}, Op{Kind: "close", Pkg: k})
		}
		out = append(out, s2)
	}
	out = append(out, append(append(append([]Op(nil), loads...), Op{Kind: "alternate"}), closes...))
	return out
}

// multiPackages: one package per data encoding (control gz) and one per control encoding (data gz), each with a
// model of its own so that content leaking from one Deb into another is visible.
func multiPackages(c *gen.DebCompressor, comps []string) ([]In, error) {
	ps := paragraphs()
	var out []In
	add := func(cc, dc string) error {
		k := len(out)
		in := mkIn(ps[k%len(ps)], controlEntrySets[k%len(controlEntrySets)],
			[]gen.TarEntry{{Name: fmt.Sprintf("./opt/pkg%d/", k), Dir: true}, {Name: fmt.Sprintf("./opt/pkg%d/file", k), Body: []byte(fmt.Sprintf("payload of package %d (%s/%s)\n", k, cc, dc))},
				{Name: fmt.Sprintf("./opt/pkg%d/filler", k), Fill: 3000 + 700*k}}, cc, dc, "", "")
		in.Name = fmt.Sprintf("pkg%d control=%s data=%s", k, cc, dc)
		if err := finish(c, &in); err != nil {
			return err
		}
		out = append(out, in)
		return nil
	}
	for _, dc := range comps {
		if err := add("gz", dc); err != nil {
			return nil, err
		}
	}
	for _, cc := range comps {
		if cc == "gz" {
			continue
		}
		if err := add(cc, "gz"); err != nil {
			return nil, err
		}
	}
	return out, nil
}

func replayMulti(scenario string, raw json.RawMessage) []*mc.Violation {
	var m MultiIn
	if err := mc.UnmarshalInput(raw, &m); err != nil {
		return nil
	}
	vs, _ := CheckMulti(scenario, m)
	return vs
}
