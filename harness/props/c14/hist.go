package c14

import (
	"crypto/sha256"
	"encoding/hex"
	"encoding/json"
	"fmt"
	"os"
	"path/filepath"
	"runtime"
	"strings"
	"sync"

	"verifharness/gen"
	"verifharness/mc"
)

// HISTORIES over package slots: state that the library keeps ACROSS Deb objects (pooled decoders, caches) can only be
// seen by sequences in which earlier objects are opened, read, closed (twice) and later ones are used. One goroutine,
// GOMAXPROCS(1), so that such state flows the same way on every run.

// HOp is one operation on a slot.
//
//	load      deb.Load of the slot's bytes          loadfile  deb.LoadFile of the slot's file
//	one       read one entry of Deb.Data            full      read Deb.Data to the end
//	close     Deb.Close                             closer    the close function LoadFile returned
type HOp struct {
	Kind string
	Slot int
}

func (o HOp) String() string { return fmt.Sprintf("%s #%d", o.Kind, o.Slot) }

// HistIn is the replayable input of the object-histories scenario.
type HistIn struct {
	Name string
	Pkgs []In
	Ops  []HOp
}

var (
	histDirOnce sync.Once
	histDir     string
	histFiles   sync.Map
)

// fileFor writes the bytes once into a scratch directory (removed by cleanupHist) and returns the path.
func fileFor(b []byte) string {
	histDirOnce.Do(func() { histDir, _ = os.MkdirTemp("", "verif-c14-hist-") })
	h := sha256.Sum256(b)
	name := filepath.Join(histDir, hex.EncodeToString(h[:8])+".deb")
	if _, ok := histFiles.Load(name); !ok {
		os.WriteFile(name, b, 0o644)
		histFiles.Store(name, true)
	}
	return name
}

func cleanupHist() {
	if histDir != "" {
		os.RemoveAll(histDir)
	}
}

// CheckHist executes the history; every read must deliver exactly that slot's packaged files, every load that
// slot's control fields; no operation may panic (a double close in particular) or fail to return.
func CheckHist(scen string, h HistIn) ([]*mc.Violation, []Obs) {
	sess := make([]*Session, len(h.Pkgs))
	full := make([]bool, len(h.Pkgs))
	feats := []string{"history-across-debs"}
	var done []string
	var vs []*mc.Violation
	for i, op := range h.Ops {
		op := op
		ok := Guarded(func() {
			s := sess[op.Slot]
			switch op.Kind {
			case "load":
				sess[op.Slot] = Open(h.Pkgs[op.Slot].Deb)
			case "loadfile":
				sess[op.Slot] = OpenFile(fileFor(h.Pkgs[op.Slot].Deb))
			case "one":
				if s != nil {
					s.Next()
				}
			case "full":
				if s != nil {
					s.ReadPayload()
					full[op.Slot] = true
				}
			case "close":
				if s != nil {
					s.Close()
				}
			case "closer":
				if s != nil {
					s.CallCloser()
				}
			}
		})
		if !ok {
			vs = append(vs, mc.V(scen, "terminates", h, "every operation returns", fmt.Sprintf("operation %d (%s) did not return within %s after [%s]", i+1, op, HangGuard, strings.Join(done, ", ")), feats...))
			return vs, nil
		}
		done = append(done, op.String())
	}
	var obs []Obs
	seen := map[string]bool{}
	for k, s := range sess {
		if s == nil {
			continue
		}
		if s.Closes == 0 {
			s.Close()
		}
		o := s.O
		obs = append(obs, o)
		in := h.Pkgs[k]
		if o.Panic != "" {
			if !seen["no-panic"] {
				seen["no-panic"] = true
				vs = append(vs, mc.V(scen, "no-panic", h, "no operation panics (closing twice included)", fmt.Sprintf("slot #%d after [%s]: %s", k, strings.Join(done, ", "), o.Panic), feats...))
			}
			continue
		}
		if !full[k] {
			// partially read or unread: the entries delivered so far must be a prefix of the slot's own files
			want := in.Model.DataFiles
			if len(o.Files) <= len(want) {
				in.Model.DataFiles = want[:len(o.Files)]
			}
		}
		for _, v := range compare(scen, in, o) {
			if seen[v.Clause] {
				continue
			}
			seen[v.Clause] = true
			vs = append(vs, mc.V(scen, v.Clause, h, fmt.Sprintf("slot #%d (%s): %s", k, h.Pkgs[k].Name, v.Expected),
				fmt.Sprintf("slot #%d after [%s]: %s", k, strings.Join(done, ", "), v.Observed), feats...))
		}
	}
	return vs, obs
}

func replayHist(scenario string, raw json.RawMessage) []*mc.Violation {
	var h HistIn
	if err := json.Unmarshal(raw, &h); err != nil {
		return nil
	}
	defer cleanupHist()
	old := runtime.GOMAXPROCS(1)
	defer runtime.GOMAXPROCS(old)
	vs, _ := CheckHist(scenario, h)
	return vs
}

// histories enumerates the maximal operation sequences of length <= maxLen over nSlots slots. Per slot: opened once
// (slots are first opened in index order; slot 0 by Load or LoadFile, the others by Load unless allFile), then at most
// one single-entry read (if withOne) and one full read while it has not been closed, and at most two close operations
// (Deb.Close, or the LoadFile closer when opened that way). Prefixes are covered by their extensions.
func histories(nSlots, maxLen int, withOne, allFile bool, visit func(ops []HOp) bool) {
	type st struct{ opened, one, full, closes int }
	slots := make([]st, nSlots)
	var ops []HOp
	var rec func(nopen int) bool
	rec = func(nopen int) bool {
		type mv struct {
			op HOp
			ns st
		}
		var ms []mv
		if len(ops) < maxLen {
			for i, s := range slots {
				if s.opened == 0 {
					if i == nopen {
						ms = append(ms, mv{HOp{"load", i}, st{opened: 1}})
						if i == 0 || allFile {
							ms = append(ms, mv{HOp{"loadfile", i}, st{opened: 2}})
						}
					}
					continue
				}
				if s.closes == 0 && s.full == 0 {
					if withOne && s.one == 0 {
						n := s
						n.one = 1
						ms = append(ms, mv{HOp{"one", i}, n})
					}
					n := s
					n.full = 1
					ms = append(ms, mv{HOp{"full", i}, n})
				}
				if s.closes < 2 {
					n := s
					n.closes++
					ms = append(ms, mv{HOp{"close", i}, n})
					if s.opened == 2 {
						ms = append(ms, mv{HOp{"closer", i}, n})
					}
				}
			}
		}
		if len(ms) == 0 {
			return visit(ops)
		}
		for _, m := range ms {
			old := slots[m.op.Slot]
			slots[m.op.Slot] = m.ns
			ops = append(ops, m.op)
			n2 := nopen
			if m.op.Kind == "load" || m.op.Kind == "loadfile" {
				n2++
			}
			ok := rec(n2)
			ops = ops[:len(ops)-1]
			slots[m.op.Slot] = old
			if !ok {
				return false
			}
		}
		return true
	}
	rec(0)
}

// histScenario: slot packages with contents of their own; gz/gz in every slot, and variants with an xz and a stored
// package so that recycled readers of the other encodings are covered too.
func histScenario(r *mc.Run, c *gen.DebCompressor, comps []string) {
	defer cleanupHist()
	ps := paragraphs()
	mkPkg := func(k int, comp string) (In, error) {
		in := mkIn(ps[k%len(ps)], controlEntrySets[(k+1)%len(controlEntrySets)],
			[]gen.TarEntry{{Name: fmt.Sprintf("./srv/slot%d/", k), Dir: true}, {Name: fmt.Sprintf("./srv/slot%d/first", k), Body: []byte(fmt.Sprintf("first file of slot %d\n", k))},
				{Name: fmt.Sprintf("./srv/slot%d/second", k), Fill: 2000 + 900*k}, {Name: fmt.Sprintf("./srv/slot%d/third", k), Body: []byte(fmt.Sprintf("third file of slot %d\n", k))}}, comp, comp, "", "")
		in.Name = fmt.Sprintf("slot%d %s/%s", k, comp, comp)
		return in, finish(c, &in)
	}
	configs := [][]string{{"gz", "gz", "gz"}}
	if has(comps, "xz") {
		configs = append(configs, []string{"gz", "xz", "gz"})
	}
	configs = append(configs, []string{"none", "gz", "gz"})
	maxLen := r.Pick(7, 9)
	withOne := false
	var pkgSets [][]In
	for _, cf := range configs {
		var pk []In
		for k, comp := range cf {
			in, err := mkPkg(k, comp)
			if err != nil {
				r.HarnessError("object-histories: %v", err)
				return
			}
			pk = append(pk, in)
		}
		pkgSets = append(pkgSets, pk)
	}
	r.Scenario("object-histories", map[string]interface{}{"slots": 3, "slot_encodings": configs, "max_operations": fmt.Sprintf("%d for gz/gz/gz, %d for the variants with an xz or a stored slot", maxLen, maxLen-1),
		"operations": "load / loadfile (slot 0; thorough extra pass: every slot) ; full read ; one-entry read (extra pass on gz/gz/gz, length 7) ; Deb.Close ; LoadFile closer ; each close kind up to twice",
		"rule":       "slots first opened in index order, opened once, no read after a close, <= 2 closes per slot; only maximal sequences are executed (prefixes are covered by their extensions)",
		"workers":    "1 goroutine with runtime.GOMAXPROCS(1) for the duration of the scenario (pooled / cached state flows the same way on every run)",
		"oracle":     "every read delivers exactly that slot's packaged files and contents (a partial read: a prefix), every load that slot's control fields; no operation panics; every operation returns"},
		1, func(_ int, st *mc.Stats) bool {
			old := runtime.GOMAXPROCS(1)
			defer runtime.GOMAXPROCS(old)
			okAll := true
			run := func(pk []In, maxLen int, withOne, allFile bool) {
				histories(3, maxLen, withOne, allFile, func(ops []HOp) bool {
					if r.Expired() {
						okAll = false
						return false
					}
					var names []string
					for _, o := range ops {
						names = append(names, o.String())
					}
					h := HistIn{Name: pk[0].Name + ", " + pk[1].Name + ", " + pk[2].Name + ": " + strings.Join(names, ", "), Pkgs: pk, Ops: append([]HOp(nil), ops...)}
					vs, obs := CheckHist("object-histories", h)
					st.Evals += int64(len(ops))
					st.Transitions += int64(len(ops))
					st.States++
					st.Traces += int64(len(obs))
					st.Nontrivial++
					switch {
					case obs == nil:
						st.Class("NO-TERMINATION")
					case len(vs) > 0:
						st.Class("some slot exposes content that is not its own, or an operation panics")
					default:
						st.Class("every slot exposes its own content")
					}
					for _, v := range vs {
						st.Violate(v)
					}
					if st.WantSample() && (st.States%1500 == 11 || len(vs) > 0) {
						st.Sample(map[string]interface{}{"case": h.Name})
					}
					if obs == nil {
						okAll = false
						return false
					}
					return true
				})
			}
			for i, pk := range pkgSets {
				l := maxLen
				if i > 0 {
					l = maxLen - 1 // the variants with an xz / a stored slot: one operation less
				}
				run(pk, l, withOne, false)
			}
			if !r.Quick() {
				run(pkgSets[0], 7, true, true) // one-entry reads and LoadFile in every slot
			}
			return okAll
		})
}
