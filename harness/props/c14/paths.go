package c14

import (
	"encoding/json"
	"fmt"
	"os"
	"path/filepath"

	"verifharness/gen"
	"verifharness/mc"
)

// deb.LoadFile on the kinds of path a caller may hand it: the result must be what deb.Load gives for the bytes.

// PathIn is the replayable input of loadfile-path-kinds.
type PathIn struct {
	Name string
	Kind string // absolute | relative | dot-relative | symlink-abs | symlink-rel | symlink-to-symlink | hardlink | symlink-dir
	Pkg  In
}

var pathKinds = []string{"absolute", "relative", "dot-relative", "symlink-abs", "symlink-rel", "symlink-to-symlink", "hardlink", "symlink-dir"}

// CheckPath materialises the package and the path of the given kind in a scratch directory, loads it with
// deb.LoadFile and compares with the model.
func CheckPath(scen string, p PathIn) ([]*mc.Violation, []Obs) {
	dir, err := os.MkdirTemp("", "verif-c14-path-")
	if err != nil {
		return nil, nil
	}
	defer os.RemoveAll(dir)
	real := filepath.Join(dir, "store", "pkg_1.0_all.deb")
	os.MkdirAll(filepath.Dir(real), 0o755)
	if err := os.WriteFile(real, p.Pkg.Deb, 0o644); err != nil {
		return nil, nil
	}
	path := real
	cwd, _ := os.Getwd()
	switch p.Kind {
	case "relative", "dot-relative":
		rel, err := filepath.Rel(cwd, real)
		if err != nil {
			return nil, nil
		}
		path = rel
		if p.Kind == "dot-relative" {
			path = "." + string(filepath.Separator) + rel
		}
	case "symlink-abs":
		path = filepath.Join(dir, "link.deb")
		os.Symlink(real, path)
	case "symlink-rel":
		path = filepath.Join(dir, "link.deb")
		os.Symlink(filepath.Join("store", "pkg_1.0_all.deb"), path)
	case "symlink-to-symlink":
		mid := filepath.Join(dir, "mid.deb")
		os.Symlink(real, mid)
		path = filepath.Join(dir, "link.deb")
		os.Symlink("mid.deb", path)
	case "hardlink":
		path = filepath.Join(dir, "hard.deb")
		if err := os.Link(real, path); err != nil {
			return nil, nil
		}
	case "symlink-dir":
		os.Symlink("store", filepath.Join(dir, "current"))
		path = filepath.Join(dir, "current", "pkg_1.0_all.deb")
	}
	in := p.Pkg
	in.Verdict = "must-load"
	obs := []Obs{ObserveWith(func() *Session { return OpenFile(path) }, nil), ObserveWith(func() *Session { return OpenFile(path) }, nil)}
	ref := Observe(in.Deb, nil)
	if obs[0].Skipped || obs[1].Skipped || ref.Skipped {
		return nil, nil
	}
	var vs []*mc.Violation
	seen := map[string]bool{}
	feats := []string{"loadfile-path-" + p.Kind}
	for _, o := range obs {
		if o.Hang != "" {
			vs = append(vs, mc.V(scen, "terminates", p, "LoadFile returns", o.Hang, feats...))
			break
		}
		for _, v := range compare(scen, in, o) {
			if !seen[v.Clause] {
				seen[v.Clause] = true
				vs = append(vs, mc.V(scen, v.Clause, p, fmt.Sprintf("LoadFile(%s path): %s", p.Kind, v.Expected), v.Observed, feats...))
			}
		}
		if !seen["loadfile-equals-load"] && o.Hang == "" && o.Class() != ref.Class() {
			seen["loadfile-equals-load"] = true
			vs = append(vs, mc.V(scen, "loadfile-equals-load", p, "LoadFile gives what Load gives for the same bytes: "+ref.Shape(), o.Shape(), feats...))
		}
	}
	return vs, obs
}

func replayPath(scenario string, raw json.RawMessage) []*mc.Violation {
	var p PathIn
	if err := json.Unmarshal(raw, &p); err != nil {
		return nil
	}
	vs, _ := CheckPath(scenario, p)
	return vs
}

func pathScenario(r *mc.Run, c *gen.DebCompressor, comps []string) {
	ps := paragraphs()
	dfs := dataFileSets()
	pairs := [][2]string{{"gz", "gz"}, {"none", "none"}}
	if has(comps, "xz") && has(comps, "zst") {
		pairs = append(pairs, [2]string{"xz", "zst"})
	}
	var ins []PathIn
	for i, pr := range pairs {
		in := mkIn(ps[i%len(ps)], controlEntrySets[2], dfs[2], pr[0], pr[1], []string{"", "gpgorigin-end"}[i%2], "")
		if err := finish(c, &in); err != nil {
			r.HarnessError("loadfile-path-kinds: %v", err)
			return
		}
		for _, k := range pathKinds {
			ins = append(ins, PathIn{Name: fmt.Sprintf("LoadFile via %s path, %s/%s", k, pr[0], pr[1]), Kind: k, Pkg: in})
		}
	}
	r.Scenario("loadfile-path-kinds", map[string]interface{}{"path_kinds": pathKinds, "compression_pairs": pairs,
		"oracle": "deb.LoadFile(path) loads, faithfully to the model, and with the same outcome class as deb.Load on the bytes; twice"},
		len(ins), func(i int, st *mc.Stats) bool {
			if r.Expired() {
				return false
			}
			vs, obs := CheckPath("loadfile-path-kinds", ins[i])
			if obs == nil {
				return false
			}
			st.Evals += int64(len(obs))
			st.Traces += int64(len(obs))
			st.States++
			st.DistinctNontrivial(ins[i].Name)
			st.Class(outcomeClass(ins[i].Pkg, obs[0]))
			for _, v := range vs {
				st.Violate(v)
			}
			if st.WantSample() && i%7 == 3 {
				st.Sample(map[string]interface{}{"case": ins[i].Name, "observed": obs[0].Brief()})
			}
			return true
		})
}
