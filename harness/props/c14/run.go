package c14

import (
	"bytes"
	"crypto/sha256"
	"fmt"
	"os"
	"os/exec"
	"path"
	"path/filepath"
	"reflect"
	"strings"
	"sync/atomic"

	"verifharness/audit"
	"verifharness/gen"
	"verifharness/mc"
)

// cfg is an In before its bytes exist.
func mkIn(p paragraph, entries []string, files []gen.TarEntry, cc, dc, extra, layout string) In {
	in := In{Model: gen.DebModel{Fields: p.fields, ControlEntries: entries, DataFiles: files, ControlComp: cc, DataComp: dc},
		Exp: p.exp, Extra: extra, Layout: layout, Verdict: "must-load"}
	if extra == "unrelated-first" || layout != "" {
		// deb(5) fixes the order debian-binary, control, data: such a file is not "well-formed", so the statement
		// does not demand that it loads — but if it does, what is exposed must still be the package's content.
		in.Verdict = "lenient"
	}
	in.Name = fmt.Sprintf("%s control=%s%v data=%s(%d entries) extra=%q layout=%q", p.name, cc, entries, dc, len(files), extra, layout)
	return in
}

func finish(c *gen.DebCompressor, in *In) error {
	mem, err := assemble(c, in)
	if err != nil {
		return err
	}
	in.Deb = gen.BuildAr(mem)
	return nil
}

func sampleOf(in In, o Obs) map[string]interface{} {
	ms, _ := gen.ParseAr(in.Deb)
	return map[string]interface{}{"config": in.Name, "members": memberNames(ms), "bytes": len(in.Deb), "verdict": in.Verdict, "observed": o.Brief()}
}

// runIns checks a slice of inputs inside one shard.
func runIns(r *mc.Run, scen string, c *gen.DebCompressor, ins []In, st *mc.Stats) bool {
	for i := range ins {
		if r.Expired() {
			return false
		}
		in := &ins[i]
		if err := finish(c, in); err != nil {
			r.HarnessError("%s: cannot build %s: %v", scen, in.Name, err)
			return false
		}
		big := bigMem(*in)
		if big {
			BigMem <- struct{}{}
		}
		vs, obs := Check(scen, *in)
		if big {
			<-BigMem
		}
		if len(obs) == 0 {
			return false // the process has seen a hang: nothing more is executed
		}
		st.Evals += int64(len(obs))
		st.Transitions += int64(len(obs))
		st.States++
		if in.Verdict != "unconstrained" {
			st.Traces += int64(len(obs))
		}
		h := sha256.Sum256(in.Deb)
		st.DistinctNontrivial(string(h[:]))
		st.Class(outcomeClass(*in, obs[0]))
		for _, v := range vs {
			st.Violate(v)
		}
		if st.WantSample() && (i%37 == 5 || len(vs) > 0) {
			st.Sample(sampleOf(*in, obs[0]))
		}
	}
	return true
}

func Run(r *mc.Run) {
	defer func() {
		r.Extra["map_order_executions_explicit"] = atomic.LoadInt64(&MapOrderExecs)
		r.Extra["map_order_calls_capped"] = atomic.LoadInt64(&MapOrderCapped)
		r.Extra["map_orders"] = MapOrderNote
	}()
	r.Rule = "every package of the stated product is built byte-exactly and loaded by the real deb.Load; cases are counted as distinct package byte strings (sha256); all are non-trivial in the sense that each differs from every other in at least one member byte, and only 1 in 36 compression pairs is the uncompressed baseline"
	r.Assume = []string{
		"compressed members are well-formed streams from stdlib gzip, klauspost zstd, kjk lzma (in-process) and python3 lzma/bz2 (xz, bzip2); hostile streams are C15's subject",
		"control paragraphs use three hand-written models whose typed reading (Expect) is written by hand; folded values are compared modulo trailing newlines (the paragraph reader's convention is C07's subject)",
		"a member before debian-binary and data-before-control are not well-formed per deb(5): rejection is allowed, but a successful load must be faithful",
		"debian-binary contents whose major version IS 2 but which are not \"2.0\\n\" (2.1, missing newline, ...) are unconstrained by the statement: recorded, no verdict",
		MapOrderNote,
	}
	c := gen.NewDebCompressor()
	selfCheck(r)

	ps := paragraphs()
	dfs := dataFileSets()

	// one batched external call for every xz / bz2 stream of the run
	var blobs [][]byte
	for _, p := range ps {
		for _, es := range controlEntrySets {
			blobs = append(blobs, gen.DebModel{Fields: p.fields, ControlEntries: es}.ControlTar())
		}
	}
	for _, f := range dfs {
		blobs = append(blobs, gen.BuildTar(f))
	}
	if err := c.Prepare(gen.DebComps, blobs...); err != nil {
		r.HarnessError("compressor: %v", err)
		return
	}
	comps := []string{}
	for _, k := range gen.DebComps {
		if why, bad := c.Unavailable()[k]; bad {
			fmt.Fprintf(os.Stderr, "C14: encoding %s NOT COVERED: %s\n", k, why)
			continue
		}
		comps = append(comps, k)
	}
	r.Extra["encodings_covered"] = comps
	r.Extra["encodings_not_covered"] = c.Unavailable()
	r.Extra["map_orders"] = MapOrderNote

	// ---- scenario 0 (first, and on ONE worker, so that what it reports does not depend on what other workers do):
	// two / three Debs alive at the same time, every interleaving of their load / read / close steps
	interleaved(r, c, comps)

	// ---- scenario 0b (also one goroutine, GOMAXPROCS(1)): operation HISTORIES over three package slots
	histScenario(r, c, comps)

	dpkgCross(r, c, ps, dfs, comps)

	// ---- scenario 1: the full product
	type shard struct {
		cc, dc string
		es     []string
	}
	var shards []shard
	for _, cc := range comps {
		for _, dc := range comps {
			for _, es := range controlEntrySets {
				shards = append(shards, shard{cc, dc, es})
			}
		}
	}
	orders := !r.Quick()
	MapOrderBound = 1 // matrix: every single scan in every other order (pairs of scans are explored in map-orders below)
	r.Scenario("matrix-6x6", map[string]interface{}{
		"compressions": comps, "control_entry_lists": controlEntrySets, "paragraph_models": []string{"minimal", "full", "custom"},
		"data_file_sets": []string{"empty", "one file", "dir + file with binary bytes + empty file"}, "extras": extras, "layouts": []string{"canonical", "data-before-control"},
		"quick_thinning":    "quick: paragraph x data-set product in full only without extra member and in canonical layout; paired (i,i) otherwise; thorough: full product",
		"loads_per_package": map[bool]string{true: "ForEachMapOrder (" + MapOrderNote + ")", false: "2"}[orders],
	}, len(shards), func(si int, st *mc.Stats) bool {
		s := shards[si]
		var ins []In
		for pi, p := range ps {
			for fi, f := range dfs {
				for _, ex := range extras {
					for _, lay := range layouts {
						if r.Quick() && (ex != "" || lay != "") && pi != fi {
							continue // quick: paragraph x data-set in full for the plain layout, paired (i,i) under extras / other layouts
						}
						in := mkIn(p, s.es, f, s.cc, s.dc, ex, lay)
						in.Orders = orders
						ins = append(ins, in)
					}
				}
			}
		}
		return runIns(r, "matrix-6x6", c, ins, st)
	})

	// ---- scenario 1b: the encoder's parameters (preset, level, dictionary / window size, framing) are part of the
	// configuration: every non-default variant on the diagonal, as control member against all six data encodings, and as
	// data member against all six control encodings. The model - hence the expected result - is unchanged.
	type pm struct {
		p  paragraph
		es []string
		f  []gen.TarEntry
	}
	pms := []pm{{ps[1], controlEntrySets[2], dfs[2]}, {ps[0], controlEntrySets[0], dfs[1]}}
	var variants []string
	var vblobs [][]byte
	for _, x := range pms {
		vblobs = append(vblobs, gen.DebModel{Fields: x.p.fields, ControlEntries: x.es}.ControlTar(), gen.BuildTar(x.f))
	}
	for _, a := range comps {
		for _, v := range gen.DebCompVariants(a)[1:] {
			variants = append(variants, v)
		}
	}
	if err := c.Prepare(variants, vblobs...); err != nil {
		r.HarnessError("compressor (variants): %v", err)
		return
	}
	paramSelfCheck(r, c, vblobs[0])
	var par [][]In
	for _, v := range variants {
		var ins []In
		seen := map[[2]string]bool{}
		add := func(cc, dc string) {
			if seen[[2]string{cc, dc}] {
				return
			}
			seen[[2]string{cc, dc}] = true
			for _, x := range pms {
				in := mkIn(x.p, x.es, x.f, cc, dc, "", "")
				ins = append(ins, in)
			}
		}
		add(v, v)
		for _, o := range comps {
			add(v, o)
			add(o, v)
		}
		par = append(par, ins)
	}
	r.Scenario("encoder-parameters", map[string]interface{}{"variants": variants, "placement": "diagonal (v/v), row (control=v x 6 data encodings), column (6 control encodings x data=v)",
		"models":       []string{"full/4 control entries/3 data entries", "minimal/[./control]/one file"},
		"not_explored": "xz or lzma dictionaries above 64 MiB (no xz preset asks for more; the library documents 64 MiB as its default limit), zstd windows above 64 MiB"},
		len(par), func(i int, st *mc.Stats) bool { return runIns(r, "encoder-parameters", c, par[i], st) })

	// ---- scenario 1c: SIZES are part of the model: a sibling file of a size around the 2^n / tar-record boundaries placed
	// BEFORE ./control, control paragraphs of ~1.5 KiB, ~40 KiB and ~140 KiB, under all six control encodings; and one data
	// file above 1 MiB under all six data encodings. Expected result = the model.
	sibSizes := []int{511, 512, 513, 4095, 4096, 10240, 31000, 32767, 32768, 65536, 131072}
	type szCfg struct {
		p   paragraph
		sib int
	}
	medium, big40, big140 := bigParagraph("medium(1.5KiB)", 1500), bigParagraph("big(40KiB)", 40<<10), bigParagraph("big(140KiB)", 140<<10)
	szCfgs := []szCfg{{medium, 0}, {big40, 0}, {big140, 0}, {big40, 512}, {big40, 31000}, {big40, 32768}, {big140, 31000}}
	for _, sz := range sibSizes {
		szCfgs = append(szCfgs, szCfg{medium, sz})
	}
	bigData := [][]gen.TarEntry{{{Name: "./", Dir: true}, {Name: "./usr/lib/big.bin", Fill: 1<<20 + 17}, {Name: "./usr/lib/after", Body: []byte("after the big file\n")}}}
	if !r.Quick() {
		bigData = append(bigData, []gen.TarEntry{{Name: "./big3.bin", Fill: 3<<20 + 511}, {Name: "./tail", Body: []byte("x")}})
	}
	szModel := func(cf szCfg, cc string) In {
		es := []string{"./control"}
		var sizes map[string]int
		if cf.sib > 0 {
			es = []string{"./md5sums", "./control"}
			sizes = map[string]int{"./md5sums": cf.sib}
		}
		in := mkIn(cf.p, es, dfs[1], cc, "gz", "", "")
		in.Model.EntrySizes = sizes
		in.Name = fmt.Sprintf("%s control=%s sibling ./md5sums of %d bytes before ./control", cf.p.name, cc, cf.sib)
		return in
	}
	var szBlobs [][]byte
	for _, cf := range szCfgs {
		szBlobs = append(szBlobs, szModel(cf, "none").Model.ControlTar())
	}
	for _, f := range bigData {
		szBlobs = append(szBlobs, gen.BuildTar(f))
	}
	if err := c.Prepare(comps, szBlobs...); err != nil {
		r.HarnessError("compressor (sizes): %v", err)
		return
	}
	var szIns []In
	for _, cf := range szCfgs {
		for _, cc := range comps {
			szIns = append(szIns, szModel(cf, cc))
		}
	}
	for _, f := range bigData {
		for _, dc := range comps {
			in := mkIn(ps[0], controlEntrySets[0], f, "gz", dc, "", "")
			in.Name = fmt.Sprintf("data=%s with a file of %d bytes", dc, f[len(f)-2].Fill)
			szIns = append(szIns, in)
		}
	}
	r.Scenario("sizes", map[string]interface{}{"sibling_before_control_bytes": sibSizes, "control_paragraph": []string{"~1.5 KiB", "~40 KiB", "~140 KiB"},
		"combinations": "1.5 KiB paragraph x every sibling size; 40 KiB x {none, 512, 31000, 32768}; 140 KiB x {none, 31000}; each x 6 control encodings; data file of 1 MiB+17 (thorough also 3 MiB+511) x 6 data encodings",
		"filler":       "gen.PatternBytes (incompressible)"}, len(szIns), func(i int, st *mc.Stats) bool { return runIns(r, "sizes", c, szIns[i:i+1], st) })

	// ---- scenario 1h: deb.LoadFile on every kind of path (symlinks, hard link, relative)
	pathScenario(r, c, comps)

	// ---- scenario 1i: extra ar members whose names consist of slashes (the GNU symbol table "/", the GNU long-name table
	// "//" with a "/0" reference member): "an index of all ar members" - ArContent lists every member.
	{
		specials := [][]gen.ArMember{
			{{Name: "/", Data: []byte("\x00\x00\x00\x00")}},
			{{Name: "//", Data: []byte("a-very-long-member-name.txt/\n")}},
			{{Name: "///", Data: []byte("x")}},
			{{Name: "//", Data: []byte("a-very-long-member-name.txt/\n")}, {Name: "/0", Data: []byte("content of the long-named member\n")}},
			{{Name: "/", Data: nil}, {Name: "//", Data: nil}},
		}
		var sins []In
		for _, pr := range [][2]string{{"gz", "gz"}, {"none", "gz"}} {
			for _, sp := range specials {
				for pos := 0; pos <= 3; pos++ {
					in := mkIn(ps[1], controlEntrySets[2], dfs[2], pr[0], pr[1], "", "")
					in.RawExtra, in.RawPos = sp, pos
					in.Orders = true
					if pos == 0 {
						in.Verdict = "lenient" // a member before debian-binary
					}
					var ns []string
					for _, m := range sp {
						ns = append(ns, fmt.Sprintf("%q", m.Name))
					}
					in.Name += fmt.Sprintf(" extra member(s) %s at position %d", strings.Join(ns, ","), pos)
					sins = append(sins, in)
				}
			}
		}
		MapOrderBound = 1
		r.Scenario("ar-special-members", map[string]interface{}{"extra_member_names": []string{"/", "//", "///", "// followed by /0", "/ and // (both empty)"}, "positions": "0..3",
			"reference": "the names the harness's own ar reader (gen.ParseAr: blank-trimmed, one trailing slash removed - the rule of deb.Ar) finds in the same bytes",
			"orders":    MapOrderNote}, len(sins), func(i int, st *mc.Stats) bool { return runIns(r, "ar-special-members", c, sins[i:i+1], st) })
	}

	// ---- scenario 1g: the OTHER FILES of the control tar: entries in subdirectories whose base name is "control" (with and
	// without a paragraph inside), near names, links, spellings of the real entry, the real entry first / middle / last
	// among 1..40 siblings. Expected: the paragraph packaged as the top-level ./control.
	{
		type cfg struct {
			name    string
			entries []string
			kinds   map[string]string
		}
		var cfgs []cfg
		for _, d := range []string{"templates.d", "conffiles.d", "po"} {
			for _, kind := range []string{"", "paragraph"} {
				k := map[string]string{}
				if kind != "" {
					k["./"+d+"/control"] = kind
				}
				cfgs = append(cfgs,
					cfg{fmt.Sprintf("./%s/control (%s) before ./control", d, kind), []string{"./", "./" + d + "/", "./" + d + "/control", "./control", "./md5sums"}, k},
					cfg{fmt.Sprintf("./%s/control (%s) after ./control", d, kind), []string{"./", "./control", "./" + d + "/", "./" + d + "/control"}, k})
			}
		}
		for _, n := range []string{"./control.old", "./controls", "./xcontrol", "./Control", "./control~", "./control.d/"} {
			for _, kind := range []string{"", "paragraph"} {
				if strings.HasSuffix(n, "/") && kind != "" {
					continue
				}
				k := map[string]string{}
				if kind != "" {
					k[n] = kind
				}
				cfgs = append(cfgs, cfg{fmt.Sprintf("%s (%s) before ./control", n, kind), []string{n, "./control"}, k},
					cfg{fmt.Sprintf("%s (%s) after ./control", n, kind), []string{"./control", n}, k})
			}
		}
		cfgs = append(cfgs,
			cfg{"symlink ./controlx -> control before", []string{"./controlx", "./control"}, map[string]string{"./controlx": "symlink:control"}},
			cfg{"symlink ./postinst -> control after", []string{"./control", "./postinst"}, map[string]string{"./postinst": "symlink:control"}},
			cfg{"hard link ./control.lnk -> ./control after", []string{"./control", "./control.lnk"}, map[string]string{"./control.lnk": "hardlink:./control"}},
			cfg{"spelling ././control", []string{"./md5sums", "././control"}, nil},
			cfg{"spelling control after ./ directory", []string{"./", "control", "md5sums"}, nil},
			cfg{"spelling ./control/../control", []string{"./postinst", "./control/../control"}, nil})
		for _, n := range []int{1, 2, 5, 40} {
			var sib []string
			for i := 0; i < n; i++ {
				sib = append(sib, fmt.Sprintf("./sibling%02d", i))
			}
			for _, pos := range []int{0, n / 2, n} {
				es := append(append(append([]string{}, sib[:pos]...), "./control"), sib[pos:]...)
				cfgs = append(cfgs, cfg{fmt.Sprintf("./control at position %d among %d siblings", pos, n), es, nil})
			}
		}
		ccomps := []string{"gz", "none"}
		if has(comps, "zst") {
			ccomps = append(ccomps, "zst")
		}
		var eins []In
		for _, cf := range cfgs {
			for _, cc := range ccomps {
				in := mkIn(ps[1], cf.entries, dfs[1], cc, "gz", "", "")
				in.Model.EntryKinds = cf.kinds
				in.Name = fmt.Sprintf("control tar (%s) %v: %s", cc, cf.entries, cf.name)
				if len(cf.entries) > 8 {
					in.Name = fmt.Sprintf("control tar (%s): %s", cc, cf.name)
				}
				eins = append(eins, in)
			}
		}
		r.Scenario("control-tar-entries", map[string]interface{}{"configurations": len(cfgs), "control_encodings": ccomps,
			"families": []string{"./<dir>/control for dir in templates.d conffiles.d po, plain and holding a valid OTHER paragraph, before / after ./control",
				"near names ./control.old ./controls ./xcontrol ./Control ./control~ (plain / other paragraph) and directory ./control.d/, before / after",
				"symlink before, symlink after, hard link to ./control after", "spellings ././control, control, ./control/../control of the real entry",
				"./control first / middle / last among 1, 2, 5, 40 siblings"},
			"not_included": "a directory or link named exactly ./control; the absolute spelling /control (not a member dpkg-deb can produce)"},
			len(eins), func(i int, st *mc.Stats) bool { return runIns(r, "control-tar-entries", c, eins[i:i+1], st) })
	}

	// ---- scenario 1f: the control paragraph as a FIELD MODEL (fields of deb.Control by reflection, an alphabet of legal
	// values per field incl. the Policy-enumerated ones, paragraph-only fields, accepted debian-binary contents):
	// baseline + every execution with <= k deviations.
	{
		fpairs := [][2]string{{"gz", "gz"}}
		if has(comps, "xz") {
			fpairs = append(fpairs, [2]string{"none", "xz"})
		}
		k := r.Pick(1, 2)
		fins := fieldInputs(k, fpairs)
		var desc []string
		for _, f := range fieldModel() {
			var vs []string
			for _, v := range f.Vars {
				vs = append(vs, strings.Join(v.Lines, "\\n "))
			}
			desc = append(desc, fmt.Sprintf("%s (%s, go=%q): %s", f.Key, f.Kind, f.Go, strings.Join(vs, " | ")))
		}
		r.Scenario("control-field-model", map[string]interface{}{"fields": desc, "debian_binary_accepted": binaryAlphabet, "deviation_bound": k, "compression_pairs": fpairs,
			"deviations": "a field takes another value of its alphabet; an optional field is absent; debian-binary takes another accepted content", "inputs": len(fins)},
			(len(fins)+15)/16, func(i int, st *mc.Stats) bool {
				hi := (i + 1) * 16
				if hi > len(fins) {
					hi = len(fins)
				}
				return runIns(r, "control-field-model", c, fins[i*16:hi], st)
			})
	}

	// ---- scenario 1e: CONCATENATED streams. gzip members, xz streams, bzip2 streams and zstd frames may be concatenated;
	// such a file is a valid .gz/.xz/.bz2/.zst and decodes to the concatenation. The control and the data tar are cut
	// into 2 and 3 parts (a) at tar-entry boundaries and (b) inside an entry, each part compressed on its own.
	{
		var cins []In
		base := func() In { return mkIn(ps[1], controlEntrySets[2], dfs[2], "gz", "gz", "", "") }
		cutSets := func(raw []byte) [][]int {
			offs := gen.TarEntryOffsets(raw)[1:] // every entry boundary, and the start of the trailer
			var out [][]int
			for _, o := range offs {
				out = append(out, []int{o})
			}
			for i := 0; i < len(offs); i++ {
				for j := i + 1; j < len(offs); j++ {
					out = append(out, []int{offs[i], offs[j]})
				}
			}
			mid := offs[len(offs)-2] + 512 + 7 // inside the last entry's header/body region
			if mid >= offs[len(offs)-1] {
				mid = offs[len(offs)-1] - 100
			}
			out = append(out, []int{300}, []int{mid}, []int{offs[0], mid}, []int{len(raw) - 512})
			return out
		}
		ctlRaw, datRaw := base().Model.ControlTar(), base().Model.DataTar()
		for _, a := range comps {
			if !gen.DebCompConcatenates(a) {
				continue
			}
			for _, cs := range cutSets(ctlRaw) {
				in := base()
				in.Model.ControlComp, in.Model.ControlCuts = a, cs
				in.Name = fmt.Sprintf("control.tar.%s made of %d concatenated streams (tar cut at %v), data gz", a, len(cs)+1, cs)
				cins = append(cins, in)
			}
			for _, cs := range cutSets(datRaw) {
				in := base()
				in.Model.DataComp, in.Model.DataCuts = a, cs
				in.Name = fmt.Sprintf("data.tar.%s made of %d concatenated streams (tar cut at %v), control gz", a, len(cs)+1, cs)
				cins = append(cins, in)
			}
		}
		// all external (xz, bz2) parts in one batch
		var parts [][]byte
		for _, in := range cins {
			raw, cuts := ctlRaw, in.Model.ControlCuts
			if len(in.Model.DataCuts) > 0 {
				raw, cuts = datRaw, in.Model.DataCuts
			}
			prev := 0
			for _, k := range append(append([]int{}, cuts...), len(raw)) {
				parts = append(parts, raw[prev:k])
				prev = k
			}
		}
		if err := c.Prepare([]string{"xz", "bz2"}, parts...); err != nil {
			r.HarnessError("compressor (concatenated parts): %v", err)
			return
		}
		r.Scenario("concatenated-streams", map[string]interface{}{"formats": "gz members, xz streams, bz2 streams, zstd frames (lzma_alone has no concatenation)", "members": "control and data",
			"parts": "2 and 3", "cuts": "every tar-entry boundary (singly and in pairs, incl. the start of the end-of-archive trailer), offsets 300 and one inside the last entry, boundary+inside, last 512 bytes"},
			len(cins), func(i int, st *mc.Stats) bool { return runIns(r, "concatenated-streams", c, cins[i:i+1], st) })
	}

	// ---- scenario 1d: alphabet audit (empty on the unchanged tree)
	auditScenario(r, c, comps, ps, dfs)

	// ---- scenario 2: rejections
	pairs := [][2]string{{"none", "none"}, {"gz", "gz"}}
	if has(comps, "xz") && has(comps, "zst") {
		pairs = append(pairs, [2]string{"xz", "zst"})
	}
	// format-version alphabet: plain spellings and spellings a numeric (integer / float) parse would read as "two point
	// something". The only clause asserted is "major number not 2 -> rejected"; the major is the text of the first
	// line before its first '.', and it is "not 2" when it is not the decimal integer 2 (leading zeros, sign or blanks
	// make it numerically 2: those, like every 2.x that is not "2.0\n", carry no verdict).
	versionAlphabet := []string{"1.0\n", "3.0\n", "0.939000\n", "", "20.0\n", "12.0\n", "1.2.0\n", "3.2.0\n",
		"2.1\n", "2.0", "2.0\nextra\n", "2.0\r\n", "2\n", "02.0\n", "2.00\n",
		"1.99999999999999999999\n", "1.9999999999999999\n", "0.2e1\n", "20e-1\n", "0x1p1\n", "0x2.0\n", "2e0\n", ".2e1\n", "2_0.0\n", "19999999999999999999e-19\n",
		"200e-2.0\n", "1e0.0\n", "+2.0\n", " 2.0\n", "2.\n", "2 .0\n", "２.0\n", "Inf\n", "NaN\n", "-2.0\n", "2,0\n", "1.0\n2.0\n", "\n2.0\n"}
	for _, a := range gen.AuditStrings(gen.OneLine, 4) {
		versionAlphabet = append(versionAlphabet, a+"\n", a+".0\n", "2."+a+"\n")
	}
	for _, n := range gen.AuditIntStrings(0, 1<<31, 6) {
		versionAlphabet = append(versionAlphabet, n+".0\n", "2."+n+"\n")
	}
	var mustReject, unconstrained []string
	for _, v := range versionAlphabet {
		if majorIsNot2(v) {
			mustReject = append(mustReject, v)
		} else {
			unconstrained = append(unconstrained, v)
		}
	}
	var rej []In
	for _, pr := range pairs {
		for _, ex := range []string{"", "gpgorigin-end", "underscore-after-binary"} {
			for _, v := range mustReject {
				in := mkIn(ps[1], controlEntrySets[0], dfs[1], pr[0], pr[1], ex, "")
				in.Model.Binary, in.Model.BinaryRaw = v, true
				in.Verdict = "must-reject"
				in.Name = fmt.Sprintf("debian-binary=%q %s/%s extra=%q", v, pr[0], pr[1], ex)
				rej = append(rej, in)
			}
			for _, v := range unconstrained {
				in := mkIn(ps[1], controlEntrySets[0], dfs[1], pr[0], pr[1], ex, "")
				in.Model.Binary, in.Model.BinaryRaw = v, true
				in.Verdict = "unconstrained"
				in.Name = fmt.Sprintf("debian-binary=%q %s/%s extra=%q", v, pr[0], pr[1], ex)
				rej = append(rej, in)
			}
			for _, drop := range []string{"debian-binary", "control", "data"} {
				for _, lay := range layouts {
					in := mkIn(ps[1], controlEntrySets[2], dfs[2], pr[0], pr[1], ex, lay)
					in.Drop = drop
					in.Verdict = "must-reject"
					in.Name = fmt.Sprintf("missing %s %s/%s extra=%q layout=%q", drop, pr[0], pr[1], ex, lay)
					rej = append(rej, in)
				}
			}
		}
	}
	r.Scenario("rejections", map[string]interface{}{"debian_binary_must_reject": mustReject, "debian_binary_unconstrained_recorded_only": unconstrained,
		"missing_member": []string{"debian-binary", "control", "data"}, "compression_pairs": pairs, "extras": []string{"", "gpgorigin-end", "underscore-after-binary"}},
		len(rej), func(i int, st *mc.Stats) bool { return runIns(r, "rejections", c, rej[i:i+1], st) })

	// ---- scenario 3: the same bytes under different map iteration orders, incl. packages with two control.* / data.* members
	dups := []string{"", "control-end", "control-adjacent", "data-end", "data-adjacent", "both-end"}
	var det []In
	mp := [][2]string{{"gz", "gz"}, {"none", "gz"}}
	if has(comps, "xz") {
		mp = append(mp, [2]string{"zst", "xz"})
	}
	for _, pr := range mp {
		for _, ex := range extras {
			for _, lay := range layouts {
				for _, dup := range dups {
					if dup != "" && ex != "" && ex != "gpgorigin-end" {
						continue // second-member variants: with and without a trailing _gpgorigin only
					}
					in := mkIn(ps[1], controlEntrySets[2], dfs[2], pr[0], pr[1], ex, lay)
					in.Dup = dup
					in.Orders = true
					if dup != "" {
						in.Verdict = "unconstrained" // accept or reject — but always the same way
						in.Name += " second-member=" + dup
					}
					det = append(det, in)
				}
			}
		}
	}
	// a further control.* / data.* member under every name of a name alphabet, at every position
	secondNames := func(cc, dc string) []string {
		other := func(orig string) string {
			if orig == "gz" {
				return "none"
			}
			return "gz"
		}
		return []string{
			"control.tar" + gen.DebCompExt(other(cc)), "control.tar" + gen.DebCompExt(cc), "control.sig", "control.old.tar", "control.", "control.tar.old", "control.old.tar.gz",
			"data.tar" + gen.DebCompExt(other(dc)), "data.tar" + gen.DebCompExt(dc), "data.sig", "data.img", "data.", "data.old.tar", "data.old.tar.gz",
		}
	}
	nSecond := 0
	for _, pr := range mp[:2] {
		for _, sn := range secondNames(pr[0], pr[1]) {
			for pos := 0; pos <= 3; pos++ {
				in := mkIn(ps[1], controlEntrySets[2], dfs[2], pr[0], pr[1], "", "")
				in.SecondName, in.SecondPos = sn, pos
				in.Orders = true
				in.Verdict = "lenient" // may be refused; the same bytes always the same way; if loaded, the content is the model's
				in.Name += fmt.Sprintf(" further member %q at position %d", sn, pos)
				det = append(det, in)
				nSecond++
			}
		}
	}
	MapOrderBound = r.Pick(1, 2)
	r.Scenario("map-orders", map[string]interface{}{"map_order_deviation_bound": MapOrderBound, "compression_pairs": mp, "extras": extras, "layouts": layouts, "second_control_or_data_member": dups,
		"further_member_names": secondNames("gz", "gz"), "further_member_positions": "0..3", "further_member_inputs": nSecond,
		"orders": MapOrderNote, "repetitions": MapOrderReps}, len(det),
		func(i int, st *mc.Stats) bool { return runIns(r, "map-orders", c, det[i:i+1], st) })

	// ---- last scenario: the process-global xz dictionary limit (one goroutine, nothing else running)
	knobScenario(r, c, comps)
}

// paramSelfCheck makes sure the parameter variants really produce the stream properties they are named after
// (otherwise the alphabet would be silently narrower than stated).
func paramSelfCheck(r *mc.Run, c *gen.DebCompressor, blob []byte) {
	get := func(comp string) []byte {
		z, err := c.Compress(comp, blob)
		if err != nil {
			return nil
		}
		return z
	}
	decl := map[string]int64{}
	chk := func(comp string, got, want int64) {
		if get(comp) == nil {
			return // encoding not available: reported as not covered elsewhere
		}
		decl[comp] = got
		if got != want {
			r.HarnessError("variant %s declares %d, expected %d", comp, got, want)
		}
	}
	chk("xz", gen.XZDictSize(get("xz")), 8<<20)
	chk("xz:0", gen.XZDictSize(get("xz:0")), 256<<10)
	chk("xz:9", gen.XZDictSize(get("xz:9")), 64<<20)
	chk("xz:9e", gen.XZDictSize(get("xz:9e")), 64<<20)
	chk("xz:dict=16M", gen.XZDictSize(get("xz:dict=16M")), 16<<20)
	chk("xz:dict=64M", gen.XZDictSize(get("xz:dict=64M")), 64<<20)
	chk("zst:window=64M", gen.ZstdWindowSize(get("zst:window=64M")), 64<<20)
	chk("zst:window=1K", gen.ZstdWindowSize(get("zst:window=1K")), 1<<10)
	chk("lzma:py9", gen.LZMAAloneDictSize(get("lzma:py9")), 64<<20)
	if z := get("gz:0"); z != nil && len(z) < len(blob) {
		r.HarnessError("gz:0 is not stored deflate (%d < %d bytes)", len(z), len(blob))
	}
	r.Extra["declared_dictionary_or_window_bytes"] = decl
}

// majorIsNot2: the major number of a debian-binary content is certainly not 2. The major is the first line up to its
// first '.'; after trimming blanks, one sign and leading zeros it must be exactly "2" to count as (possibly) 2.
func majorIsNot2(content string) bool {
	line := content
	if i := strings.IndexByte(line, '\n'); i >= 0 {
		line = line[:i]
	}
	major := line
	if i := strings.IndexByte(major, '.'); i >= 0 {
		major = major[:i]
	}
	major = strings.TrimSpace(major)
	major = strings.TrimPrefix(major, "+")
	major = strings.TrimLeft(major, "0")
	return major != "2"
}

// bigMem: the package makes a decoder allocate a large dictionary / window (see BigMem).
func bigMem(in In) bool {
	for _, c := range []string{in.Model.ControlComp, in.Model.DataComp} {
		switch {
		case c == "xz:9", c == "xz:9e", c == "lzma:py9":
			return true
		case strings.Contains(c, "dict=") || strings.Contains(c, "window="):
			v := c[strings.Index(c, "=")+1:]
			if strings.HasSuffix(v, "M") || len(v) >= 8 { // given in MiB, or >= 10 000 000 bytes
				return true
			}
		}
	}
	return strings.Contains(in.Name, "-z9") || strings.Contains(in.Name, "-z19")
}

func has(xs []string, x string) bool {
	for _, y := range xs {
		if y == x {
			return true
		}
	}
	return false
}

// ---------------------------------------------------------------- self-checks and tool cross-checks

func selfCheck(r *mc.Run) {
	ms := []gen.ArMember{{Name: "debian-binary", Data: []byte("2.0\n")}, {Name: "odd", Data: []byte("abc")}, {Name: "empty", Data: nil}, {Name: "0123456789abcdef", Data: []byte("xy")}}
	back, err := gen.ParseAr(gen.BuildAr(ms))
	if err != nil || len(back) != len(ms) {
		r.HarnessError("gen.ParseAr(gen.BuildAr(x)) failed: %v", err)
		return
	}
	for i := range ms {
		if back[i].Name != ms[i].Name || !bytes.Equal(back[i].Data, ms[i].Data) {
			r.HarnessError("ar round trip differs at member %d", i)
		}
	}
	if unfold("a\n b\n .\n c") != "a\nb\n\nc" {
		r.HarnessError("unfold self-check")
	}
}

// dpkgCross validates the BUILDER (never the library): (1) the real ar and dpkg-deb read harness-built packages and
// report the model's fields and file list; (2) packages built by the real dpkg-deb from the same models are added as
// a scenario of their own (there the bytes are dpkg's, the model is the directory tree handed to it).
func dpkgCross(r *mc.Run, c *gen.DebCompressor, ps []paragraph, dfs [][]gen.TarEntry, comps []string) {
	tc := map[string]interface{}{}
	r.Extra["tool_crosschecks"] = tc
	dir, err := os.MkdirTemp("", "verif-c14-")
	if err != nil {
		tc["all"] = "skipped: " + err.Error()
		return
	}
	defer os.RemoveAll(dir)
	_, errDpkg := exec.LookPath("dpkg-deb")
	_, errAr := exec.LookPath("ar")
	if errDpkg != nil {
		tc["dpkg-deb"] = "skipped (not installed)"
	}
	if errAr != nil {
		tc["ar"] = "skipped (not installed)"
	}
	// (1) harness-built packages read by the tools
	nOK, nAr := 0, 0
	for i, dc := range comps {
		// dpkg-deb reads bzip2 and lzma for the data member only, so the control member cycles through the others
		cc := "none"
		for k := 0; k < len(comps); k++ {
			if c := comps[(i+k)%len(comps)]; c != "bz2" && c != "lzma" {
				cc = c
				break
			}
		}
		in := mkIn(ps[1], controlEntrySets[i%3], dfs[1+i%2], cc, dc, []string{"", "gpgorigin-end"}[i%2], "")
		if err := finish(c, &in); err != nil {
			r.HarnessError("dpkg cross-check build: %v", err)
			return
		}
		p := filepath.Join(dir, fmt.Sprintf("h%d.deb", i))
		os.WriteFile(p, in.Deb, 0o644)
		if errAr == nil {
			out, err := exec.Command("ar", "t", p).Output()
			ms, _ := gen.ParseAr(in.Deb)
			var want []string
			for _, m := range ms {
				n := m.Name
				if len(n) == 16 {
					n = n[:15] // GNU ar prints a full-width name without its last byte (it expects a '/' terminator there)
				}
				want = append(want, n)
			}
			if err != nil || !reflect.DeepEqual(strings.Fields(string(out)), want) {
				r.HarnessError("ar t disagrees with the builder on %s: %v %q want %v", in.Name, err, out, want)
			}
			nAr++
		}
		if errDpkg == nil {
			out, err := exec.Command("dpkg-deb", "-f", p, "Package", "Version", "Architecture").CombinedOutput()
			want := fmt.Sprintf("Package: %s\nVersion: %s\nArchitecture: %s\n", in.Exp.Package, "1:2.0~rc1-1+b1", in.Exp.Arch)
			if err != nil {
				if strings.Contains(string(out), "zst") || strings.Contains(string(out), "unknown compression") || strings.Contains(string(out), "ununderstood") {
					tc["dpkg-deb -f "+cc+"/"+dc] = "skipped: this dpkg-deb does not read the encoding: " + strings.TrimSpace(string(out))
					continue
				}
				r.HarnessError("dpkg-deb -f rejects harness-built %s: %v %s", in.Name, err, out)
				continue
			}
			if string(out) != want {
				r.HarnessError("dpkg-deb -f disagrees with the model on %s: %q want %q", in.Name, out, want)
			}
			lst, err := exec.Command("dpkg-deb", "-c", p).CombinedOutput()
			if err != nil {
				if strings.Contains(string(lst), "zst") || strings.Contains(string(lst), "unknown compression") {
					tc["dpkg-deb -c "+cc+"/"+dc] = "skipped: " + strings.TrimSpace(string(lst))
					continue
				}
				r.HarnessError("dpkg-deb -c rejects harness-built %s: %v %s", in.Name, err, lst)
				continue
			}
			lines := strings.Split(strings.TrimSpace(string(lst)), "\n")
			if len(lines) != len(in.Model.DataFiles) {
				r.HarnessError("dpkg-deb -c lists %d entries, model has %d (%s)", len(lines), len(in.Model.DataFiles), in.Name)
			}
			for k, f := range in.Model.DataFiles {
				if k < len(lines) && !strings.HasSuffix(lines[k], " "+f.Name) {
					r.HarnessError("dpkg-deb -c entry %d is %q, model %q", k, lines[k], f.Name)
				}
			}
			nOK++
		}
	}
	tc["ar_t_on_harness_built"] = nAr
	tc["dpkg_deb_f_c_on_harness_built"] = nOK
	if errDpkg != nil {
		return
	}
	// (2) packages built by dpkg-deb itself
	var ins []In
	for pi, p := range ps[1:] {
		root := filepath.Join(dir, fmt.Sprintf("tree%d", pi))
		os.MkdirAll(filepath.Join(root, "DEBIAN"), 0o755)
		os.MkdirAll(filepath.Join(root, "usr/share/x"), 0o755)
		body := []byte("payload of " + p.name + "\n")
		os.WriteFile(filepath.Join(root, "DEBIAN/control"), gen.RenderDebControl(p.fields), 0o644)
		os.WriteFile(filepath.Join(root, "usr/share/x/file"), body, 0o644)
		for _, zl := range []string{"none", "gzip", "xz", "zstd", "gzip -z1", "xz -z9", "xz -z0", "zstd -z19"} {
			z := strings.Fields(zl)[0]
			out := filepath.Join(dir, fmt.Sprintf("d%d-%s.deb", pi, strings.ReplaceAll(zl, " ", "")))
			args := []string{"--root-owner-group", "-Z" + z}
			args = append(args, strings.Fields(zl)[1:]...)
			msg, err := exec.Command("dpkg-deb", append(args, "-b", root, out)...).CombinedOutput()
			if err != nil {
				tc["dpkg-deb -Z"+zl] = "skipped: " + strings.TrimSpace(string(msg))
				continue
			}
			b, err := os.ReadFile(out)
			if err != nil {
				continue
			}
			comp := map[string]string{"none": "none", "gzip": "gz", "xz": "xz", "zstd": "zst"}[z]
			ins = append(ins, In{Name: "built by dpkg-deb -Z" + zl + " from model " + p.name, Exp: p.exp, Verdict: "must-load", Deb: b,
				Model: gen.DebModel{Fields: p.fields, ControlComp: comp, DataComp: comp, DataFiles: []gen.TarEntry{
					{Name: "./", Dir: true}, {Name: "./usr/", Dir: true}, {Name: "./usr/share/", Dir: true}, {Name: "./usr/share/x/", Dir: true},
					{Name: "./usr/share/x/file", Body: body}}}})
		}
	}
	tc["dpkg_deb_built_packages"] = len(ins)
	if len(ins) == 0 {
		return
	}
	r.Scenario("dpkg-deb-built", map[string]interface{}{"models": []string{"full", "custom"}, "dpkg_deb_Z": []string{"none", "gzip", "xz", "zstd", "gzip -z1", "xz -z9", "xz -z0", "zstd -z19"},
		"note": "bytes produced by the real dpkg-deb; the model is the directory tree given to it (one file below three directories)"},
		len(ins), func(i int, st *mc.Stats) bool {
			in := ins[i]
			// the member names dpkg-deb chose must be the ones the model implies, else the model (not the library) is off
			ms, err := gen.ParseAr(in.Deb)
			if err != nil || len(ms) != 3 || ms[1].Name != in.Model.ControlName() || ms[2].Name != in.Model.DataName() {
				r.HarnessError("dpkg-deb produced unexpected members for %s: %v %v", in.Name, memberNames(ms), err)
				return true
			}
			big := bigMem(in)
			if big {
				BigMem <- struct{}{}
			}
			vs, obs := Check("dpkg-deb-built", in)
			if big {
				<-BigMem
			}
			if len(obs) == 0 {
				return false
			}
			st.Evals += int64(len(obs))
			st.Traces += int64(len(obs))
			st.States++
			h := sha256.Sum256(in.Deb)
			st.DistinctNontrivial(string(h[:]))
			st.Class(outcomeClass(in, obs[0]))
			for _, v := range vs {
				st.Violate(v)
			}
			if st.WantSample() && i%4 == 1 {
				st.Sample(sampleOf(in, obs[0]))
			}
			return true
		})
}

// interleaved runs the several-debs-alive scenario sequentially (one shard).
func interleaved(r *mc.Run, c *gen.DebCompressor, comps []string) {
	pk, err := multiPackages(c, comps)
	if err != nil {
		r.HarnessError("interleaved-debs: %v", err)
		return
	}
	pairs, triples := pairSchedules(), tripleSchedules()
	var names []string
	for _, p := range pk {
		names = append(names, p.Name)
	}
	// triples: the all-same-encoding ones and a few mixed ones
	idx := func(name string) int {
		for i, p := range pk {
			if strings.Contains(p.Name, name) {
				return i
			}
		}
		return 0
	}
	var tri [][3]int
	for i := range pk {
		tri = append(tri, [3]int{i, i, i})
	}
	z, zc, x, l, g := idx("control=gz data=zst"), idx("control=zst"), idx("control=gz data=xz"), idx("control=gz data=lzma"), idx("control=gz data=gz")
	tri = append(tri, [3]int{z, g, z}, [3]int{z, zc, z}, [3]int{x, z, l}, [3]int{zc, z, x}, [3]int{g, x, g})
	r.Scenario("interleaved-debs", map[string]interface{}{"packages": names, "pairs": "all ordered pairs of the packages (incl. the same bytes twice)",
		"pair_schedules": "all 20 interleavings of two load<read<close chains + entry-by-entry alternation for pairs whose varied member has the same encoding (thorough: all pairs); for the other pairs: the non-overlapping one, the alternation, and the two schedules load #0, load #1, read x, read y, close #0, close #1 (both ordered pairs are enumerated)", "triples": len(tri),
		"triple_schedules": "all loaded first, 6 read orders x {close at the end, close right after reading} + alternation",
		"workers":          "1 (sequential, so the result does not depend on concurrent activity)", "step_guard": HangGuard.String()},
		1, func(_ int, st *mc.Stats) bool {
			run := func(m MultiIn) bool {
				if r.Expired() {
					return false
				}
				vs, obs := CheckMulti("interleaved-debs", m)
				st.Evals += int64(len(m.Ops))
				st.Transitions += int64(len(m.Ops))
				st.States++
				st.Traces += int64(len(obs))
				st.DistinctNontrivial(m.Name)
				switch {
				case obs == nil:
					st.Class("NO-TERMINATION")
				case len(vs) > 0:
					st.Class("some package exposes content that is not its own")
				default:
					st.Class("every package exposes its own content")
				}
				for _, v := range vs {
					st.Violate(v)
				}
				if st.WantSample() && (st.States%500 == 7 || len(vs) > 0) {
					st.Sample(map[string]interface{}{"case": m.Name})
				}
				return obs != nil
			}
			opsText := func(ops []Op) string {
				var s []string
				for _, o := range ops {
					s = append(s, o.String())
				}
				return strings.Join(s, ", ")
			}
			// pairs that share an encoding of the varied member (same decoder twice) get all 21 schedules, the others
			// the 6 that keep both Debs alive across a load or a read of the other
			varied := func(in In) string {
				if in.Model.ControlComp != "gz" {
					return in.Model.ControlComp
				}
				return in.Model.DataComp
			}
			short := [][]Op{pairs[0], pairs[len(pairs)-1]}
			for _, sch := range pairs {
				if sch[0].Kind == "load" && sch[0].Pkg == 0 && sch[1].Kind == "load" && sch[2].Kind == "read" && sch[3].Kind == "read" && sch[4].Pkg == 0 {
					short = append(short, sch) // load 0, load 1, read x, read y, closes in 2 orders
				}
			}
			for a := range pk {
				for b := range pk {
					scheds := short
					if varied(pk[a]) == varied(pk[b]) || r.Tier == "thorough" {
						scheds = pairs
					}
					for _, sch := range scheds {
						if !run(MultiIn{Name: fmt.Sprintf("#0=%s, #1=%s: %s", pk[a].Name, pk[b].Name, opsText(sch)), Pkgs: []In{pk[a], pk[b]}, Ops: sch}) {
							return false
						}
					}
				}
			}
			for _, t := range tri {
				for _, sch := range triples {
					if !run(MultiIn{Name: fmt.Sprintf("#0=%s, #1=%s, #2=%s: %s", pk[t[0]].Name, pk[t[1]].Name, pk[t[2]].Name, opsText(sch)), Pkgs: []In{pk[t[0]], pk[t[1]], pk[t[2]]}, Ops: sch}) {
						return false
					}
				}
			}
			return true
		})
}

// auditScenario injects the literals a change introduced into the tree under test (harness/audit) into the package
// model: new strings as control field names and values, ar member names, tar entry names; new integers (n-1, n, n+1)
// as file sizes, numbers of extra members and dictionary / window sizes. The expected result is always the model.
func auditScenario(r *mc.Run, c *gen.DebCompressor, comps []string, ps []paragraph, dfs [][]gen.TarEntry) {
	r.Extra["alphabet_audit"] = audit.Evidence()
	full := ps[1]
	known := func(k string) bool {
		for _, f := range full.fields {
			if strings.EqualFold(f.Key, k) {
				return true
			}
		}
		return false
	}
	fieldNames := gen.AuditStrings(func(s string) bool {
		ok := gen.Nameish(s) && !strings.ContainsAny(s, ".+") && s[0] != '-' && !known(s)
		return ok
	}, 6)
	values := gen.AuditStrings(func(s string) bool { return gen.OneLine(s) && strings.TrimSpace(s) == s && !strings.HasPrefix(s, "#") }, 6)
	members := gen.AuditStrings(func(s string) bool {
		return len(s) <= 16 && gen.OneLine(s) && !strings.ContainsAny(s, " /\t") && s != "debian-binary"
	}, 6)
	entries := gen.AuditStrings(func(s string) bool {
		return len(s) <= 90 && gen.OneLine(s) && !strings.HasPrefix(s, "/") && !strings.Contains(s, "..") && path.Clean("./"+s) != "control" && path.Clean("./"+s) != "."
	}, 6)
	sizes := gen.AuditInts(1, 4<<20, 9)
	counts := gen.AuditInts(1, 64, 6)
	dicts := gen.AuditInts(4096, 64<<20, 6)
	if len(fieldNames)+len(values)+len(members)+len(entries)+len(sizes)+len(counts)+len(dicts) == 0 {
		return
	}
	pairs := [][2]string{{"gz", "gz"}, {"none", "none"}}
	if has(comps, "xz") && has(comps, "zst") {
		pairs = append(pairs, [2]string{"xz", "zst"})
	}
	var ins []In
	withField := func(p paragraph, key, val string, pos int) paragraph {
		q := p
		q.fields = append(append(append([]gen.DebField(nil), p.fields[:pos]...), gen.DebField{Key: key, Value: val}), p.fields[pos:]...)
		return q
	}
	for _, pr := range pairs {
		for _, k := range fieldNames {
			// "1" is a valid string, integer, version, architecture word and dependency at once
			for _, pos := range []int{3, len(full.fields) - 1, len(full.fields)} {
				in := mkIn(withField(full, k, "1", pos), controlEntrySets[2], dfs[1], pr[0], pr[1], "", "")
				in.Name = fmt.Sprintf("audit: further field %q at position %d, %s/%s", k, pos, pr[0], pr[1])
				ins = append(ins, in)
			}
			for _, v := range values {
				in := mkIn(withField(full, k, v, len(full.fields)), controlEntrySets[0], dfs[1], pr[0], pr[1], "", "")
				in.Name = fmt.Sprintf("audit: further field %q: %q, %s/%s", k, v, pr[0], pr[1])
				in.Verdict = "lenient" // the change may have given the new field a type this value does not fit
				ins = append(ins, in)
			}
		}
		for _, v := range values {
			q := full
			q.fields = append([]gen.DebField(nil), full.fields...)
			for i := range q.fields {
				if q.fields[i].Key == "Section" || q.fields[i].Key == "Homepage" {
					q.fields[i].Value = v
				}
			}
			q.exp.Section, q.exp.Homepage = v, v
			in := mkIn(q, controlEntrySets[2], dfs[1], pr[0], pr[1], "", "")
			in.Name = fmt.Sprintf("audit: Section and Homepage = %q, %s/%s", v, pr[0], pr[1])
			ins = append(ins, in)
		}
		for _, m := range members {
			for pos := 0; pos <= 3; pos++ {
				in := mkIn(full, controlEntrySets[2], dfs[2], pr[0], pr[1], "", "")
				in.SecondName, in.SecondPos = m, pos
				in.Orders = true
				in.Verdict = "must-load"
				if pos == 0 || strings.HasPrefix(m, "control.") || strings.HasPrefix(m, "data.") || m == in.Model.ControlName() || m == in.Model.DataName() {
					in.Verdict = "lenient"
				}
				in.Name = fmt.Sprintf("audit: further member %q at position %d, %s/%s", m, pos, pr[0], pr[1])
				ins = append(ins, in)
			}
		}
		for _, e := range entries {
			es := []string{"./" + e, "./control"}
			in := mkIn(full, es, append([]gen.TarEntry{{Name: "./" + e, Body: []byte("audit entry\n")}}, dfs[1]...), pr[0], pr[1], "", "")
			in.Name = fmt.Sprintf("audit: tar entry %q before ./control and in the payload, %s/%s", "./"+e, pr[0], pr[1])
			ins = append(ins, in)
		}
		for _, n := range sizes {
			in := mkIn(bigParagraph("medium(1.5KiB)", 1500), []string{"./md5sums", "./control"}, []gen.TarEntry{{Name: "./audit-sized-file", Fill: int(n)}, {Name: "./after", Body: []byte("x")}}, pr[0], pr[1], "", "")
			in.Model.EntrySizes = map[string]int{"./md5sums": int(n)}
			in.Name = fmt.Sprintf("audit: sibling before ./control and a data file of %d bytes, %s/%s", n, pr[0], pr[1])
			ins = append(ins, in)
			q := bigParagraph(fmt.Sprintf("description(%d)", n), int(n))
			if n <= 256<<10 {
				in := mkIn(q, controlEntrySets[0], dfs[1], pr[0], pr[1], "", "")
				in.Name = fmt.Sprintf("audit: Description of about %d bytes, %s/%s", n, pr[0], pr[1])
				ins = append(ins, in)
			}
		}
	}
	for _, n := range counts {
		in := mkIn(full, controlEntrySets[2], dfs[2], "gz", "gz", "", "")
		in.ExtraCount = int(n)
		in.Name = fmt.Sprintf("audit: %d further underscore members", n)
		ins = append(ins, in)
	}
	for _, n := range dicts {
		vs := []string{}
		if has(comps, "xz") {
			vs = append(vs, fmt.Sprintf("xz:dict=%d", n))
		}
		if has(comps, "zst") && n&(n-1) == 0 && n >= 1024 {
			vs = append(vs, fmt.Sprintf("zst:window=%d", n))
		}
		for _, v := range vs {
			for _, pr := range [][2]string{{v, v}, {v, "gz"}, {"gz", v}} {
				in := mkIn(full, controlEntrySets[2], dfs[2], pr[0], pr[1], "", "")
				in.Name = fmt.Sprintf("audit: dictionary / window of %d bytes, %s/%s", n, pr[0], pr[1])
				ins = append(ins, in)
			}
		}
	}
	MapOrderBound = 1
	r.Scenario("alphabet-audit", map[string]interface{}{"field_names": fieldNames, "values": values, "member_names": members, "tar_entry_names": entries,
		"file_sizes": sizes, "extra_member_counts": counts, "dictionary_sizes": dicts, "compression_pairs": pairs}, len(ins),
		func(i int, st *mc.Stats) bool { return runIns(r, "alphabet-audit", c, ins[i:i+1], st) })
}
