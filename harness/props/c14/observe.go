package c14

import (
	"bytes"
	"crypto/sha256"
	"encoding/hex"
	"encoding/json"
	"fmt"
	"io"
	"sort"
	"sync/atomic"
	"time"

	"pault.ag/go/debian/deb"
	"pault.ag/go/debian/dependency"

	"verifharness/mc"
)

// MapOrderReps is how often the default ForEachMapOrder repeats an execution.
var MapOrderReps = 64

// ForEachMapOrder runs one load(+verify) execution once per explored map-iteration order. The library picks the
// control.* / data.* members by ranging over a Go map (three independent scans). Until the instrumented build puts
// those orders under explorer control, the orders are SAMPLED BY REPETITION on the plain build: the default
// implementation simply repeats the execution MapOrderReps times and the caller collects the SET of outcomes.
// The instrumented build replaces this variable by one that enumerates explicit permutations.
var ForEachMapOrder = func(run func()) {
	for i := 0; i < MapOrderReps; i++ {
		run()
	}
}

// MapOrderBound is the deviation bound used by the instrumented build's enumeration
// (2: "the loader's scan picks one candidate, the verifier's scan the other").
var MapOrderBound = 2

// MapOrderCap bounds the executions of one ForEachMapOrder call; hitting it is recorded in MapOrderCapped.
var MapOrderCap = 20000

var (
	MapOrderExecs  int64 // executions performed under explicit orders (instrumented build)
	MapOrderCapped int64 // ForEachMapOrder calls that hit MapOrderCap
)

// MapOrderNote is what evidence files say about the above.
var MapOrderNote = "map orders sampled by repetition on the plain build (64x): the instrumented build was not available"

// FileObs is one entry delivered by Deb.Data.
type FileObs struct {
	Name string
	Dir  bool   `json:",omitempty"`
	Type string `json:",omitempty"` // tar type flag when neither regular file nor directory
	Body []byte `json:",omitempty"`
}

// Obs is everything one deb.Load execution exposed.
type Obs struct {
	Hang    string `json:",omitempty"` // a step of the library did not return within HangGuard
	Skipped bool   `json:",omitempty"` // not executed: the process had already seen a hang
	Panic   string `json:",omitempty"`
	LoadErr string `json:",omitempty"`
	Loaded  bool

	ControlExt, DataExt string
	Keys                []string         // ArContent keys, sorted
	Sizes               map[string]int64 // ArContent[k].Size
	NameOK              bool             // every ArContent[k].Name == k

	// typed control fields
	Package, Source, Maintainer, MultiArch, Section, Priority, Homepage, Description string
	Epoch                                                                            uint
	Upstream, Revision                                                               string
	Arch                                                                             string
	ArchCPU                                                                          string
	InstalledSize                                                                    int
	Deps                                                                             map[string]string   // struct field -> String()
	DepNames                                                                         map[string][]string // struct field -> possibility names in order
	Struct                                                                           map[string]string   // every field of deb.Control (by reflection), canonical rendering
	Values                                                                           map[string]string   // Paragraph.Values
	Order                                                                            []string

	Files   []FileObs
	DataErr string `json:",omitempty"` // error other than io.EOF while iterating Deb.Data
}

// Class is a digest of the outcome in which error TEXTS do not take part (only whether there was one).
func (o Obs) Class() string {
	c := o
	if c.LoadErr != "" {
		c.LoadErr = "error"
	}
	if c.DataErr != "" {
		c.DataErr = "error"
	}
	if c.Panic != "" {
		c.Panic = "panic"
	}
	b, _ := json.Marshal(c)
	h := sha256.Sum256(b)
	return hex.EncodeToString(h[:8])
}

// Brief is a short human-readable rendering of the outcome.
func (o Obs) Brief() string {
	switch {
	case o.Hang != "":
		return "no termination: " + o.Hang
	case o.Skipped:
		return "not executed (an earlier execution did not terminate)"
	case o.Panic != "":
		return "panic: " + o.Panic
	case !o.Loaded:
		return "load error: " + o.LoadErr
	}
	names := []string{}
	for _, f := range o.Files {
		names = append(names, f.Name)
	}
	s := fmt.Sprintf("loaded ControlExt=%q DataExt=%q Package=%q Version=%d:%s-%s files=%v", o.ControlExt, o.DataExt, o.Package, o.Epoch, o.Upstream, o.Revision, names)
	if o.DataErr != "" {
		s += " data-error=" + o.DataErr
	}
	return s
}

// Shape is Brief without error texts (stable across runs that fail for the same reason class).
func (o Obs) Shape() string {
	switch {
	case o.Hang != "":
		return "no termination"
	case o.Skipped:
		return "not executed"
	case o.Panic != "":
		return "panic"
	case !o.Loaded:
		return "load error"
	}
	c := o
	if c.DataErr != "" {
		c.DataErr = "error"
	}
	return c.Brief()
}

func possNames(rels []dependency.Relation) []string {
	var out []string
	for _, r := range rels {
		for _, p := range r.Possibilities {
			out = append(out, p.Name)
		}
	}
	return out
}

// HangGuard is how long one load / read / close step of the library may take before it is declared not to
// terminate. Normal steps take micro- to milliseconds; the bound is minutes so that a loaded machine (16 workers,
// decoders allocating large dictionaries, other checks running) cannot trip it — a real hang is still found, later.
// It is the ONLY wall-clock dependent verdict; nothing timing-dependent is ever compared between two loads.
var HangGuard = 180 * time.Second

// BigMem limits how many executions that make a decoder allocate a large (>= 16 MiB) dictionary or window run at the
// same time (there is no memory limit in the sandbox; 16 workers x 64 MiB x several members adds up and slows
// everything else down).
var BigMem = make(chan struct{}, 2)

// Aborted is set once a step did not return: the leaked goroutine may hold library-internal locks, so every later
// execution of this process is skipped (scenarios report exhaustive:false) and the run ends with the violations found.
var Aborted int32

// Guarded runs f on a goroutine of its own (which inherits the hook context) and reports whether it returned
// within HangGuard.
func Guarded(f func()) bool {
	if atomic.LoadInt32(&Aborted) != 0 {
		return false
	}
	if mc.WithTimeout(HangGuard, f) {
		return true
	}
	atomic.StoreInt32(&Aborted, 1)
	return false
}

// Session is one loaded Deb whose phases (load, read payload, close) can be interleaved with other sessions'.
type Session struct {
	d      *deb.Deb
	O      Obs
	done   bool       // payload exhausted or failed
	closer deb.Closer // from deb.LoadFile
	Closes int        // Close / CallCloser calls so far
}

// Open loads the bytes with the real deb.Load and records everything but the payload.
func Open(b []byte) *Session { return OpenAs(b, "verif.deb") }

// OpenAs is Open with a chosen pathname argument of deb.Load (the library records it in Deb.Path).
func OpenAs(b []byte, pathname string) *Session {
	return openWith(func() (*deb.Deb, error) { return deb.Load(bytes.NewReader(b), pathname) })
}

// OpenFile loads a package file with deb.LoadFile; the returned closer is kept in the session (CallCloser).
func OpenFile(path string) *Session {
	var closer deb.Closer
	s := openWith(func() (*deb.Deb, error) {
		d, c, err := deb.LoadFile(path)
		closer = c
		return d, err
	})
	s.closer = closer
	return s
}

func openWith(load func() (*deb.Deb, error)) *Session {
	s := &Session{}
	panicked, msg := mc.Guard(func() {
		var err error
		s.d, err = load()
		if err != nil {
			s.O.LoadErr = err.Error()
			if s.O.LoadErr == "" {
				s.O.LoadErr = "error"
			}
			s.d = nil
			return
		}
		s.O.Loaded = true
		s.O.ControlExt, s.O.DataExt = s.d.ControlExt, s.d.DataExt
		s.O.Sizes = map[string]int64{}
		s.O.NameOK = true
		for k, e := range s.d.ArContent {
			s.O.Keys = append(s.O.Keys, k)
			if e == nil {
				s.O.NameOK = false
				continue
			}
			s.O.Sizes[k] = e.Size
			if e.Name != k {
				s.O.NameOK = false
			}
		}
		sort.Strings(s.O.Keys)
		c := &s.d.Control
		s.O.Package, s.O.Source, s.O.Maintainer, s.O.MultiArch = c.Package, c.Source, c.Maintainer, c.MultiArch
		s.O.Section, s.O.Priority, s.O.Homepage, s.O.Description = c.Section, c.Priority, c.Homepage, c.Description
		s.O.Epoch, s.O.Upstream, s.O.Revision = c.Version.Epoch, c.Version.Version, c.Version.Revision
		s.O.Arch, s.O.ArchCPU = c.Architecture.String(), c.Architecture.CPU
		s.O.InstalledSize = c.InstalledSize
		s.O.Deps = map[string]string{}
		s.O.DepNames = map[string][]string{}
		add := func(name string, rels int, str string, names []string) {
			if rels == 0 {
				return
			}
			s.O.Deps[name] = str
			s.O.DepNames[name] = names
		}
		add("Depends", len(c.Depends.Relations), c.Depends.String(), possNames(c.Depends.Relations))
		add("Recommends", len(c.Recommends.Relations), c.Recommends.String(), possNames(c.Recommends.Relations))
		add("Suggests", len(c.Suggests.Relations), c.Suggests.String(), possNames(c.Suggests.Relations))
		add("Breaks", len(c.Breaks.Relations), c.Breaks.String(), possNames(c.Breaks.Relations))
		add("Replaces", len(c.Replaces.Relations), c.Replaces.String(), possNames(c.Replaces.Relations))
		add("BuiltUsing", len(c.BuiltUsing.Relations), c.BuiltUsing.String(), possNames(c.BuiltUsing.Relations))
		s.O.Struct = observeStruct(c)
		s.O.Values = map[string]string{}
		for k, v := range c.Paragraph.Values {
			s.O.Values[k] = v
		}
		s.O.Order = append([]string(nil), c.Paragraph.Order...)
	})
	if panicked {
		s.O.Panic = msg
	}
	return s
}

// Deb is the loaded object (nil if Load failed).
func (s *Session) Deb() *deb.Deb { return s.d }

// Next reads one more entry of Deb.Data (with its body); it returns false when the stream is exhausted or failed.
func (s *Session) Next() bool {
	if s.d == nil || s.done || s.O.Panic != "" {
		return false
	}
	more := false
	panicked, msg := mc.Guard(func() {
		o := &s.O
		if s.d.Data == nil {
			o.DataErr = "Deb.Data is nil"
			return
		}
		h, err := s.d.Data.Next()
		if err == io.EOF {
			return
		}
		if err != nil {
			o.DataErr = err.Error()
			return
		}
		if len(o.Files) > 10000 {
			o.DataErr = "more than 10000 entries"
			return
		}
		f := FileObs{Name: h.Name}
		switch h.Typeflag {
		case '5':
			f.Dir = true
		case '0', 0:
			body, err := io.ReadAll(s.d.Data)
			if err != nil {
				o.DataErr = err.Error()
			}
			f.Body = body
		default:
			f.Type = string(rune(h.Typeflag))
		}
		o.Files = append(o.Files, f)
		more = o.DataErr == ""
	})
	if panicked {
		s.O.Panic = msg
	}
	if !more {
		s.done = true
	}
	return more
}

// ReadPayload drains Deb.Data.
func (s *Session) ReadPayload() {
	for s.Next() {
	}
}

// Close closes the Deb.
func (s *Session) Close() {
	if s.d != nil {
		s.Closes++
		if panicked, msg := mc.Guard(func() { s.d.Close() }); panicked && s.O.Panic == "" {
			s.O.Panic = fmt.Sprintf("Deb.Close (call %d): %s", s.Closes, msg)
		}
	}
}

// CallCloser calls the close function deb.LoadFile returned (no-op for sessions opened with Open).
func (s *Session) CallCloser() {
	if s.d != nil && s.closer != nil {
		s.Closes++
		if panicked, msg := mc.Guard(func() { s.closer() }); panicked && s.O.Panic == "" {
			s.O.Panic = fmt.Sprintf("LoadFile closer (close call %d): %s", s.Closes, msg)
		}
	}
}

// Observe loads the bytes with the real deb.Load, drains Deb.Data, then calls after (may be nil; C16 verifies the
// signature there), then closes the Deb. Panics of the library are outcomes; so is a step that does not return
// within HangGuard (Obs.Hang).
func Observe(b []byte, after func(d *deb.Deb)) Obs {
	return ObserveWith(func() *Session { return Open(b) }, after)
}

// ObserveWith is Observe with a chosen way of opening the package (OpenAs, OpenFile).
func ObserveWith(open func() *Session, after func(d *deb.Deb)) Obs {
	if atomic.LoadInt32(&Aborted) != 0 {
		return Obs{Skipped: true}
	}
	res := make(chan Obs, 1)
	if !Guarded(func() {
		s := open()
		if s.d != nil && s.O.Panic == "" {
			s.ReadPayload()
			if after != nil && s.O.Panic == "" {
				if panicked, msg := mc.Guard(func() { after(s.d) }); panicked {
					s.O.Panic = msg
				}
			}
		}
		s.Close()
		res <- s.O
	}) {
		return Obs{Hang: "deb.Load / reading Deb.Data / Close did not return within " + HangGuard.String()}
	}
	return <-res
}
