package c14

import (
	"bytes"
	"crypto/sha256"
	"encoding/hex"
	"encoding/json"
	"fmt"
	"io"
	"sort"

	"pault.ag/go/debian/deb"
	"pault.ag/go/debian/dependency"

	"verifharness/mc"
)

// MapOrderReps is how often the default ForEachMapOrder repeats an execution.
var MapOrderReps = 64

// ForEachMapOrder runs one load(+verify) execution once per explored map-iteration order. The library picks the
// control.* / data.* members by ranging over a Go map (three independent scans). Until the instrumented build puts
// those orders under explorer control, the orders are SAMPLED BY REPETITION on the plain build: the default
// implementation simply repeats the execution MapOrderReps times and the caller collects the SET of outcomes.
// The instrumented build replaces this variable by one that enumerates explicit permutations.
var ForEachMapOrder = func(run func()) {
	for i := 0; i < MapOrderReps; i++ {
		run()
	}
}

// MapOrderBound is the deviation bound used by the instrumented build's enumeration
// (2: "the loader's scan picks one candidate, the verifier's scan the other").
var MapOrderBound = 2

// MapOrderCap bounds the executions of one ForEachMapOrder call; hitting it is recorded in MapOrderCapped.
var MapOrderCap = 20000

var (
	MapOrderExecs  int64 // executions performed under explicit orders (instrumented build)
	MapOrderCapped int64 // ForEachMapOrder calls that hit MapOrderCap
)

// MapOrderNote is what evidence files say about the above.
var MapOrderNote = "map orders sampled by repetition on the plain build (64x): the instrumented build was not available"

// FileObs is one entry delivered by Deb.Data.
type FileObs struct {
	Name string
	Dir  bool   `json:",omitempty"`
	Type string `json:",omitempty"` // tar type flag when neither regular file nor directory
	Body []byte `json:",omitempty"`
}

// Obs is everything one deb.Load execution exposed.
type Obs struct {
	Panic   string `json:",omitempty"`
	LoadErr string `json:",omitempty"`
	Loaded  bool

	ControlExt, DataExt string
	Keys                []string         // ArContent keys, sorted
	Sizes               map[string]int64 // ArContent[k].Size
	NameOK              bool             // every ArContent[k].Name == k

	// typed control fields
	Package, Source, Maintainer, MultiArch, Section, Priority, Homepage, Description string
	Epoch                                                                            uint
	Upstream, Revision                                                               string
	Arch                                                                             string
	ArchCPU                                                                          string
	InstalledSize                                                                    int
	Deps                                                                             map[string]string   // struct field -> String()
	DepNames                                                                         map[string][]string // struct field -> possibility names in order
	Values                                                                           map[string]string   // Paragraph.Values
	Order                                                                            []string

	Files   []FileObs
	DataErr string `json:",omitempty"` // error other than io.EOF while iterating Deb.Data
}

// Class is a digest of the outcome in which error TEXTS do not take part (only whether there was one).
func (o Obs) Class() string {
	c := o
	if c.LoadErr != "" {
		c.LoadErr = "error"
	}
	if c.DataErr != "" {
		c.DataErr = "error"
	}
	if c.Panic != "" {
		c.Panic = "panic"
	}
	b, _ := json.Marshal(c)
	h := sha256.Sum256(b)
	return hex.EncodeToString(h[:8])
}

// Brief is a short human-readable rendering of the outcome.
func (o Obs) Brief() string {
	switch {
	case o.Panic != "":
		return "panic: " + o.Panic
	case !o.Loaded:
		return "load error: " + o.LoadErr
	}
	names := []string{}
	for _, f := range o.Files {
		names = append(names, f.Name)
	}
	s := fmt.Sprintf("loaded ControlExt=%q DataExt=%q Package=%q Version=%d:%s-%s files=%v", o.ControlExt, o.DataExt, o.Package, o.Epoch, o.Upstream, o.Revision, names)
	if o.DataErr != "" {
		s += " data-error=" + o.DataErr
	}
	return s
}

// Shape is Brief without error texts (stable across runs that fail for the same reason class).
func (o Obs) Shape() string {
	switch {
	case o.Panic != "":
		return "panic"
	case !o.Loaded:
		return "load error"
	}
	c := o
	if c.DataErr != "" {
		c.DataErr = "error"
	}
	return c.Brief()
}

func possNames(rels []dependency.Relation) []string {
	var out []string
	for _, r := range rels {
		for _, p := range r.Possibilities {
			out = append(out, p.Name)
		}
	}
	return out
}

// Observe loads the bytes with the real deb.Load, drains Deb.Data, then calls after (may be nil; C16 verifies the
// signature there), then closes the Deb. Panics of the library are outcomes.
func Observe(b []byte, after func(d *deb.Deb)) Obs {
	var o Obs
	var d *deb.Deb
	panicked, msg := mc.Guard(func() {
		var err error
		d, err = deb.Load(bytes.NewReader(b), "verif.deb")
		if err != nil {
			o.LoadErr = err.Error()
			if o.LoadErr == "" {
				o.LoadErr = "error"
			}
			d = nil
			return
		}
		o.Loaded = true
		o.ControlExt, o.DataExt = d.ControlExt, d.DataExt
		o.Sizes = map[string]int64{}
		o.NameOK = true
		for k, e := range d.ArContent {
			o.Keys = append(o.Keys, k)
			if e == nil {
				o.NameOK = false
				continue
			}
			o.Sizes[k] = e.Size
			if e.Name != k {
				o.NameOK = false
			}
		}
		sort.Strings(o.Keys)
		c := &d.Control
		o.Package, o.Source, o.Maintainer, o.MultiArch = c.Package, c.Source, c.Maintainer, c.MultiArch
		o.Section, o.Priority, o.Homepage, o.Description = c.Section, c.Priority, c.Homepage, c.Description
		o.Epoch, o.Upstream, o.Revision = c.Version.Epoch, c.Version.Version, c.Version.Revision
		o.Arch, o.ArchCPU = c.Architecture.String(), c.Architecture.CPU
		o.InstalledSize = c.InstalledSize
		o.Deps = map[string]string{}
		o.DepNames = map[string][]string{}
		add := func(name string, rels int, str string, names []string) {
			if rels == 0 {
				return
			}
			o.Deps[name] = str
			o.DepNames[name] = names
		}
		add("Depends", len(c.Depends.Relations), c.Depends.String(), possNames(c.Depends.Relations))
		add("Recommends", len(c.Recommends.Relations), c.Recommends.String(), possNames(c.Recommends.Relations))
		add("Suggests", len(c.Suggests.Relations), c.Suggests.String(), possNames(c.Suggests.Relations))
		add("Breaks", len(c.Breaks.Relations), c.Breaks.String(), possNames(c.Breaks.Relations))
		add("Replaces", len(c.Replaces.Relations), c.Replaces.String(), possNames(c.Replaces.Relations))
		add("BuiltUsing", len(c.BuiltUsing.Relations), c.BuiltUsing.String(), possNames(c.BuiltUsing.Relations))
		o.Values = map[string]string{}
		for k, v := range c.Paragraph.Values {
			o.Values[k] = v
		}
		o.Order = append([]string(nil), c.Paragraph.Order...)
		// the payload
		if d.Data == nil {
			o.DataErr = "Deb.Data is nil"
		} else {
			for n := 0; ; n++ {
				h, err := d.Data.Next()
				if err == io.EOF {
					break
				}
				if err != nil {
					o.DataErr = err.Error()
					break
				}
				if n > 10000 {
					o.DataErr = "more than 10000 entries"
					break
				}
				f := FileObs{Name: h.Name}
				switch h.Typeflag {
				case '5':
					f.Dir = true
				case '0', 0:
					body, err := io.ReadAll(d.Data)
					if err != nil {
						o.DataErr = err.Error()
					}
					f.Body = body
				default:
					f.Type = string(rune(h.Typeflag))
				}
				o.Files = append(o.Files, f)
				if o.DataErr != "" {
					break
				}
			}
		}
		if after != nil {
			after(d)
		}
	})
	if panicked {
		o.Panic = msg
	}
	if d != nil {
		mc.Guard(func() { d.Close() })
	}
	return o
}
