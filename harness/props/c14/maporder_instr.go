//go:build verif

package c14

import (
	"encoding/json"
	"os"
	"strconv"
	"strings"
	"sync"
	"sync/atomic"

	"pault.ag/go/debian/verifhook"
)

// On the instrumented build the order of every map scan inside package deb is an explorer choice:
// the sorted order is the default (cost 0); any other permutation of one scan costs one deviation.
// ForEachMapOrder enumerates all executions with at most MapOrderBound deviations.

var (
	arSites     = map[int]bool{}
	arSitesOnce sync.Once
)

// the map literal scanned in parseArEntry is a per-header scan with 4 keys; it only gets two alternative orders
func loadArSites() {
	b, err := os.ReadFile(os.Getenv("VERIF_INSTR_REPORT"))
	if err != nil {
		return
	}
	var rep struct {
		MapRangeSites []string `json:"map_range_sites"`
	}
	if json.Unmarshal(b, &rep) != nil {
		return
	}
	for _, s := range rep.MapRangeSites {
		if i := strings.Index(s, "="); i > 0 && strings.Contains(s, "/ar.go:") {
			if n, err := strconv.Atoi(s[:i]); err == nil {
				arSites[n] = true
			}
		}
	}
}

// permsFor returns the non-identity permutations explored for a scan of n keys: all of them while n! <= 120,
// otherwise reverse, all rotations and all transpositions (every pair of keys is seen in both relative orders and
// every key is seen first).
func permsFor(n int, small bool) [][]int {
	id := make([]int, n)
	for i := range id {
		id[i] = i
	}
	var out [][]int
	add := func(p []int) {
		same := true
		for i, v := range p {
			if v != i {
				same = false
			}
		}
		if same {
			return
		}
		for _, q := range out {
			eq := true
			for i := range q {
				if q[i] != p[i] {
					eq = false
					break
				}
			}
			if eq {
				return
			}
		}
		out = append(out, append([]int(nil), p...))
	}
	if n <= 1 {
		return nil
	}
	rev := make([]int, n)
	for i := range rev {
		rev[i] = n - 1 - i
	}
	if small {
		add(rev)
		rot := append(append([]int{}, id[1:]...), id[0])
		add(rot)
		return out
	}
	if n <= 5 {
		var rec func(cur []int, used []bool)
		rec = func(cur []int, used []bool) {
			if len(cur) == n {
				add(cur)
				return
			}
			for i := 0; i < n; i++ {
				if !used[i] {
					used[i] = true
					rec(append(cur, i), used)
					used[i] = false
				}
			}
		}
		rec(nil, make([]bool, n))
		return out
	}
	add(rev)
	for r := 1; r < n; r++ {
		add(append(append([]int{}, id[r:]...), id[:r]...))
	}
	for i := 0; i < n; i++ {
		for j := i + 1; j < n; j++ {
			p := append([]int{}, id...)
			p[i], p[j] = p[j], p[i]
			add(p)
		}
	}
	return out
}

type occ struct{ site, n int }

func init() {
	MapOrderNote = "explicit map-iteration orders on the instrumented build: sorted order by default, every execution with <= 2 scans in another order (all permutations up to 5 keys; reverse + rotations + transpositions beyond; the per-header 4-key scan in the ar reader: reverse and one rotation, single deviations only)"
	ForEachMapOrder = func(run func()) {
		arSitesOnce.Do(loadArSites)
		execs := 0
		runWith := func(plan map[int][]int) []occ {
			var seen []occ
			ctx := &verifhook.Ctx{MapOrder: func(site, n int) []int {
				i := len(seen)
				seen = append(seen, occ{site, n})
				if p, ok := plan[i]; ok && len(p) == n {
					return p
				}
				return nil
			}}
			verifhook.Bind(ctx)
			defer verifhook.Unbind()
			run()
			execs++
			return seen
		}
		base := runWith(nil)
		type dev struct {
			i    int
			perm []int
			ar   bool
		}
		var singles []dev
		for i, o := range base {
			for _, p := range permsFor(o.n, arSites[o.site]) {
				singles = append(singles, dev{i, p, arSites[o.site]})
			}
		}
		capped := false
		for _, d := range singles {
			if execs >= MapOrderCap {
				capped = true
				break
			}
			runWith(map[int][]int{d.i: d.perm})
		}
		if MapOrderBound >= 2 && !capped {
		outer:
			for a := 0; a < len(singles); a++ {
				if singles[a].ar {
					continue
				}
				for b := a + 1; b < len(singles); b++ {
					if singles[b].ar || singles[b].i == singles[a].i {
						continue
					}
					if execs >= MapOrderCap {
						capped = true
						break outer
					}
					runWith(map[int][]int{singles[a].i: singles[a].perm, singles[b].i: singles[b].perm})
				}
			}
		}
		atomic.AddInt64(&MapOrderExecs, int64(execs))
		if capped {
			atomic.AddInt64(&MapOrderCapped, 1)
		}
	}
}
