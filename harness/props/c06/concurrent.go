package c06

// The matching and selection functions called at the same time on independent values: every schedule of small thread
// programs (instrumented build) must give each call its sequential answer.

import (
	"fmt"

	"pault.ag/go/debian/dependency"
	"pault.ag/go/debian/version"

	"verifharness/gen"
	"verifharness/sched"
)

func ConcurrentPrograms() []sched.Program {
	isOp := func(a, b string) sched.Op {
		return sched.Op{Label: fmt.Sprintf("%s.Is(%s)", a, b), F: func() string {
			x, e1 := dependency.ParseArch(a)
			y, e2 := dependency.ParseArch(b)
			if e1 != nil || e2 != nil {
				return "error"
			}
			return fmt.Sprintf("%v %v %v %v %s %s", x.Is(y), y.Is(x), x.IsWildcard(), y.IsWildcard(), x.String(), y.String())
		}}
	}
	selOp := func(field, arch string) sched.Op {
		return sched.Op{Label: fmt.Sprintf("select(%q for %s)", field, arch), F: func() string {
			d, err := dependency.Parse(field)
			a, err2 := dependency.ParseArch(arch)
			if err != nil || err2 != nil {
				return "error"
			}
			out := names(d.GetPossibilities(*a)) + "|" + names(d.GetAllPossibilities()) + "|" + names(d.GetSubstvars())
			for _, r := range d.Relations {
				for _, p := range r.Possibilities {
					if p.Architectures != nil {
						out += fmt.Sprintf("|%v", p.Architectures.Matches(a))
					}
				}
			}
			return out + "|" + d.String() + "|" + gen.CanonDep(d)
		}}
	}
	satOp := func(op, n, v string) sched.Op {
		return sched.Op{Label: fmt.Sprintf("(%s %s).SatisfiedBy(%s)", op, n, v), F: func() string {
			ver, err := version.Parse(v)
			if err != nil {
				return "error"
			}
			return fmt.Sprint(dependency.VersionRelation{Operator: op, Number: n}.SatisfiedBy(ver))
		}}
	}
	ops := []sched.Op{
		isOp("amd64", "linux-any"), isOp("musl-linux-arm64", "any-arm64"), isOp("all", "any"),
		selOp("gcc [amd64] | clang, libc6-dev [!hurd-any] <!nocheck>, ${misc:Depends}", "amd64"),
		selOp("foo:any (>= 1.0) [linux-any kfreebsd-amd64] | bar [i386], baz", "i386"),
		selOp("a", "armhf"),
		satOp(">=", "1:2.0~rc1", "1:2.0"), satOp("<<", "2.4-0", "2.4"),
	}
	var progs []sched.Program
	for i, a := range ops {
		for j, b := range ops {
			progs = append(progs, sched.Program{Name: fmt.Sprintf("op%d-with-op%d", i, j), Threads: [][]sched.Op{{a}, {b}}})
		}
	}
	progs = append(progs, sched.Program{Name: "three-threads", Threads: [][]sched.Op{{ops[0], ops[6]}, {ops[3]}, {ops[4]}}})
	return progs
}
