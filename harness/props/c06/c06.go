// Package c06: architecture and version restrictions evaluate per Debian semantics.
package c06

import (
	"encoding/json"
	"fmt"
	"reflect"
	"strings"

	"pault.ag/go/debian/dependency"
	"pault.ag/go/debian/version"

	"verifharness/gen"
	"verifharness/mc"
	"verifharness/props/reg"
	"verifharness/sched"
)

func init() { reg.Register(&reg.Prop{ID: "C06", Run: Run, Replay: Replay}) }

// ---------- Arch.Is ----------

type IsIn struct{ A, B string } // architecture names

func archFeatures(names ...string) []string {
	var f []string
	for _, n := range names {
		p := strings.Split(n, "-")
		if len(p) == 2 && p[0] != "any" && p[1] != "any" {
			f = append(f, "two-part-concrete-name")
			break
		}
	}
	return f
}

func checkIs(scen string, in IsIn) []*mc.Violation {
	var out []*mc.Violation
	a, ea := dependency.ParseArch(in.A)
	b, eb := dependency.ParseArch(in.B)
	if ea != nil || eb != nil {
		return []*mc.Violation{mc.V(scen, "arch-name-parses", in, "both names parse", fmt.Sprint(ea, eb))}
	}
	var ab, ba bool
	if p, msg := mc.Guard(func() { ab, ba = a.Is(b), b.Is(a) }); p {
		return []*mc.Violation{mc.V(scen, "is-returns", in, "no panic", msg)}
	}
	if ab != ba {
		out = append(out, mc.V(scen, "is-symmetric", in, "a.Is(b) == b.Is(a)", fmt.Sprintf("%v vs %v", ab, ba), archFeatures(in.A, in.B)...))
	}
	// asking does not change the operands, and an architecture compared with itself - the very same object on both sides -
	// answers like two equal objects do
	if a2, _ := dependency.ParseArch(in.A); *a2 != *a {
		out = append(out, mc.V(scen, "is-symmetric", in, fmt.Sprintf("operand unchanged by Is: %+v", *a2), fmt.Sprintf("%+v", *a), archFeatures(in.A, in.B)...))
	}
	if in.A == in.B {
		var self bool
		if p, msg := mc.Guard(func() { self = a.Is(a) }); p {
			return []*mc.Violation{mc.V(scen, "is-returns", in, "no panic", msg)}
		}
		if self != ab {
			out = append(out, mc.V(scen, "is-symmetric", in, fmt.Sprintf("a.Is(a) on one object = %v, as for two equal objects", ab), fmt.Sprint(self), archFeatures(in.A, in.B)...))
		}
	}
	ra, rb := gen.DenoteArch(in.A), gen.DenoteArch(in.B)
	// the library's own wildcard predicate agrees with the denotation: a wildcard has an 'any' component, 'all' is none
	if w := a.IsWildcard(); w != !ra.Concrete() {
		out = append(out, mc.V(scen, "wildcard-iff-some-component-is-any", in, fmt.Sprintf("%q.IsWildcard() = %v", in.A, !ra.Concrete()), fmt.Sprint(w), archFeatures(in.A)...))
	}
	if ra.Concrete() {
		want := gen.RefMatch(ra, rb) && (rb.Concrete() || true)
		if rb.Concrete() {
			want = ra == rb
		}
		if ab != want {
			out = append(out, mc.V(scen, "concrete-matches-pattern", in, fmt.Sprintf("%q.Is(%q) = %v", in.A, in.B, want), fmt.Sprint(ab), archFeatures(in.A, in.B)...))
		}
	}
	return out
}

// ---------- ArchSet.Matches ----------

type SetIn struct {
	Patterns []string
	Not      bool
	Arch     string
	Via      string // "parse" | "struct"
}

func checkSet(scen string, in SetIn) *mc.Violation {
	conc, err := dependency.ParseArch(in.Arch)
	if err != nil {
		return mc.V(scen, "arch-name-parses", in, "parses", err.Error())
	}
	var set *dependency.ArchSet
	if in.Via == "parse" {
		txt := "p"
		if len(in.Patterns) > 0 {
			var el []string
			for _, p := range in.Patterns {
				if in.Not {
					p = "!" + p
				}
				el = append(el, p)
			}
			txt += " [" + strings.Join(el, " ") + "]"
		}
		d, err := dependency.Parse(txt)
		if err != nil || len(d.Relations) != 1 || len(d.Relations[0].Possibilities) != 1 {
			return mc.V(scen, "list-parses", in, "one possibility", fmt.Sprint(err))
		}
		set = d.Relations[0].Possibilities[0].Architectures
	} else {
		set = &dependency.ArchSet{Not: in.Not}
		for _, p := range in.Patterns {
			a, err := dependency.ParseArch(p)
			if err != nil {
				return mc.V(scen, "arch-name-parses", in, "parses", err.Error())
			}
			set.Architectures = append(set.Architectures, *a)
		}
	}
	want := true
	if len(in.Patterns) > 0 {
		some := false
		rc := gen.DenoteArch(in.Arch)
		for _, p := range in.Patterns {
			if gen.RefMatch(rc, gen.DenoteArch(p)) {
				some = true
			}
		}
		want = some != in.Not
	}
	var got bool
	if p, msg := mc.Guard(func() { got = set.Matches(conc) }); p {
		return mc.V(scen, "matches-returns", in, "no panic", msg)
	}
	if got != want {
		return mc.V(scen, "list-admits", in, fmt.Sprint(want), fmt.Sprint(got), archFeatures(append([]string{in.Arch}, in.Patterns...)...)...)
	}
	return nil
}

// ---------- GetPossibilities / GetAllPossibilities / GetSubstvars ----------

// alternative shapes: 0 substvar, 1 unrestricted, 2 [x], 3 [!x], 4 [y], 5 [x y], 6-9 with architecture qualifiers
type PossIn struct {
	Rels  [][]int // per relation, the alternative shapes
	Arch  string  // x, y or z concrete names
	Names int     `json:",omitempty"` // 0: every alternative has its own name; 1: all share one name; 2: the k-th alternative of every relation is named p<k>
}

func (in PossIn) nameIdx(n, k int) int {
	switch in.Names {
	case 1:
		return 0
	case 2:
		return k
	}
	return n
}

var shapeText = []string{"${v%d}", "p%d", "p%d [amd64]", "p%d [!amd64]", "p%d [i386]", "p%d [amd64 i386]",
	// an architecture QUALIFIER says which architecture's package satisfies the dependency; it does not restrict where the
	// dependency applies, so it must not influence the selection
	"p%d:i386", "p%d:any [amd64]", "p%d:amd64 [!amd64]", "p%d:native (>= 1) [i386] <!x>"}

func shapeAdmits(shape int, arch string) bool {
	switch shape {
	case 1:
		return true
	case 2:
		return arch == "amd64"
	case 3:
		return arch != "amd64"
	case 4:
		return arch == "i386"
	case 5:
		return arch == "amd64" || arch == "i386"
	case 6:
		return true
	case 7:
		return arch == "amd64"
	case 8:
		return arch != "amd64"
	case 9:
		return arch == "i386"
	}
	return false
}

func (in PossIn) text() string {
	var rels []string
	n := 0
	for _, r := range in.Rels {
		var alts []string
		for k, s := range r {
			alts = append(alts, fmt.Sprintf(shapeText[s], in.nameIdx(n, k)))
			n++
		}
		rels = append(rels, strings.Join(alts, " | "))
	}
	return strings.Join(rels, ", ")
}

func names(ps []dependency.Possibility) string {
	var n []string
	for _, p := range ps {
		n = append(n, p.Name)
	}
	return strings.Join(n, " ")
}

func checkPoss(scen string, in PossIn) []*mc.Violation {
	d, err := dependency.Parse(in.text())
	if err != nil {
		return []*mc.Violation{mc.V(scen, "dependency-parses", in, "parses", err.Error())}
	}
	arch, _ := dependency.ParseArch(in.Arch)
	var wantSel, wantAll, wantSub []string
	var wantSelP, wantAllP, wantSubP []dependency.Possibility // the same, as the parsed alternatives themselves
	n := 0
	structured := len(d.Relations) == len(in.Rels)
	for ri, r := range in.Rels {
		picked := false
		structured = structured && len(d.Relations[ri].Possibilities) == len(r)
		for k, s := range r {
			var alt dependency.Possibility
			if structured {
				alt = d.Relations[ri].Possibilities[k]
			}
			if s == 0 {
				wantSub = append(wantSub, fmt.Sprintf("v%d", in.nameIdx(n, k)))
				wantSubP = append(wantSubP, alt)
			} else {
				nm := fmt.Sprintf("p%d", in.nameIdx(n, k))
				wantAll = append(wantAll, nm)
				wantAllP = append(wantAllP, alt)
				if !picked && shapeAdmits(s, in.Arch) {
					wantSel = append(wantSel, nm)
					wantSelP = append(wantSelP, alt)
					picked = true
				}
			}
			n++
		}
	}
	same := func(got, want []dependency.Possibility) bool {
		if !structured {
			return true // C04's business; the name comparison still applies
		}
		if len(got) != len(want) {
			return false
		}
		for i := range got {
			if !reflect.DeepEqual(got[i], want[i]) {
				return false
			}
		}
		return true
	}
	var out []*mc.Violation
	if p, msg := mc.Guard(func() {
		if ps := d.GetPossibilities(*arch); names(ps) != strings.Join(wantSel, " ") || !same(ps, wantSelP) {
			out = append(out, mc.V(scen, "first-admitted-alternative", in, strings.Join(wantSel, " "), fmt.Sprintf("%s (%v)", names(ps), ps)))
		}
		if ps := d.GetAllPossibilities(); names(ps) != strings.Join(wantAll, " ") || !same(ps, wantAllP) {
			out = append(out, mc.V(scen, "all-non-substvars", in, strings.Join(wantAll, " "), fmt.Sprintf("%s (%v)", names(ps), ps)))
		}
		if ps := d.GetSubstvars(); names(ps) != strings.Join(wantSub, " ") || !same(ps, wantSubP) {
			out = append(out, mc.V(scen, "substvars", in, strings.Join(wantSub, " "), fmt.Sprintf("%s (%v)", names(ps), ps)))
		}
	}); p {
		out = append(out, mc.V(scen, "selection-returns", in, "no panic", msg))
	}
	if len(out) > 0 {
		return out
	}
	// a field a caller built by hand: a substvar alternative is skipped because it IS a substvar, whatever else the struct
	// carries (an empty or a matching architecture list, a qualifier, a version) - the selection must not change
	hand, herr := dependency.Parse(in.text())
	if herr == nil {
		touched := false
		for ri := range hand.Relations {
			for pi := range hand.Relations[ri].Possibilities {
				p := &hand.Relations[ri].Possibilities[pi]
				if p.Substvar {
					touched = true
					switch (ri + pi) % 3 {
					case 0:
						p.Architectures = &dependency.ArchSet{Architectures: []dependency.Arch{}}
					case 1:
						p.Architectures = &dependency.ArchSet{Architectures: []dependency.Arch{*arch}}
					default:
						p.Architectures = &dependency.ArchSet{Not: true, Architectures: []dependency.Arch{{ABI: "x", OS: "y", CPU: "z"}}}
					}
					p.Version = &dependency.VersionRelation{Operator: ">=", Number: "1"}
				}
			}
		}
		if touched {
			if p, msg := mc.Guard(func() {
				if ps := hand.GetPossibilities(*arch); names(ps) != strings.Join(wantSel, " ") {
					out = append(out, mc.V(scen, "first-admitted-alternative", in, strings.Join(wantSel, " "), fmt.Sprintf("with substvar alternatives carrying architecture lists (hand-built field): %s", names(ps))))
				}
				if ps := hand.GetSubstvars(); names(ps) != strings.Join(wantSub, " ") {
					out = append(out, mc.V(scen, "substvars", in, strings.Join(wantSub, " "), fmt.Sprintf("hand-built field: %s", names(ps))))
				}
				if ps := hand.GetAllPossibilities(); names(ps) != strings.Join(wantAll, " ") {
					out = append(out, mc.V(scen, "all-non-substvars", in, strings.Join(wantAll, " "), fmt.Sprintf("hand-built field: %s", names(ps))))
				}
			}); p {
				return append(out, mc.V(scen, "selection-returns", in, "no panic", msg))
			}
			if len(out) > 0 {
				return out
			}
		}
	}
	// asking is not changing: the same parsed field is then asked for the other architectures and for this one again;
	// the answer for this architecture, and the field itself, must be what they were
	before := gen.CanonDep(d)
	first := d.GetPossibilities(*arch)
	firstAll, firstSub := d.GetAllPossibilities(), d.GetSubstvars()
	if p, msg := mc.Guard(func() {
		for _, other := range []string{"amd64", "i386", "armhf", "all"} {
			if oa, err := dependency.ParseArch(other); err == nil && other != in.Arch {
				d.GetPossibilities(*oa)
				d.GetAllPossibilities()
				d.GetSubstvars()
			}
		}
	}); p {
		return append(out, mc.V(scen, "selection-returns", in, "no panic", msg))
	}
	// answers a caller kept are the caller's: later questions do not rewrite them
	if names(first) != strings.Join(wantSel, " ") || !same(first, wantSelP) {
		out = append(out, mc.V(scen, "first-admitted-alternative", in, strings.Join(wantSel, " "), fmt.Sprintf("the answer obtained first reads, after the field was asked for other architectures: %s (%v)", names(first), first)))
	}
	if names(firstAll) != strings.Join(wantAll, " ") || !same(firstAll, wantAllP) {
		out = append(out, mc.V(scen, "all-non-substvars", in, strings.Join(wantAll, " "), fmt.Sprintf("the answer obtained first reads, after later questions: %s (%v)", names(firstAll), firstAll)))
	}
	if names(firstSub) != strings.Join(wantSub, " ") || !same(firstSub, wantSubP) {
		out = append(out, mc.V(scen, "substvars", in, strings.Join(wantSub, " "), fmt.Sprintf("the answer obtained first reads, after later questions: %s (%v)", names(firstSub), firstSub)))
	}
	if again := d.GetPossibilities(*arch); names(again) != names(first) || !same(again, wantSelP) {
		out = append(out, mc.V(scen, "first-admitted-alternative", in, strings.Join(wantSel, " "), fmt.Sprintf("after the same field was asked for other architectures: %s (%v)", names(again), again)))
	}
	if after := gen.CanonDep(d); after != before {
		out = append(out, mc.V(scen, "first-admitted-alternative", in, "the parsed field is unchanged by selections: "+before, after))
	}
	if len(out) > 0 {
		return out
	}
	// the field is the caller's: after an edit of the exported structure the selection answers for the edited field -
	// a relation appended, then every earlier relation removed
	if p, msg := mc.Guard(func() {
		d.Relations = append(d.Relations, dependency.Relation{Possibilities: []dependency.Possibility{{Name: "appended-later", Architectures: &dependency.ArchSet{Architectures: []dependency.Arch{}}, StageSets: []dependency.StageSet{}}}})
		want2 := strings.TrimSpace(strings.Join(wantSel, " ") + " appended-later")
		if ps := d.GetPossibilities(*arch); names(ps) != want2 {
			out = append(out, mc.V(scen, "first-admitted-alternative", in, want2, "after a relation was appended to the parsed field: "+names(ps)))
		}
		d.Relations = d.Relations[len(d.Relations)-1:]
		if ps := d.GetPossibilities(*arch); names(ps) != "appended-later" {
			out = append(out, mc.V(scen, "first-admitted-alternative", in, "appended-later", "after the earlier relations were removed: "+names(ps)))
		}
		if ps := d.GetAllPossibilities(); names(ps) != "appended-later" {
			out = append(out, mc.V(scen, "all-non-substvars", in, "appended-later", "after the earlier relations were removed: "+names(ps)))
		}
	}); p {
		out = append(out, mc.V(scen, "selection-returns", in, "no panic", msg))
	}
	return out
}

// ---------- SatisfiedBy ----------

type SatIn struct{ Op, N, V string }

var rv = func(s string) (gen.RefVersion, bool) {
	// reference split of a syntactically valid version (only used on the harness's own valid strings)
	var r gen.RefVersion
	if i := strings.Index(s, ":"); i >= 0 {
		for _, c := range s[:i] {
			r.Epoch = r.Epoch*10 + uint64(c-'0')
		}
		s = s[i+1:]
	}
	if i := strings.LastIndex(s, "-"); i >= 0 {
		r.Revision = s[i+1:]
		s = s[:i]
	}
	r.Upstream = s
	return r, true
}

func checkSat(scen string, in SatIn, nValid bool) *mc.Violation {
	var v version.Version
	switch {
	case in.V == zeroV:
	case strings.HasPrefix(in.V, structV):
		// a Version built by hand that no version string denotes: upstream|revision after the prefix
		parts := strings.SplitN(strings.TrimPrefix(in.V, structV), "|", 2)
		v = version.Version{Version: parts[0]}
		if len(parts) > 1 {
			v.Revision = parts[1]
		}
	default:
		var err error
		if v, err = version.Parse(in.V); err != nil {
			return mc.V(scen, "harness-version-parses", in, "V parses", err.Error())
		}
	}
	want := false
	if nValid {
		a, _ := rv(in.V)
		if in.V == zeroV {
			a = gen.RefVersion{} // the zero Version: epoch 0, empty upstream, no revision - ordered like any other value
		}
		b, _ := rv(in.N)
		c := gen.RefCompare(a, b)
		switch in.Op {
		case "<<":
			want = c < 0
		case "<=":
			want = c <= 0
		case "=":
			want = c == 0
		case ">=":
			want = c >= 0
		case ">>":
			want = c > 0
		}
	}
	var got bool
	if p, msg := mc.Guard(func() { got = dependency.VersionRelation{Operator: in.Op, Number: in.N}.SatisfiedBy(v) }); p {
		return mc.V(scen, "satisfied-returns", in, "no panic", msg)
	}
	if got != want {
		return mc.V(scen, "constraint-semantics", in, fmt.Sprint(want), fmt.Sprint(got))
	}
	return nil
}

var validVersions = append(gen.AuditIntStrings(0, 1<<62, 6), "0", "1", "1.0", "1.00", "1.0-0", "1.0-1", "0:1.0", "1:0", "1:1.0-1", "1.0~rc1", "1.0+b1", "1.0a", "1.0.", "1.0-1~", "1.0-1+b1",
	"9", "10", "09", "1.9", "1.10", "2", "2.0-1", "1.0~", "1.0~~", "1a", "1+", "1.", "1-0", "1-1", "2:0", "1.0-a", "1.0-1.1", "1.2.3", "1.2.10",
	"99999999999999999999", "100000000000000000000", "0.0", "0~", "1:1", "1.0-00")

// zeroV stands for the zero version.Version{} as V (a value every caller can build; Compare orders it below every parsed one)
const zeroV = "<zero Version>"

// structV prefixes a V given as struct members (upstream|revision) rather than as a version string
const structV = "<struct>"

// (the second line: numbers the version parser rejects only in its late checks, after it has filled in some parts)
var invalidNumbers = append([]string{"", "a", "1 2", "1:", ":1", "-", "1_0", "a:1", "${binary:Version}", "${source:Version}~", "1.0${x}", "$1.0", "1.0 beta", "=1",
	"1.0_1", "1.0-1_2", "~1", "-1", "1:-1", "1:~", "2:1.0_", "٣", "1.0\x00"}, auditNumbers()...)

// auditNumbers: unparsable version texts built around the literals a change introduced into the code
func auditNumbers() []string {
	var out []string
	for _, t := range gen.AuditStrings(func(s string) bool { return !gen.Versionish(s) && gen.OneLine(s) }, 4) {
		out = append(out, t, t+"1.0", "1.0"+t, t+"x}")
	}
	return out
}

func Run(r *mc.Run) {
	r.Rule = "full products: architecture pairs over the data-independent 65-value domain and real names; all lists of length <=3 over 6 patterns x negation x 5 architectures x 2 constructions; all dependencies with <=2 relations x <=3 alternatives over 6 shapes x 3 architectures; op x N x V; non-trivial = operands differ (Is), list non-empty (Matches), some alternative restricted (selection), any (SatisfiedBy); distinct by construction"
	r.Assume = []string{"denotation of names per dpkg-architecture (gen.DenoteArch): cpu = gnu-linux-cpu, os-cpu = gnu-os-cpu unless a part is 'any'", "wildcard-vs-wildcard results are only required to be symmetric"}

	// 1a: generic 65-value domain
	comp := []string{"any", "x", "y", "z"}
	dom := []string{"all"}
	for _, a := range comp {
		for _, o := range comp {
			for _, c := range comp {
				dom = append(dom, a+"-"+o+"-"+c)
			}
		}
	}
	isScen := func(name string, d []string) {
		r.Scenario(name, map[string]interface{}{"names": len(d)}, len(d), func(i int, st *mc.Stats) bool {
			for _, b := range d {
				in := IsIn{d[i], b}
				st.Evals++
				st.Traces++
				if d[i] != b {
					st.Nontrivial++
				}
				vs := checkIs(name, in)
				for _, v := range vs {
					st.Violate(v)
				}
				a, _ := dependency.ParseArch(in.A)
				bb, _ := dependency.ParseArch(in.B)
				if a != nil && bb != nil {
					st.Class(fmt.Sprintf("is=%v", a.Is(bb)))
				}
				if st.WantSample() && i%13 == 5 && b == d[(i*7)%len(d)] {
					st.Sample(in)
				}
			}
			return true
		})
	}
	isScen("is-generic-65x65", dom)
	real := []string{"amd64", "i386", "any", "all", "linux-any", "any-amd64", "any-i386", "linux-amd64", "hurd-i386", "hurd-any", "kfreebsd-amd64", "kfreebsd-any",
		"gnu-linux-amd64", "musl-linux-amd64", "gnu-kfreebsd-amd64", "gnu-hurd-i386", "any-any-any", "any-linux-any", "musl-any-any", "musl-linux-any", "gnu-any-amd64", "armhf", "gnueabihf-linux-arm"}
	for _, t := range gen.AuditStrings(func(s string) bool { return gen.Nameish(s) && !strings.Contains(s, "-") }, 3) {
		real = append(real, t, t+"-any", "any-"+t, t+"-amd64", "linux-"+t, "gnu-"+t+"-amd64", "gnu-linux-"+t) // alphabet audit
	}
	real = append(real, gen.AuditStrings(gen.Nameish, 4)...)
	isScen("is-real-names", real)

	// 2: lists
	pats := []string{"amd64", "i386", "linux-any", "any-amd64", "kfreebsd-any", "any"}
	concs := []string{"amd64", "i386", "kfreebsd-amd64", "hurd-i386", "musl-linux-amd64", "all"} // 'all' is admitted by a list only through an 'all' entry
	for _, t := range gen.AuditStrings(func(s string) bool { return gen.Nameish(s) && !strings.Contains(s, "-") }, 2) {
		pats = append(pats, t+"-any", "any-"+t)
		concs = append(concs, t, t+"-amd64", "linux-"+t)
	}
	var lists [][]string
	lists = append(lists, nil)
	if !r.Quick() {
		pats = append(pats, "hurd-any", "any-arm64", "musl-linux-any", "all")
		concs = append(concs, "arm64", "hurd-amd64", "all", "gnu-linux-i386")
	}
	for _, a := range pats {
		lists = append(lists, []string{a})
		for _, b := range pats {
			lists = append(lists, []string{a, b})
			for _, c := range pats {
				lists = append(lists, []string{a, b, c})
				if !r.Quick() {
					for _, d := range pats[:6] {
						lists = append(lists, []string{a, b, c, d})
					}
				}
			}
		}
	}
	r.Scenario("archset-matches", map[string]interface{}{"patterns": pats, "max_list_len": r.Pick(3, 4), "architectures": concs, "constructions": "Parse / struct"}, len(lists), func(i int, st *mc.Stats) bool {
		for _, not := range []bool{false, true} {
			for _, c := range concs {
				for _, via := range []string{"parse", "struct"} {
					in := SetIn{lists[i], not, c, via}
					st.Evals++
					st.Traces++
					if len(lists[i]) > 0 {
						st.Nontrivial++
					}
					if v := checkSet("archset-matches", in); v != nil {
						st.Violate(v)
						st.Class("wrong")
					} else {
						st.Class("agrees")
					}
					if st.WantSample() && i%37 == 3 && not && via == "parse" && c == "i386" {
						st.Sample(in)
					}
				}
			}
		}
		return true
	})

	// 3: selection
	var rels [][]int
	ns := len(shapeText)
	for a := 0; a < ns; a++ {
		rels = append(rels, []int{a})
		for b := 0; b < ns; b++ {
			rels = append(rels, []int{a, b})
			for c := 0; c < ns; c++ {
				rels = append(rels, []int{a, b, c})
			}
		}
	}
	archs := []string{"amd64", "i386", "armhf"}
	r.Scenario("possibility-selection", map[string]interface{}{"alternative_shapes": shapeText, "max_alternatives": 3, "max_relations": 2, "max_alternatives_in_two_relations": r.Pick(5, 6), "architectures": archs}, len(rels), func(i int, st *mc.Stats) bool {
		try := func(in PossIn) {
			st.Evals++
			st.Traces++
			st.Nontrivial++
			vs := checkPoss("possibility-selection", in)
			for _, v := range vs {
				st.Violate(v)
			}
			if len(vs) == 0 {
				st.Class("agrees")
			} else {
				st.Class("wrong")
			}
		}
		for _, a := range archs {
			for nm := 0; nm < 3; nm++ { // naming: all distinct / all equal / equal across relations
				try(PossIn{[][]int{rels[i]}, a, nm})
				for j := range rels {
					if nm != 0 && len(rels[i])+len(rels[j]) > 4 {
						continue // shared names: up to four alternatives in all (2+2, 3+1, 1+3)
					}
					if r.Quick() && len(rels[i])+len(rels[j]) > 5 {
						continue // quick: two relations with up to five alternatives in all; thorough: 3+3 as well
					}
					try(PossIn{[][]int{rels[i], rels[j]}, a, nm})
				}
			}
		}
		if len(rels[i]) <= 2 { // three relations, names repeating
			for _, a := range archs {
				for j := range rels {
					if len(rels[j]) > 2 {
						continue
					}
					for k := range rels {
						if len(rels[k]) <= 1 {
							try(PossIn{[][]int{rels[i], rels[j], rels[k]}, a, 1})
							try(PossIn{[][]int{rels[i], rels[j], rels[k]}, a, 2})
						}
					}
				}
			}
		}
		if st.WantSample() && i%41 == 7 {
			st.Sample(PossIn{[][]int{rels[i], rels[(i*3)%len(rels)]}, "i386", i % 3}.text())
		}
		return true
	})

	// 3b: selection on fields larger than the product reaches (many relations, many alternatives in one relation)
	var largeSel []PossIn
	for _, n := range []int{8, 9, 16, 17, 32, 33, 64, 65, 100} {
		for _, a := range archs {
			for nm := 0; nm < 3; nm++ {
				var many [][]int // n relations, shapes cycling, 1..3 alternatives each
				for i := 0; i < n; i++ {
					rel := []int{(i*7 + 3) % ns}
					if i%3 != 0 {
						rel = append(rel, (i*5+1)%ns)
					}
					if i%4 == 1 {
						rel = append(rel, (i+2)%ns)
					}
					many = append(many, rel)
				}
				largeSel = append(largeSel, PossIn{many, a, nm})
				// one relation of n alternatives of which only the last one / only the middle one is admitted everywhere
				last := make([]int, n)
				mid := make([]int, n)
				for i := range last {
					last[i], mid[i] = 0, 0 // substvars are never selected
					if i%2 == 1 {
						last[i], mid[i] = 8, 8 // ":amd64 [!amd64]": not admitted for amd64, admitted elsewhere
					}
				}
				last[n-1] = 1
				mid[n/2] = 6
				largeSel = append(largeSel, PossIn{[][]int{{1}, last, {2}}, a, nm}, PossIn{[][]int{mid}, a, nm})
			}
		}
	}
	r.Scenario("possibility-selection-large", map[string]interface{}{"fields": len(largeSel), "sizes": "8..100 relations; one relation of 8..100 alternatives"}, len(largeSel), func(i int, st *mc.Stats) bool {
		st.Evals++
		st.Traces++
		st.Nontrivial++
		vs := checkPoss("possibility-selection-large", largeSel[i])
		for _, v := range vs {
			st.Violate(v)
		}
		if len(vs) == 0 {
			st.Class("agrees")
		} else {
			st.Class("wrong")
		}
		return true
	})

	// the same functions called at the same time: every schedule of small thread programs (instrumented build)
	sched.Explore(r, "concurrent-calls", ConcurrentPrograms())

	// 4: SatisfiedBy
	ops := []string{"<<", "<=", "=", ">=", ">>", "", "<", ">", "==", "!=", "=>", "=<"}
	// strings that are one of the five operators only after somebody tidies them (padding, a stray line end, a NUL,
	// the opening parenthesis of the clause they were cut from), doubled or spelled as words: all unknown
	for _, op := range []string{"<<", "<=", "=", ">=", ">>"} {
		ops = append(ops, " "+op, op+" ", "\t"+op, op+"\n", op+"\r", op+"\x00", "("+op, op+op)
	}
	ops = append(ops, "lt", "le", "eq", "ge", "gt", "\u2265", "\u2264", "> =", "< <")
	ops = gen.Dedup(ops)
	asV := append(append([]string{}, validVersions...), zeroV)
	// hand-built values no version string denotes, each also asked with N spelled exactly like its own rendering (which
	// is then an unparsable number: never satisfied)
	handV := []string{structV + "UNRELEASED", structV + "1.0_rc1", structV + "1.0|1_2", structV + "a", structV + "~1", structV + "1 2"}
	for _, hv := range handV {
		parts := strings.SplitN(strings.TrimPrefix(hv, structV), "|", 2)
		n := parts[0]
		if len(parts) > 1 {
			n += "-" + parts[1]
		}
		invalidNumbers = append(invalidNumbers, n)
	}
	invalidNumbers = gen.Dedup(invalidNumbers)
	asV = append(asV, handV...)
	// histories of three questions on one goroutine: a parsable number, an unparsable one, the first again (and the other
	// way round) - whatever the library remembers of the earlier numbers, every answer is the one the constraint has alone
	r.Scenario("version-constraint-histories", map[string]interface{}{"shape": "N, N', N and N', N, N' for every parsable N x unparsable N' x operator in << = >=, V in 1.0 2.0; one worker", "parsable": len(validVersions), "unparsable": len(invalidNumbers)}, 1, func(_ int, st *mc.Stats) bool {
		for _, n := range validVersions {
			for _, bad := range invalidNumbers {
				for _, op := range []string{"<<", "=", ">="} {
					for _, v := range []string{"1.0", "2.0"} {
						for _, seq := range [][]string{{n, bad, n}, {bad, n, bad}} {
							st.Evals++
							st.Traces++
							st.Nontrivial++
							for step, num := range seq {
								valid := num == n
								if x := checkSat("version-constraint-histories", SatIn{op, num, v}, valid); x != nil {
									x.Observed = fmt.Sprintf("%s (question %d of the history %q)", x.Observed, step+1, seq)
									st.Violate(x)
									st.Class("wrong")
								}
							}
						}
					}
				}
			}
		}
		st.Class("agrees")
		return true
	})
	r.Scenario("version-constraint", map[string]interface{}{"operators": ops, "valid_versions": len(validVersions), "V_also": "the zero version.Version{}", "unparsable_numbers": invalidNumbers}, len(asV), func(i int, st *mc.Stats) bool {
		v := asV[i]
		for _, op := range ops {
			for _, n := range validVersions {
				if strings.HasPrefix(v, structV) {
					break // hand-built values are only asked about unparsable numbers (the order of such values is not the statement's business)
				}
				st.Evals++
				st.Traces++
				st.Nontrivial++
				in := SatIn{op, n, v}
				if x := checkSat("version-constraint", in, true); x != nil {
					st.Violate(x)
					st.Class("wrong")
				} else {
					st.Class("agrees")
				}
				if st.WantSample() && op == ">=" && n == v {
					st.Sample(in)
				}
			}
			for _, n := range invalidNumbers {
				st.Evals++
				st.Traces++
				if x := checkSat("version-constraint", SatIn{op, n, v}, false); x != nil {
					st.Violate(x)
				}
				st.Class("unparsable-number")
			}
		}
		return true
	})
}

func Replay(scenario string, raw json.RawMessage) []*mc.Violation {
	if scenario == "concurrent-calls" {
		return sched.Replay(scenario, ConcurrentPrograms(), raw)
	}
	switch scenario {
	case "archset-matches":
		var in SetIn
		if mc.UnmarshalInput(raw, &in) == nil {
			if v := checkSet(scenario, in); v != nil {
				return []*mc.Violation{v}
			}
		}
	case "possibility-selection", "possibility-selection-large":
		var in PossIn
		if mc.UnmarshalInput(raw, &in) == nil {
			return checkPoss(scenario, in)
		}
	case "version-constraint":
		var in SatIn
		if mc.UnmarshalInput(raw, &in) == nil {
			valid := true
			for _, n := range invalidNumbers {
				if n == in.N {
					valid = false
				}
			}
			if v := checkSat(scenario, in, valid); v != nil {
				return []*mc.Violation{v}
			}
		}
	default:
		var in IsIn
		if mc.UnmarshalInput(raw, &in) == nil {
			return checkIs(scenario, in)
		}
	}
	return nil
}
