//go:build !verif

// Package c20 needs the instrumented build (file-system operation points inside the library); on a plain build
// it reports a harness error instead of pretending to have checked anything.
package c20

import (
	"encoding/json"

	"verifharness/mc"
	"verifharness/props/reg"
)

func init() {
	reg.Register(&reg.Prop{ID: "C20", Run: func(r *mc.Run) {
		r.HarnessError("C20 needs the instrumented build (go build -tags verif -overlay …); the instrumenter failed on this tree")
	}, Replay: func(string, json.RawMessage) []*mc.Violation { return nil }})
}
