//go:build verif

// Package c20: upload Copy/Move/Remove act on the control file last and stay in-directory.
// Runs only on the instrumented build: every file-system operation the library issues is an operation point
// at which the explorer injects a fault or abandons the execution (crash).
package c20

import (
	"encoding/json"
	"errors"
	"fmt"
	"os"
	"path/filepath"
	"sort"
	"strings"
	"syscall"

	"pault.ag/go/debian/control"
	"pault.ag/go/debian/verifhook"

	"verifharness/gen"
	"verifharness/mc"
	"verifharness/props/reg"
)

func init() { reg.Register(&reg.Prop{ID: "C20", Run: Run, Replay: Replay}) }

// In is one execution: the upload, the operation, the destination shape and the injected event.
type In struct {
	Kind    string   // dsc | changes
	Op      string   // copy | move | remove
	Names   []string // listed names of the referenced files (as written in the control file)
	Dest    string   // emptydir | samename | samename-longer | samename-samesize | regularfile | missing | child | parent | dir-named-like-file | dir-named-like-control | own | own-slash | own-dot | own-roundabout
	Gone    int      // index+1 of a referenced file that does not exist at the source (0 = all present)
	Sums    []string `json:",omitempty"` // names listed ONLY in Checksums-Sha256 / Checksums-Sha1 (not in Files)
	NoFiles bool     `json:",omitempty"` // the control file has no Files field at all
	Skew    int      `json:",omitempty"` // index+1 of a referenced file whose listed size is 1000 bytes too small (negative: too large)
	Link    int      `json:",omitempty"` // index+1 of a referenced file that is a symbolic link (to a regular file next to it) at the source
	Then    string   `json:",omitempty"` // a second operation on the same handle after the first succeeded: remove | move | copy
	Event   string   // none | fault | shortwrite | crash
	At      int      // operation index of the event
}

const ctlBase = "hello_1.0-1"

// dstRel: where the destination lies relative to the scratch root - normally a sibling of the upload's directory; "child" is
// a directory INSIDE the upload's directory, "parent" the directory that contains it
func (in In) dstRel() string {
	switch in.Dest {
	case "child":
		return filepath.Join("incoming", "src", "queue")
	case "parent":
		return "incoming"
	case "own", "own-slash", "own-dot", "own-roundabout":
		return filepath.Join("incoming", "src") // the upload's own directory, spelled in different ways (see dstArg)
	}
	return filepath.Join("incoming", "dst")
}

func (in In) own() bool { return strings.HasPrefix(in.Dest, "own") }

// dstArg is the destination as handed to the library: for the upload's own directory also with a trailing slash, a
// trailing "/." and by way of a sibling ("../src").
func (in In) dstArg(root string) string {
	d := filepath.Join(root, in.dstRel())
	switch in.Dest {
	case "own-slash":
		return d + "/"
	case "own-dot":
		return d + "/."
	case "own-roundabout":
		return d + "/../src"
	}
	return d
}

// listedSize is the size the control file records for a referenced file: normally its real size; Skew makes the entry at
// that index (1-based) claim 1000 bytes less (negative: more) than the file has - stale sizes happen, and Copy / Move
// move files, they do not verify them
func (in In) listedSize(i int, n string) int {
	sz := len(content(n))
	if in.Skew == i+1 {
		sz -= 1000
	}
	if in.Skew == -(i + 1) {
		sz += 1000
	}
	return sz
}

func (in In) ctlName() string {
	if in.Kind == "changes" {
		return ctlBase + "_amd64.changes"
	}
	return ctlBase + ".dsc"
}

var auditSizes []int64 // file sizes from the alphabet audit, given to the .asc / part files

// content of a referenced file; the .orig tarball is larger than two copy buffers, so its copy takes several writes
// nestedDsc is a referenced file that is itself a well-formed .dsc - whose own Files field names a file OUTSIDE the
// upload directory (the sentinel one level up): whatever the library does with the files a nested control file lists,
// it must stay inside the two directories.
const nestedDsc = ctlBase + "n.dsc"

func content(name string) string {
	if name == nestedDsc {
		return "Format: 3.0 (quilt)\nSource: hello\nBinary: hello\nArchitecture: any\nVersion: 1.0-1n\nMaintainer: A <a@b>\nFiles:\n 00000000000000000000000000000001 11 ../sentinel\n 00000000000000000000000000000002 9 ../../sentinel\n"
	}
	n := 3000
	if strings.Contains(name, ".orig.tar.gz") && !strings.HasSuffix(name, ".asc") {
		n = 70000
	}
	if len(auditSizes) > 0 && (strings.HasSuffix(name, ".asc") || strings.Contains(name, ".part")) {
		n = int(auditSizes[len(name)%len(auditSizes)])
	}
	if strings.HasSuffix(name, ".asc") && len(auditSizes) == 0 {
		return "" // an empty referenced file (a detached signature that was never written) is still a file to carry over
	}
	body := patterned(n)
	if strings.Contains(name, ".debian.tar") {
		// exactly one io.Copy buffer (32 KiB) in total
		head := "content of " + name + "\n"
		return head + patterned(32768-len(head)-len("\nend\n")) + "\nend\n"
	}
	return "content of " + name + "\n" + body + "\nend\n"
}

// patterned is n bytes in which every 8-byte cell carries its own offset, so blocks that are dropped, repeated or
// written in the wrong order change the content and not only (or not even) the length.
func patterned(n int) string {
	if n <= 0 {
		return ""
	}
	var sb strings.Builder
	sb.Grow(n + 8)
	for off := 0; sb.Len() < n; off += 8 {
		fmt.Fprintf(&sb, "%07x\n", off)
	}
	return sb.String()[:n]
}

func md5hex(i int) string { return fmt.Sprintf("%032x", i+1) }

func (in In) controlText() string {
	t := in.controlTextFiles()
	if in.NoFiles {
		t = t[:strings.Index(t, "Files:")]
	}
	if len(in.Sums) > 0 {
		var sb strings.Builder
		sb.WriteString(t + "Checksums-Sha256:\n")
		for i, n := range in.Sums {
			fmt.Fprintf(&sb, " %064x %d %s\n", i+1, len(content(n)), n)
		}
		sb.WriteString("Checksums-Sha1:\n")
		for i, n := range in.Sums {
			fmt.Fprintf(&sb, " %040x %d %s\n", i+1, len(content(n)), n)
		}
		t = sb.String()
	}
	return t
}

func (in In) controlTextFiles() string {
	var sb strings.Builder
	if in.Kind == "changes" {
		sb.WriteString("Format: 1.8\nSource: hello\nBinary: hello\nArchitecture: source\nVersion: 1.0-1\nDistribution: unstable\nMaintainer: A <a@b>\nFiles:\n")
		for i, n := range in.Names {
			fmt.Fprintf(&sb, " %s %d devel optional %s\n", md5hex(i), in.listedSize(i, n), n)
		}
	} else {
		sb.WriteString("Format: 3.0 (quilt)\nSource: hello\nBinary: hello\nArchitecture: any\nVersion: 1.0-1\nMaintainer: A <a@b>\nFiles:\n")
		for i, n := range in.Names {
			fmt.Fprintf(&sb, " %s %d %s\n", md5hex(i), in.listedSize(i, n), n)
		}
	}
	return sb.String()
}

// resolve gives the path a listed name denotes relative to the control file's directory (plain path arithmetic).
func resolve(src, name string) string { return filepath.Clean(filepath.Join(src, name)) }

type tree map[string]string // relative path -> content ("<dir>" for directories)

func snapshot(root string) tree {
	t := tree{}
	filepath.Walk(root, func(p string, info os.FileInfo, err error) error {
		if err != nil || p == root {
			return nil
		}
		rel, _ := filepath.Rel(root, p)
		if info.IsDir() {
			t[rel] = "<dir>"
		} else if b, err := os.ReadFile(p); err == nil {
			t[rel] = string(b)
		}
		return nil
	})
	return t
}

func features(in In) []string {
	var f []string
	for _, n := range append(append([]string{}, in.Names...), in.Sums...) {
		switch {
		case strings.Contains(n, ".."):
			f = append(f, "listed-name-contains-dotdot")
		case strings.HasPrefix(n, "/"):
			f = append(f, "listed-name-absolute")
		case strings.Contains(n, "/"):
			f = append(f, "listed-name-has-directory")
		case n == "." || n == "":
			f = append(f, "listed-name-is-a-directory-reference")
		}
	}
	sort.Strings(f)
	var out []string
	for i, x := range f {
		if i == 0 || f[i-1] != x {
			out = append(out, x)
		}
	}
	return out
}

type result struct {
	ops      []verifhook.Op
	err      error
	crashed  bool
	panicV   string
	before   tree
	after    tree
	root     string
	fname    string // handle's Filename after the call
	firstOps int
	err2     error
}

// execute builds a fresh tree, performs the operation with the event injected, and snapshots the result.
func execute(in In) (*result, error) {
	root, err := os.MkdirTemp("", "verif-c20-")
	if err != nil {
		return nil, err
	}
	defer os.RemoveAll(root)
	src, dst := filepath.Join(root, "incoming", "src"), in.dstArg(root)
	os.MkdirAll(src, 0o755)
	// sentinels outside both directories
	os.WriteFile(filepath.Join(root, "sentinel"), []byte("sentinel\n"), 0o644)
	os.WriteFile(filepath.Join(root, "incoming", "sentinel"), []byte("sentinel-2\n"), 0o644)
	for i, n := range in.Names {
		if in.Gone == i+1 {
			continue
		}
		p := resolve(src, n)
		os.MkdirAll(filepath.Dir(p), 0o755)
		if in.Link == i+1 {
			// the listed name is a symbolic link to a regular file in the same directory (relative target)
			real := "real-" + filepath.Base(p)
			os.WriteFile(filepath.Join(filepath.Dir(p), real), []byte(content(n)), 0o644)
			if err := os.Symlink(real, p); err != nil {
				return nil, err
			}
			continue
		}
		os.WriteFile(p, []byte(content(n)), 0o644)
	}
	for _, n := range in.Sums {
		p := resolve(src, n)
		os.MkdirAll(filepath.Dir(p), 0o755)
		os.WriteFile(p, []byte(content(n)), 0o644)
	}
	ctl := filepath.Join(src, in.ctlName())
	os.WriteFile(ctl, []byte(in.controlText()), 0o644)
	switch in.Dest {
	case "emptydir":
		os.MkdirAll(dst, 0o755)
	case "samename":
		os.MkdirAll(dst, 0o755)
		if len(in.Names) > 0 {
			os.WriteFile(filepath.Join(dst, filepath.Base(in.Names[0])), []byte("old file with the same name\n"), 0o644)
		}
	case "samename-longer":
		// files of the same names that are LONGER than what will be copied over them (control file included)
		os.MkdirAll(dst, 0o755)
		long := strings.Repeat("old and longer content\n", 8000)
		if len(in.Names) > 0 {
			os.WriteFile(filepath.Join(dst, filepath.Base(in.Names[len(in.Names)-1])), []byte(long), 0o644)
		}
		os.WriteFile(filepath.Join(dst, in.ctlName()), []byte(long), 0o644)
	case "samename-samesize":
		// files of the same names and exactly the same LENGTH but different content (control file included)
		os.MkdirAll(dst, 0o755)
		for _, n := range in.Names {
			os.WriteFile(filepath.Join(dst, filepath.Base(n)), []byte(strings.Repeat("o", len(content(n)))), 0o644)
		}
		os.WriteFile(filepath.Join(dst, in.ctlName()), []byte(strings.Repeat("o", len(in.controlText()))), 0o644)
	case "child", "parent", "own", "own-slash", "own-dot", "own-roundabout":
		os.MkdirAll(filepath.Join(root, in.dstRel()), 0o755)
	case "dir-named-like-file", "dir-named-like-control":
		// the destination holds a DIRECTORY (not empty) under the name a file is about to get: the last referenced file's,
		// or the control file's. The file cannot be put there, so the operation fails - with everything a failure implies.
		os.MkdirAll(dst, 0o755)
		name := in.ctlName()
		if in.Dest == "dir-named-like-file" && len(in.Names) > 0 {
			name = filepath.Base(in.Names[len(in.Names)-1])
		}
		os.MkdirAll(filepath.Join(dst, name), 0o755)
		os.WriteFile(filepath.Join(dst, name, "keep"), []byte("a file inside the directory that is in the way\n"), 0o644)
	case "regularfile":
		os.WriteFile(dst, []byte("i am a file\n"), 0o644)
	case "missing":
	}
	res := &result{root: root}
	var doCopy, doMove func(string) error
	var doRemove func() error
	var fname *string
	if in.Kind == "changes" {
		c, err := control.ParseChangesFile(ctl)
		if err != nil {
			return nil, fmt.Errorf("harness: ParseChangesFile: %v", err)
		}
		doCopy, doMove, doRemove, fname = c.Copy, c.Move, c.Remove, &c.Filename
	} else {
		d, err := control.ParseDscFile(ctl)
		if err != nil {
			return nil, fmt.Errorf("harness: ParseDscFile: %v", err)
		}
		doCopy, doMove, doRemove, fname = d.Copy, d.Move, d.Remove, &d.Filename
	}
	res.before = snapshot(root)
	ctx := &verifhook.Ctx{OnOp: func(op verifhook.Op) error {
		i := len(res.ops)
		res.ops = append(res.ops, op)
		if i == in.At {
			switch in.Event {
			case "fault":
				return &os.PathError{Op: op.Kind, Path: op.Path, Err: syscall.EIO}
			case "exdev":
				// the destination is on another file system: rename(2) answers EXDEV
				return &os.LinkError{Op: "rename", Old: op.Path, New: op.Path2, Err: syscall.EXDEV}
			case "shortwrite":
				if op.Kind == "write" {
					return verifhook.ShortWrite{N: op.N / 2}
				}
			case "crash":
				panic(verifhook.Crash{At: i})
			}
		}
		return nil
	}}
	func() {
		verifhook.Bind(ctx)
		defer verifhook.Unbind()
		defer func() {
			if e := recover(); e != nil {
				if _, ok := e.(verifhook.Crash); ok {
					res.crashed = true
					return
				}
				res.panicV = fmt.Sprint(e)
			}
		}()
		switch in.Op {
		case "copy":
			res.err = doCopy(dst)
		case "move":
			res.err = doMove(dst)
		case "remove":
			res.err = doRemove()
		}
		if res.err == nil && in.Then != "" {
			res.firstOps = len(res.ops)
			dst2 := filepath.Join(root, "incoming", "dst2")
			os.MkdirAll(dst2, 0o755)
			switch in.Then {
			case "remove":
				res.err2 = doRemove()
			case "move":
				res.err2 = doMove(dst2)
			case "copy":
				res.err2 = doCopy(dst2)
			case "recopy":
				// the same upload is copied into the same destination once more, through a fresh handle parsed from the source
				if in.Kind == "changes" {
					if c2, err := control.ParseChangesFile(ctl); err == nil {
						res.err2 = c2.Copy(dst)
					} else {
						res.err2 = fmt.Errorf("source control file no longer parses: %v", err)
					}
				} else {
					if d2, err := control.ParseDscFile(ctl); err == nil {
						res.err2 = d2.Copy(dst)
					} else {
						res.err2 = fmt.Errorf("source control file no longer parses: %v", err)
					}
				}
			case "copyback":
				// the handle now points at the destination: copy from there back over the originals
				res.err2 = doCopy(src)
			}
		}
	}()
	res.fname = *fname
	res.after = snapshot(root)
	return res, nil
}

func rel(root, p string) string {
	r, err := filepath.Rel(root, p)
	if err != nil {
		return p
	}
	return r
}

// checkSequence: two operations on the same handle. After a successful Copy/Move the handle points at the new
// location, so the second operation acts on the files THERE; the originals of a Copy stay where they are.
func checkSequence(scen string, in In) ([]*mc.Violation, *result) {
	res, err := execute(in)
	if err != nil {
		return []*mc.Violation{mc.V(scen, "harness-setup", in, "tree built", err.Error())}, nil
	}
	var vs []*mc.Violation
	bad := func(clause, want, got string) { vs = append(vs, mc.V(scen, clause, in, want, got, features(in)...)) }
	if res.panicV != "" {
		bad("operation-returns", "no panic", res.panicV)
		return vs, res
	}
	if res.err != nil || res.err2 != nil {
		bad("operation-succeeds", "both operations succeed on a well-formed upload", fmt.Sprint(res.err, " / ", res.err2))
		return vs, res
	}
	src, dst, dst2 := filepath.Join("incoming", "src"), filepath.Join("incoming", "dst"), filepath.Join("incoming", "dst2")
	all := append([]string{in.ctlName()}, in.Names...)
	have := func(dir, n string) bool { _, ok := res.after[filepath.Join(dir, filepath.Base(n))]; return ok }
	same := func(dir, n string) bool {
		want := content(n)
		if n == in.ctlName() {
			want = in.controlText()
		}
		return res.after[filepath.Join(dir, filepath.Base(n))] == want
	}
	expect := func(dir string, present bool, why string) {
		for _, n := range all {
			if present && !same(dir, n) {
				bad("second-operation-acts-on-the-new-location", why, "missing or different in "+dir+": "+n)
			}
			if !present && have(dir, n) {
				bad("second-operation-acts-on-the-new-location", why, "still present in "+dir+": "+n)
			}
		}
	}
	switch in.Op + ">" + in.Then {
	case "copy>remove":
		expect(src, true, "originals untouched by Copy then Remove")
		expect(dst, false, "the copies are what Remove deletes")
	case "copy>move":
		expect(src, true, "originals untouched by Copy then Move")
		expect(dst, false, "the copies are moved on")
		expect(dst2, true, "the copies arrive in the second destination")
	case "copy>copy":
		expect(src, true, "originals untouched")
		expect(dst, true, "first copy stays")
		expect(dst2, true, "second copy complete")
	case "copy>recopy":
		expect(src, true, "originals untouched by copying them twice")
		expect(dst, true, "the destination holds complete copies after the second Copy")
	case "copy>copyback":
		expect(src, true, "originals intact (overwritten with identical content at most)")
		expect(dst, true, "copies intact")
	case "move>remove":
		expect(src, false, "moved away")
		expect(dst, false, "removed at the new location")
	case "move>move":
		expect(src, false, "moved away")
		expect(dst, false, "moved on")
		expect(dst2, true, "arrived")
	case "move>copy":
		expect(src, false, "moved away")
		expect(dst, true, "stays at the first destination")
		expect(dst2, true, "copied to the second destination")
	}
	// containment for the whole sequence
	for _, op := range res.ops {
		for _, p := range []string{op.Path, op.Path2} {
			if p == "" {
				continue
			}
			r := filepath.Clean(rel(res.root, p))
			ok := false
			for _, d := range []string{src, dst, dst2} {
				if r == d || strings.HasPrefix(r, d+string(filepath.Separator)) {
					ok = true
				}
			}
			if !ok {
				bad("stays-in-directory", "operations only inside the upload's directories", op.Kind+" "+r)
			}
		}
	}
	return vs, res
}

// check evaluates invariants I1..I5 on one execution.
func check(scen string, in In) ([]*mc.Violation, *result) {
	res, err := execute(in)
	if err != nil {
		return []*mc.Violation{mc.V(scen, "harness-setup", in, "tree built", err.Error())}, nil
	}
	feats := features(in)
	var vs []*mc.Violation
	bad := func(clause, want, got string) {
		vs = append(vs, mc.V(scen, clause, in, want, got, feats...))
	}
	if res.panicV != "" {
		bad("operation-returns", "no panic", res.panicV)
		return vs, res
	}
	srcRel, dstRel := filepath.Join("incoming", "src"), in.dstRel()
	ctlSrc, ctlDst := filepath.Join(srcRel, in.ctlName()), filepath.Join(dstRel, in.ctlName())
	ctlOrig := res.before[ctlSrc]
	ctlNow, ctlInDst := res.after[ctlDst]
	if old, was := res.before[ctlDst]; was && ctlInDst && ctlNow == old {
		ctlInDst = false // the untouched file of the same name that was there before is not "the control file in the destination"
	}
	blocked := in.Dest == "dir-named-like-file" || in.Dest == "dir-named-like-control"
	own := in.own() // the destination is the upload's own directory: everything is already there, and stays as it is
	dstIsDir := own || in.Dest == "emptydir" || in.Dest == "samename" || in.Dest == "samename-longer" || in.Dest == "samename-samesize" || in.Dest == "child" || in.Dest == "parent" || blocked

	// I5 containment (always): every path the library touched lies in the control file's directory or the destination; sentinels intact
	for _, op := range res.ops {
		for _, p := range []string{op.Path, op.Path2} {
			if p == "" {
				continue
			}
			r := filepath.Clean(rel(res.root, p))
			inSrc := r == srcRel || strings.HasPrefix(r, srcRel+string(filepath.Separator))
			inDst := r == dstRel || strings.HasPrefix(r, dstRel+string(filepath.Separator))
			if !inSrc && !inDst {
				bad("stays-in-directory", "operations only inside the control file's directory and the destination", fmt.Sprintf("%s %s", op.Kind, r))
			}
		}
	}
	for p, c := range res.before {
		inSrc := strings.HasPrefix(p, srcRel+string(filepath.Separator)) || p == srcRel
		inDst := strings.HasPrefix(p, dstRel+string(filepath.Separator)) || p == dstRel
		if !inSrc && !inDst {
			if got, ok := res.after[p]; !ok || got != c {
				bad("stays-in-directory", "file outside both directories untouched: "+p, fmt.Sprintf("present=%v changed=%v", ok, got != c))
			}
		}
	}
	for p := range res.after {
		if _, ok := res.before[p]; !ok {
			inDst := strings.HasPrefix(p, dstRel+string(filepath.Separator)) || p == dstRel
			if !inDst {
				bad("stays-in-directory", "nothing created outside the destination", "created "+p)
			}
		}
	}

	refsInDstComplete := func() (bool, string) {
		for _, n := range in.Names {
			got, ok := res.after[filepath.Join(dstRel, filepath.Base(n))]
			if !ok {
				return false, "missing " + filepath.Base(n)
			}
			if got != content(n) {
				return false, "incomplete or different " + filepath.Base(n)
			}
		}
		return true, ""
	}
	completeSuccess := func() (bool, string) {
		switch in.Op {
		case "copy", "move":
			if res.fname != filepath.Join(res.root, dstRel, in.ctlName()) && res.fname != filepath.Join(res.root, dstRel)+"/"+in.ctlName() && !(own && filepath.Clean(res.fname) == filepath.Join(res.root, dstRel, in.ctlName())) {
				return false, "handle points at " + rel(res.root, res.fname)
			}
			if res.after[ctlDst] != ctlOrig {
				return false, "control file in destination is not byte-identical"
			}
			if ok, why := refsInDstComplete(); !ok {
				return false, why
			}
			if in.Op == "move" && !own {
				if _, still := res.after[ctlSrc]; still {
					return false, "control file still at the source after a move"
				}
				for _, n := range in.Names {
					if _, still := res.after[rel(res.root, resolve(filepath.Join(res.root, srcRel), n))]; still {
						return false, "referenced file still at the source after a move: " + n
					}
				}
			} else {
				if res.after[ctlSrc] != ctlOrig {
					return false, "source control file changed by a copy"
				}
			}
		case "remove":
			if _, still := res.after[ctlSrc]; still {
				return false, "control file still present after Remove"
			}
			for _, n := range in.Names {
				if _, still := res.after[rel(res.root, resolve(filepath.Join(res.root, srcRel), n))]; still {
					return false, "referenced file still present after Remove: " + n
				}
			}
		}
		return true, ""
	}

	switch {
	case res.crashed:
		// I1 / I3 at every interruption point
		if in.Op == "remove" {
			if _, still := res.after[ctlSrc]; !still {
				for _, n := range in.Names {
					if _, s2 := res.after[rel(res.root, resolve(filepath.Join(res.root, srcRel), n))]; s2 {
						bad("control-file-removed-last", "control file gone only after all referenced files are gone", "still present: "+n)
					}
				}
			}
		} else if ctlInDst && dstIsDir {
			if ok, why := refsInDstComplete(); !ok {
				bad("control-file-visible-last", "control file in the destination only after every referenced file is there", why)
			}
		}
	case in.Event == "none" || res.err == nil:
		// no event, or the operation claims success despite one: complete success is required (I4)
		if res.err != nil {
			// legitimate failures without any injected event: destination is a regular file / missing
			if (dstIsDir || in.Op == "remove") && len(features(in)) == 0 && in.Gone == 0 && !blocked {
				// plain names only: uploads whose listed names are not plain file names may be refused
				bad("operation-succeeds", "nil error for a well-formed upload and destination", res.err.Error())
			} else if ctlInDst && dstIsDir {
				bad("error-implies-control-file-not-in-destination", "control file absent from the destination", "present")
			}
			if in.Op == "move" && res.after[ctlSrc] != ctlOrig {
				bad("failed-move-keeps-control-file-at-source", "control file intact at its source", "missing or changed")
			}
			if in.Op == "remove" {
				if _, still := res.after[ctlSrc]; !still {
					bad("failed-remove-keeps-control-file", "control file still present after a failed Remove", "gone")
				}
			}
			break
		}
		if !dstIsDir && in.Op != "remove" {
			bad("non-directory-destination-is-an-error", "error", "nil")
			break
		}
		if blocked && in.Event == "none" {
			bad("failure-is-reported", "an error is returned when a directory is in the way of a file", "nil error")
			break
		}
		if in.Gone > 0 && in.Event == "none" {
			bad("failure-is-reported", "an error is returned when a referenced file does not exist", "nil error")
			break
		}
		if in.Event != "none" && in.At < len(res.ops) {
			// an injected failure may only be swallowed where it is harmless: the advisory Stat and closing a file opened for reading
			op := res.ops[in.At]
			created := false // the closed file is one that was written and not yet closed
			for _, o := range res.ops[:in.At] {
				if o.Path == op.Path {
					switch o.Kind {
					case "create":
						created = true
					case "close":
						created = false // a second (deferred) close of an already closed file is harmless
					}
				}
			}
			if !(op.Kind == "stat" || (op.Kind == "close" && !created)) {
				bad("failure-is-reported", "an error is returned when a step fails", fmt.Sprintf("nil error although %s %s failed", op.Kind, rel(res.root, op.Path)))
			}
		}
		if ok, why := completeSuccess(); !ok {
			bad("success-means-complete", "handle at the new location, all files byte-identical, sources gone for a move", why)
		}
		// the control file's first appearance comes after the last operation on a referenced file
		first, last := -1, -1
		for i, op := range res.ops {
			tgt := op.Path
			if op.Kind == "rename" {
				tgt = op.Path2
			}
			if filepath.Base(tgt) == in.ctlName() && (op.Kind == "create" || op.Kind == "rename" || (in.Op == "remove" && op.Kind == "remove")) {
				if first < 0 {
					first = i
				}
			} else if op.Kind != "stat" && filepath.Base(op.Path) != in.ctlName() {
				last = i
			}
		}
		if first >= 0 && last > first {
			bad("control-file-handled-last", "control file touched after every referenced file", fmt.Sprintf("control file at op %d, a referenced file at op %d", first, last))
		}
	default:
		// an injected fault made the operation fail (I2)
		if in.Op == "remove" {
			if _, still := res.after[ctlSrc]; !still {
				bad("failed-remove-keeps-control-file", "control file still present after a failed Remove", "gone")
			}
			break
		}
		if ctlInDst && dstIsDir {
			bad("error-implies-control-file-not-in-destination", "control file absent from the destination", fmt.Sprintf("present (%d of %d bytes)", len(res.after[ctlDst]), len(ctlOrig)))
		}
		if in.Op == "move" {
			if res.after[ctlSrc] != ctlOrig {
				bad("failed-move-keeps-control-file-at-source", "control file intact at its source", "missing or changed")
			}
		}
	}
	return vs, res
}

func Run(r *mc.Run) {
	r.Rule = "kind {dsc, changes} x operation {copy, move, remove} x 0..3 referenced files x destination {empty dir, dir holding a shorter / a longer same-named file (and control file), regular file, missing}; a referenced file missing at the source at each position; plus listed-name shapes {plain, sub/x, ../x, ../../x, /abs/x, ./x} on each position of a 2-file upload; for each base case the fault-free execution, then for EVERY file-system operation index k the library performs: an injected error at k, a short write at k (writes), and a crash immediately before k; each on a fresh directory tree. Non-trivial = an event was injected; distinct by construction"
	r.Assume = []string{"an injected failure of the advisory Stat of the destination, or of closing a file opened for reading, may be swallowed: then complete success is required instead of an error",
		"a control file that lists itself is outside the alphabet", "durability (fsync, directory-entry reordering after power loss) is not modelled: the property speaks of visibility order"}
	if b, err := os.ReadFile(os.Getenv("VERIF_INSTR_REPORT")); err == nil {
		var rep map[string]interface{}
		if json.Unmarshal(b, &rep) == nil {
			r.Extra["instrumentation"] = map[string]interface{}{"os_call_sites": rep["os_call_sites"]}
		}
	}
	plain := [][]string{{}, {"hello_1.0.orig.tar.gz"}, {"hello_1.0.orig.tar.gz", "hello_1.0-1.debian.tar.xz"}, {"hello_1.0.orig.tar.gz", "hello_1.0-1.debian.tar.xz", "hello_1.0.orig.tar.gz.asc"}}
	shapes := []string{"sub/x.tar", "../x.tar", "../../x.tar", "/abs/x.tar", "./x.tar",
		// sibling directories whose names merely START with the name of the control file's directory / of the destination
		"../src-keys/x.tar", "../srcx.tar", "../dst-old/x.tar", "sub/../../src2/x.tar",
		// names that ARE a directory reference: the upload's directory itself, its parent, a subdirectory
		"..", ".", "./", "../", "sub", "sub/", "../.."}
	// alphabet audit: names and numbers a change introduced into the code become file names, file counts and file sizes
	for _, t := range gen.AuditStrings(func(s string) bool { return gen.OneLine(s) && !strings.ContainsAny(s, " \t") }, 3) {
		shapes = append(shapes, t, "x"+t, t+".tar", "../"+t)
	}
	for _, n := range gen.AuditInts(2, 12, 3) {
		var names []string
		for k := int64(0); k < n; k++ {
			names = append(names, fmt.Sprintf("hello_1.0.part%d.tar.gz", k))
		}
		plain = append(plain, names)
	}
	auditSizes = gen.AuditInts(0, 1<<22, 4)
	var bases []In
	for _, kind := range []string{"dsc", "changes"} {
		for _, op := range []string{"copy", "move", "remove"} {
			dests := []string{"emptydir", "samename", "samename-longer", "samename-samesize", "regularfile", "missing"}
			if op == "remove" {
				dests = []string{"emptydir"}
			}
			for _, d := range dests {
				for _, names := range plain {
					bases = append(bases, In{Kind: kind, Op: op, Names: names, Dest: d, Event: "none"})
				}
				if d == "emptydir" {
					// a referenced file that does not exist at the source, at every position of a 3-file upload
					for g := 1; g <= 3; g++ {
						bases = append(bases, In{Kind: kind, Op: op, Names: plain[3], Dest: d, Event: "none", Gone: g})
					}
					for _, s := range shapes {
						bases = append(bases, In{Kind: kind, Op: op, Names: []string{s, "hello_1.0.orig.tar.gz"}, Dest: d, Event: "none"})
						bases = append(bases, In{Kind: kind, Op: op, Names: []string{"hello_1.0.orig.tar.gz", s}, Dest: d, Event: "none"})
					}
				}
			}
		}
	}
	// referenced files whose names are tails, heads or case variants of the control file's own name: ordinary files
	for _, kind := range []string{"dsc", "changes"} {
		cn := In{Kind: kind}.ctlName()
		var rel []string
		for _, k := range []int{1, 3, 4, 8, len(cn) / 2, len(cn) - 1} {
			if k < len(cn) {
				rel = append(rel, cn[len(cn)-k:], cn[:k])
			}
		}
		rel = append(rel, strings.ToUpper(cn), "lib"+cn, cn+".asc", cn+"~")
		for _, op := range []string{"copy", "move", "remove"} {
			for _, s := range gen.Dedup(rel) {
				if s == "." || s == ".." || strings.ContainsAny(s, "/") {
					continue
				}
				bases = append(bases, In{Kind: kind, Op: op, Names: []string{s, "hello_1.0.orig.tar.gz"}, Dest: "emptydir", Event: "none"})
			}
		}
	}
	// an upload that lists its own .dsc (what a real source .changes does), at every position of a 3-file upload, and large
	// uploads: more referenced files than small-slice shortcuts of the standard library cover (sort.Slice switches
	// algorithm above 12 elements, append doubles capacities), with the .dsc listed first, in the middle and last
	dscName := ctlBase + ".dsc"
	for _, op := range []string{"copy", "move", "remove"} {
		for pos := 0; pos < 3; pos++ {
			names := append([]string{}, plain[2]...)
			names = append(names[:pos], append([]string{dscName}, names[pos:]...)...)
			bases = append(bases, In{Kind: "changes", Op: op, Names: names, Dest: "emptydir", Event: "none"})
		}
	}
	for _, op := range []string{"copy", "move", "remove"} {
		bases = append(bases, In{Kind: "changes", Op: op, Names: []string{"hello_1.0.orig.tar.gz", nestedDsc}, Dest: "emptydir", Event: "none"},
			In{Kind: "changes", Op: op, Names: []string{nestedDsc, "hello_1.0.orig.tar.gz", dscName}, Dest: "emptydir", Event: "none"})
	}
	// destinations inside / around the upload's own directory, and listed sizes that do not match the files
	for _, kind := range []string{"dsc", "changes"} {
		for _, op := range []string{"copy", "move"} {
			for _, d := range []string{"own", "own-slash", "own-dot", "own-roundabout"} {
				bases = append(bases, In{Kind: kind, Op: op, Names: plain[2], Dest: d, Event: "none"})
			}
			bases = append(bases, In{Kind: kind, Op: op, Names: plain[3], Dest: "own", Event: "none"})
			bases = append(bases, In{Kind: kind, Op: op, Names: plain[2], Dest: "dir-named-like-file", Event: "none"}, In{Kind: kind, Op: op, Names: plain[2], Dest: "dir-named-like-control", Event: "none"},
				In{Kind: kind, Op: op, Names: plain[1], Dest: "dir-named-like-file", Event: "none"})
			bases = append(bases, In{Kind: kind, Op: op, Names: plain[2], Dest: "child", Event: "none"}, In{Kind: kind, Op: op, Names: plain[2], Dest: "parent", Event: "none"})
			for _, sk := range []int{1, 2, -1, -2} {
				bases = append(bases, In{Kind: kind, Op: op, Names: plain[2], Dest: "emptydir", Event: "none", Skew: sk})
			}
		}
	}
	// a referenced file that is a symbolic link at the source (Copy reads through it: the destination gets the content)
	for _, kind := range []string{"dsc", "changes"} {
		for l := 1; l <= 2; l++ {
			bases = append(bases, In{Kind: kind, Op: "copy", Names: plain[2], Dest: "emptydir", Event: "none", Link: l})
		}
	}
	counts := []int{13, 17, 18, 22}
	if !r.Quick() {
		counts = []int{12, 13, 16, 17, 18, 19, 20, 21, 22, 24, 33}
	}
	for _, n := range counts {
		var parts []string
		for k := 0; k < n-1; k++ {
			parts = append(parts, fmt.Sprintf("hello_1.0.orig-c%02d.tar.gz", k))
		}
		for _, op := range []string{"copy", "move"} {
			for _, pos := range []int{0, n / 2, n - 1} {
				names := append([]string{}, parts[:pos]...)
				names = append(names, dscName)
				names = append(names, parts[pos:]...)
				bases = append(bases, In{Kind: "changes", Op: op, Names: names, Dest: "emptydir", Event: "none"})
			}
			bases = append(bases, In{Kind: "dsc", Op: op, Names: append(append([]string{}, parts...), "hello_1.0-1.debian.tar.xz"), Dest: "emptydir", Event: "none"})
		}
	}
	// names listed only in the checksum fields (with and without a Files field): whatever the library does with them, it
	// must stay inside the two directories
	for _, kind := range []string{"dsc", "changes"} {
		for _, op := range []string{"copy", "move", "remove"} {
			for _, sums := range [][]string{{"hello_1.0.orig.tar.gz"}, {"../x.tar", "hello_1.0.orig.tar.gz"}, {"hello_1.0.orig.tar.gz", "../../y.tar"}, {"../src-keys/k.key"}} {
				bases = append(bases, In{Kind: kind, Op: op, Names: nil, Dest: "emptydir", Event: "none", Sums: sums, NoFiles: true})
				bases = append(bases, In{Kind: kind, Op: op, Names: []string{"hello_1.0-1.debian.tar.xz"}, Dest: "emptydir", Event: "none", Sums: sums})
			}
		}
	}
	r.Scenario("fault-and-crash-at-every-operation", map[string]interface{}{"base_cases": len(bases), "events": "none / EIO at op k / short write at op k / crash before op k, for every k"}, len(bases), func(i int, st *mc.Stats) bool {
		base := bases[i]
		run := func(in In) *result {
			st.Evals++
			st.Traces++
			if in.Event != "none" {
				st.Nontrivial++
			}
			vs, res := check("fault-and-crash-at-every-operation", in)
			cls := in.Op + ":" + in.Event
			if res != nil {
				switch {
				case res.crashed:
					cls += ":crashed"
				case res.err != nil:
					cls += ":error"
				default:
					cls += ":ok"
				}
				st.Transitions += int64(len(res.ops))
			}
			if len(vs) > 0 {
				cls += ":VIOLATION"
			}
			st.Class(cls)
			for _, v := range vs {
				st.Violate(v)
			}
			if st.WantSample() && in.Event == "crash" && in.At == 3 {
				var ops []string
				if res != nil {
					for _, o := range res.ops {
						ops = append(ops, o.Kind+" "+rel(res.root, o.Path))
					}
				}
				st.Sample(map[string]interface{}{"input": in, "operations_before_crash": ops})
			}
			return res
		}
		res := run(base)
		if res == nil {
			return true
		}
		n := len(res.ops)
		if int64(n) > st.MaxDepth {
			st.MaxDepth = int64(n)
		}
		for k := 0; k < n; k++ {
			for _, ev := range []string{"fault", "crash"} {
				in := base
				in.Event, in.At = ev, k
				run(in)
			}
			if res.ops[k].Kind == "rename" {
				in := base
				in.Event, in.At = "exdev", k
				run(in)
			}
			if res.ops[k].Kind == "write" && len(base.Names) <= 8 {
				in := base
				in.Event, in.At = "shortwrite", k
				run(in)
			}
		}
		return true
	})
	// two operations on one handle
	var seqs []In
	for _, kind := range []string{"dsc", "changes"} {
		for _, first := range []string{"copy", "move"} {
			for _, then := range []string{"remove", "move", "copy", "recopy", "copyback"} {
				if first == "move" && (then == "recopy" || then == "copyback") {
					continue
				}
				for _, names := range plain[1:] {
					seqs = append(seqs, In{Kind: kind, Op: first, Names: names, Dest: "emptydir", Event: "none", Then: then})
				}
			}
		}
	}
	r.Scenario("two-operations-on-one-handle", map[string]interface{}{"sequences": len(seqs), "first": "copy | move", "then": "remove | move | copy | copy the source again into the same destination (fresh handle) | copy back over the originals"}, len(seqs), func(i int, st *mc.Stats) bool {
		st.Evals++
		st.Traces++
		st.Nontrivial++
		vs, res := checkSequence("two-operations-on-one-handle", seqs[i])
		if res != nil {
			st.Transitions += int64(len(res.ops))
		}
		if len(vs) == 0 {
			st.Class(seqs[i].Op + ">" + seqs[i].Then + ":ok")
		}
		for _, v := range vs {
			st.Violate(v)
			st.Class(v.Clause)
		}
		return true
	})
	_ = errors.New
}

func Replay(scenario string, raw json.RawMessage) []*mc.Violation {
	var in In
	if mc.UnmarshalInput(raw, &in) != nil {
		return nil
	}
	if in.Then != "" {
		vs, _ := checkSequence(scenario, in)
		return vs
	}
	vs, _ := check(scenario, in)
	return vs
}
