package c11

// Signature armours holding SEVERAL signature packets (co-signed uploads, or an attacker appending packets): good and
// bad packets by keyring keys and by an unknown key, in every order. Asserted: (1) whatever is accepted must be
// accepted by the reference implementation for the same bytes and keyring with the same signer — in particular a text
// that NO packet of a keyring key signs must fail; (2) when the first packet made by a keyring key is a good signature
// over the text, the document must be read exactly. (Whether a good packet BEHIND a bad one is honoured is left open.)

import (
	"fmt"
	"strings"

	"verifharness/gen"
	"verifharness/mc"
)

func multiPacketArmours(r *mc.Run, docs []mDoc, K1, K2 *key, entries []string) {
	k3e, err := gen.CSNewKey("K3")
	if err != nil {
		r.HarnessError("key generation failed: %v", err)
		return
	}
	K3 := &key{name: "K3", ent: k3e, fpr: gen.CSFingerprint(k3e)}
	type pkind struct {
		name string
		k    *key
		over string // text | other | empty
	}
	kinds := []pkind{{"K1-over-the-text", K1, "text"}, {"K1-over-other-text", K1, "other"}, {"K1-over-the-empty-text", K1, "empty"},
		{"K2-over-the-text", K2, "text"}, {"K2-over-other-text", K2, "other"}, {"K3(unknown)-over-the-text", K3, "text"}}
	type mcase struct {
		doc    mDoc
		bytes  []byte
		packs  []pkind
		ring   ringSpec
		entry  string
		wanted string // fingerprint the first keyring-key packet yields if it is good, "" otherwise
	}
	var cases []mcase
	for _, d := range docs {
		if d.Name != "one-paragraph" && d.Name != "three-paragraphs-different-fields" && d.Name != "two-paragraphs-multiline-crlf" {
			continue
		}
		raw := map[string][]byte{}
		hash := ""
		for _, pk := range kinds {
			var text []byte
			switch pk.over {
			case "text":
				text = d.text()
			case "other":
				text = []byte(strings.ReplaceAll("Source: something-else\nVersion: 9\n", "\n", d.EOL))
			}
			sig, h, err := gen.CSSignature(pk.k.ent, text)
			if err != nil {
				r.HarnessError("multi-packet: signing: %v", err)
				return
			}
			p, err := gen.CSSignaturePackets(sig)
			if err != nil {
				r.HarnessError("multi-packet: extracting the packet: %v", err)
				return
			}
			raw[pk.name], hash = p, h
		}
		var combos [][]pkind
		for _, a := range kinds {
			combos = append(combos, []pkind{a})
			for _, b := range kinds {
				combos = append(combos, []pkind{a, b})
			}
		}
		combos = append(combos, []pkind{kinds[1], kinds[2], kinds[0]}, []pkind{kinds[5], kinds[1], kinds[2]})
		for _, cb := range combos {
			var ps [][]byte
			for _, pk := range cb {
				ps = append(ps, raw[pk.name])
			}
			arm, err := gen.CSArmorSignature(ps...)
			if err != nil {
				r.HarnessError("multi-packet: armouring: %v", err)
				return
			}
			doc := gen.CSAssemble(d.text(), arm, hash, d.EOL)
			for _, rs := range []ringSpec{{kind: "list", keys: []*key{K1}}, {kind: "list", keys: []*key{K1, K2}}, {kind: "list", keys: []*key{K2}}} {
				wanted := ""
				for _, pk := range cb {
					in := false
					for _, k := range rs.keys {
						if k == pk.k {
							in = true
						}
					}
					if in {
						if pk.over == "text" {
							wanted = pk.k.fpr
						}
						break
					}
				}
				for _, e := range entries {
					cases = append(cases, mcase{d, doc, cb, rs, e, wanted})
				}
			}
		}
	}
	r.Scenario("multi-packet-signature-armours", map[string]interface{}{"packet_kinds": func() []string {
		var x []string
		for _, k := range kinds {
			x = append(x, k.name)
		}
		return x
	}(), "armours": "every single packet, every ordered pair, two triples", "keyrings": []string{"[K1]", "[K1,K2]", "[K2]"}, "entry_points": entries, "documents": 3},
		len(cases), func(i int, st *mc.Stats) bool {
			c := cases[i]
			var names []string
			for _, pk := range c.packs {
				names = append(names, pk.name)
			}
			in := In{Case: "multipacket", Doc: c.doc.Name + " / packets: " + strings.Join(names, " + "), Entry: c.entry, Orig: c.bytes, Want: c.doc.want(), SignerFpr: c.wanted}
			c.ring.fill(&in)
			res := check("multi-packet-signature-armours", in)
			st.Evals++
			st.Traces++
			st.Nontrivial++
			st.States++
			st.Class(fmt.Sprintf("first-keyring-packet-%s:%s", map[bool]string{true: "good", false: "bad-or-none"}[c.wanted != ""], res.class))
			st.Violate(res.v)
			if i%211 == 0 && st.WantSample() {
				st.Sample(map[string]interface{}{"doc": c.doc.Name, "packets": names, "keyring": c.ring.label(), "entry": c.entry, "outcome": res.class})
			}
			return true
		})
}

// checkMulti: In.SignerFpr = the signer the FIRST packet made by a keyring key yields if that packet is a good signature
// over the text ("" if it is bad or there is none).
func checkMulti(scen string, in In) verdict {
	o := observeRing(in.Entry, in.Orig, mustRing(in))
	res := verdict{o: o}
	refFpr, why := referenceSigner(in.Orig, in)
	got := o.success() || len(o.delivered) > 0
	switch {
	case got && (o.signer == "" || o.signer != refFpr):
		res.class = "unsound"
		res.v = mkV(scen, "accepted-only-what-the-reference-implementation-accepts", in, in.Orig,
			"an error (reference implementation on these bytes with this keyring: "+why+"); in particular a text that no packet of a keyring key signs must fail", o)
	case got && !parasEqual(o.delivered, in.Want[:minInt(len(o.delivered), len(in.Want))]), o.success() && !parasEqual(o.delivered, in.Want):
		res.class = "unsound"
		res.v = mkV(scen, "paragraphs-are-exactly-the-signed-text", in, in.Orig, "the signed paragraphs", o)
	case in.SignerFpr != "" && !o.success():
		res.class = "unsound"
		res.v = mkV(scen, "valid-signed-document-is-read-exactly", in, in.Orig, "success with signer "+in.SignerFpr+": the first packet made by a keyring key is a good signature over the text", o)
	case o.success():
		res.class = "accepted"
	default:
		res.class = "rejected"
	}
	return res
}

func minInt(a, b int) int {
	if a < b {
		return a
	}
	return b
}
