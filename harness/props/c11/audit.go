package c11

// Alphabet audit for C11: literals a change introduced into the code under test (none on the unchanged tree) are
// fed into the alphabets — characters as substitution / insertion bytes, strings as armour header lines, hash
// names, extra lines inside the signed text and before / after the armour (as single faults AND as part of the
// signed document that is then tampered with), integers as document sizes (bytes, canonical bytes, lines) and
// keyring sizes.

import (
	"bytes"
	"fmt"
	"strings"

	"verifharness/gen"
	"verifharness/mc"
)

func auditBytes() []byte {
	var out []byte
	for _, c := range gen.AuditChars(nil, 6) {
		if len(c) == 1 {
			out = append(out, c[0])
		}
	}
	return out
}

func auditLines() []string {
	return gen.AuditStrings(func(s string) bool { return gen.OneLine(s) && strings.TrimSpace(s) == s && len(s) <= 40 && s != "." }, 6)
}

// withAuditSubs adds the audited bytes to the substitution values.
func withAuditSubs(subs func(b byte) []byte) func(b byte) []byte {
	extra := auditBytes()
	if len(extra) == 0 {
		return subs
	}
	return func(b byte) []byte {
		out := subs(b)
		for _, c := range extra {
			if c != b && bytes.IndexByte(out, c) < 0 {
				out = append(out, c)
			}
		}
		return out
	}
}

// insertBytes: the single bytes inserted at every offset.
func insertBytes() []byte {
	out := []byte{'X', '\n', ' ', '\r', '\t', 0x00, 0xff}
	for _, c := range auditBytes() {
		if bytes.IndexByte(out, c) < 0 {
			out = append(out, c)
		}
	}
	return out
}

// auditSplices: audited strings as lines at the places a single fault can put them.
func auditSplices(doc []byte, eol string) []Fault {
	var fs []Fault
	add := func(label string, off int, data string) {
		fs = append(fs, Fault{Op: "ins", Off: off, Data: []byte(data), Label: "audit-" + label})
	}
	ts, te, ok := gen.CSRegion(doc)
	for q, t := range auditLines() {
		id := fmt.Sprint(q)
		add("line-before-armour-"+id, 0, t+eol)
		add("field-paragraph-before-armour-"+id, 0, t+": evil"+eol+eol)
		add("line-after-signature-"+id, len(doc), t+eol)
		add("field-after-signature-"+id, len(doc), eol+t+": evil"+eol)
		if !ok {
			continue
		}
		l1 := bytes.IndexByte(doc, '\n') + 1
		add("hash-header-value-"+id, l1, "Hash: "+t+eol)
		add("header-key-"+id, l1, t+": SHA256"+eol)
		add("bare-header-line-"+id, l1, t+eol)
		sl := te + bytes.IndexByte(doc[te:], '\n') + 1
		add("signature-armour-header-value-"+id, sl, "Comment: "+t+eol)
		add("signature-armour-header-key-"+id, sl, t+": x"+eol)
		bounds := []int{ts}
		for i := ts; i < te; i++ {
			if doc[i] == '\n' {
				bounds = append(bounds, i+1)
			}
		}
		for _, b := range bounds {
			add("line-in-signed-text-"+id, b, t+eol)
			add("field-in-signed-text-"+id, b, t+": evil"+eol)
			add("continuation-in-signed-text-"+id, b, " "+t+eol)
			add("dash-escaped-line-in-signed-text-"+id, b, "- "+t+eol)
		}
	}
	return fs
}

func fieldNameLike(s string) bool {
	if len(s) < 1 || s[0] == '-' || s[0] == '#' {
		return false
	}
	for i := 0; i < len(s); i++ {
		c := s[i]
		if !(c >= 'a' && c <= 'z' || c >= 'A' && c <= 'Z' || c >= '0' && c <= '9' || c == '-') {
			return false
		}
	}
	return true
}

// insertLine returns doc with line inserted at off (an armour-level edit of an otherwise valid document).
func insertLine(doc []byte, off int, line string) []byte {
	return (&Fault{Op: "ins", Off: off, Data: []byte(line)}).apply(doc)
}

// auditDocuments builds extra K1-signed documents: audited strings inside the signed text and in the armour
// headers of an otherwise valid document; audited integers as sizes. Each is later tampered with like the
// standard documents (light = one substitution per offset instead of the full per-offset fault set).
func auditDocuments(r *mc.Run, K1 *key) (out []signedDoc, dropped int) {
	base := documents()[0]
	sign := func(m mDoc) ([]byte, bool) {
		b, err := gen.CSClearsign(K1.ent, m.text(), m.EOL)
		if err != nil {
			r.HarnessError("audit: signing %s: %v", m.Name, err)
			return nil, false
		}
		return b, true
	}
	add := func(name string, m mDoc, b []byte, light bool) {
		m.Name = name
		out = append(out, signedDoc{m: m, signer: K1, bytes: b, want: m.want(), light: light})
	}
	for q, t := range auditLines() {
		id := fmt.Sprint(q)
		// inside the signed text: as a value, as a continuation line, as a field name where it can be one
		m := mDoc{EOL: "\n", Paras: [][]mField{append(append([]mField{}, base.Paras[0]...),
			mField{Key: "X-Audit", First: t, Cont: []string{t, "", t + " " + t}})}}
		if fieldNameLike(t) && t != "Source" && t != "Version" && t != "Maintainer" && t != "X-Audit" {
			m.Paras[0] = append(m.Paras[0], mField{Key: t, First: "v"})
			m.Paras = append(m.Paras, []mField{{Key: t, First: t}})
		}
		if b, ok := sign(m); ok {
			add("audit-string-in-signed-text-"+id, m, b, false)
			// in the armour of a valid document: first Hash header, Comment / key in the signature armour
			l1 := bytes.IndexByte(b, '\n') + 1
			add("audit-hash-header-"+id, m, insertLine(b, l1, "Hash: "+t+"\n"), false)
			_, te, _ := gen.CSRegion(b)
			sl := te + bytes.IndexByte(b[te:], '\n') + 1
			add("audit-signature-armour-comment-"+id, m, insertLine(b, sl, "Comment: "+t+"\n"), false)
			if fieldNameLike(t) {
				add("audit-signature-armour-key-"+id, m, insertLine(b, sl, t+": x\n"), false)
			}
		}
	}
	// sizes: v-1, v, v+1 as bytes of the text, of the canonical text, of the whole document; as lines of the text
	for _, v64 := range gen.AuditInts(80, 8192, 9) {
		v := int(v64)
		for _, measure := range []string{"text-bytes", "canonical-bytes", "document-bytes"} {
			pad := 0
			for try := 0; try < 4; try++ {
				m := mDoc{EOL: "\n", Paras: [][]mField{append(append([]mField{}, base.Paras[0]...), mField{Key: "X-Pad", First: strings.Repeat("x", pad)})}}
				b, ok := sign(m)
				if !ok {
					break
				}
				var got int
				switch measure {
				case "text-bytes":
					got = len(m.text())
				case "canonical-bytes":
					got = len(gen.CSCanonical(m.text()))
				default:
					got = len(b)
				}
				if got == v {
					add(fmt.Sprintf("audit-size-%s-%d", measure, v), m, b, true)
					break
				}
				pad += v - got
				if pad < 0 {
					break
				}
			}
		}
	}
	for _, v64 := range gen.AuditInts(4, 300, 9) {
		v := int(v64)
		f := mField{Key: "X-Lines", First: "l"}
		for len(base.Paras[0])+1+len(f.Cont) < v {
			f.Cont = append(f.Cont, "x")
		}
		m := mDoc{EOL: "\n", Paras: [][]mField{append(append([]mField{}, base.Paras[0]...), f)}}
		if b, ok := sign(m); ok {
			add(fmt.Sprintf("audit-size-text-lines-%d", v), m, b, true)
		}
	}
	// keep only documents that verify untampered (an armour header the OpenPGP layer rejects is not a document);
	// one that is ACCEPTED WRONGLY stays in, so that the matrix reports it
	kept := out[:0]
	for _, sd := range out {
		in := In{Case: "signed", Doc: sd.m.Name, Entry: "reader", SignerFpr: K1.fpr, Signer: "K1", Orig: sd.bytes, Want: sd.want}
		ringSpec{kind: "list", keys: []*key{K1}}.fill(&in)
		_ = in
		if !referenceVerifies(sd.bytes, K1) { // decided by the reference implementation, not by the library under test
			dropped++
			continue
		}
		kept = append(kept, sd)
	}
	return kept, dropped
}

// lightFaults: one substitution per offset (low bit flipped), plus the splices.
func lightFaults(doc []byte, splices []Fault) []Fault {
	var fs []Fault
	for off := 0; off < len(doc); off++ {
		fs = append(fs, Fault{Op: "sub", Off: off, Data: []byte{doc[off] ^ 0x01}})
	}
	return append(fs, splices...)
}

// auditKeyrings: keyrings of v-1, v, v+1 keys with the signer first / last / absent.
func auditKeyrings(r *mc.Run, signed []signedDoc, K1, K2 *key, entries []string) {
	sizes := gen.AuditInts(1, 12, 6)
	if len(sizes) == 0 {
		return
	}
	max := 0
	for _, v := range sizes {
		if int(v) > max {
			max = int(v)
		}
	}
	others := []*key{K2}
	for len(others) < max {
		name := fmt.Sprintf("K%d", len(others)+2)
		e, err := gen.CSNewKey(name)
		if err != nil {
			r.HarnessError("audit: key generation: %v", err)
			return
		}
		a, err := gen.CSArmorPublic(e)
		if err != nil {
			r.HarnessError("audit: armouring: %v", err)
			return
		}
		others = append(others, &key{name: name, ent: e, armor: a, fpr: gen.CSFingerprint(e)})
	}
	type kcase struct {
		sd  signedDoc
		e   string
		rs  ringSpec
		how string
	}
	var cases []kcase
	for _, v64 := range sizes {
		v := int(v64)
		for _, sd := range signed {
			if sd.signer != K1 || sd.light {
				continue
			}
			for _, e := range entries {
				first := append([]*key{K1}, others[:v-1]...)
				last := append(append([]*key{}, others[:v-1]...), K1)
				absent := append([]*key{}, others[:v]...)
				cases = append(cases, kcase{sd, e, ringSpec{kind: "list", keys: first}, "signer-first"},
					kcase{sd, e, ringSpec{kind: "list", keys: last}, "signer-last"},
					kcase{sd, e, ringSpec{kind: "list", keys: absent}, "signer-absent"})
			}
		}
	}
	r.Scenario("audit-keyring-sizes", map[string]interface{}{"keyring_sizes": sizes, "signer_position": []string{"first", "last", "absent"}},
		len(cases), func(i int, st *mc.Stats) bool {
			c := cases[i]
			// untampered, and with one byte of the signed text changed
			ts, _, _ := gen.CSRegion(c.sd.bytes)
			for _, f := range []*Fault{nil, {Op: "sub", Off: ts, Data: []byte{c.sd.bytes[ts] ^ 1}}} {
				in := In{Case: "signed", Doc: c.sd.m.Name, Entry: c.e, SignerFpr: K1.fpr, Signer: "K1", Orig: c.sd.bytes, Fault: f, Want: c.sd.want, WantErr: c.sd.m.WantErr}
				c.rs.fill(&in)
				res := check("audit-keyring-sizes", in)
				st.Evals++
				st.Traces++
				st.Nontrivial++
				st.Class(fmt.Sprintf("%s|%d-keys|%s", c.how, len(c.rs.keys), res.class))
				st.Violate(res.v)
			}
			return true
		})
}
