package c11

// Interleaved readers: 2 or 3 readers over DIFFERENT documents (different signers, different lengths, one unsigned
// text read with a nil keyring) whose operations open_i, next_i … next_i(EOF) are executed in EVERY interleaving
// (open before next per reader). Oracle per reader: exactly what it would deliver running alone — the paragraphs
// of ITS document (looked at only after the whole schedule), its signer, no error.

import (
	"bytes"
	"encoding/json"
	"fmt"
	"io"
	"strings"
	"sync"

	"golang.org/x/crypto/openpgp"

	"pault.ag/go/debian/control"

	"verifharness/gen"
	"verifharness/mc"
)

// IReader is one reader of an interleaving.
type IReader struct {
	Name    string
	Doc     []byte // what it reads
	Ring    []int  // key numbers of its keyring; nil with NilRing
	NilRing bool   // keyring pointer nil (unsigned text)
	Signer  int    // key number of the signer, -1 = unsigned text
	Want    []Para
}

// Inter is the replayable input of one interleaving.
type Inter struct {
	Keys     []string // armoured public keys
	Readers  []IReader
	Via      string // reader (NewParagraphReader + Next) | decoder (NewDecoder + Decode into one struct per step)
	Schedule []int  // reader index per operation; a reader's first operation opens it, each further one reads one paragraph (the last one hits EOF)
}

type liveReader struct {
	pr     *control.ParagraphReader
	dec    *control.Decoder
	kept   []*control.Paragraph
	keptW  []*wrap
	eof    bool
	err    string
	ring   *openpgp.EntityList
	opened bool
}

func checkInter(scen string, in In) verdict {
	it := in.Inter
	if it == nil || len(it.Readers) == 0 {
		return verdict{class: "invalid-input"}
	}
	var ents []*openpgp.Entity
	for _, a := range it.Keys {
		el, err := gen.CSReadKeyring([]string{a})
		if err != nil || len(el) != 1 {
			return verdict{class: "harness-error", o: obs{panicked: "harness: keyring unreadable"}}
		}
		ents = append(ents, el[0])
	}
	live := make([]*liveReader, len(it.Readers))
	for i, rd := range it.Readers {
		live[i] = &liveReader{}
		if !rd.NilRing {
			el := openpgp.EntityList{}
			for _, x := range rd.Ring {
				if x < 0 || x >= len(ents) {
					return verdict{class: "invalid-input"}
				}
				el = append(el, ents[x])
			}
			live[i].ring = &el
		}
		if rd.Signer >= len(ents) {
			return verdict{class: "invalid-input"}
		}
	}
	step := func(lr *liveReader, rd IReader) {
		p, msg := mc.Guard(func() {
			if !lr.opened {
				lr.opened = true
				var err error
				if it.Via == "decoder" {
					lr.dec, err = control.NewDecoder(bytes.NewReader(rd.Doc), lr.ring)
				} else {
					lr.pr, err = control.NewParagraphReader(bytes.NewReader(rd.Doc), lr.ring)
				}
				if err != nil {
					lr.err = "open: " + err.Error()
				}
				return
			}
			if it.Via == "decoder" {
				w := new(wrap)
				err := lr.dec.Decode(w)
				switch {
				case err == io.EOF:
					lr.eof = true
				case err != nil:
					lr.err = "decode: " + err.Error()
				default:
					lr.keptW = append(lr.keptW, w)
				}
				return
			}
			para, err := lr.pr.Next()
			switch {
			case err == io.EOF:
				lr.eof = true
			case err != nil:
				lr.err = "next: " + err.Error()
			default:
				lr.kept = append(lr.kept, para)
			}
		})
		if p {
			lr.err = "panic: " + msg
		}
	}
	for _, ri := range it.Schedule {
		if ri < 0 || ri >= len(live) {
			return verdict{class: "invalid-input"}
		}
		if lr := live[ri]; lr.err == "" && !lr.eof {
			step(lr, it.Readers[ri])
		}
	}
	// a reader that has not reached its end when the schedule is over (the library delivered MORE than the model has)
	// is read to its end — that is an outcome to judge, not a fault of the harness
	for i, lr := range live {
		for n := 0; lr.err == "" && !lr.eof; n++ {
			if n > 10000 {
				lr.err = "more than 10000 further paragraphs after the schedule"
				break
			}
			step(lr, it.Readers[i])
		}
	}
	// judge every reader AFTER the whole schedule
	for i, rd := range it.Readers {
		lr := live[i]
		var got []Para
		for _, p := range lr.kept {
			got = append(got, toPara(*p))
		}
		for _, w := range lr.keptW {
			got = append(got, toParaTyped(*w))
		}
		var signer *openpgp.Entity
		if lr.pr != nil {
			signer = lr.pr.Signer()
		} else if lr.dec != nil {
			signer = lr.dec.Signer()
		}
		o := obs{readErr: lr.err, delivered: got, signer: gen.CSFingerprint(signer), signerEnt: signer}
		mk := func(clause, expected string) verdict {
			v := mc.V(scen, clause, in, fmt.Sprintf("reader %d (%s), as if it ran alone: %s", i, rd.Name, expected), o.String(),
				"interleaved-readers", "via-"+it.Via, fmt.Sprintf("readers-%d", len(it.Readers)))
			return verdict{v: v, class: "unsound", o: o}
		}
		w, _ := jsonString(rd.Want)
		switch {
		case rd.Signer < 0:
			if o.signer != "" {
				return mk("unsigned-input-has-no-signer", "Signer() == nil")
			}
			if lr.err != "" || !parasEqual(got, rd.Want) {
				// unsigned text with a nil keyring: not a clause of C11 by itself, but text of ANOTHER reader's document
				// arriving here is ("text outside the signed block never reaches the caller" of that other reader is not
				// what this is — it is cross-talk); reported under its own clause
				return mk("reader-delivers-its-own-document", "no error and the paragraphs "+w)
			}
		default:
			if lr.err != "" || !parasEqual(got, rd.Want) {
				return mk("valid-signed-document-is-read-exactly", "no error and exactly the paragraphs of the text its reported signer signed: "+w)
			}
			if o.signer != gen.CSFingerprint(ents[rd.Signer]) {
				return mk("reported-signer-is-the-signing-key", "Signer() = "+gen.CSFingerprint(ents[rd.Signer]))
			}
			isElem := false
			for _, e := range *lr.ring {
				if e == signer {
					isElem = true
				}
			}
			if !isElem {
				return mk("reported-signer-is-entity-of-current-keyring", "Signer() is an element of this reader's keyring")
			}
		}
	}
	return verdict{class: "interleaving-ok"}
}

func jsonString(v interface{}) (string, error) {
	b, err := json.Marshal(v)
	return string(b), err
}

// schedules enumerates every interleaving of readers with ops[i] operations each (order within a reader fixed).
func schedules(ops []int) [][]int {
	var out [][]int
	left := append([]int(nil), ops...)
	total := 0
	for _, n := range ops {
		total += n
	}
	cur := make([]int, 0, total)
	var rec func()
	rec = func() {
		if len(cur) == total {
			out = append(out, append([]int(nil), cur...))
			return
		}
		for i := range left {
			if left[i] > 0 {
				left[i]--
				cur = append(cur, i)
				rec()
				cur = cur[:len(cur)-1]
				left[i]++
			}
		}
	}
	rec()
	return out
}

var isoMu sync.RWMutex

func interleavings(r *mc.Run, docs []mDoc, K1, K2 *key) {
	byName := map[string]mDoc{}
	for _, d := range docs {
		byName[d.Name] = d
	}
	one, two, three := byName["one-paragraph"], byName["two-paragraphs-multiline"], byName["three-paragraphs-different-fields"]
	// same length as "one-paragraph", other content
	oneB := mDoc{Name: "one-paragraph-other-content-same-length", EOL: "\n", Paras: [][]mField{{
		{Key: "Source", First: "hallo"}, {Key: "Version", First: "2.0-2"}, {Key: "Maintainer", First: "C D <c@d.example>"}}}}
	if len(oneB.text()) != len(one.text()) {
		r.HarnessError("interleavings: the same-length document has another length (%d vs %d)", len(oneB.text()), len(one.text()))
		return
	}
	keys := []*key{K1, K2}
	mkSigned := func(d mDoc, s int) (IReader, bool) {
		b, err := gen.CSClearsign(keys[s].ent, d.text(), d.EOL)
		if err != nil || !referenceVerifies(b, keys[s]) {
			r.HarnessError("interleavings: cannot sign %s", d.Name)
			return IReader{}, false
		}
		return IReader{Name: d.Name + " signed by " + keys[s].name + ", keyring [K1,K2]", Doc: b, Ring: []int{0, 1}, Signer: s, Want: d.want()}, true
	}
	var pool []IReader
	for _, x := range []struct {
		d mDoc
		s int
	}{{one, 0}, {oneB, 1}, {two, 0}, {three, 1}} {
		rd, ok := mkSigned(x.d, x.s)
		if !ok {
			return
		}
		pool = append(pool, rd)
	}
	unsignedTwo := mDoc{Name: "unsigned", EOL: "\n", Paras: [][]mField{{{Key: "Package", First: "plain"}, {Key: "Note", First: "not signed"}}}}
	pool = append(pool, IReader{Name: "unsigned text, nil keyring", Doc: unsignedTwo.text(), NilRing: true, Signer: -1, Want: unsignedTwo.want()})
	// combinations: every pair; triples without the longest document in quick
	type combo []int
	var combos []combo
	for a := 0; a < len(pool); a++ {
		for b := a + 1; b < len(pool); b++ {
			combos = append(combos, combo{a, b})
		}
	}
	for a := 0; a < len(pool); a++ {
		for b := a + 1; b < len(pool); b++ {
			for c := b + 1; c < len(pool); c++ {
				if r.Quick() && (a == 3 || b == 3 || c == 3) {
					continue // the three-paragraph document takes part in the triples in the thorough tier
				}
				combos = append(combos, combo{a, b, c})
			}
		}
	}
	type icase struct {
		readers []IReader
		via     string
		sched   []int
	}
	var cases []icase
	perCombo := map[string]int{}
	for _, cb := range combos {
		var rs []IReader
		var ops []int
		var names []string
		for _, x := range cb {
			rs = append(rs, pool[x])
			ops = append(ops, 2+len(pool[x].Want)) // open, one next per paragraph, the next that hits EOF
			names = append(names, pool[x].Name)
		}
		ss := schedules(ops)
		perCombo[strings.Join(names, " + ")] = len(ss)
		for _, via := range []string{"reader", "decoder"} {
			for _, s := range ss {
				cases = append(cases, icase{rs, via, s})
			}
		}
	}
	armoured := []string{K1.armor, K2.armor}
	const chunk = 256
	nsh := (len(cases) + chunk - 1) / chunk
	r.Scenario("interleaved-readers", map[string]interface{}{"reader_pool": len(pool), "combinations": len(combos), "interleavings_per_combination": perCombo,
		"operations": "open_i, next_i per paragraph, next_i hitting EOF; every interleaving with open before next per reader", "via": []string{"NewParagraphReader+Next", "NewDecoder+Decode(struct)"},
		"text_lengths": map[string]int{"one-paragraph": len(one.text()), "same-length-other-content": len(oneB.text()), "two-paragraphs": len(two.text()), "three-paragraphs": len(three.text()), "unsigned": len(unsignedTwo.text())}},
		nsh, func(sh int, st *mc.Stats) bool {
			for q := sh * chunk; q < (sh+1)*chunk && q < len(cases); q++ {
				if q%64 == 0 && r.Expired() {
					return false
				}
				c := cases[q]
				in := In{Case: "interleave", Inter: &Inter{Keys: armoured, Readers: c.readers, Via: c.via, Schedule: c.sched}}
				isoMu.RLock()
				res := check("interleaved-readers", in)
				isoMu.RUnlock()
				if res.v != nil {
					// shards run in parallel; a violation is re-executed with every other worker of this scenario paused, so
					// that the artefact says whether it needs concurrency (state shared between goroutines) or not
					isoMu.Lock()
					again := check("interleaved-readers", in)
					isoMu.Unlock()
					if again.v != nil {
						res = again
						res.v.Observed += " [reproduced with every other worker paused]"
					} else {
						res.v.Observed += " [seen only while other workers were reading too: state shared between goroutines]"
					}
				}
				st.Evals += int64(len(c.sched))
				st.Traces++
				st.States++
				st.Transitions += int64(len(c.sched))
				st.Nontrivial++
				st.Class(res.class)
				if res.class == "invalid-input" || res.class == "harness-error" {
					r.HarnessError("interleavings: %s %s", res.class, res.o.readErr+res.o.panicked)
					return false
				}
				st.Violate(res.v)
				if q%4999 == 0 && st.WantSample() {
					var n []string
					for _, x := range c.readers {
						n = append(n, x.Name)
					}
					st.Sample(map[string]interface{}{"readers": n, "via": c.via, "schedule": c.sched, "outcome": res.class})
				}
			}
			return true
		})
}
