package c11

// Large signed documents: sizes the other scenarios do not reach — physical lines around 4 KiB (bufio's default
// buffer), 64 KiB (bufio.Scanner's token limit) and beyond, many paragraphs, many fields, and totals that cross 4096 /
// 65536 bytes exactly at a paragraph boundary. Every document is read through all access paths untampered (must be
// read exactly) and with one byte near the end of the signed text flipped (must fail).

import (
	"fmt"
	"strings"

	"verifharness/gen"
	"verifharness/mc"
)

func largeDocuments(thorough bool) []mDoc {
	var out []mDoc
	tail := func() []mField { // what follows the large part: must still arrive
		return []mField{{Key: "Homepage", First: "https://example.org/after"}, {Key: "Description", First: "after the long line", Cont: []string{"still here"}}}
	}
	second := []mField{{Key: "Package", First: "second-paragraph"}, {Key: "Architecture", First: "all"}}
	fill := func(n int, c byte) string {
		if n < 0 {
			n = 0
		}
		return strings.Repeat(string(c), n)
	}
	lengths := []int{4095, 4096, 4097, 8192, 65535, 65536, 65537, 200000}
	for _, L := range lengths {
		// the physical line (without its line end) is exactly L bytes long
		val := []mField{{Key: "Source", First: "big"}, {Key: "Build-Depends", First: fill(L-len("Build-Depends: "), 'v')}}
		out = append(out, mDoc{Name: fmt.Sprintf("line-%d-bytes-as-field-value", L), EOL: "\n", Paras: [][]mField{append(val, tail()...), second}})
		cont := []mField{{Key: "Source", First: "big"}, {Key: "Files", First: "", Cont: []string{"short", fill(L-1, 'c'), "short again"}}}
		out = append(out, mDoc{Name: fmt.Sprintf("line-%d-bytes-as-continuation-line", L), EOL: "\n", Paras: [][]mField{append(cont, tail()...), second}})
		com := []mField{{Key: "Source", First: "big"}, {Key: "Version", First: "1.0", Comment: fill(L-1, 'k')}}
		out = append(out, mDoc{Name: fmt.Sprintf("line-%d-bytes-as-comment", L), EOL: "\n", Paras: [][]mField{append(com, tail()...), second}})
	}
	out = append(out, mDoc{Name: "line-4096-bytes-as-field-value-crlf", EOL: "\r\n", Paras: [][]mField{
		{{Key: "Source", First: "big"}, {Key: "Build-Depends", First: fill(4096-len("Build-Depends: "), 'v')}, {Key: "Homepage", First: "after"}}, second}})
	// many paragraphs with alternating field sets; many fields
	for _, n := range []int{100, 1000} {
		var ps [][]mField
		for i := 0; i < n; i++ {
			p := []mField{{Key: "Package", First: fmt.Sprintf("pkg-%d", i)}}
			if i%2 == 0 {
				p = append(p, mField{Key: "Version", First: fmt.Sprintf("%d.0", i)}, mField{Key: "Description", First: "even", Cont: []string{fmt.Sprintf("line %d", i)}})
			}
			if i%3 == 0 {
				p = append([]mField{{Key: "Source", First: fmt.Sprintf("src-%d", i)}}, p...)
			}
			ps = append(ps, p)
		}
		out = append(out, mDoc{Name: fmt.Sprintf("%d-paragraphs", n), EOL: "\n", Paras: ps})
	}
	var many []mField
	for i := 0; i < 300; i++ {
		many = append(many, mField{Key: fmt.Sprintf("X-Field-%03d", i), First: fmt.Sprintf("value %d", i)})
	}
	out = append(out, mDoc{Name: "300-fields-in-a-paragraph", EOL: "\n", Paras: [][]mField{many, second}})
	// totals crossing 4096 / 65536 exactly at a paragraph boundary, in the text as written and in its canonical (CRLF) form
	for _, target := range []int{4096, 65536} {
		for _, measure := range []string{"as-written", "canonical"} {
			for _, delta := range []int{-1, 0, 1} {
				mk := func(pad int) mDoc {
					first := []mField{{Key: "Package", First: "first"}, {Key: "X-Pad", First: fill(pad, 'p')}}
					return mDoc{Name: fmt.Sprintf("first-paragraph-ends-at-%d%+d-bytes-%s", target, delta, measure), EOL: "\n",
						Paras: [][]mField{first, {{Key: "Package", First: "second"}, {Key: "Version", First: "2"}}, {{Key: "Package", First: "third"}}}}
				}
				size := func(d mDoc) int { // offset of the end of the first paragraph (its last line end included)
					one := mDoc{EOL: d.EOL, Paras: d.Paras[:1]}
					t := one.text()
					if measure == "canonical" {
						return len(t) + strings.Count(string(t), "\n")
					}
					return len(t)
				}
				base := size(mk(0))
				d := mk(target + delta - base)
				if size(d) == target+delta {
					out = append(out, d)
				}
			}
		}
	}
	_ = thorough
	return out
}

func largeSigned(r *mc.Run, K1 *key, entries []string) {
	docs := largeDocuments(!r.Quick())
	type lcase struct {
		name  string
		bytes []byte
		want  []Para
	}
	var cases []lcase
	for _, d := range docs {
		b, err := gen.CSClearsign(K1.ent, d.text(), d.EOL)
		if err != nil {
			r.HarnessError("large documents: signing %s: %v", d.Name, err)
			return
		}
		if !referenceVerifies(b, K1) {
			r.HarnessError("large documents: the reference implementation does not verify our %s", d.Name)
			return
		}
		cases = append(cases, lcase{d.Name, b, d.want()})
	}
	ring := ringSpec{kind: "list", keys: []*key{K1}}
	var names []string
	for _, c := range cases {
		names = append(names, c.name)
	}
	r.Scenario("large-signed-documents", map[string]interface{}{"documents": names, "entry_points": entries,
		"per_document": "untampered through every access path (must be read exactly), and one byte near the end of the signed text flipped (must fail)"},
		len(cases)*len(entries), func(sh int, st *mc.Stats) bool {
			c, e := cases[sh/len(entries)], entries[sh%len(entries)]
			_, te, ok := gen.CSRegion(c.bytes)
			if !ok || te < 3 {
				r.HarnessError("large documents: no signed region in %s", c.name)
				return false
			}
			for _, f := range []*Fault{nil, {Op: "sub", Off: te - 2, Data: []byte{c.bytes[te-2] ^ 0x01}}} {
				in := In{Case: "signed", Doc: c.name, Entry: e, SignerFpr: K1.fpr, Signer: "K1", Orig: c.bytes, Fault: f, Want: c.want}
				ring.fill(&in)
				res := check("large-signed-documents", in)
				st.Evals++
				st.Traces++
				st.Nontrivial++
				st.States++
				what := "untampered"
				if f != nil {
					what = "last-text-byte-flipped"
				}
				st.Class(what + ":" + res.class)
				st.Violate(res.v)
				if sh%23 == 0 && st.WantSample() {
					st.Sample(map[string]interface{}{"doc": c.name, "bytes": len(c.bytes), "entry": e, "case": what, "outcome": res.class, "paragraphs": len(res.o.delivered)})
				}
			}
			return true
		})
}
