package c11

// Keyring histories: ONE keyring variable, passed by the same pointer, across a sequence of reads, with the
// variable changed in place between the reads (replace an element, append, truncate, swap, empty, nil, reassign
// to a fresh list). Oracle for every read: it is accepted iff the signing key is in the keyring AS IT IS AT THAT
// CALL, and the reported signer is that element of the current keyring. Exhaustive over the small menu.

import (
	"fmt"
	"strings"

	"golang.org/x/crypto/openpgp"

	"verifharness/gen"
	"verifharness/mc"
)

// HStep: the change made to the keyring variable BEFORE the read, and the read.
type HStep struct {
	Op     string // none | replace | append | truncate | swap | empty | nil | fresh
	I, J   int    // replace: position I; swap: positions I, J
	X      []int  // replace / append: the key put in (X[0]); fresh: the new list
	Signer int    // which key signed the document that is read
	Entry  string // reader | decoder
}

// Hist is the replayable input of one history.
type Hist struct {
	Keys  []string // armoured public keys, index = key number
	Names []string
	Docs  [][]byte // Docs[s]: the document signed by key s (same text for all)
	Init  []int    // the keyring before the first read
	Steps []HStep
}

func (s HStep) String() string {
	op := s.Op
	switch s.Op {
	case "replace":
		op = fmt.Sprintf("ring[%d]=K%d", s.I, s.X[0]+1)
	case "append":
		op = fmt.Sprintf("append K%d", s.X[0]+1)
	case "swap":
		op = fmt.Sprintf("swap %d,%d", s.I, s.J)
	case "fresh":
		var n []string
		for _, x := range s.X {
			n = append(n, fmt.Sprintf("K%d", x+1))
		}
		op = "ring=[" + strings.Join(n, ",") + "] (fresh list)"
	}
	return fmt.Sprintf("%s; read doc signed by K%d via %s", op, s.Signer+1, s.Entry)
}

// applyModel applies a step's change to the model keyring (key numbers); ok=false if the step is not applicable.
func (s HStep) applyModel(m []int) ([]int, bool) {
	has := func(x int) bool {
		for _, y := range m {
			if y == x {
				return true
			}
		}
		return false
	}
	switch s.Op {
	case "none":
		return m, true
	case "replace":
		if s.I < 0 || s.I >= len(m) || len(s.X) != 1 || has(s.X[0]) {
			return nil, false
		}
		out := append([]int(nil), m...)
		out[s.I] = s.X[0]
		return out, true
	case "append":
		if len(s.X) != 1 || has(s.X[0]) {
			return nil, false
		}
		return append(append([]int(nil), m...), s.X[0]), true
	case "truncate":
		if len(m) == 0 {
			return nil, false
		}
		return append([]int(nil), m[:len(m)-1]...), true
	case "swap":
		if s.I < 0 || s.J < 0 || s.I >= len(m) || s.J >= len(m) || s.I == s.J {
			return nil, false
		}
		out := append([]int(nil), m...)
		out[s.I], out[s.J] = out[s.J], out[s.I]
		return out, true
	case "empty", "nil":
		return []int{}, true
	case "fresh":
		return append([]int(nil), s.X...), true
	}
	return nil, false
}

// applyReal applies the same change to the real keyring VARIABLE (whose address is what the library gets).
func (s HStep) applyReal(ring *openpgp.EntityList, ents []*openpgp.Entity) {
	switch s.Op {
	case "replace":
		(*ring)[s.I] = ents[s.X[0]] // in place: same backing array, same length
	case "append":
		*ring = append(*ring, ents[s.X[0]])
	case "truncate":
		*ring = (*ring)[:len(*ring)-1]
	case "swap":
		(*ring)[s.I], (*ring)[s.J] = (*ring)[s.J], (*ring)[s.I]
	case "empty":
		*ring = (*ring)[:0]
	case "nil":
		*ring = nil
	case "fresh":
		n := openpgp.EntityList{}
		for _, x := range s.X {
			n = append(n, ents[x])
		}
		*ring = n
	}
}

// checkHist is the oracle for one history (plain function of the input).
func checkHist(scen string, in In) verdict {
	h := in.Hist
	if h == nil || len(h.Keys) == 0 || len(h.Keys) != len(h.Docs) {
		return verdict{class: "invalid-input"}
	}
	var ents []*openpgp.Entity
	for _, a := range h.Keys {
		el, err := gen.CSReadKeyring([]string{a})
		if err != nil || len(el) != 1 {
			return verdict{class: "harness-error", failed: true, positive: true, o: obs{panicked: "harness: keyring unreadable"}}
		}
		ents = append(ents, el[0])
	}
	model := append([]int(nil), h.Init...)
	ring := openpgp.EntityList{}
	for _, x := range h.Init {
		if x < 0 || x >= len(ents) {
			return verdict{class: "invalid-input"}
		}
		ring = append(ring, ents[x])
	}
	ringPtr := &ring // the one pointer every read gets
	res := verdict{class: "history-ok"}
	for k, st := range h.Steps {
		for _, x := range st.X {
			if x < 0 || x >= len(ents) {
				return verdict{class: "invalid-input"}
			}
		}
		if st.Signer < 0 || st.Signer >= len(ents) {
			return verdict{class: "invalid-input"}
		}
		nm, ok := st.applyModel(model)
		if !ok {
			return verdict{class: "invalid-input"}
		}
		model = nm
		st.applyReal(ringPtr, ents)
		o := observeRing(st.Entry, h.Docs[st.Signer], ringPtr)
		res.o = o
		inRing := false
		var ringNames []string
		for _, x := range model {
			ringNames = append(ringNames, fmt.Sprintf("K%d", x+1))
			if x == st.Signer {
				inRing = true
			}
		}
		where := fmt.Sprintf("read %d of %d (keyring now [%s] after: %s)", k+1, len(h.Steps), strings.Join(ringNames, ","), st)
		mk := func(clause, expected string) verdict {
			v := mc.V(scen, clause, in, where+": "+expected, o.String(), "history", "entry-"+st.Entry, "change-before-read-"+st.Op, fmt.Sprintf("read-%d", k+1))
			return verdict{v: v, class: "unsound", o: o}
		}
		got := o.success() || len(o.delivered) > 0
		switch {
		case !inRing && got:
			return mk("signer-outside-current-keyring-must-fail", "an error and no paragraphs: the signing key is not in the keyring as it is at this call")
		case inRing && !o.success():
			return mk("signer-in-current-keyring-is-accepted", "success: the signing key is in the keyring as it is at this call (the same document verified in the keyring matrix)")
		case inRing:
			if o.signer != gen.CSFingerprint(ents[st.Signer]) {
				return mk("reported-signer-is-the-signing-key", "Signer() = the signing key "+gen.CSFingerprint(ents[st.Signer]))
			}
			isElem := false
			for _, e := range *ringPtr {
				if e == o.signerEnt {
					isElem = true
				}
			}
			if !isElem {
				return mk("reported-signer-is-entity-of-current-keyring", "Signer() is an element of the keyring passed to this call")
			}
			if !parasEqual(o.delivered, in.Want) {
				return mk("paragraphs-are-exactly-the-signed-text", "the signed paragraphs")
			}
		}
	}
	return res
}

// keyringHistories enumerates all histories of nReads reads over the menu.
func keyringHistories(r *mc.Run, doc mDoc, K1, K2 *key, entries []string) {
	k3e, err := gen.CSNewKey("K3")
	if err != nil {
		r.HarnessError("key generation failed: %v", err)
		return
	}
	a3, err := gen.CSArmorPublic(k3e)
	if err != nil {
		r.HarnessError("armouring K3: %v", err)
		return
	}
	keys := []*key{K1, K2, {name: "K3", ent: k3e, armor: a3, fpr: gen.CSFingerprint(k3e)}}
	base := Hist{}
	for _, k := range keys {
		b, err := gen.CSClearsign(k.ent, doc.text(), doc.EOL)
		if err != nil {
			r.HarnessError("signing for histories: %v", err)
			return
		}
		base.Keys = append(base.Keys, k.armor)
		base.Names = append(base.Names, k.name)
		base.Docs = append(base.Docs, b)
	}
	want := doc.want()
	nReads := r.Pick(3, 4)
	// the menu of changes applicable to a model keyring
	menu := func(m []int) []HStep {
		out := []HStep{{Op: "none"}, {Op: "empty"}, {Op: "nil"}}
		in := map[int]bool{}
		for _, x := range m {
			in[x] = true
		}
		for x := 0; x < len(keys); x++ {
			if in[x] {
				continue
			}
			out = append(out, HStep{Op: "append", X: []int{x}})
			for i := range m {
				out = append(out, HStep{Op: "replace", I: i, X: []int{x}})
			}
		}
		if len(m) > 0 {
			out = append(out, HStep{Op: "truncate"})
		}
		for i := 0; i < len(m); i++ {
			for j := i + 1; j < len(m); j++ {
				out = append(out, HStep{Op: "swap", I: i, J: j})
			}
		}
		// reassign to a fresh list: every single key, the same contents again, the reversed contents
		for x := 0; x < len(keys); x++ {
			out = append(out, HStep{Op: "fresh", X: []int{x}})
		}
		if len(m) > 0 {
			out = append(out, HStep{Op: "fresh", X: append([]int(nil), m...)})
		}
		if len(m) > 1 {
			rev := make([]int, len(m))
			for i, x := range m {
				rev[len(m)-1-i] = x
			}
			out = append(out, HStep{Op: "fresh", X: rev})
		}
		return out
	}
	// entry-point patterns over the reads
	var patterns [][]string
	for _, a := range entries {
		for _, b := range entries {
			p := make([]string, nReads)
			for k := range p {
				if k%2 == 0 {
					p[k] = a
				} else {
					p[k] = b
				}
			}
			patterns = append(patterns, p)
		}
	}
	type hcase struct {
		init  []int
		steps []HStep
	}
	var cases []hcase
	var rec func(init, m []int, steps []HStep)
	rec = func(init, m []int, steps []HStep) {
		if len(steps) == nReads {
			cases = append(cases, hcase{init, append([]HStep(nil), steps...)})
			return
		}
		ops := menu(m)
		if len(steps) == 0 {
			ops = []HStep{{Op: "none"}} // the first read sees the initial keyring
		}
		for _, op := range ops {
			nm, ok := op.applyModel(m)
			if !ok {
				continue
			}
			for s := 0; s < len(keys); s++ {
				op.Signer = s
				rec(init, nm, append(steps, op))
			}
		}
	}
	for _, init := range [][]int{{0}, {0, 1}} {
		rec(init, init, nil)
	}
	const chunk = 64
	nsh := (len(cases) + chunk - 1) / chunk
	r.Scenario("keyring-histories", map[string]interface{}{"reads_per_history": nReads, "keys": []string{"K1", "K2", "K3"}, "initial_keyrings": []string{"[K1]", "[K1,K2]"},
		"changes_between_reads": "none, replace element i in place (same length), append, truncate, swap two elements, set to empty, set to nil, reassign to a fresh list (each single key / same contents / reversed)",
		"signer_per_read":       "K1 | K2 | K3 (so: in the keyring before only / after only / both / neither)", "entry_point_patterns": patterns,
		"histories_per_pattern": len(cases), "same_pointer": true}, nsh*len(patterns), func(sh int, st *mc.Stats) bool {
		pat := patterns[sh/nsh]
		lo := (sh % nsh) * chunk
		for q := lo; q < lo+chunk && q < len(cases); q++ {
			if q%16 == 0 && r.Expired() {
				return false
			}
			h := base
			h.Init = cases[q].init
			h.Steps = append([]HStep(nil), cases[q].steps...)
			changed := false
			for k := range h.Steps {
				h.Steps[k].Entry = pat[k]
				if h.Steps[k].Op != "none" {
					changed = true
				}
			}
			in := In{Case: "history", Doc: doc.Name, Hist: &h, Want: want}
			res := check("keyring-histories", in)
			st.Evals += int64(len(h.Steps))
			st.Traces += int64(len(h.Steps))
			st.States++
			st.Transitions += int64(len(h.Steps))
			if changed {
				st.Nontrivial++
			}
			st.Class(res.class)
			if strings.HasPrefix(res.o.panicked, "harness:") {
				r.HarnessError("history: %s", res.o.panicked)
				return false
			}
			st.Violate(res.v)
			if q%1499 == 0 && st.WantSample() {
				var d []string
				for _, s := range h.Steps {
					d = append(d, s.String())
				}
				st.Sample(map[string]interface{}{"initial": h.Init, "history": d, "outcome": res.class})
			}
		}
		return true
	})
}
