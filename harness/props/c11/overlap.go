package c11

// Overlapping reads: reader A is opened on a GATED input that has delivered some of its bytes but not yet its end
// when reader B reads a complete document; then A's input ends and A goes on. Real goroutines, no sleeps: the gate
// decides the order, and every gate position of the small menu is executed. Run on one worker, so nothing else
// touches the library meanwhile. Oracle: each reader gets exactly its own document (a tampered A must still fail).

import (
	"bytes"
	"fmt"
	"io"
	"time"

	"golang.org/x/crypto/openpgp"

	"pault.ag/go/debian/control"

	"verifharness/gen"
	"verifharness/mc"
)

// Overlap is the replayable input.
type Overlap struct {
	Keys    []string
	Prior   *IReader // a read completed before A starts (nil: none)
	A, B    IReader
	ATamper bool   // A's document has one byte of its signed text changed: A must fail
	GateAt  int    // A's input blocks after this many bytes (-1: after all bytes, before reporting the end)
	Via     string // reader | decoder
	BTwice  bool   // B is read twice while A waits
}

// gatedReader delivers data[:at], then announces that it is waiting, blocks until released, and delivers the rest.
type gatedReader struct {
	data    []byte
	pos, at int
	reached chan struct{}
	release chan struct{}
	waited  bool
}

func (g *gatedReader) Read(p []byte) (int, error) {
	if !g.waited && g.pos >= g.at {
		g.waited = true
		close(g.reached)
		<-g.release
	}
	if g.pos >= len(g.data) {
		return 0, io.EOF
	}
	end := len(g.data)
	if !g.waited && g.at < end {
		end = g.at
	}
	n := copy(p, g.data[g.pos:end])
	g.pos += n
	return n, nil
}

type readResult struct {
	o obs
}

func readAll(via string, src io.Reader, ring *openpgp.EntityList) (o obs) {
	p, msg := mc.Guard(func() {
		if via == "decoder" {
			dec, err := control.NewDecoder(src, ring)
			if err != nil {
				o.ctorErr = err.Error()
				return
			}
			o.signerEnt, o.signer = dec.Signer(), gen.CSFingerprint(dec.Signer())
			var out []wrap
			err = dec.Decode(&out)
			for _, w := range out {
				o.delivered = append(o.delivered, toParaTyped(w))
			}
			if err != nil {
				o.readErr = err.Error()
			}
			return
		}
		pr, err := control.NewParagraphReader(src, ring)
		if err != nil {
			o.ctorErr = err.Error()
			return
		}
		o.signerEnt, o.signer = pr.Signer(), gen.CSFingerprint(pr.Signer())
		var kept []*control.Paragraph
		for i := 0; i < 10000; i++ {
			para, err := pr.Next()
			if err == io.EOF {
				break
			}
			if err != nil {
				o.readErr = err.Error()
				break
			}
			kept = append(kept, para)
		}
		for _, p := range kept {
			o.delivered = append(o.delivered, toPara(*p))
		}
	})
	if p {
		o.panicked = msg
	}
	return
}

func checkOverlap(scen string, in In) verdict {
	ov := in.Over
	if ov == nil {
		return verdict{class: "invalid-input"}
	}
	var ents []*openpgp.Entity
	for _, a := range ov.Keys {
		el, err := gen.CSReadKeyring([]string{a})
		if err != nil || len(el) != 1 {
			return verdict{class: "harness-error", o: obs{panicked: "harness: keyring unreadable"}}
		}
		ents = append(ents, el[0])
	}
	ringOf := func(rd IReader) *openpgp.EntityList {
		if rd.NilRing {
			return nil
		}
		el := openpgp.EntityList{}
		for _, x := range rd.Ring {
			if x >= 0 && x < len(ents) {
				el = append(el, ents[x])
			}
		}
		return &el
	}
	if ov.Prior != nil {
		readAll(ov.Via, bytes.NewReader(ov.Prior.Doc), ringOf(*ov.Prior))
	}
	docA := ov.A.Doc
	if ov.ATamper {
		ts, _, ok := gen.CSRegion(docA)
		if !ok {
			return verdict{class: "invalid-input"}
		}
		docA = (&Fault{Op: "sub", Off: ts, Data: []byte{docA[ts] ^ 0x01}}).apply(docA)
	}
	at := ov.GateAt
	if at < 0 || at > len(docA) {
		at = len(docA)
	}
	g := &gatedReader{data: docA, at: at, reached: make(chan struct{}), release: make(chan struct{})}
	ringA, ringB := ringOf(ov.A), ringOf(ov.B)
	doneA := make(chan obs, 1)
	go func() { doneA <- readAll(ov.Via, g, ringA) }()
	var oA, oB obs
	gotA := false
	select {
	case <-g.reached:
	case oA = <-doneA: // A finished without ever reading up to the gate
		gotA = true
	case <-time.After(180 * time.Second):
		close(g.release)
		return verdict{class: "unsound", v: mc.V(scen, "reads-terminate", in, "reader A reaches the gate of its input or finishes", "neither within 180 s", "overlapping-reads")}
	}
	oB = readAll(ov.Via, bytes.NewReader(ov.B.Doc), ringB)
	if ov.BTwice {
		oB = readAll(ov.Via, bytes.NewReader(ov.B.Doc), ringB)
	}
	if !gotA {
		close(g.release)
		select {
		case oA = <-doneA:
		case <-time.After(180 * time.Second):
			return verdict{class: "unsound", v: mc.V(scen, "reads-terminate", in, "reader A finishes after its input ended", "not within 180 s", "overlapping-reads")}
		}
	}
	judge := func(who string, rd IReader, ring *openpgp.EntityList, o obs, mustFail bool) *mc.Violation {
		mk := func(clause, expected string) *mc.Violation {
			return mc.V(scen, clause, in, fmt.Sprintf("reader %s (%s), as if it ran alone: %s", who, rd.Name, expected), o.String(),
				"overlapping-reads", "via-"+ov.Via, fmt.Sprintf("gate-at-%d", ov.GateAt))
		}
		w, _ := jsonString(rd.Want)
		switch {
		case mustFail:
			if o.success() || len(o.delivered) > 0 {
				return mk("modified-signed-text-must-fail", "an error and no paragraphs: its own document is tampered with")
			}
		case rd.Signer < 0:
			if o.signer != "" {
				return mk("unsigned-input-has-no-signer", "Signer() == nil")
			}
			if !o.success() || !parasEqual(o.delivered, rd.Want) {
				return mk("reader-delivers-its-own-document", "no error and the paragraphs "+w)
			}
		default:
			if !o.success() || !parasEqual(o.delivered, rd.Want) {
				return mk("valid-signed-document-is-read-exactly", "no error and exactly the paragraphs of its own document: "+w)
			}
			if o.signer != gen.CSFingerprint(ents[rd.Signer]) {
				return mk("reported-signer-is-the-signing-key", "Signer() = "+gen.CSFingerprint(ents[rd.Signer]))
			}
			isElem := false
			for _, e := range *ring {
				if e == o.signerEnt {
					isElem = true
				}
			}
			if !isElem {
				return mk("reported-signer-is-entity-of-current-keyring", "Signer() is an element of this reader's keyring")
			}
		}
		return nil
	}
	if v := judge("A", ov.A, ringA, oA, ov.ATamper); v != nil {
		return verdict{v: v, class: "unsound", o: oA}
	}
	if v := judge("B", ov.B, ringB, oB, false); v != nil {
		return verdict{v: v, class: "unsound", o: oB}
	}
	return verdict{class: "overlap-ok"}
}

func overlappingReads(r *mc.Run, docs []mDoc, K1, K2 *key) {
	byName := map[string]mDoc{}
	for _, d := range docs {
		byName[d.Name] = d
	}
	keys := []*key{K1, K2}
	mk := func(d mDoc, s int) (IReader, bool) {
		b, err := gen.CSClearsign(keys[s].ent, d.text(), d.EOL)
		if err != nil || !referenceVerifies(b, keys[s]) {
			r.HarnessError("overlapping reads: cannot sign %s", d.Name)
			return IReader{}, false
		}
		return IReader{Name: d.Name + " signed by " + keys[s].name, Doc: b, Ring: []int{0, 1}, Signer: s, Want: d.want()}, true
	}
	one, two, three := byName["one-paragraph"], byName["two-paragraphs-multiline"], byName["three-paragraphs-different-fields"]
	oneB := mDoc{Name: "one-paragraph-other-content-same-length", EOL: "\n", Paras: [][]mField{{
		{Key: "Source", First: "hallo"}, {Key: "Version", First: "2.0-2"}, {Key: "Maintainer", First: "C D <c@d.example>"}}}}
	var as, bs []IReader
	for _, x := range []struct {
		d mDoc
		s int
	}{{two, 0}, {one, 0}} {
		rd, ok := mk(x.d, x.s)
		if !ok {
			return
		}
		as = append(as, rd)
	}
	for _, x := range []struct {
		d mDoc
		s int
	}{{oneB, 1}, {three, 1}, {one, 1}} {
		rd, ok := mk(x.d, x.s)
		if !ok {
			return
		}
		bs = append(bs, rd)
	}
	plain := mDoc{Name: "unsigned", EOL: "\n", Paras: [][]mField{{{Key: "Package", First: "plain"}, {Key: "Note", First: "not signed"}}}}
	bs = append(bs, IReader{Name: "unsigned text, nil keyring", Doc: plain.text(), NilRing: true, Signer: -1, Want: plain.want()})
	prior, ok := mk(three, 0)
	if !ok {
		return
	}
	var cases []Overlap
	armoured := []string{K1.armor, K2.armor}
	for _, withPrior := range []bool{true, false} {
		for _, a := range as {
			for _, b := range bs {
				for _, tam := range []bool{false, true} {
					for _, gate := range []int{0, 1, 15, 16, len(a.Doc) / 2, len(a.Doc) - 1, -1} {
						for _, via := range []string{"reader", "decoder"} {
							for _, twice := range []bool{false, true} {
								o := Overlap{Keys: armoured, A: a, B: b, ATamper: tam, GateAt: gate, Via: via, BTwice: twice}
								if withPrior {
									p := prior
									o.Prior = &p
								}
								cases = append(cases, o)
							}
						}
					}
				}
			}
		}
	}
	r.Scenario("overlapping-reads", map[string]interface{}{"cases": len(cases), "earlier_completed_read": []bool{true, false}, "reader_A": 2, "reader_B": len(bs), "A_tampered": []bool{false, true},
		"gate_positions": "A's input blocks after 0 / 1 / 15 / 16 bytes, half, all but one byte, all bytes (before reporting its end)", "B": "one complete read, or two", "via": []string{"reader", "decoder"},
		"single_worker": "yes: real goroutines per case, ordered by the gate, nothing else runs"}, 1, func(_ int, st *mc.Stats) bool {
		for q := range cases {
			if q%16 == 0 && r.Expired() {
				return false
			}
			c := cases[q]
			in := In{Case: "overlap", Over: &c}
			res := check("overlapping-reads", in)
			if res.class == "harness-error" || res.class == "invalid-input" {
				r.HarnessError("overlapping reads: %s", res.class)
				return false
			}
			st.Evals += 2
			st.Traces++
			st.States++
			st.Nontrivial++
			st.Class(res.class)
			st.Violate(res.v)
			if q%97 == 0 && st.WantSample() {
				st.Sample(map[string]interface{}{"A": c.A.Name, "B": c.B.Name, "A_tampered": c.ATamper, "gate_at": c.GateAt, "via": c.Via, "earlier_read": c.Prior != nil, "outcome": res.class})
			}
		}
		return true
	})
}
