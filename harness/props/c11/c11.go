// Package c11: clearsigned control data is accepted only with a valid keyring signature.
//
// Everything is enumerated (no sampling): a complete signer × keyring × document × entry-point matrix, and for
// each clearsigned document every single-byte substitution / deletion / insertion / truncation position plus a
// fixed list of splices. The oracle is SOUNDNESS: whatever the library hands out under a reported signer must be
// exactly the text that key signed; a fault that changes the canonical signed text must make reading fail.
package c11

import (
	"bytes"
	"encoding/hex"
	"encoding/json"
	"fmt"
	"io"
	"os"
	"os/exec"
	"path/filepath"
	"reflect"
	"sort"
	"strings"
	"sync"
	"unicode/utf8"

	"golang.org/x/crypto/openpgp"
	"golang.org/x/crypto/openpgp/clearsign"

	"pault.ag/go/debian/control"

	"verifharness/gen"
	"verifharness/mc"
	"verifharness/props/reg"
)

func init() { reg.Register(&reg.Prop{ID: "C11", Run: Run, Replay: Replay}) }

// ---------------------------------------------------------------------------------------------------------
// document model

// Para is a paragraph as the caller sees it.
type Para struct {
	Order  []string
	Values map[string]string
}

type mField struct {
	Key     string
	First   string   // text on the key line
	Pad     string   // blanks after First (not part of the value)
	Cont    []string // continuation lines as the VALUE has them ("" = an empty line, written " .")
	CPad    []string // blanks after each continuation line (not part of the value)
	Comment string   // if set: a comment line "#…" written before the key line (not part of anything)
}

type mDoc struct {
	Name    string
	EOL     string
	Paras   [][]mField
	Raw     []byte // degenerate documents: the text as such (no paragraph in it); nil otherwise
	IsRaw   bool
	WantErr bool // the signed text is malformed control data: after the paragraphs in Paras (if any) reading must FAIL, although the signature verifies
	Exotic  bool // bytes outside printable ASCII / degenerate text: not shown to gpgv (its line handling is not the reference here)
}

// text renders the model as control-file text.
func (d mDoc) text() []byte {
	if d.IsRaw {
		return d.Raw
	}
	var b bytes.Buffer
	for i, p := range d.Paras {
		if i > 0 {
			b.WriteString(d.EOL)
		}
		for _, f := range p {
			if f.Comment != "" {
				b.WriteString("#" + f.Comment + d.EOL)
			}
			b.WriteString(f.Key + ": " + f.First + f.Pad + d.EOL)
			for k, c := range f.Cont {
				if c == "" {
					c = "."
				}
				pad := ""
				if k < len(f.CPad) {
					pad = f.CPad[k]
				}
				b.WriteString(" " + c + pad + d.EOL)
			}
		}
	}
	return b.Bytes()
}

// want is the reference: the paragraphs the model denotes (first-line text, then one "\n"-terminated line per
// continuation line, the " ." marker standing for an empty line, trailing blanks not part of any value).
func (d mDoc) want() []Para {
	var out []Para
	for _, p := range d.Paras {
		pp := Para{Values: map[string]string{}}
		for _, f := range p {
			v := f.First
			if len(f.Cont) > 0 && v != "" {
				v += "\n"
			}
			for _, c := range f.Cont {
				v += c + "\n"
			}
			pp.Order = append(pp.Order, f.Key)
			pp.Values[f.Key] = v
		}
		out = append(out, pp)
	}
	return out
}

func documents() []mDoc {
	one := [][]mField{{
		{Key: "Source", First: "hello"},
		{Key: "Version", First: "1.0-1"},
		{Key: "Maintainer", First: "A B <a@b.example>"},
	}}
	two := [][]mField{
		{
			{Key: "Source", First: "hello"},
			{Key: "Description", First: "short text",
				Cont: []string{"first line", "", "- dash item", "trailing blanks"},
				CPad: []string{"", "", "", "  \t"}},
			{Key: "Section", First: "misc", Pad: " "},
		},
		{
			{Key: "Package", First: "hello-bin"},
			{Key: "Architecture", First: "any"},
		},
	}
	three := [][]mField{
		{
			{Key: "Source", First: "hello"},
			{Key: "Version", First: "1.0-1"},
		},
		{ // more fields than the paragraph before, all with other names
			{Key: "Package", First: "hello-bin"},
			{Key: "Architecture", First: "any"},
			{Key: "Depends", First: "libc6 (>= 2.36)"},
			{Key: "Description", First: "says hello", Cont: []string{"a longer text", "", "end"}},
		},
		{ // fewer fields than the paragraph before
			{Key: "Package", First: "hello-doc"},
		},
	}
	// byte classes: ISO-8859-1 bytes (invalid UTF-8: 0xE9, 0xFC, 0xFF), a lone lead byte 0xC3, a truncated 3-byte sequence
	latin := [][]mField{{
		{Key: "Source", First: "hello"},
		{Key: "Maintainer", First: "Andr\xe9 M\xfcller <a@b.example>"},
		{Key: "X-Bytes", First: "\xff mid \xc3 end\xc3"},
		{Key: "X-Truncated", First: "a\xe6\x97 b"},
		{Key: "Description", First: "caf\xe9", Cont: []string{"continuation \xe9 \xff", "", "last\xff"}, CPad: []string{" ", "", "\t"}},
	}}
	// a BOM at the start of the signed text, in a value and on a continuation line; valid multi-byte sequences (also in a
	// field name); NUL; CR inside a line; a line that needs dash-escaping; trailing blanks and tabs
	multi := [][]mField{
		{
			{Key: "\xef\xbb\xbfSource", First: "h\xc3\xa9llo"},
			{Key: "Title", First: "\xe6\x97\xa5\xe6\x9c\xac \xf0\x9f\x98\x80"},
			{Key: "X-Nul", First: "a\x00b"},
			{Key: "X-CR", First: "a\rb"},
			{Key: "N\xc3\xa9e", First: "named with \xc3\xa9"},
			{Key: "-dashed", First: "needs dash-escaping", Pad: " \t"},
			{Key: "X-Bom-Value", First: "\xef\xbb\xbfv"},
			{Key: "Description", First: "d", Cont: []string{"\xef\xbb\xbfbom on a continuation line", "tab\tinside", "", "- dash"}, CPad: []string{"", " \t ", "", ""}},
		},
		{
			{Key: "Package", First: "p\xc3\xa9"},
		},
	}
	docs := []mDoc{
		{Name: "one-paragraph", EOL: "\n", Paras: one},
		{Name: "two-paragraphs-multiline", EOL: "\n", Paras: two},
		{Name: "two-paragraphs-multiline-crlf", EOL: "\r\n", Paras: two},
		{Name: "three-paragraphs-different-fields", EOL: "\n", Paras: three},
		{Name: "bytes-latin1-and-invalid-utf8", EOL: "\n", Paras: latin, Exotic: true},
		{Name: "bytes-latin1-and-invalid-utf8-crlf", EOL: "\r\n", Paras: latin, Exotic: true},
		{Name: "bytes-bom-multibyte-nul-cr-dash", EOL: "\n", Paras: multi, Exotic: true},
		// degenerate signed texts: they hold no paragraph at all
		{Name: "degenerate-empty-text", EOL: "\n", IsRaw: true, Raw: []byte{}, Exotic: true},
		{Name: "degenerate-one-blank-line", EOL: "\n", IsRaw: true, Raw: []byte("\n"), Exotic: true},
		{Name: "degenerate-only-blank-lines", EOL: "\n", IsRaw: true, Raw: []byte("\n\n\n"), Exotic: true},
		{Name: "degenerate-only-comment-lines", EOL: "\n", IsRaw: true, Raw: []byte("# nothing here\n#\n# Source: commented-out\n"), Exotic: true},
		{Name: "degenerate-whitespace-only-lines", EOL: "\n", IsRaw: true, Raw: []byte("  \n\t\n \t \n"), Exotic: true},
		{Name: "degenerate-blank-lines-crlf", EOL: "\r\n", IsRaw: true, Raw: []byte("\r\n\r\n"), Exotic: true},
		// validly signed but MALFORMED text: an indented line with no field before it (at the very start, after blank
		// lines, at the start of a later paragraph) — reading must fail exactly as for the same text unsigned
		{Name: "malformed-leading-orphan-continuation", EOL: "\n", IsRaw: true, WantErr: true, Exotic: true,
			Raw: []byte(" Indented: value\nSource: hello\nVersion: 1.0-1\n")},
		{Name: "malformed-orphan-continuation-after-blank-lines", EOL: "\n", IsRaw: true, WantErr: true, Exotic: true,
			Raw: []byte("\n\n\tIndented: value\nSource: hello\n")},
		{Name: "malformed-orphan-continuation-starts-second-paragraph", EOL: "\n", IsRaw: true, WantErr: true, Exotic: true,
			Raw:   []byte("Source: hello\nVersion: 1.0-1\n\n Indented: value\nPackage: p\n"),
			Paras: [][]mField{{{Key: "Source", First: "hello"}, {Key: "Version", First: "1.0-1"}}}},
		// the same field name in different letter case, within one paragraph and across paragraphs: keys come back as written
		{Name: "field-names-differing-in-case", EOL: "\n", Paras: [][]mField{
			{{Key: "Version", First: "1"}, {Key: "Source", First: "a"}, {Key: "version", First: "2"}, {Key: "SOURCE", First: "b"}},
			{{Key: "version", First: "3"}, {Key: "VERSION", First: "4"}, {Key: "Package", First: "p"}, {Key: "source", First: "c"}},
			{{Key: "PACKAGE", First: "q"}, {Key: "Version", First: "5"}},
		}},
		// a non-empty line that BEGINS with a lone CR (the CR is leading blank space of the field name, not a blank line)
		{Name: "line-begins-with-lone-cr", EOL: "\n", IsRaw: true, Exotic: true,
			Raw:   []byte("Source: hello\n\rVersion: 1.0-1\nMaintainer: A B <a@b.example>\n\n\rPackage: p\n\r\tArchitecture: any\n"),
			Paras: [][]mField{{{Key: "Source", First: "hello"}, {Key: "Version", First: "1.0-1"}, {Key: "Maintainer", First: "A B <a@b.example>"}}, {{Key: "Package", First: "p"}, {Key: "Architecture", First: "any"}}}},
	}
	// every LF document also DELIVERED WITH CRLF line ends (same canonical text), so that every tamper is applied to
	// both deliveries
	have := map[string]bool{}
	for _, d := range docs {
		have[d.Name] = true
	}
	for _, d := range docs[:len(docs):len(docs)] {
		if d.EOL != "\n" || have[d.Name+"-crlf"] || d.Name == "degenerate-empty-text" {
			continue
		}
		t := d
		t.Name, t.EOL = d.Name+crlfDelivered, "\r\n"
		if d.IsRaw {
			t.Raw = bytes.ReplaceAll(d.Raw, []byte("\n"), []byte("\r\n"))
		}
		docs = append(docs, t)
	}
	return docs
}

const crlfDelivered = "-crlf-delivered"

// ---------------------------------------------------------------------------------------------------------
// replayable input

// Fault is one modification of the document.
type Fault struct {
	Op    string // sub | del | ins | trunc
	Off   int
	Data  []byte // sub: the new byte; ins: the inserted bytes
	Label string // human label (splices)
}

func (f *Fault) apply(doc []byte) []byte {
	if f == nil {
		return doc
	}
	out := make([]byte, 0, len(doc)+len(f.Data))
	switch f.Op {
	case "sub":
		out = append(out, doc[:f.Off]...)
		out = append(out, f.Data[0])
		out = append(out, doc[f.Off+1:]...)
	case "del":
		out = append(out, doc[:f.Off]...)
		out = append(out, doc[f.Off+1:]...)
	case "ins":
		out = append(out, doc[:f.Off]...)
		out = append(out, f.Data...)
		out = append(out, doc[f.Off:]...)
	case "trunc":
		out = append(out, doc[:f.Off]...)
	default:
		out = append(out, doc...)
	}
	return out
}

func (f *Fault) valid(n int) bool {
	if f == nil {
		return true
	}
	switch f.Op {
	case "sub":
		return f.Off >= 0 && f.Off < n && len(f.Data) == 1
	case "del":
		return f.Off >= 0 && f.Off < n
	case "ins", "trunc":
		return f.Off >= 0 && f.Off <= n
	}
	return false
}

// In is everything needed to re-execute one case byte-exactly.
type In struct {
	Case      string   // signed | unsigned
	Doc       string   // document name (label)
	Entry     string   // reader | decoder
	Ring      string   // nil | empty | nil-list | list
	RingKeys  []string // armoured public keys, in keyring order (Ring == list)
	RingNames []string // labels of those keys
	SignerFpr string   // fingerprint of the key that signed Orig ("" for unsigned input)
	Signer    string   // its label
	Orig      []byte   // the document before the fault (clearsigned, or plain text for Case unsigned)
	Fault     *Fault   // nil: untampered
	Want      []Para   // the paragraphs of the signed text, from the model
	WantErr   bool     `json:",omitempty"` // the signed text is malformed: after Want reading must fail (as it does for the same text unsigned)
	Hist      *Hist    `json:",omitempty"` // Case history: one keyring variable passed by the same pointer across several reads
	Inter     *Inter   `json:",omitempty"` // Case interleave: several readers, operations interleaved
	Over      *Overlap `json:",omitempty"` // Case overlap: reads overlapping in time (gated input)
}

const armourPrefix = "-----BEGIN PGP "

// obs is what one execution of the real code showed.
type obs struct {
	ctorErr   string
	readErr   string
	delivered []Para
	signer    string // fingerprint, "" = nil
	panicked  string
	signerEnt *openpgp.Entity // the entity Signer() returned (history scenario: must be an element of the keyring as it is at that call)
}

func (o obs) success() bool { return o.ctorErr == "" && o.readErr == "" && o.panicked == "" }

func (o obs) String() string {
	s := "success"
	switch {
	case o.panicked != "":
		s = "panic: " + o.panicked
	case o.ctorErr != "":
		s = "constructor error: " + o.ctorErr
	case o.readErr != "":
		s = "read error: " + o.readErr
	}
	sg := "nil"
	if o.signer != "" {
		sg = o.signer
	}
	b, _ := json.Marshal(o.delivered)
	return fmt.Sprintf("%s; signer=%s; %d paragraph(s) delivered: %s", s, sg, len(o.delivered), b)
}

// wrap is what the Decoder access paths decode into: the raw paragraph plus TYPED members, some of which every
// document has in some paragraphs only.
type wrap struct {
	control.Paragraph
	Source, Package, Version, Description, Essential, Homepage string
}

// toParaTyped: the element's paragraph; a typed member that is not the value of ITS OWN paragraph (or not empty when
// the paragraph lacks the field) is added as an extra entry, so that every comparison with the model fails visibly.
func toParaTyped(w wrap) Para {
	p := toPara(w.Paragraph)
	for _, m := range []struct{ k, v string }{{"Source", w.Source}, {"Package", w.Package}, {"Version", w.Version},
		{"Description", w.Description}, {"Essential", w.Essential}, {"Homepage", w.Homepage}} {
		if m.v != w.Paragraph.Values[m.k] {
			p.Values["<typed member "+m.k+" of this element>"] = m.v
		}
	}
	return p
}

func toPara(p control.Paragraph) Para {
	q := Para{Order: append([]string(nil), p.Order...), Values: map[string]string{}}
	for k, v := range p.Values {
		q.Values[k] = v
	}
	return q
}

func (in In) ring() (*openpgp.EntityList, error) {
	switch in.Ring {
	case "nil":
		return nil, nil
	case "empty":
		el := openpgp.EntityList{}
		return &el, nil
	case "nil-list":
		var el openpgp.EntityList
		return &el, nil
	}
	el, err := gen.CSReadKeyring(in.RingKeys)
	if err != nil {
		return nil, err
	}
	return &el, nil
}

func (in In) ringFprs() (map[string]bool, error) {
	m := map[string]bool{}
	if in.Ring != "list" {
		return m, nil
	}
	el, err := gen.CSReadKeyring(in.RingKeys)
	if err != nil {
		return nil, err
	}
	for _, e := range el {
		m[gen.CSFingerprint(e)] = true
	}
	return m, nil
}

// observe runs the real code on doc.
func observe(in In, doc []byte) (o obs) {
	ring, err := in.ring()
	if err != nil {
		o.panicked = "harness: keyring unreadable: " + err.Error()
		return
	}
	return observeRing(in.Entry, doc, ring)
}

// observeRing runs the real code on doc with the given keyring pointer.
func observeRing(entry string, doc []byte, ring *openpgp.EntityList) (o obs) {
	p, msg := mc.Guard(func() {
		switch entry {
		case "decoder", "decoder-loop":
			dec, err := control.NewDecoder(bytes.NewReader(doc), ring)
			if err != nil {
				o.ctorErr = err.Error()
				return
			}
			o.signer, o.signerEnt = gen.CSFingerprint(dec.Signer()), dec.Signer()
			var out []wrap
			if entry == "decoder" {
				err = dec.Decode(&out) // all paragraphs into a slice
			} else {
				// one Decode per paragraph; the structs are kept and looked at only after the end
				var kept []*wrap
				for i := 0; ; i++ {
					w := new(wrap)
					if err = dec.Decode(w); err != nil {
						break
					}
					kept = append(kept, w)
					if i > 10000 {
						err = fmt.Errorf("harness: more than 10000 paragraphs")
						break
					}
				}
				if err == io.EOF {
					err = nil
				}
				for _, w := range kept {
					out = append(out, *w)
				}
			}
			for _, w := range out {
				o.delivered = append(o.delivered, toParaTyped(w)) // after the whole read
			}
			if err != nil {
				o.readErr = err.Error()
			}
			if s := gen.CSFingerprint(dec.Signer()); s != o.signer {
				o.signer = s + " (changed while reading, was " + o.signer + ")"
			}
		default: // "reader": Next loop; "reader-all": All()
			pr, err := control.NewParagraphReader(bytes.NewReader(doc), ring)
			if err != nil {
				o.ctorErr = err.Error()
				return
			}
			o.signer, o.signerEnt = gen.CSFingerprint(pr.Signer()), pr.Signer()
			if entry == "reader-all" {
				all, err := pr.All()
				for _, p := range all {
					o.delivered = append(o.delivered, toPara(p))
				}
				if err != nil {
					o.readErr = err.Error()
				}
			} else {
				// every returned *Paragraph is KEPT and only looked at after the end of the read
				var kept []*control.Paragraph
				for i := 0; ; i++ {
					para, err := pr.Next()
					if err == io.EOF {
						break
					}
					if err != nil {
						o.readErr = err.Error()
						break
					}
					kept = append(kept, para)
					if i > 10000 {
						o.readErr = "harness: more than 10000 paragraphs"
						break
					}
				}
				for _, p := range kept {
					o.delivered = append(o.delivered, toPara(*p))
				}
			}
			if s := gen.CSFingerprint(pr.Signer()); s != o.signer {
				o.signer = s + " (changed while reading, was " + o.signer + ")"
			}
		}
	})
	if p {
		o.panicked = msg
	}
	return
}

func parasEqual(a, b []Para) bool {
	if len(a) != len(b) {
		return false
	}
	for i := range a {
		if !reflect.DeepEqual(a[i].Order, b[i].Order) && !(len(a[i].Order) == 0 && len(b[i].Order) == 0) {
			return false
		}
		if len(a[i].Values) != len(b[i].Values) {
			return false
		}
		for k, v := range a[i].Values {
			if w, ok := b[i].Values[k]; !ok || w != v {
				return false
			}
		}
	}
	return true
}

// faultInsideText reports whether the fault touches the cleartext region [ts,te) of Orig, and the region
// after the fault (the fault applied to the region alone).
func faultInsideText(orig []byte, f *Fault, ts, te int) (inside bool, after []byte) {
	if f == nil || f.Off < ts || f.Off >= te {
		return false, nil
	}
	g := *f
	g.Off -= ts
	return true, g.apply(orig[ts:te])
}

// features are predicates of the INPUT only.
func features(in In) []string {
	f := []string{"entry-" + in.Entry, "keyring-" + in.Ring}
	if in.Fault != nil {
		f = append(f, "fault-"+in.Fault.Op)
		if ts, te, ok := gen.CSRegion(in.Orig); ok {
			switch {
			case in.Fault.Off < ts:
				f = append(f, "fault-before-signed-text")
			case in.Fault.Off < te:
				f = append(f, "fault-inside-signed-text")
			default:
				f = append(f, "fault-after-signed-text")
			}
		}
	} else {
		f = append(f, "untampered")
	}
	return f
}

func mkV(scen, clause string, in In, doc []byte, expected string, o obs) *mc.Violation {
	v := mc.V(scen, clause, in, expected, o.String(), features(in)...)
	if utf8.Valid(doc) {
		v.Text = string(doc)
	} else {
		v.Hex = hex.EncodeToString(doc)
	}
	return v
}

// verdict is the oracle's result for one input: the violation (nil = the statement holds on this input),
// the outcome class, and whether the case was a positive case that failed (vacuity, never a violation).
type verdict struct {
	v        *mc.Violation
	class    string
	positive bool // untampered, signer in keyring
	failed   bool // positive case did not verify
	o        obs
}

// check is THE oracle, a plain function of the input; used by Run and Replay.
func check(scen string, in In) verdict {
	if in.Case == "history" {
		return checkHist(scen, in)
	}
	if in.Case == "interleave" {
		return checkInter(scen, in)
	}
	if in.Case == "overlap" {
		return checkOverlap(scen, in)
	}
	if in.Case == "multipacket" {
		return checkMulti(scen, in)
	}
	if !in.Fault.valid(len(in.Orig)) {
		return verdict{class: "invalid-input"}
	}
	doc := in.Fault.apply(in.Orig)
	o := observe(in, doc)
	res := verdict{o: o}
	if strings.HasPrefix(o.panicked, "harness:") {
		res.class = "harness-error"
		res.failed, res.positive = true, true
		return res
	}
	armoured := bytes.HasPrefix(doc, []byte(armourPrefix))
	gotSomething := o.success() || len(o.delivered) > 0

	if in.Case == "unsigned" {
		// "a reported signer is never present for unsigned input" — for every keyring
		res.class = "unsigned:" + okErr(o)
		if o.signer != "" {
			res.class = "unsound"
			res.v = mkV(scen, "unsigned-input-has-no-signer", in, doc, "Signer() == nil for input that is not clearsigned", o)
		}
		return res
	}

	if in.Ring == "nil" {
		// the statement only speaks about a supplied keyring
		res.class = "nil-keyring:" + okErr(o)
		return res
	}

	fprs, _ := in.ringFprs()
	inRing := fprs[in.SignerFpr]
	res.positive = in.Fault == nil && inRing

	// clause 1: an untampered document signed by a key outside the keyring (incl. empty keyrings) must fail
	if in.Fault == nil && !inRing && gotSomething {
		res.class = "unsound"
		res.v = mkV(scen, "signer-outside-keyring-must-fail", in, doc,
			fmt.Sprintf("an error and no paragraphs: signing key %s is not in the keyring %v (%s)", in.Signer, in.RingNames, in.Ring), o)
		return res
	}
	// clause 2: a reported signer is the signing key, and that key is in the keyring
	if o.signer != "" && (o.signer != in.SignerFpr || !inRing) {
		res.class = "unsound"
		res.v = mkV(scen, "reported-signer-is-the-signing-key", in, doc,
			fmt.Sprintf("Signer() nil, or the signing key %s (%s) if it is in the keyring %v", in.SignerFpr, in.Signer, in.RingNames), o)
		return res
	}
	// clause 3: whatever is handed out under a reported signer is the signed text, all of it on success
	if o.signer != "" {
		bad := len(o.delivered) > len(in.Want) || !parasEqual(o.delivered, in.Want[:len(o.delivered)])
		if o.success() && !parasEqual(o.delivered, in.Want) {
			bad = true
		}
		if bad {
			res.class = "unsound"
			w, _ := json.Marshal(in.Want)
			res.v = mkV(scen, "paragraphs-are-exactly-the-signed-text", in, doc, "with a reported signer, exactly the signed paragraphs "+string(w), o)
			return res
		}
	}
	// clause 4: without a reported signer nothing may be accepted from input that starts with the armour header
	if o.signer == "" && gotSomething && armoured {
		res.class = "unsound"
		res.v = mkV(scen, "armoured-input-accepted-without-verification", in, doc,
			"an error and no paragraphs (input begins with the armour header, a keyring is supplied, no signer is reported)", o)
		return res
	}
	// clause 5a: whatever is accepted with a signer must be accepted by the REFERENCE implementation too (first
	// clearsigned block of the same bytes, x/crypto clearsign.Decode + CheckDetachedSignature against the same keyring,
	// same signer) — RFC 4880 §7.1 decides what "the signed text was modified" means, not this harness
	if o.signer != "" && o.success() && in.Fault != nil {
		if fpr, why := referenceSigner(doc, in); fpr != o.signer {
			res.class = "unsound"
			res.v = mkV(scen, "accepted-only-what-the-reference-implementation-accepts", in, doc,
				"an error: the reference implementation (clearsign.Decode + CheckDetachedSignature on these bytes, this keyring) says: "+why, o)
			return res
		}
	}
	// clause 5: a fault inside the signed text that changes its canonical form must make reading fail
	if ts, te, ok := gen.CSRegion(in.Orig); ok && in.Fault != nil {
		if inside, after := faultInsideText(in.Orig, in.Fault, ts, te); inside &&
			!bytes.Equal(gen.CSCanonical(after), gen.CSCanonical(in.Orig[ts:te])) && o.success() {
			res.class = "unsound"
			res.v = mkV(scen, "modified-signed-text-must-fail", in, doc, "an error: the canonical form of the signed text was changed", o)
			return res
		}
	}

	switch {
	case o.panicked != "":
		res.class = "panicked(counted as rejected)"
	case o.success() && o.signer != "":
		res.class = "accepted-original"
	case o.success():
		res.class = "accepted-unsigned-prefix"
	case len(o.delivered) > 0 && o.signer == "":
		res.class = "rejected-after-unsigned-prefix"
	case len(o.delivered) > 0:
		res.class = "rejected-after-original-prefix"
	default:
		res.class = "rejected"
	}
	if in.Fault != nil && !o.success() && armoured {
		// informative only (the library may be stricter than the reference): stricter-than-reference cases are visible
		if fpr, _ := referenceSigner(doc, in); fpr != "" {
			res.class += "(reference-accepts)"
		}
	}
	// clause 6: what is accepted under a signature is parsed exactly like the same (canonical) text WITHOUT the armour —
	// both fail, or both give the same paragraphs (the armour path has no parsing rules of its own)
	if o.signer != "" && o.ctorErr == "" {
		if blk, _ := clearsign.Decode(doc); blk != nil && !bytes.HasPrefix(blk.Bytes, []byte(armourPrefix)) { // (a verified text that itself starts like an armour is judged by the model: the plain path would decode it)
			plain := observeRing(in.Entry, blk.Bytes, nil) // the same access path, no armour, no keyring
			if plain.success() != o.success() || !parasEqual(plain.delivered, o.delivered) {
				res.class = "unsound"
				res.v = mkV(scen, "signed-text-is-parsed-like-the-same-text-unsigned", in, doc, "what the reader gives for the verified canonical text read without armour: "+plain.String(), o)
				return res
			}
		}
	}
	if res.positive && in.WantErr {
		if o.success() {
			res.class = "unsound"
			res.v = mkV(scen, "valid-signed-document-is-read-exactly", in, doc, "an error after the well-formed paragraphs: the signed text is malformed control data (an indented line with no field before it)", o)
		} else {
			res.class = "malformed-signed-text:rejected-as-unsigned-would-be"
		}
		return res
	}
	if res.positive && !o.success() {
		// "reading succeeds … the paragraphs returned are exactly those of the signed text": a validly signed
		// document whose key is in the keyring must be read (that the document IS valid is established by the
		// reference implementation in selfCheck, not by the library)
		res.failed = true
		res.class = "unsound"
		res.v = mkV(scen, "valid-signed-document-is-read-exactly", in, doc,
			fmt.Sprintf("success with the signed paragraphs and signer %s: the document is validly signed by %s, which is in the keyring %v", in.SignerFpr, in.Signer, in.RingNames), o)
	}
	return res
}

func okErr(o obs) string {
	if o.success() {
		return "accepted"
	}
	if o.panicked != "" {
		return "panicked"
	}
	return "rejected"
}

// ---------------------------------------------------------------------------------------------------------
// enumeration

type key struct {
	name  string
	ent   *openpgp.Entity
	armor string
	fpr   string
}

type ringSpec struct {
	kind string
	keys []*key
}

func (rs ringSpec) label() string {
	if rs.kind != "list" {
		return rs.kind
	}
	var n []string
	for _, k := range rs.keys {
		n = append(n, k.name)
	}
	return "[" + strings.Join(n, ",") + "]"
}

func (rs ringSpec) fill(in *In) {
	in.Ring = rs.kind
	in.RingKeys, in.RingNames = nil, nil
	for _, k := range rs.keys {
		in.RingKeys = append(in.RingKeys, k.armor)
		in.RingNames = append(in.RingNames, k.name)
	}
}

type signedDoc struct {
	m      mDoc
	signer *key
	bytes  []byte
	want   []Para
	light  bool // alphabet-audit size documents: one substitution per offset instead of the full fault set
}

// allFaults is the complete single-fault list for doc: every offset × (substitutions, deletion, insertions,
// truncation), then the splices.
func allFaults(doc []byte, subs func(b byte) []byte, splices []Fault) []Fault {
	var fs []Fault
	for off := 0; off <= len(doc); off++ {
		if off < len(doc) {
			for _, nb := range subs(doc[off]) {
				fs = append(fs, Fault{Op: "sub", Off: off, Data: []byte{nb}})
			}
			fs = append(fs, Fault{Op: "del", Off: off})
			fs = append(fs, Fault{Op: "trunc", Off: off})
		}
		for _, ib := range insertBytes() {
			fs = append(fs, Fault{Op: "ins", Off: off, Data: []byte{ib}})
		}
	}
	return append(fs, splices...)
}

func subsQuick(b byte) []byte { return []byte{b ^ 0x01, b ^ 0x20} }

// subsThorough: every other byte value.
func subsThorough(b byte) []byte {
	out := make([]byte, 0, 255)
	for c := 0; c < 256; c++ {
		if byte(c) != b {
			out = append(out, byte(c))
		}
	}
	return out
}

const foreignLines = "Injected: evil\nSource: evil\n"

// spliceList: foreign text before the armour, inside the signed text at every line boundary, between text and
// signature, inside the two header areas, after the signature, and second signed blocks.
func spliceList(doc []byte, eol string, foreignBlocks map[string][]byte) []Fault {
	var fs []Fault
	add := func(label string, off int, data string) {
		fs = append(fs, Fault{Op: "ins", Off: off, Data: []byte(data), Label: label})
	}
	F := strings.ReplaceAll(foreignLines, "\n", eol)
	add("foreign-paragraph-before-armour", 0, F+eol)
	add("foreign-lines-directly-before-armour", 0, F)
	add("blank-line-before-armour", 0, eol)
	ts, te, ok := gen.CSRegion(doc)
	if ok {
		// every line boundary of the signed text, te included (= between text and signature)
		bounds := []int{ts}
		for i := ts; i < te; i++ {
			if doc[i] == '\n' && i+1 <= te {
				bounds = append(bounds, i+1)
			}
		}
		for _, b := range bounds {
			where := "inside-signed-text"
			if b == te {
				where = "between-text-and-signature"
			}
			add("foreign-fields-"+where, b, F)
			add("foreign-paragraph-"+where, b, eol+F+eol)
			add("dash-escaped-foreign-field-"+where, b, "- Injected: evil"+eol)
			add("foreign-continuation-line-"+where, b, " injected continuation"+eol)
		}
		// header areas
		l1 := bytes.IndexByte(doc, '\n') + 1
		add("foreign-field-in-hash-headers", l1, "Injected: evil"+eol)
		add("second-hash-header", l1, "Hash: SHA1"+eol)
		sl := te + bytes.IndexByte(doc[te:], '\n') + 1
		add("comment-in-signature-armour-headers", sl, "Comment: injected"+eol)
		add("foreign-field-in-signature-armour-headers", sl, "Injected: evil"+eol)
	}
	n := len(doc)
	add("foreign-fields-after-signature", n, F)
	add("foreign-paragraph-after-signature", n, eol+F)
	names := make([]string, 0, len(foreignBlocks))
	for k := range foreignBlocks {
		names = append(names, k)
	}
	sort.Strings(names)
	for _, k := range names {
		add("second-signed-block-appended-"+k, n, string(foreignBlocks[k]))
		add("second-signed-block-appended-after-blank-line-"+k, n, "\n"+string(foreignBlocks[k]))
		if k != "signed-by-K1" {
			// (a K1-signed foreign block in front would simply BE the signed document: outside the fault model)
			add("foreign-signed-block-prepended-"+k, 0, string(foreignBlocks[k]))
		}
	}
	return fs
}

func faultKind(f *Fault) string {
	if f == nil {
		return "untampered"
	}
	if f.Label != "" {
		return "splice"
	}
	if f.Op == "ins" {
		return fmt.Sprintf("ins-%q", f.Data)
	}
	return f.Op
}

func Run(r *mc.Run) {
	r.Rule = "matrix: every (signer, keyring, document, entry point) combination; tampering: every byte offset of each clearsigned document × {substitutions, deletion, 3 insertions, truncation} plus the listed splices, each executed through both entry points. A tampering case is non-trivial when the tampered document differs from the original (all do); distinct by construction (distinct fault descriptions)"
	r.Assume = []string{
		"golang.org/x/crypto/openpgp (RSA, SHA-256, armour, clearsign.Decode) is not under test; forgeries that need more than one fault are a matter for OpenPGP",
		"keys are RSA-1024 generated per run with a fixed creation time and no expiry; the property does not depend on key material",
		"reference paragraphs come from the document model (first-line text, continuation lines, ' .' = empty line); the model is self-checked against the reader on the unsigned text on every run",
		"canonical form of the signed text = RFC 4880 §7.1 (LF/CRLF split, dash-unescape, trailing blank/tab removal); self-checked against clearsign.Decode's Bytes on every document",
		"a nil keyring switches verification off by documented design: outcomes are recorded, nothing is demanded",
	}
	k1e, err1 := gen.CSNewKey("K1")
	k2e, err2 := gen.CSNewKey("K2")
	if err1 != nil || err2 != nil {
		r.HarnessError("key generation failed: %v %v", err1, err2)
		return
	}
	mk := func(name string, e *openpgp.Entity) *key {
		a, err := gen.CSArmorPublic(e)
		if err != nil {
			r.HarnessError("armouring %s: %v", name, err)
		}
		return &key{name: name, ent: e, armor: a, fpr: gen.CSFingerprint(e)}
	}
	K1, K2 := mk("K1", k1e), mk("K2", k2e)
	if K1.fpr == K2.fpr {
		r.HarnessError("K1 and K2 have the same fingerprint")
		return
	}
	docs := documents()
	// signed texts that ARE an armoured document (a nested / countersigned upload): inner document signed by a key outside
	// every keyring, dash-escaped inside the outer signed text — the outer text is not control data (its first line has no
	// colon): reading must fail, exactly as for the same text unsigned
	if k3e, err := gen.CSNewKey("K3"); err != nil {
		r.HarnessError("key generation failed: %v", err)
		return
	} else {
		for _, eol := range []string{"\n", "\r\n"} {
			inner, err := gen.CSClearsign(k3e, documents()[0].text(), "\n")
			if err != nil {
				r.HarnessError("signing the inner document: %v", err)
				return
			}
			if !bytes.HasSuffix(inner, []byte("\n")) {
				inner = append(inner, '\n')
			}
			if eol != "\n" {
				inner = bytes.ReplaceAll(inner, []byte("\n"), []byte(eol))
			}
			sfx := map[string]string{"\n": "", "\r\n": "-crlf"}[eol]
			docs = append(docs,
				mDoc{Name: "nested-armoured-document-signed-by-unknown-key" + sfx, EOL: eol, IsRaw: true, WantErr: true, Exotic: true, Raw: inner},
				mDoc{Name: "nested-armoured-document-then-more-paragraphs" + sfx, EOL: eol, IsRaw: true, WantErr: true, Exotic: true,
					Raw: append(append([]byte{}, inner...), []byte(eol+"Source: after"+eol+"Version: 2"+eol)...)})
		}
	}
	entries := []string{"reader", "reader-all", "decoder", "decoder-loop"}
	rings := []ringSpec{{kind: "empty"}, {kind: "nil-list"}, {kind: "list", keys: []*key{K1}}, {kind: "list", keys: []*key{K2}},
		{kind: "list", keys: []*key{K1, K2}}, {kind: "nil"}}

	// signed documents: doc × signer
	var signed []signedDoc
	for _, d := range docs {
		for _, k := range []*key{K1, K2} {
			b, err := gen.CSClearsign(k.ent, d.text(), d.EOL)
			if err != nil {
				r.HarnessError("signing %s with %s: %v", d.Name, k.name, err)
				return
			}
			signed = append(signed, signedDoc{m: d, signer: k, bytes: b, want: d.want()})
		}
	}
	vacuous := false
	selfCheck(r, docs, signed, K1, K2)
	// alphabet audit: extra documents built from literals a change introduced (none on the unchanged tree)
	auditDocs, auditDropped := auditDocuments(r, K1)
	signed = append(signed, auditDocs...)
	if len(auditDocs)+auditDropped > 0 {
		var names []string
		for _, sd := range auditDocs {
			names = append(names, sd.m.Name)
		}
		r.Extra["alphabet_audit_documents"] = map[string]interface{}{"added": names, "dropped_because_not_verifiable_untampered": auditDropped}
	}

	// ---- scenario 1: unsigned input never has a signer (and the model agrees with the reader)
	type ucase struct {
		d mDoc
		e string
		r ringSpec
	}
	var ucases []ucase
	for _, d := range docs {
		for _, e := range entries {
			for _, rs := range rings {
				ucases = append(ucases, ucase{d, e, rs})
			}
		}
	}
	r.Scenario("unsigned-input", map[string]interface{}{"documents": len(docs), "keyrings": len(rings), "entry_points": entries},
		len(ucases), func(i int, st *mc.Stats) bool {
			c := ucases[i]
			in := In{Case: "unsigned", Doc: c.d.Name, Entry: c.e, Orig: c.d.text(), Want: c.d.want()}
			c.r.fill(&in)
			res := check("unsigned-input", in)
			st.Evals++
			st.Traces++
			st.Nontrivial++
			st.Class(res.class)
			st.Violate(res.v)
			if !res.o.success() || !parasEqual(res.o.delivered, in.Want) {
				// not a clause of C11 (unsigned parsing is C07's business) and not a harness fault either (the model is
				// self-checked against literals): recorded only; the signed positive cases report the same defect
				st.Class("unsigned:paragraphs-differ-from-model(recorded only)")
			}
			if i%17 == 0 && st.WantSample() {
				st.Sample(map[string]interface{}{"doc": c.d.Name, "entry": c.e, "keyring": c.r.label(), "signer": res.o.signer, "outcome": res.class})
			}
			return true
		})

	// ---- scenario 2: the complete positive/negative matrix
	type mcase struct {
		sd signedDoc
		e  string
		r  ringSpec
	}
	var mcases []mcase
	for _, sd := range signed {
		for _, e := range entries {
			for _, rs := range rings {
				mcases = append(mcases, mcase{sd, e, rs})
			}
		}
	}
	var vmu sync.Mutex
	r.Scenario("keyring-matrix", map[string]interface{}{"signers": []string{"K1", "K2"}, "keyrings": []string{"empty", "nil-list (pointer to a nil EntityList)", "[K1]", "[K2]", "[K1,K2]", "nil"},
		"documents": len(docs), "entry_points": entries}, len(mcases), func(i int, st *mc.Stats) bool {
		c := mcases[i]
		in := In{Case: "signed", Doc: c.sd.m.Name, Entry: c.e, SignerFpr: c.sd.signer.fpr, Signer: c.sd.signer.name, Orig: c.sd.bytes, Want: c.sd.want, WantErr: c.sd.m.WantErr}
		c.r.fill(&in)
		res := check("keyring-matrix", in)
		st.Evals++
		st.Traces++
		st.Nontrivial++
		cl := res.class
		if cl == "rejected" {
			cl = "rejected(signer-not-in-keyring)"
		}
		if res.positive {
			cl = "signer-in-keyring:" + cl
		}
		st.Class(cl)
		st.Violate(res.v)
		if res.failed {
			vmu.Lock()
			vacuous = true // a positive case failed: reported as a VIOLATION (valid-signed-document-is-read-exactly); flagged in the evidence too
			vmu.Unlock()
		}
		if i%13 == 0 && st.WantSample() {
			st.Sample(map[string]interface{}{"doc": c.sd.m.Name, "signer": c.sd.signer.name, "keyring": c.r.label(), "entry": c.e, "outcome": cl, "reported_signer": res.o.signer})
		}
		return true
	})

	// ---- scenario 3: tampering, complete for single faults, + splices
	auditKeyrings(r, signed, K1, K2, entries)
	keyringHistories(r, docs[0], K1, K2, []string{"reader", "decoder"})
	interleavings(r, docs, K1, K2)
	largeSigned(r, K1, entries)
	multiPacketArmours(r, docs, K1, K2, entries)
	overlappingReads(r, docs, K1, K2)
	subs := subsQuick
	tamperRings := []ringSpec{{kind: "list", keys: []*key{K1}}}
	if !r.Quick() {
		subs = subsThorough
		tamperRings = append(tamperRings, ringSpec{kind: "list", keys: []*key{K1, K2}}, ringSpec{kind: "list", keys: []*key{K2, K1}})
	}
	subs = withAuditSubs(subs)
	const chunk = 128
	for _, sd := range signed {
		if sd.signer != K1 {
			continue
		}
		sd := sd
		// foreign signed blocks (valid signatures over foreign text)
		fb := map[string][]byte{}
		for _, k := range []*key{K1, K2} {
			b, err := gen.CSClearsign(k.ent, []byte(strings.ReplaceAll(foreignLines, "\n", sd.m.EOL)), sd.m.EOL)
			if err != nil {
				r.HarnessError("signing foreign block: %v", err)
				return
			}
			fb["signed-by-"+k.name] = b
		}
		splices := append(spliceList(sd.bytes, sd.m.EOL, fb), auditSplices(sd.bytes, sd.m.EOL)...)
		faults := allFaults(sd.bytes, subs, splices)
		if sd.light {
			faults = lightFaults(sd.bytes, splices)
		}
		ts, te, _ := gen.CSRegion(sd.bytes)
		type job struct {
			e  string
			rs ringSpec
		}
		var jobs []job
		for _, e := range entries {
			for _, rs := range tamperRings {
				jobs = append(jobs, job{e, rs})
			}
		}
		nch := (len(faults) + chunk - 1) / chunk
		name := "tamper-" + sd.m.Name
		r.Scenario(name, map[string]interface{}{"document_bytes": len(sd.bytes), "signed_text_offsets": []int{ts, te}, "faults": len(faults), "splices": len(splices),
			"substitution_values_per_byte": len(subs('a')), "keyrings": len(tamperRings), "entry_points": entries, "signer": "K1"},
			nch*len(jobs), func(sh int, st *mc.Stats) bool {
				j := jobs[sh/nch]
				lo := (sh % nch) * chunk
				hi := lo + chunk
				if hi > len(faults) {
					hi = len(faults)
				}
				for fi := lo; fi < hi; fi++ {
					if fi%32 == 0 && r.Expired() {
						return false
					}
					f := faults[fi]
					if strings.HasPrefix(f.Label, "foreign-signed-block-prepended-signed-by-K2") && len(j.rs.keys) > 1 {
						continue // K2 is in this keyring: the prepended block would simply BE a validly signed document
					}
					in := In{Case: "signed", Doc: sd.m.Name, Entry: j.e, SignerFpr: K1.fpr, Signer: "K1", Orig: sd.bytes, Fault: &f, Want: sd.want, WantErr: sd.m.WantErr}
					j.rs.fill(&in)
					res := check(name, in)
					st.Evals++
					st.Traces++
					st.Nontrivial++
					st.States++
					pos := "after-text"
					if f.Off < ts {
						pos = "before-text"
					} else if f.Off < te {
						pos = "in-text"
					}
					st.Class(res.class)
					st.Class(res.class + "|" + faultKind(&f) + "|" + pos)
					st.Violate(res.v)
					if (res.class != "rejected" || fi%997 == 0) && fi%53 == 0 && st.WantSample() {
						st.Sample(map[string]interface{}{"doc": sd.m.Name, "entry": j.e, "keyring": j.rs.label(), "fault": faultKind(&f), "label": f.Label, "offset": f.Off, "outcome": res.class})
					}
				}
				return true
			})
	}
	r.Extra["vacuous"] = vacuous
	r.Extra["keys"] = map[string]string{"K1": K1.fpr, "K2": K2.fpr}
}

// selfCheck validates the harness' own machinery: canonical-form model vs clearsign.Decode, region finder,
// and (if installed) gpgv on our assembled documents. Never decides the property.
func mustRing(in In) *openpgp.EntityList {
	ring, err := in.ring()
	if err != nil {
		return nil
	}
	return ring
}

// referenceSigner: fingerprint of the signer the reference implementation reports for doc with in's keyring ("" and
// the reason if it rejects).
func referenceSigner(doc []byte, in In) (string, string) {
	blk, _ := clearsign.Decode(doc)
	if blk == nil {
		return "", "no clearsigned block"
	}
	ring, err := in.ring()
	if err != nil || ring == nil {
		return "", "no keyring"
	}
	signer, err := openpgp.CheckDetachedSignature(*ring, bytes.NewReader(blk.Bytes), blk.ArmoredSignature.Body)
	if err != nil {
		return "", err.Error()
	}
	return gen.CSFingerprint(signer), "accepted"
}

// referenceVerifies: the REFERENCE implementation (x/crypto clearsign + openpgp, not the library under test)
// accepts doc as signed by k.
func referenceVerifies(doc []byte, k *key) bool {
	blk, _ := clearsign.Decode(doc)
	if blk == nil {
		return false
	}
	el, err := gen.CSReadKeyring([]string{k.armor})
	if err != nil {
		return false
	}
	signer, err := openpgp.CheckDetachedSignature(el, bytes.NewReader(blk.Bytes), blk.ArmoredSignature.Body)
	return err == nil && signer != nil && gen.CSFingerprint(signer) == k.fpr
}

func selfCheck(r *mc.Run, docs []mDoc, signed []signedDoc, K1, K2 *key) {
	// the document model against hand-written literals (so that "differs from the model" can be held against the library)
	lit := map[string]string{
		"one-paragraph":                     `{"Source":"hello" "Version":"1.0-1" "Maintainer":"A B <a@b.example>"}`,
		"two-paragraphs-multiline":          `{"Source":"hello" "Description":"short text\nfirst line\n\n- dash item\ntrailing blanks\n" "Section":"misc"}{"Package":"hello-bin" "Architecture":"any"}`,
		"three-paragraphs-different-fields": `{"Source":"hello" "Version":"1.0-1"}{"Package":"hello-bin" "Architecture":"any" "Depends":"libc6 (>= 2.36)" "Description":"says hello\na longer text\n\nend\n"}{"Package":"hello-doc"}`,
		"bytes-latin1-and-invalid-utf8":     `{"Source":"hello" "Maintainer":"Andr\xe9 M\xfcller <a@b.example>" "X-Bytes":"\xff mid \xc3 end\xc3" "X-Truncated":"a\xe6\x97 b" "Description":"caf\xe9\ncontinuation \xe9 \xff\n\nlast\xff\n"}`,
		"bytes-bom-multibyte-nul-cr-dash":   `{"\ufeffSource":"héllo" "Title":"日本 😀" "X-Nul":"a\x00b" "X-CR":"a\rb" "Née":"named with é" "-dashed":"needs dash-escaping" "X-Bom-Value":"\ufeffv" "Description":"d\n\ufeffbom on a continuation line\ntab\tinside\n\n- dash\n"}{"Package":"pé"}`,
	}
	lit["malformed-orphan-continuation-starts-second-paragraph"] = `{"Source":"hello" "Version":"1.0-1"}`
	lit["field-names-differing-in-case"] = `{"Version":"1" "Source":"a" "version":"2" "SOURCE":"b"}{"version":"3" "VERSION":"4" "Package":"p" "source":"c"}{"PACKAGE":"q" "Version":"5"}`
	lit["line-begins-with-lone-cr"] = `{"Source":"hello" "Version":"1.0-1" "Maintainer":"A B <a@b.example>"}{"Package":"p" "Architecture":"any"}`
	lit["two-paragraphs-multiline-crlf"] = lit["two-paragraphs-multiline"]
	lit["bytes-latin1-and-invalid-utf8-crlf"] = lit["bytes-latin1-and-invalid-utf8"]
	dump := func(ps []Para) string {
		var b strings.Builder
		for _, p := range ps {
			b.WriteString("{")
			for i, k := range p.Order {
				if i > 0 {
					b.WriteString(" ")
				}
				fmt.Fprintf(&b, "%q:%q", k, p.Values[k])
			}
			b.WriteString("}")
		}
		return b.String()
	}
	for _, d := range docs {
		w, ok := lit[strings.TrimSuffix(d.Name, crlfDelivered)]
		if d.IsRaw && !ok {
			w, ok = "", true // no paragraph
		}
		if got := dump(d.want()); !ok || got != w {
			r.HarnessError("self-check: document model of %s is %s, hand-written expectation %s", d.Name, got, w)
		}
	}
	for _, sd := range signed {
		if !referenceVerifies(sd.bytes, sd.signer) {
			r.HarnessError("self-check: the reference implementation does not verify our %s signed by %s", sd.m.Name, sd.signer.name)
		}
		blk, _ := clearsign.Decode(sd.bytes)
		if blk == nil {
			r.HarnessError("self-check: clearsign.Decode cannot read our %s", sd.m.Name)
			continue
		}
		ts, te, ok := gen.CSRegion(sd.bytes)
		if !ok {
			r.HarnessError("self-check: CSRegion fails on our %s", sd.m.Name)
			continue
		}
		undashed := bytes.ReplaceAll(append([]byte("\n"), sd.bytes[ts:te]...), []byte("\n- "), []byte("\n"))[1:]
		if !bytes.Equal(undashed, sd.m.text()) {
			r.HarnessError("self-check: signed region of %s is not the rendered text (dash escaping?)", sd.m.Name)
		}
		if !bytes.Equal(gen.CSCanonical(sd.bytes[ts:te]), blk.Bytes) {
			r.HarnessError("self-check: CSCanonical differs from clearsign.Decode on %s", sd.m.Name)
		}
	}
	// canonical-form model against clearsign.Decode on every single-fault variant of the text region of one document
	// (structure only — no signature involved)
	if len(signed) > 2 {
		sd := signed[2]
		ts, te, _ := gen.CSRegion(sd.bytes)
		n, skipped := 0, 0
		for _, f := range allFaults(sd.bytes, subsQuick, nil) {
			if f.Off < ts || f.Off >= te || f.Op == "trunc" {
				continue
			}
			t := f.apply(sd.bytes)
			blk, _ := clearsign.Decode(t)
			if blk == nil {
				skipped++
				continue
			}
			g := f
			g.Off -= ts
			if !bytes.Equal(gen.CSCanonical(g.apply(sd.bytes[ts:te])), blk.Bytes) {
				// the fault may have moved the region's end (e.g. joined the last line with the marker): compare on the real region
				if a, b, ok := gen.CSRegion(t); ok && bytes.Equal(gen.CSCanonical(t[a:b]), blk.Bytes) {
					n++
					continue
				}
				r.HarnessError("self-check: CSCanonical differs from clearsign.Decode after fault %s@%d", f.Op, f.Off)
				break
			}
			n++
		}
		r.Extra["canonical_form_selfcheck"] = map[string]int{"variants_compared_with_clearsign_Decode": n, "not_decodable": skipped}
	}
	// gpgv cross-check of our signing helper
	cross := map[string]interface{}{}
	defer func() { r.Extra["tool_crosschecks"] = cross }()
	if _, err := exec.LookPath("gpgv"); err != nil {
		cross["gpgv"] = "skipped (not installed)"
		return
	}
	dir, err := os.MkdirTemp("", "c11gpgv")
	if err != nil {
		cross["gpgv"] = "skipped: " + err.Error()
		return
	}
	defer os.RemoveAll(dir)
	good, bad, ran := 0, 0, 0
	for _, k := range []*key{K1, K2} {
		kb, err := gen.CSBinaryPublic(k.ent)
		if err != nil {
			r.HarnessError("self-check: serialising %s: %v", k.name, err)
			return
		}
		os.WriteFile(filepath.Join(dir, k.name+".gpg"), kb, 0o600)
	}
	run := func(ring string, doc []byte) (bool, string) {
		p := filepath.Join(dir, "doc.asc")
		os.WriteFile(p, doc, 0o600)
		cmd := exec.Command("gpgv", "--homedir", dir, "--keyring", filepath.Join(dir, ring+".gpg"), p)
		out, err := cmd.CombinedOutput()
		return err == nil, string(out)
	}
	for _, sd := range signed {
		if sd.m.Exotic {
			continue
		}
		ran++
		ok, out := run(sd.signer.name, sd.bytes)
		if !ok {
			if strings.Contains(out, "Good signature") {
				ok = true
			}
		}
		if ok {
			good++
		} else {
			r.HarnessError("self-check: gpgv rejects our %s signed by %s: %s", sd.m.Name, sd.signer.name, out)
		}
		other := "K2"
		if sd.signer.name == "K2" {
			other = "K1"
		}
		if ok2, _ := run(other, sd.bytes); !ok2 {
			bad++
		} else {
			r.HarnessError("self-check: gpgv accepts %s signed by %s with the other key's keyring", sd.m.Name, sd.signer.name)
		}
		// one text modification must be rejected by gpgv too
		ts, _, _ := gen.CSRegion(sd.bytes)
		t := (&Fault{Op: "sub", Off: ts, Data: []byte{sd.bytes[ts] ^ 1}}).apply(sd.bytes)
		if ok3, _ := run(sd.signer.name, t); ok3 {
			r.HarnessError("self-check: gpgv accepts a modified %s", sd.m.Name)
		}
	}
	cross["gpgv_documents"] = ran
	cross["gpgv_good_with_signers_key"] = good
	cross["gpgv_rejected_with_other_key"] = bad
}

func Replay(scenario string, raw json.RawMessage) []*mc.Violation {
	var in In
	if err := mc.UnmarshalInput(raw, &in); err != nil {
		return nil
	}
	if res := check(scenario, in); res.v != nil {
		return []*mc.Violation{res.v}
	}
	return nil
}
