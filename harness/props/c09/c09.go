// Package c09: struct marshal/unmarshal round-trips and passes unknown fields through.
package c09

import (
	"bytes"
	"encoding/json"
	"fmt"
	"io"
	"reflect"
	"sort"
	"strings"

	"pault.ag/go/debian/control"
	"pault.ag/go/debian/dependency"
	"pault.ag/go/debian/version"

	"verifharness/gen"
	"verifharness/mc"
	"verifharness/props/c10"
	"verifharness/props/reg"
	"verifharness/sched"
)

func init() { reg.Register(&reg.Prop{ID: "C09", Run: Run, Replay: Replay}) }

// Probe has one field of every supported kind and tag combination.
type Probe struct {
	S    string
	I    int
	U    uint
	B    bool
	L    []string
	LC   []string `delim:", "`
	LN   []string `delim:"\n" strip:"\n\r\t "`
	LI   []int
	V    version.Version
	D    dependency.Dependency
	A    dependency.Arch
	AL   []dependency.Arch
	H    []control.SHA256FileHash `delim:"\n" strip:"\n\r\t "`
	Ren  string                   `control:"X-Renamed"`
	Req  string                   `required:"true"`
	ReqL []string                 `required:"true"`
	ReqC []string                 `control:"Req-C" required:"true" delim:"," strip:" "`
	Skip string                   `control:"-"`
	M    string                   `multiline:"true"`
	P    *version.Version
	// skipped members of kinds the encoder has no rendering for: a skipped field is never looked at
	SkipM map[string]int  `control:"-"`
	SkipF float64         `control:"-"`
	SkipS struct{ X int } `control:"-"`
	SkipI interface{}     `control:"-"`
}

// ProbeP is the same with the raw paragraph embedded.
type ProbeP struct {
	control.Paragraph
	S    string
	I    int
	U    uint
	B    bool
	L    []string
	LC   []string `delim:", "`
	LN   []string `delim:"\n" strip:"\n\r\t "`
	LI   []int
	V    version.Version
	D    dependency.Dependency
	A    dependency.Arch
	AL   []dependency.Arch
	H    []control.SHA256FileHash `delim:"\n" strip:"\n\r\t "`
	Ren  string                   `control:"X-Renamed"`
	Req  string                   `required:"true"`
	ReqL []string                 `required:"true"`
	ReqC []string                 `control:"Req-C" required:"true" delim:"," strip:" "`
	Skip string                   `control:"-"`
	M    string                   `multiline:"true"`
	P    *version.Version
	// skipped members of kinds the encoder has no rendering for: a skipped field is never looked at
	SkipM map[string]int  `control:"-"`
	SkipF float64         `control:"-"`
	SkipS struct{ X int } `control:"-"`
	SkipI interface{}     `control:"-"`
}

// value alphabet: per field, index 0 is the default (zero / baseline), others are the deviations
var fieldNames = []string{"S", "I", "U", "B", "L", "LC", "LN", "LI", "V", "D", "A", "AL", "H", "Ren", "Req", "ReqL", "ReqC", "Skip", "M", "P"}

func mustVer(s string) version.Version {
	v, err := version.Parse(s)
	if err != nil {
		panic(err)
	}
	return v
}
func mustDep(s string) dependency.Dependency {
	d, err := dependency.Parse(s)
	if err != nil {
		panic(err)
	}
	return *d
}
func mustArch(s string) dependency.Arch {
	a, err := dependency.ParseArch(s)
	if err != nil {
		panic(err)
	}
	return *a
}
func hash(h string, n int64, f string) control.SHA256FileHash {
	return control.SHA256FileHash{FileHash: control.FileHash{Algorithm: "sha256", Hash: h, Size: n, Filename: f, ByHash: "SHA256"}}
}

// values returns the alternatives of a field (freshly built each call, so executions never alias data).
func values(name string) []interface{} {
	v1 := mustVer("1.0-1")
	switch name {
	case "S":
		// incl. values longer than a bufio buffer (4096) once written as "S: ..."
		out := []interface{}{"", "x", "two words", strings.Repeat("long ", 900) + "end", strings.Repeat("x", 4093), strings.Repeat("y", 8200), "100% of %s, a%20b %d%%"}
		for _, t := range gen.AuditStrings(func(s string) bool { return gen.OneLine(s) && strings.TrimSpace(s) == s }, 3) {
			out = append(out, t) // alphabet audit
		}
		return out
	case "I":
		out := []interface{}{0, 7, -3}
		for _, v := range gen.AuditInts(-1<<31, 1<<31, 6) {
			out = append(out, int(v), int(-v))
		}
		return out
	case "U":
		out := []interface{}{uint(0), uint(5), uint(3000000000)}
		for _, v := range gen.AuditInts(0, 1<<62, 6) {
			out = append(out, uint(v))
		}
		return out
	case "B":
		return []interface{}{false, true}
	case "L":
		long := make([]string, 1200)
		for i := range long {
			long[i] = fmt.Sprintf("e%d", i)
		}
		out := []interface{}{[]string(nil), []string{"a"}, []string{"a", "b", "c"}, long}
		for _, t := range gen.AuditStrings(gen.Nameish, 2) {
			out = append(out, []string{t}, []string{"a", t, "c"})
		}
		for _, n := range gen.AuditInts(2, 40, 3) { // list LENGTHS around a new constant
			l := make([]string, n)
			for i := range l {
				l[i] = fmt.Sprintf("e%d", i)
			}
			out = append(out, l)
		}
		return out
	case "LC":
		return []interface{}{[]string(nil), []string{"a b"}, []string{"a b", "c"}, []string{"50%", "%v b"}}
	case "LN":
		return []interface{}{[]string(nil), []string{"l1"}, []string{"l1", "l 2"}}
	case "LI":
		return []interface{}{[]int(nil), []int{1}, []int{1, -2, 30}}
	case "V":
		return []interface{}{version.Version{}, mustVer("1.0-1"), mustVer("2:3.0~rc1")}
	case "D":
		var rels []string
		for i := 0; i < 400; i++ {
			rels = append(rels, fmt.Sprintf("lib%d-dev (>= %d.0)", i, i))
		}
		return []interface{}{dependency.Dependency{}, mustDep("foo"), mustDep("foo (>= 1.0) | bar [amd64], ${misc:Depends}"), mustDep(strings.Join(rels, ", "))}
	case "A":
		return []interface{}{dependency.Arch{}, mustArch("amd64"), mustArch("linux-any")}
	case "AL":
		return []interface{}{[]dependency.Arch(nil), []dependency.Arch{mustArch("amd64")}, []dependency.Arch{mustArch("amd64"), mustArch("any-i386"), mustArch("all")}}
	case "H":
		return []interface{}{[]control.SHA256FileHash(nil), []control.SHA256FileHash{hash("aa11", 10, "f_1.dsc")}, []control.SHA256FileHash{hash("aa11", 10, "f_1.dsc"), hash("bb22", 0, "g.tar.xz")}}
	case "Ren":
		return []interface{}{"", "r"}
	case "Req":
		return []interface{}{"q", "", "q r"}
	case "ReqL":
		return []interface{}{[]string{"x"}, []string(nil), []string{"a", "b"}}
	case "ReqC":
		return []interface{}{[]string{"x"}, []string(nil), []string{"a", "b c"}}
	case "Skip":
		return []interface{}{"", "zzz"}
	case "M":
		return []interface{}{"", "one", "one\ntwo", "one\ntwo\n", "one\n\nthree", "one\ntwo\n\n", "one\n\n\n", "Ren\xe9 M\xfcller\nRen\xe9 \xff second\nthird"}
	case "P":
		return []interface{}{(*version.Version)(nil), &v1}
	}
	panic(name)
}

// In: which alternative each field takes (index into values(name)); WithPara selects ProbeP.
type In struct {
	Choice   map[string]int
	WithPara bool
}

func build(in In) interface{} {
	var target reflect.Value
	if in.WithPara {
		target = reflect.ValueOf(&ProbeP{}).Elem()
	} else {
		target = reflect.ValueOf(&Probe{}).Elem()
	}
	for _, n := range fieldNames {
		v := values(n)[in.Choice[n]]
		target.FieldByName(n).Set(reflect.ValueOf(v))
	}
	if in.Choice["Skip"] != 0 {
		target.FieldByName("SkipM").Set(reflect.ValueOf(map[string]int{"zzz": 1}))
		target.FieldByName("SkipF").SetFloat(1.5)
		target.FieldByName("SkipS").Field(0).SetInt(7)
		target.FieldByName("SkipI").Set(reflect.ValueOf(func() {}))
	}
	return target.Addr().Interface()
}

func features(in In) []string {
	var f []string
	for _, n := range fieldNames {
		if c := in.Choice[n]; c != 0 {
			switch n {
			case "U":
				f = append(f, "uint-field-set")
			case "P":
				f = append(f, "pointer-field-set")
			case "ReqL", "ReqC":
				if c == 1 {
					f = append(f, "required-list-empty")
				}
			}
		}
	}
	return f
}

func eqLists(a, b reflect.Value, eq func(x, y reflect.Value) bool) bool {
	if a.Len() != b.Len() {
		return false
	}
	for i := 0; i < a.Len(); i++ {
		if !eq(a.Index(i), b.Index(i)) {
			return false
		}
	}
	return true
}

// fieldEqual compares one field of the original and of the round-tripped struct.
func fieldEqual(name string, a, b reflect.Value) bool {
	switch name {
	case "D":
		da, db := a.Interface().(dependency.Dependency), b.Interface().(dependency.Dependency)
		return gen.CanonDep(&da) == gen.CanonDep(&db)
	case "M":
		return strings.TrimSuffix(a.String(), "\n") == strings.TrimSuffix(b.String(), "\n")
	case "P":
		if a.IsNil() || b.IsNil() {
			return a.IsNil() == b.IsNil()
		}
		return reflect.DeepEqual(a.Elem().Interface(), b.Elem().Interface())
	}
	if a.Kind() == reflect.Slice {
		return eqLists(a, b, func(x, y reflect.Value) bool { return reflect.DeepEqual(x.Interface(), y.Interface()) })
	}
	return reflect.DeepEqual(a.Interface(), b.Interface())
}

func keyOf(name string) string {
	if name == "Ren" {
		return "X-Renamed"
	}
	if name == "ReqC" {
		return "Req-C"
	}
	return name
}

// heldOther / heldOther2: values of other types converted between obtaining a paragraph and using it.
type heldOther struct {
	Name     string
	Priority string
	Tag      string
}

type heldOther2 struct {
	control.Paragraph
	Zeta string
}

// check: marshal does not panic; unmarshal of the text reproduces the value; omission / required / skip rules.
func check(scen string, in In) []*mc.Violation {
	feats := features(in)
	orig := build(in)
	var buf bytes.Buffer
	var err error
	if p, msg := mc.Guard(func() { err = control.Marshal(&buf, orig) }); p {
		return []*mc.Violation{mc.V(scen, "marshal-never-panics", in, "no panic", "panic: "+msg, feats...)}
	}
	if err != nil {
		return []*mc.Violation{mc.V(scen, "marshal-succeeds", in, "nil error", err.Error(), feats...)}
	}
	text := buf.String()
	var vs []*mc.Violation
	// what was written, field by field
	pr, err := control.NewParagraphReader(strings.NewReader(text), nil)
	var para *control.Paragraph
	if err == nil {
		para, err = pr.Next()
	}
	if err != nil {
		return []*mc.Violation{mc.V(scen, "marshalled-text-readable", in, "one paragraph", fmt.Sprintf("%q: %v", text, err), feats...)}
	}
	ov := reflect.ValueOf(orig).Elem()
	for _, n := range fieldNames {
		_, present := para.Values[keyOf(n)]
		switch n {
		case "Skip":
			if _, p2 := para.Values["Skip"]; p2 || strings.Contains(text, "zzz") {
				vs = append(vs, mc.V(scen, "skipped-field-never-written", in, "no Skip field", fmt.Sprintf("%q", text), feats...))
			}
		case "Req", "ReqL", "ReqC":
			if !present {
				vs = append(vs, mc.V(scen, "required-always-written", in, n+" present", fmt.Sprintf("%q", text), feats...))
			}
		default:
			// a field whose rendering is empty and that is not required does not appear
			if in.Choice[n] == 0 && present {
				switch n {
				case "I", "U", "B", "A", "V":
					// these zero values render as non-empty text ("0", "no", ...) and the suite pins that they are written
				default:
					vs = append(vs, mc.V(scen, "optional-zero-omitted", in, n+" absent", fmt.Sprintf("%q", text), feats...))
				}
			}
			if in.Choice[n] != 0 && !present {
				vs = append(vs, mc.V(scen, "set-field-written", in, n+" present", fmt.Sprintf("%q", text), feats...))
			}
		}
	}
	// the paragraph-level API must agree with the stream-level one: ConvertToParagraph gives the paragraph that Marshal
	// writes, UnpackFromParagraph decodes it like Unmarshal does
	var cp *control.Paragraph
	if p, msg := mc.Guard(func() { cp, err = control.ConvertToParagraph(orig) }); p {
		vs = append(vs, mc.V(scen, "marshal-never-panics", in, "no panic (ConvertToParagraph)", "panic: "+msg, feats...))
	} else if err != nil {
		vs = append(vs, mc.V(scen, "marshal-succeeds", in, "nil error (ConvertToParagraph)", err.Error(), feats...))
	} else {
		var b2 bytes.Buffer
		cp.WriteTo(&b2)
		if b2.String() != text {
			vs = append(vs, mc.V(scen, "convert-to-paragraph-agrees-with-marshal", in, fmt.Sprintf("%q", text), fmt.Sprintf("%q", b2.String()), feats...))
		}
		// the paragraph is the caller's: converting and marshalling other values afterwards does not rewrite it
		mc.Guard(func() {
			for _, other := range []interface{}{&heldOther{"n", "p", "q"}, &heldOther2{Zeta: "z"}, orig} {
				control.ConvertToParagraph(other)
				control.Marshal(io.Discard, other)
			}
		})
		var b3 bytes.Buffer
		cp.WriteTo(&b3)
		if b3.String() != b2.String() {
			vs = append(vs, mc.V(scen, "convert-to-paragraph-agrees-with-marshal", in, fmt.Sprintf("%q", b2.String()), fmt.Sprintf("the paragraph obtained earlier reads, after other values were converted: %q", b3.String()), feats...))
		}
		viaPara := reflect.New(ov.Type())
		if p, msg := mc.Guard(func() { err = control.UnpackFromParagraph(*para, viaPara.Interface()) }); p {
			vs = append(vs, mc.V(scen, "unmarshal-returns", in, "no panic (UnpackFromParagraph)", "panic: "+msg, feats...))
		} else if err == nil {
			for _, n := range fieldNames {
				if n == "Skip" {
					continue
				}
				if !fieldEqual(n, ov.FieldByName(n), viaPara.Elem().FieldByName(n)) {
					vs = append(vs, mc.V(scen, "unpack-from-paragraph-agrees-with-unmarshal", in, fmt.Sprintf("%s=%+v", n, ov.FieldByName(n).Interface()), fmt.Sprintf("%+v", viaPara.Elem().FieldByName(n).Interface()), append([]string{"field:" + n}, feats...)...))
				}
			}
		} else {
			vs = append(vs, mc.V(scen, "roundtrip-unmarshals", in, "nil error (UnpackFromParagraph)", err.Error(), feats...))
		}
	}
	// unmarshal into a fresh value of the same type
	fresh := reflect.New(ov.Type())
	if p, msg := mc.Guard(func() { err = control.Unmarshal(fresh.Interface(), strings.NewReader(text)) }); p {
		return append(vs, mc.V(scen, "unmarshal-returns", in, "no panic", "panic: "+msg, feats...))
	}
	if err != nil {
		return append(vs, mc.V(scen, "roundtrip-unmarshals", in, "nil error", fmt.Sprintf("%q: %v", text, err), feats...))
	}
	for _, n := range fieldNames {
		a, b := ov.FieldByName(n), fresh.Elem().FieldByName(n)
		if n == "Skip" {
			if b.String() != "" {
				vs = append(vs, mc.V(scen, "skipped-field-untouched", in, "empty", b.String(), feats...))
			}
			continue
		}
		if !fieldEqual(n, a, b) {
			vs = append(vs, mc.V(scen, "roundtrip-field-equal", in, fmt.Sprintf("%s=%+v", n, a.Interface()), fmt.Sprintf("%+v (text %q)", b.Interface(), text), append([]string{"field:" + n}, feats...)...))
		}
	}
	// deleting a required field's line makes Unmarshal fail
	for _, n := range []string{"Req", "ReqL", "Req-C"} {
		var kept []string
		skipping := false
		for _, l := range strings.SplitAfter(text, "\n") {
			if strings.HasPrefix(l, n+":") {
				skipping = true
				continue
			}
			if skipping && (strings.HasPrefix(l, " ") || strings.HasPrefix(l, "\t")) {
				continue
			}
			skipping = false
			kept = append(kept, l)
		}
		cut := strings.Join(kept, "")
		f2 := reflect.New(ov.Type())
		if p, msg := mc.Guard(func() { err = control.Unmarshal(f2.Interface(), strings.NewReader(cut)) }); p {
			vs = append(vs, mc.V(scen, "unmarshal-returns", in, "no panic", "panic: "+msg, feats...))
		} else if err == nil {
			vs = append(vs, mc.V(scen, "required-absence-is-error", in, "error when "+n+" is missing", fmt.Sprintf("accepted %q", cut), feats...))
		} else {
			// ... and also when the value decoded into already holds one: a document that lacks a required field is
			// refused whatever the target held (the complete document was decoded into it just before)
			f3 := reflect.New(ov.Type())
			var e1, e2 error
			if p, msg := mc.Guard(func() {
				e1 = control.Unmarshal(f3.Interface(), strings.NewReader(text))
				e2 = control.Unmarshal(f3.Interface(), strings.NewReader(cut))
			}); p {
				vs = append(vs, mc.V(scen, "unmarshal-returns", in, "no panic", "panic: "+msg, feats...))
			} else if e1 == nil && e2 == nil {
				vs = append(vs, mc.V(scen, "required-absence-is-error", in, "error when "+n+" is missing", fmt.Sprintf("accepted %q when decoded into a value that already held the complete document", cut), feats...))
			}
		}
	}
	return vs
}

// ---------- pass-through of unknown fields ----------

type PT struct {
	control.Paragraph
	Known1 string
	Known2 []string        `control:"Known-Two" delim:", "`
	Known3 version.Version `control:"Known-3"`
}

// PTIn: a document = interleaving of known/unknown fields; an edit applied after decoding.
type PTIn struct {
	Fields [][2]string // name, value in document order
	Edit   string      // none | change1 | clear1 | set1 | change2 | clear2
}

func ptFeatures(in PTIn) []string {
	var f []string
	if strings.HasPrefix(in.Edit, "clear") {
		f = append(f, "known-field-cleared")
	}
	return f
}

// refValueOf: the value a reader reports for a field whose text after "Name: " is v (continuation lines inside v start
// with their marker; " ." is an empty line) - the deb822 reference of C07.
func refValueOf(v string) string {
	parts := strings.Split(v, "\n")
	f := gen.DField{Name: "X", First: parts[0]}
	for _, l := range parts[1:] {
		if l == "" {
			continue
		}
		f.Cont = append(f.Cont, gen.DLine{Marker: l[0], Text: l[1:]})
	}
	return f.RefValue()
}

func checkPT(scen string, in PTIn) []*mc.Violation {
	feats := ptFeatures(in)
	var doc strings.Builder
	for _, f := range in.Fields {
		doc.WriteString(f[0] + ": " + f[1] + "\n")
	}
	var x PT
	if err := control.Unmarshal(&x, strings.NewReader(doc.String())); err != nil {
		return []*mc.Violation{mc.V(scen, "document-decodes", in, "nil error", err.Error(), feats...)}
	}
	switch in.Edit {
	case "change1":
		x.Known1 = "changed"
	case "clear1":
		x.Known1 = ""
	case "set1":
		x.Known1 = "newly set"
	case "change2":
		x.Known2 = []string{"p", "q", "r"}
	case "clear2":
		x.Known2 = nil
	}
	rawBefore := fmt.Sprintf("%v|%v", x.Paragraph.Order, x.Paragraph.Values)
	var buf bytes.Buffer
	var err error
	if p, msg := mc.Guard(func() { err = control.Marshal(&buf, &x) }); p {
		return []*mc.Violation{mc.V(scen, "marshal-never-panics", in, "no panic", msg, feats...)}
	}
	_ = rawBefore
	// marshalling is repeatable: the demanded output is a function of the unknown fields (in order) and the known
	// fields' current values, neither of which a Marshal call changes, so a second and a third Marshal give the same text
	before := fmt.Sprintf("%v|%v", x.Paragraph.Order, x.Paragraph.Values)
	for rep := 2; rep <= 3; rep++ {
		var again bytes.Buffer
		if p, msg := mc.Guard(func() { err = control.Marshal(&again, &x) }); p || err != nil {
			return []*mc.Violation{mc.V(scen, "marshal-is-repeatable", in, "same text every time", fmt.Sprintf("marshal #%d: %v %s", rep, err, msg), feats...)}
		}
		if again.String() != buf.String() {
			return []*mc.Violation{mc.V(scen, "marshal-is-repeatable", in, fmt.Sprintf("%q", buf.String()), fmt.Sprintf("marshal #%d wrote %q", rep, again.String()), feats...)}
		}
	}
	_ = before
	pr, err := control.NewParagraphReader(strings.NewReader(buf.String()), nil)
	var para *control.Paragraph
	if err == nil {
		para, err = pr.Next()
	}
	if err != nil {
		if len(in.Fields) == 0 || buf.Len() == 0 {
			return nil
		}
		return []*mc.Violation{mc.V(scen, "marshalled-text-readable", in, "one paragraph", fmt.Sprintf("%q: %v", buf.String(), err), feats...)}
	}
	var vs []*mc.Violation
	// unknown fields: unchanged, in their original relative order
	var wantUnknown, gotUnknown []string
	for _, f := range in.Fields {
		if f[0] != "Known1" && f[0] != "Known-Two" && f[0] != "Known-3" {
			wantUnknown = append(wantUnknown, f[0]+"="+strings.TrimSuffix(refValueOf(f[1]), "\n"))
		}
	}
	for _, k := range para.Order {
		if k != "Known1" && k != "Known-Two" && k != "Known-3" {
			gotUnknown = append(gotUnknown, k+"="+strings.TrimSuffix(para.Values[k], "\n"))
		}
	}
	if strings.Join(wantUnknown, "|") != strings.Join(gotUnknown, "|") {
		vs = append(vs, mc.V(scen, "unknown-fields-unchanged-in-order", in, strings.Join(wantUnknown, "|"), strings.Join(gotUnknown, "|"), feats...))
	}
	// known fields reflect the struct's current values (a cleared optional field is absent)
	want1, want2 := x.Known1, strings.Join(x.Known2, ", ")
	if got, ok := para.Values["Known1"]; got != want1 || ok != (want1 != "") {
		vs = append(vs, mc.V(scen, "known-fields-reflect-current-values", in, fmt.Sprintf("Known1=%q", want1), fmt.Sprintf("%q present=%v", got, ok), feats...))
	}
	if got, ok := para.Values["Known-Two"]; got != want2 || ok != (want2 != "") {
		vs = append(vs, mc.V(scen, "known-fields-reflect-current-values", in, fmt.Sprintf("Known-Two=%q", want2), fmt.Sprintf("%q present=%v", got, ok), feats...))
	}
	want3 := x.Known3.String()
	if got, ok := para.Values["Known-3"]; got != want3 || ok != (want3 != "") {
		vs = append(vs, mc.V(scen, "known-fields-reflect-current-values", in, fmt.Sprintf("Known-3=%q", want3), fmt.Sprintf("%q present=%v", got, ok), feats...))
	}
	// every field is written once
	seen := map[string]int{}
	for _, k := range para.Order {
		seen[k]++
		if seen[k] == 2 {
			vs = append(vs, mc.V(scen, "each-field-written-once", in, "no repeated field", fmt.Sprintf("%q twice in %q", k, buf.String()), feats...))
		}
	}
	if n := strings.Count(buf.String(), "\nKnown1:") + strings.Count(buf.String(), "\nKnown-3:"); n > 2 {
		vs = append(vs, mc.V(scen, "each-field-written-once", in, "no repeated field", fmt.Sprintf("%q", buf.String()), feats...))
	}
	return vs
}

// ---------- field names that collide with members of nested self-decoding types ----------

// Collide has plain fields named like the members of version.Version / dependency.Arch, next to such values.
type Collide struct {
	control.Paragraph
	Epoch    uint
	Revision string
	Version  version.Version
	CPU      string
	OS       string
	Arch     dependency.Arch `control:"Architecture"`
	Depends  dependency.Dependency
}

// ColIn: values of the plain fields and of the nested ones (texts), plus extra unknown fields of the document.
type ColIn struct {
	Epoch              uint
	Revision, CPU, OS  string
	Version, Arch, Dep string
	Unknown            [][2]string // e.g. {"Values","x"}, {"Order","a b"}, {"Relations","r"}, {"ABI","musl"}
}

func checkCollide(scen string, in ColIn) []*mc.Violation {
	c := Collide{Epoch: in.Epoch, Revision: in.Revision, CPU: in.CPU, OS: in.OS}
	if in.Version != "" {
		c.Version = mustVer(in.Version)
	}
	if in.Arch != "" {
		c.Arch = mustArch(in.Arch)
	}
	if in.Dep != "" {
		c.Depends = mustDep(in.Dep)
	}
	var buf bytes.Buffer
	var err error
	if p, msg := mc.Guard(func() { err = control.Marshal(&buf, &c) }); p {
		return []*mc.Violation{mc.V(scen, "marshal-never-panics", in, "no panic", msg)}
	}
	if err != nil {
		return []*mc.Violation{mc.V(scen, "marshal-succeeds", in, "nil error", err.Error())}
	}
	text := buf.String()
	for _, u := range in.Unknown {
		text += u[0] + ": " + u[1] + "\n"
	}
	var d Collide
	if p, msg := mc.Guard(func() { err = control.Unmarshal(&d, strings.NewReader(text)) }); p {
		return []*mc.Violation{mc.V(scen, "unmarshal-returns", in, "no panic", msg)}
	}
	if err != nil {
		return []*mc.Violation{mc.V(scen, "roundtrip-unmarshals", in, "nil error", fmt.Sprintf("%q: %v", text, err))}
	}
	var vs []*mc.Violation
	if d.Epoch != c.Epoch || d.Revision != c.Revision || d.CPU != c.CPU || d.OS != c.OS {
		vs = append(vs, mc.V(scen, "roundtrip-field-equal", in, fmt.Sprintf("%+v", c), fmt.Sprintf("plain fields %d %q %q %q", d.Epoch, d.Revision, d.CPU, d.OS)))
	}
	if d.Version != c.Version {
		vs = append(vs, mc.V(scen, "roundtrip-field-equal", in, fmt.Sprintf("Version %+v", c.Version), fmt.Sprintf("%+v (text %q)", d.Version, text)))
	}
	if d.Arch != c.Arch && in.Arch != "" {
		vs = append(vs, mc.V(scen, "roundtrip-field-equal", in, fmt.Sprintf("Arch %+v", c.Arch), fmt.Sprintf("%+v (text %q)", d.Arch, text)))
	}
	if gen.CanonDep(&d.Depends) != gen.CanonDep(&c.Depends) {
		vs = append(vs, mc.V(scen, "roundtrip-field-equal", in, gen.CanonDep(&c.Depends), gen.CanonDep(&d.Depends)))
	}
	// unknown fields are kept in the embedded paragraph
	for _, u := range in.Unknown {
		if d.Values[u[0]] != u[1] {
			vs = append(vs, mc.V(scen, "unknown-fields-unchanged-in-order", in, u[0]+"="+u[1], d.Values[u[0]]))
		}
	}
	return vs
}

// ---------- decoding a second document into a struct that already holds the first ----------

type TwiceIn struct {
	First, Second [][2]string
}

func docText(fs [][2]string) string {
	var sb strings.Builder
	for _, f := range fs {
		sb.WriteString(f[0] + ": " + f[1] + "\n")
	}
	return sb.String()
}

// checkTwice: every field that the second document contains must come out as in a fresh decode of the second document
// (what happens to fields the second document lacks is not demanded).
func checkTwice(scen string, in TwiceIn) []*mc.Violation {
	var fresh, reused ProbeP
	if err := control.Unmarshal(&fresh, strings.NewReader(docText(in.Second))); err != nil {
		return nil
	}
	var e1, e2 error
	if p, msg := mc.Guard(func() {
		e1 = control.Unmarshal(&reused, strings.NewReader(docText(in.First)))
		e2 = control.Unmarshal(&reused, strings.NewReader(docText(in.Second)))
	}); p {
		return []*mc.Violation{mc.V(scen, "unmarshal-returns", in, "no panic", msg)}
	}
	_ = e1
	if e2 != nil {
		return []*mc.Violation{mc.V(scen, "second-decode-succeeds", in, "nil error", e2.Error())}
	}
	var vs []*mc.Violation
	fv, rv := reflect.ValueOf(&fresh).Elem(), reflect.ValueOf(&reused).Elem()
	for _, f := range in.Second {
		name := f[0]
		if name == "X-Renamed" {
			name = "Ren"
		}
		if name == "Req-C" {
			name = "ReqC"
		}
		a, b := fv.FieldByName(name), rv.FieldByName(name)
		if !a.IsValid() {
			continue
		}
		if !fieldEqual(name, a, b) {
			vs = append(vs, mc.V(scen, "reused-struct-decodes-like-a-fresh-one", in, fmt.Sprintf("%s=%+v", name, a.Interface()), fmt.Sprintf("%+v", b.Interface())))
		}
	}
	if strings.Join(reused.Order, "|") != strings.Join(fresh.Order, "|") {
		vs = append(vs, mc.V(scen, "reused-struct-decodes-like-a-fresh-one", in, fmt.Sprint(fresh.Order), fmt.Sprint(reused.Order)))
	}
	return vs
}

// ---------- lists of structs: a slice decodes element by element like its elements decode on their own ----------

type ListIn struct {
	Items    []In
	WithPara bool
}

func checkList(scen string, in ListIn) []*mc.Violation {
	et := reflect.TypeOf(Probe{})
	if in.WithPara {
		et = reflect.TypeOf(ProbeP{})
	}
	orig := reflect.MakeSlice(reflect.SliceOf(et), 0, len(in.Items))
	singles := make([]reflect.Value, len(in.Items))
	for i, it := range in.Items {
		it.WithPara = in.WithPara
		one := build(it)
		orig = reflect.Append(orig, reflect.ValueOf(one).Elem())
		var b bytes.Buffer
		if err := control.Marshal(&b, one); err != nil {
			return nil // the single round trip is probe-roundtrip's business
		}
		fresh := reflect.New(et)
		if err := control.Unmarshal(fresh.Interface(), strings.NewReader(b.String())); err != nil {
			return nil
		}
		singles[i] = fresh.Elem()
	}
	var buf bytes.Buffer
	var err error
	if p, msg := mc.Guard(func() { err = control.Marshal(&buf, orig.Interface()) }); p {
		return []*mc.Violation{mc.V(scen, "marshal-never-panics", in, "no panic", msg)}
	}
	if err != nil {
		return []*mc.Violation{mc.V(scen, "marshal-succeeds", in, "nil error", err.Error())}
	}
	dec := reflect.New(reflect.SliceOf(et))
	if p, msg := mc.Guard(func() { err = control.Unmarshal(dec.Interface(), strings.NewReader(buf.String())) }); p {
		return []*mc.Violation{mc.V(scen, "unmarshal-returns", in, "no panic", msg)}
	}
	if err != nil {
		return []*mc.Violation{mc.V(scen, "list-decodes", in, "nil error", fmt.Sprintf("%v (text %q)", err, buf.String()))}
	}
	got := dec.Elem()
	if got.Len() != len(in.Items) {
		return []*mc.Violation{mc.V(scen, "list-has-one-element-per-struct", in, fmt.Sprint(len(in.Items)), fmt.Sprintf("%d (text %q)", got.Len(), buf.String()))}
	}
	var vs []*mc.Violation
	for i := range in.Items {
		for _, n := range fieldNames {
			a, b := singles[i].FieldByName(n), got.Index(i).FieldByName(n)
			if !fieldEqual(n, a, b) {
				vs = append(vs, mc.V(scen, "list-element-equals-its-own-decode", in, fmt.Sprintf("element %d: %s=%+v", i, n, a.Interface()), fmt.Sprintf("%+v (text %q)", b.Interface(), buf.String())))
			}
		}
		if in.WithPara {
			a, b := singles[i].FieldByName("Paragraph").Interface().(control.Paragraph), got.Index(i).FieldByName("Paragraph").Interface().(control.Paragraph)
			if !reflect.DeepEqual(a.Order, b.Order) || !reflect.DeepEqual(a.Values, b.Values) {
				vs = append(vs, mc.V(scen, "list-element-equals-its-own-decode", in, fmt.Sprintf("element %d: paragraph %v", i, a.Order), fmt.Sprintf("%v", b.Order)))
			}
		}
	}
	return vs
}

func Run(r *mc.Run) {
	r.Rule = "probe structs (19 fields: every supported kind and tag) with <= 3 (quick) / 4 (thorough) fields at a non-default value, every combination of fields and values, with and without an embedded Paragraph; pass-through documents: every interleaving of <= 2 known and <= 2 unknown fields x 6 edits. Non-trivial = at least one non-default field / at least one unknown field; distinct by construction"
	r.Assume = []string{"'optional zero fields are omitted' is read as: a field whose text rendering is empty and that is not required does not appear (int 0 / bool false / zero Arch / zero Version render as non-empty text and are written, which the suite pins for int and bool)",
		"lists: nil and empty are identified; multi-line strings are equal up to one trailing newline (as in C08)"}
	k := r.Pick(3, 4)
	// enumerate subsets of <= k fields and all their non-default value combinations
	type combo struct{ fields []int }
	var subsets [][]int
	var rec func(start int, cur []int)
	rec = func(start int, cur []int) {
		subsets = append(subsets, append([]int{}, cur...))
		if len(cur) == k {
			return
		}
		for i := start; i < len(fieldNames); i++ {
			rec(i+1, append(cur, i))
		}
	}
	rec(0, nil)
	r.Scenario("probe-roundtrip", map[string]interface{}{"fields": fieldNames, "max_non_default_fields": k, "field_subsets": len(subsets)}, len(subsets), func(i int, st *mc.Stats) bool {
		sub := subsets[i]
		// odometer over the non-default alternatives of the chosen fields
		idx := make([]int, len(sub))
		for j := range idx {
			idx[j] = 1
		}
		for {
			for _, wp := range []bool{false, true} {
				in := In{Choice: map[string]int{}, WithPara: wp}
				for j, f := range sub {
					in.Choice[fieldNames[f]] = idx[j]
				}
				st.Evals++
				st.Traces++
				if len(sub) > 0 {
					st.Nontrivial++
				}
				vs := check("probe-roundtrip", in)
				if len(vs) == 0 {
					st.Class("roundtrips")
				}
				for _, v := range vs {
					st.Violate(v)
					st.Class(v.Clause)
				}
				if st.WantSample() && i%173 == 29 && wp {
					var b bytes.Buffer
					if p, _ := mc.Guard(func() { control.Marshal(&b, build(in)) }); !p {
						st.Sample(b.String())
					}
				}
			}
			j := len(sub) - 1
			for j >= 0 {
				idx[j]++
				if idx[j] < len(values(fieldNames[sub[j]])) {
					break
				}
				idx[j] = 1
				j--
			}
			if j < 0 {
				break
			}
		}
		return true
	})

	// lists of structs: every pair (and every triple ending in one of the first few) of single-field variants
	items := []In{{Choice: map[string]int{}}}
	for _, n := range fieldNames {
		for c := 1; c < len(values(n)); c++ {
			items = append(items, In{Choice: map[string]int{n: c}})
		}
	}
	items = append(items, In{Choice: map[string]int{"S": 1, "L": 1, "V": 1, "D": 1, "A": 1, "M": 1}})
	r.Scenario("struct-lists", map[string]interface{}{"element_variants": len(items), "list_lengths": "2 and 3", "entry_points": "Marshal(slice) / Unmarshal(&slice)"}, len(items), func(i int, st *mc.Stats) bool {
		try := func(in ListIn) {
			st.Evals++
			st.Traces++
			st.Nontrivial++
			vs := checkList("struct-lists", in)
			if len(vs) == 0 {
				st.Class("elementwise")
			}
			for _, v := range vs {
				st.Violate(v)
				st.Class(v.Clause)
			}
		}
		for _, wp := range []bool{false, true} {
			for j := range items {
				try(ListIn{[]In{items[i], items[j]}, wp})
				for k := 0; k < len(items); k += 7 {
					try(ListIn{[]In{items[i], items[j], items[k]}, wp})
				}
			}
		}
		return true
	})

	// the same entry points called at the same time on independent inputs: every schedule of small thread programs (instrumented build)
	sched.Explore(r, "concurrent-calls", ConcurrentPrograms())

	typesScenario(r)
	longScenario(r)
	shapeScenario(r)

	// the library's own typed documents as struct values
	c10.AddRemarshalScenario(r, r.Pick(1, 2))

	// pass-through
	known := [][2]string{{"Known1", "k one"}, {"Known-Two", "a, b"}, {"Known-3", "1:2.0-1"}}
	unknown := [][2]string{{"X-Extra", "u1 100%"}, {"Zeta", "u 2 %s %d a%20b"}} // per cent signs: text, not format verbs
	// unknown fields whose names differ from a known key only in letter case are unknown fields all the same
	unknownML := [][2]string{{"X-Extra", "u1\n more Ren\xe9 M\xfcller\n .\n last\n ."}, {"Zeta", "\n line one\n .\n .\n\tline four\n ."}}
	unknownK := [][2]string{{"\u212anown1", "kelvin 1"}, {"\u212anown-Two", "kelvin 2"}}
	unknownAlt := [][2]string{{"known1", "case-variant 1"}, {"KNOWN-TWO", "case-variant 2"}}
	var docs [][][2]string
	// all interleavings of every subset of known (in order) with every subset of unknown (in order)
	for km := 0; km < 8; km++ {
		for um := 0; um < 4; um++ {
			var ks, us [][2]string
			for b := 0; b < 3; b++ {
				if km&(1<<b) != 0 {
					ks = append(ks, known[b])
				}
				if b < 2 && um&(1<<b) != 0 {
					us = append(us, unknown[b])
				}
			}
			// both orders of the unknown pair too, and the same with case-variant names
			var usAlt [][2]string
			for b := 0; b < 2; b++ {
				if um&(1<<b) != 0 {
					usAlt = append(usAlt, unknownAlt[b])
				}
			}
			orders := [][][2]string{us}
			if len(usAlt) > 0 {
				orders = append(orders, usAlt)
			}
			// multi-line unknown fields, with empty lines inside and at the end
			var usML [][2]string
			for b := 0; b < 2; b++ {
				if um&(1<<b) != 0 {
					usML = append(usML, unknownML[b])
				}
			}
			if len(usML) > 0 {
				orders = append(orders, usML)
			}
			// names that only Unicode case folding maps onto a known key (KELVIN SIGN for K) are unknown fields too
			var usK [][2]string
			for b := 0; b < 2; b++ {
				if um&(1<<b) != 0 {
					usK = append(usK, unknownK[b])
				}
			}
			if len(usK) > 0 {
				orders = append(orders, usK)
			}
			if len(us) == 2 {
				orders = append(orders, [][2]string{us[1], us[0]})
			}
			for _, uo := range orders {
				var merge func(a, b [][2]string, cur [][2]string)
				merge = func(a, b, cur [][2]string) {
					if len(a) == 0 && len(b) == 0 {
						docs = append(docs, append([][2]string{}, cur...))
						return
					}
					if len(a) > 0 {
						merge(a[1:], b, append(cur, a[0]))
					}
					if len(b) > 0 {
						merge(a, b[1:], append(cur, b[0]))
					}
				}
				merge(ks, uo, nil)
			}
		}
	}
	edits := []string{"none", "change1", "clear1", "set1", "change2", "clear2"}
	r.Scenario("unknown-field-pass-through", map[string]interface{}{"documents": len(docs), "edits": edits}, len(docs), func(i int, st *mc.Stats) bool {
		for _, e := range edits {
			in := PTIn{docs[i], e}
			if len(docs[i]) == 0 {
				continue
			}
			st.Evals++
			st.Traces++
			st.Nontrivial++
			vs := checkPT("unknown-field-pass-through", in)
			if len(vs) == 0 {
				st.Class("passes-through")
			}
			for _, v := range vs {
				st.Violate(v)
				st.Class(v.Clause)
			}
			if st.WantSample() && i%23 == 7 && e == "change1" {
				st.Sample(in)
			}
		}
		return true
	})
	// a struct reused for a second document
	twiceDocs := [][][2]string{
		{{"Req", "q"}, {"ReqL", "x"}, {"Req-C", "x"}},
		{{"Req", "q"}, {"ReqL", "x y"}, {"Req-C", "a, b"}, {"L", "a b c"}, {"LC", "a b, c"}, {"LI", "1 2 3"}, {"AL", "amd64 any-i386"}, {"V", "1:2.0-3"}, {"A", "linux-any"}, {"D", "foo, bar | baz"}, {"S", "s1"}, {"I", "7"}, {"U", "5"}, {"B", "yes"}},
		{{"Req", "r"}, {"ReqL", "z"}, {"Req-C", "c"}, {"L", "d"}, {"LC", "e"}, {"LI", "9"}, {"AL", "all"}, {"V", "2.1"}, {"A", "amd64"}, {"D", "qux"}, {"S", "s2"}, {"I", "0"}, {"U", "0"}, {"B", "no"}},
		{{"Req", "r"}, {"ReqL", ""}, {"Req-C", ""}, {"L", ""}, {"V", "3-1"}, {"D", ""}},
		{{"Req", ""}, {"ReqL", "x"}, {"Req-C", "x"}, {"H", "\n aa11 10 f_1.dsc\n bb22 0 g.tar.xz"}, {"LN", "\n l1\n l 2"}},
		{{"Req", "q"}, {"ReqL", "x"}, {"Req-C", "x"}, {"H", "\n cc33 5 h.dsc"}, {"LN", "\n m"}, {"P", "1.0-1"}},
	}
	r.Scenario("decode-into-reused-struct", map[string]interface{}{"documents": len(twiceDocs), "pairs": len(twiceDocs) * len(twiceDocs)}, len(twiceDocs), func(i int, st *mc.Stats) bool {
		for _, y := range twiceDocs {
			st.Evals++
			st.Traces++
			st.Nontrivial++
			vs := checkTwice("decode-into-reused-struct", TwiceIn{twiceDocs[i], y})
			if len(vs) == 0 {
				st.Class("as-fresh")
			}
			for _, v := range vs {
				st.Violate(v)
				st.Class(v.Clause)
			}
		}
		return true
	})

	// name collisions
	var cols []ColIn
	unknowns := [][][2]string{nil, {{"Values", "x"}}, {{"Order", "a b"}}, {{"Relations", "r"}}, {{"ABI", "musl"}}, {{"Stages", "s"}}, {{"Possibilities", "p"}}}
	for _, e := range []uint{0, 5} {
		for _, rv := range []string{"", "zzz"} {
			for _, cpu := range []string{"", "arm"} {
				for _, os := range []string{"", "hurd"} {
					for _, v := range []string{"", "1.0", "2:1.0-3"} {
						for _, a := range []string{"", "amd64", "linux-any"} {
							for _, dp := range []string{"", "foo (>= 1) | bar"} {
								for _, u := range unknowns {
									cols = append(cols, ColIn{e, rv, cpu, os, v, a, dp, u})
								}
							}
						}
					}
				}
			}
		}
	}
	r.Scenario("nested-member-name-collisions", map[string]interface{}{"cases": len(cols)}, 16, func(sh int, st *mc.Stats) bool {
		for i := sh; i < len(cols); i += 16 {
			st.Evals++
			st.Traces++
			st.Nontrivial++
			vs := checkCollide("nested-member-name-collisions", cols[i])
			if len(vs) == 0 {
				st.Class("roundtrips")
			}
			for _, v := range vs {
				st.Violate(v)
				st.Class(v.Clause)
			}
		}
		return true
	})
	_ = sort.Strings
}

func Replay(scenario string, raw json.RawMessage) []*mc.Violation {
	if scenario == "concurrent-calls" {
		return sched.Replay(scenario, ConcurrentPrograms(), raw)
	}
	if scenario == "decode-into-reused-struct" {
		var in TwiceIn
		if mc.UnmarshalInput(raw, &in) == nil {
			return checkTwice(scenario, in)
		}
		return nil
	}
	if scenario == c10.RemarshalScenario {
		return c10.ReplayRemarshal(raw)
	}
	if scenario == "struct-shapes" {
		var in ShapeIn
		if mc.UnmarshalInput(raw, &in) == nil {
			return checkShape(scenario, in)
		}
		return nil
	}
	if scenario == "long-lists" {
		var in LongIn
		if mc.UnmarshalInput(raw, &in) == nil {
			return checkLong(scenario, in)
		}
		return nil
	}
	if scenario == "types-sharing-a-name" {
		var in TypesIn
		if mc.UnmarshalInput(raw, &in) == nil {
			return checkTypes(scenario, in)
		}
		return nil
	}
	if scenario == "struct-lists" {
		var in ListIn
		if mc.UnmarshalInput(raw, &in) == nil {
			return checkList(scenario, in)
		}
		return nil
	}
	if scenario == "nested-member-name-collisions" {
		var in ColIn
		if mc.UnmarshalInput(raw, &in) == nil {
			return checkCollide(scenario, in)
		}
		return nil
	}
	if scenario == "unknown-field-pass-through" {
		var in PTIn
		if mc.UnmarshalInput(raw, &in) == nil {
			return checkPT(scenario, in)
		}
		return nil
	}
	var in In
	if mc.UnmarshalInput(raw, &in) == nil {
		return check(scenario, in)
	}
	return nil
}
