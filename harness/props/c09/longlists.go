package c09

// Lists longer than the probe product reaches: 13..300 elements in every list-kinded field at once (slice growth in the
// decoder, line folding in the encoder), with and without the embedded paragraph, as a single struct and inside a slice.

import (
	"bytes"
	"fmt"
	"reflect"
	"strings"

	"pault.ag/go/debian/control"
	"pault.ag/go/debian/dependency"

	"verifharness/mc"
)

type LongIn struct {
	N        int
	WithPara bool
	InSlice  bool
}

func buildLong(in LongIn) reflect.Value {
	it := In{Choice: map[string]int{}, WithPara: in.WithPara}
	v := reflect.ValueOf(build(it)).Elem()
	var l, lc, ln []string
	var li []int
	var al []dependency.Arch
	var h []control.SHA256FileHash
	archs := []string{"amd64", "i386", "linux-any", "kfreebsd-amd64", "any", "all"}
	var rels []string
	for i := 0; i < in.N; i++ {
		l = append(l, fmt.Sprintf("e%d", i))
		lc = append(lc, fmt.Sprintf("c %d", i))
		ln = append(ln, fmt.Sprintf("line %d", i))
		li = append(li, i*7-3)
		al = append(al, mustArch(archs[i%len(archs)]))
		h = append(h, hash(fmt.Sprintf("%064x", i+1), int64(i)*1000, fmt.Sprintf("file_%d.tar.gz", i)))
		rels = append(rels, fmt.Sprintf("pkg%d (>= %d) | alt%d [amd64]", i, i, i))
	}
	v.FieldByName("L").Set(reflect.ValueOf(l))
	v.FieldByName("LC").Set(reflect.ValueOf(lc))
	v.FieldByName("LN").Set(reflect.ValueOf(ln))
	v.FieldByName("LI").Set(reflect.ValueOf(li))
	v.FieldByName("AL").Set(reflect.ValueOf(al))
	v.FieldByName("H").Set(reflect.ValueOf(h))
	v.FieldByName("D").Set(reflect.ValueOf(mustDep(strings.Join(rels, ", "))))
	v.FieldByName("M").SetString(strings.Join(ln, "\n"))
	v.FieldByName("ReqL").Set(reflect.ValueOf(l))
	return v
}

func checkLong(scen string, in LongIn) []*mc.Violation {
	orig := buildLong(in)
	var buf bytes.Buffer
	var err error
	back := reflect.New(orig.Type())
	if p, msg := mc.Guard(func() {
		if in.InSlice {
			sl := reflect.MakeSlice(reflect.SliceOf(orig.Type()), 0, 2)
			sl = reflect.Append(sl, orig, orig)
			if err = control.Marshal(&buf, sl.Interface()); err != nil {
				return
			}
			dec := reflect.New(sl.Type())
			if err = control.Unmarshal(dec.Interface(), strings.NewReader(buf.String())); err != nil {
				return
			}
			if dec.Elem().Len() != 2 {
				err = fmt.Errorf("%d elements decoded from a list of 2", dec.Elem().Len())
				return
			}
			back.Elem().Set(dec.Elem().Index(1))
			return
		}
		if err = control.Marshal(&buf, orig.Addr().Interface()); err != nil {
			return
		}
		err = control.Unmarshal(back.Interface(), strings.NewReader(buf.String()))
	}); p {
		return []*mc.Violation{mc.V(scen, "marshal-never-panics", in, "no panic", msg)}
	}
	if err != nil {
		return []*mc.Violation{mc.V(scen, "roundtrip-field-equal", in, "nil error", err.Error())}
	}
	var vs []*mc.Violation
	for _, n := range fieldNames {
		if !fieldEqual(n, orig.FieldByName(n), back.Elem().FieldByName(n)) {
			a, b := fmt.Sprintf("%+v", orig.FieldByName(n).Interface()), fmt.Sprintf("%+v", back.Elem().FieldByName(n).Interface())
			if len(a) > 200 {
				a = a[:200] + "…"
			}
			if len(b) > 200 {
				b = b[:200] + "…"
			}
			vs = append(vs, mc.V(scen, "roundtrip-field-equal", in, n+"="+a, b, "field:"+n))
		}
	}
	return vs
}

func longScenario(r *mc.Run) {
	var ins []LongIn
	for _, n := range []int{13, 16, 17, 32, 33, 64, 65, 100, 257, 300} {
		for _, wp := range []bool{false, true} {
			for _, sl := range []bool{false, true} {
				ins = append(ins, LongIn{n, wp, sl})
			}
		}
	}
	r.Scenario("long-lists", map[string]interface{}{"cases": len(ins), "elements": "13..300 in every list-kinded field, a dependency of as many relations, a multi-line value of as many lines"}, len(ins), func(i int, st *mc.Stats) bool {
		st.Evals++
		st.Traces++
		st.Nontrivial++
		vs := checkLong("long-lists", ins[i])
		if len(vs) == 0 {
			st.Class("roundtrips")
		}
		for _, v := range vs {
			st.Violate(v)
			st.Class(v.Clause)
		}
		return true
	})
}
