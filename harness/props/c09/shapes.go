package c09

// Struct shapes the probe does not have: lists whose elements are pointers, a skipped member that points back at the
// struct's own type, the raw paragraph embedded AFTER the typed members (and between them), a required member that is
// emptied after decoding.

import (
	"bytes"
	"fmt"
	"strings"

	"pault.ag/go/debian/control"
	"pault.ag/go/debian/version"

	"verifharness/mc"
)

// named basic types: a list of a string type with a name of its own, named ints and bools, a named string
type compName string
type count int
type flag bool

// urgency is a named integer with a String method of its own (fmt would print the word; the control text is the number)
type urgency int

func (u urgency) String() string { return [...]string{"low", "medium", "high"}[int(u)%3] }

type level uint

func (l level) String() string { return "L" }

type namedKinds struct {
	Urg   urgency
	Lvl   level
	Urgs  []urgency
	Lead  []string   `delim:","` // may begin with empty elements
	Comps []compName `delim:", "`
	One   compName
	N     count
	Ns    []count
	On    flag
	Plain []string
}

type ptrLists struct {
	LP   []*version.Version `delim:", "`
	LS   []*string          `control:"Names" delim:", "`
	One  *version.Version
	Self *ptrLists `control:"-"`
}

type paraLast struct {
	Known1 string
	Known2 []string `control:"Known-Two" delim:", "`
	Req    string   `required:"true"`
	control.Paragraph
}

type paraMiddle struct {
	Known1 string
	control.Paragraph
	Req    string   `required:"true"`
	Known2 []string `control:"Known-Two" delim:", "`
}

type ShapeIn struct {
	Case string
	N    int    // list length (pointer lists)
	Doc  string // document (embedding cases)
	Edit string // none | clear1 | clearreq | change1 | clear2
}

func checkShape(scen string, in ShapeIn) []*mc.Violation {
	var vs []*mc.Violation
	bad := func(clause, want, got string) { vs = append(vs, mc.V(scen, clause, in, want, got)) }
	switch in.Case {
	case "pointer-lists":
		orig := ptrLists{}
		var wantLP, wantLS []string
		for i := 0; i < in.N; i++ {
			v := mustVer(fmt.Sprintf("%d:1.%d-%d", i%3, i, i+1))
			s := fmt.Sprintf("name%d", i)
			orig.LP = append(orig.LP, &v)
			orig.LS = append(orig.LS, &s)
			wantLP = append(wantLP, v.String())
			wantLS = append(wantLS, s)
		}
		one := mustVer("2:3.4-5")
		orig.One = &one
		orig.Self = &orig
		var buf bytes.Buffer
		var back ptrLists
		var err error
		if p, msg := mc.Guard(func() {
			if err = control.Marshal(&buf, &orig); err == nil {
				err = control.Unmarshal(&back, strings.NewReader(buf.String()))
			}
		}); p {
			return []*mc.Violation{mc.V(scen, "marshal-never-panics", in, "no panic", msg)}
		}
		if err != nil {
			bad("roundtrip-field-equal", "nil error", fmt.Sprintf("%v (text %q)", err, buf.String()))
			return vs
		}
		var gotLP, gotLS []string
		for _, p := range back.LP {
			if p != nil {
				gotLP = append(gotLP, p.String())
			} else {
				gotLP = append(gotLP, "<nil>")
			}
		}
		for _, p := range back.LS {
			if p != nil {
				gotLS = append(gotLS, *p)
			} else {
				gotLS = append(gotLS, "<nil>")
			}
		}
		if strings.Join(gotLP, ",") != strings.Join(wantLP, ",") {
			bad("roundtrip-field-equal", "LP="+strings.Join(wantLP, ","), strings.Join(gotLP, ",")+fmt.Sprintf(" (text %q)", buf.String()))
		}
		if strings.Join(gotLS, ",") != strings.Join(wantLS, ",") {
			bad("roundtrip-field-equal", "Names="+strings.Join(wantLS, ","), strings.Join(gotLS, ","))
		}
		if back.One == nil || *back.One != one {
			bad("roundtrip-field-equal", "One="+one.String(), fmt.Sprint(back.One))
		}
		if strings.Contains(buf.String(), "Self") {
			bad("skipped-field-never-written", "no Self field", fmt.Sprintf("%q", buf.String()))
		}
	case "named-kinds":
		orig := namedKinds{One: "main"}
		for i := 0; i < in.N; i++ {
			orig.Comps = append(orig.Comps, compName(fmt.Sprintf("comp%d", i)))
			orig.Ns = append(orig.Ns, count(i*3-1))
			orig.Plain = append(orig.Plain, fmt.Sprintf("p%d", i))
		}
		orig.N, orig.On = count(in.N), in.N%2 == 1
		orig.Urg, orig.Lvl = urgency(in.N%3), level(in.N)
		for i := 0; i < in.N; i++ {
			orig.Urgs = append(orig.Urgs, urgency(i))
		}
		if in.N >= 2 {
			orig.Lead = []string{"", "y", "z"}
		}
		if in.N >= 3 {
			orig.Lead = []string{"", "", "y", "", "z"}
		}
		var buf bytes.Buffer
		var back namedKinds
		var err error
		if p, msg := mc.Guard(func() {
			if err = control.Marshal(&buf, &orig); err == nil {
				err = control.Unmarshal(&back, strings.NewReader(buf.String()))
			}
		}); p {
			return []*mc.Violation{mc.V(scen, "marshal-never-panics", in, "no panic", msg)}
		}
		if err != nil {
			bad("roundtrip-field-equal", "nil error", fmt.Sprintf("%v (text %q)", err, buf.String()))
			return vs
		}
		if fmt.Sprintf("%q", orig.Lead) != fmt.Sprintf("%q", back.Lead) || orig.Urg != back.Urg || orig.Lvl != back.Lvl || fmt.Sprintf("%d", orig.Urgs) != fmt.Sprintf("%d", back.Urgs) {
			bad("roundtrip-field-equal", fmt.Sprintf("Lead=%q Urg=%d Lvl=%d Urgs=%d", orig.Lead, orig.Urg, orig.Lvl, orig.Urgs), fmt.Sprintf("Lead=%q Urg=%d Lvl=%d Urgs=%d (text %q)", back.Lead, back.Urg, back.Lvl, back.Urgs, buf.String()))
		}
		if fmt.Sprint(orig.Comps) != fmt.Sprint(back.Comps) || fmt.Sprint(orig.Ns) != fmt.Sprint(back.Ns) || fmt.Sprint(orig.Plain) != fmt.Sprint(back.Plain) || orig.One != back.One || orig.N != back.N || orig.On != back.On {
			bad("roundtrip-field-equal", fmt.Sprintf("%+v", orig), fmt.Sprintf("%+v (text %q)", back, buf.String()))
		}
	case "paragraph-last", "paragraph-middle":
		var text string
		var cur1, curReq string
		var cur2 []string
		var perr error
		if p, msg := mc.Guard(func() {
			edit := func(k1 *string, k2 *[]string, req *string) {
				switch in.Edit {
				case "clear1":
					*k1 = ""
				case "change1":
					*k1 = "changed"
				case "clearreq":
					*req = ""
				case "clear2":
					*k2 = nil
				}
				cur1, cur2, curReq = *k1, *k2, *req
			}
			var buf bytes.Buffer
			if in.Case == "paragraph-last" {
				var x paraLast
				if perr = control.Unmarshal(&x, strings.NewReader(in.Doc)); perr != nil {
					return
				}
				edit(&x.Known1, &x.Known2, &x.Req)
				perr = control.Marshal(&buf, &x)
			} else {
				var x paraMiddle
				if perr = control.Unmarshal(&x, strings.NewReader(in.Doc)); perr != nil {
					return
				}
				edit(&x.Known1, &x.Known2, &x.Req)
				perr = control.Marshal(&buf, &x)
			}
			text = buf.String()
		}); p {
			return []*mc.Violation{mc.V(scen, "marshal-never-panics", in, "no panic", msg)}
		}
		if perr != nil {
			if !strings.Contains(in.Doc, "Req:") {
				return nil // the required field is absent from the document: an error is what the statement asks for
			}
			bad("marshal-succeeds", "nil error", perr.Error())
			return vs
		}
		if !strings.Contains(in.Doc, "Req:") {
			bad("required-absent-is-an-error", "an error", "decoded")
			return vs
		}
		pr, err := control.NewParagraphReader(strings.NewReader(text), nil)
		var para *control.Paragraph
		if err == nil {
			para, err = pr.Next()
		}
		if err != nil {
			bad("marshalled-text-readable", "one paragraph", fmt.Sprintf("%q: %v", text, err))
			return vs
		}
		known := map[string]bool{"Known1": true, "Known-Two": true, "Req": true}
		var wantU, gotU []string
		for _, l := range strings.Split(strings.TrimSpace(in.Doc), "\n") {
			if i := strings.Index(l, ": "); i > 0 && !known[l[:i]] {
				wantU = append(wantU, l[:i]+"="+l[i+2:])
			}
		}
		for _, k := range para.Order {
			if !known[k] {
				gotU = append(gotU, k+"="+para.Values[k])
			}
		}
		if strings.Join(wantU, "|") != strings.Join(gotU, "|") {
			bad("unknown-fields-unchanged-in-order", strings.Join(wantU, "|"), strings.Join(gotU, "|")+fmt.Sprintf(" (text %q)", text))
		}
		if got, ok := para.Values["Known1"]; got != cur1 || ok != (cur1 != "") {
			bad("known-fields-reflect-current-values", fmt.Sprintf("Known1=%q", cur1), fmt.Sprintf("%q present=%v (text %q)", got, ok, text))
		}
		if got, ok := para.Values["Known-Two"]; got != strings.Join(cur2, ", ") || ok != (len(cur2) > 0) {
			bad("known-fields-reflect-current-values", fmt.Sprintf("Known-Two=%q", strings.Join(cur2, ", ")), fmt.Sprintf("%q present=%v (text %q)", got, ok, text))
		}
		if got, ok := para.Values["Req"]; !ok || got != curReq {
			bad("required-always-written", fmt.Sprintf("Req=%q present", curReq), fmt.Sprintf("%q present=%v (text %q)", got, ok, text))
		}
	}
	return vs
}

func shapeScenario(r *mc.Run) {
	var ins []ShapeIn
	for _, n := range []int{0, 1, 2, 3, 5, 17} {
		ins = append(ins, ShapeIn{Case: "pointer-lists", N: n})
	}
	for _, n := range []int{0, 1, 2, 3, 17} {
		ins = append(ins, ShapeIn{Case: "named-kinds", N: n})
	}
	docs := []string{
		"Known1: a\nKnown-Two: p, q\nReq: r\nX-Extra: u\n",
		"X-Extra: u\nKnown1: a\nZeta: z\nReq: r\nKnown-Two: p\n",
		"Req: r\n",
		"Req: r\nX-Extra: u\nKnown1: a\n",
		"Known1: a\nX-Extra: u\n", // required field absent
	}
	for _, c := range []string{"paragraph-last", "paragraph-middle"} {
		for _, d := range docs {
			for _, e := range []string{"none", "clear1", "change1", "clearreq", "clear2"} {
				ins = append(ins, ShapeIn{Case: c, Doc: d, Edit: e})
			}
		}
	}
	r.Scenario("struct-shapes", map[string]interface{}{"cases": len(ins), "shapes": "lists of pointers, a skipped self-referential pointer, the raw paragraph embedded last / in the middle, a required member emptied after decoding"}, len(ins), func(i int, st *mc.Stats) bool {
		st.Evals++
		st.Traces++
		st.Nontrivial++
		vs := checkShape("struct-shapes", ins[i])
		if len(vs) == 0 {
			st.Class("as-specified")
		}
		for _, v := range vs {
			st.Violate(v)
			st.Class(v.Clause)
		}
		return true
	})
}
