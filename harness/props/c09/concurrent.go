package c09

import (
	"bytes"
	"fmt"
	"reflect"
	"strings"

	"pault.ag/go/debian/control"

	"verifharness/sched"
)

// ConcurrentPrograms: struct values marshalled and unmarshalled at the same time.
func ConcurrentPrograms() []sched.Program {
	ins := []In{
		{Choice: map[string]int{"S": 1, "L": 1, "V": 1}},
		{Choice: map[string]int{"D": 1, "A": 1, "M": 2}, WithPara: true},
		{Choice: map[string]int{"H": 1, "LN": 1, "Ren": 1}},
		{Choice: map[string]int{"I": 1, "B": 1, "P": 1}, WithPara: true},
	}
	var ops []sched.Op
	for i, in := range ins {
		in := in
		ops = append(ops, sched.Op{Label: fmt.Sprintf("roundtrip(probe %d)", i), F: func() string {
			orig := build(in)
			var b bytes.Buffer
			err := control.Marshal(&b, orig)
			back := reflect.New(reflect.TypeOf(orig).Elem())
			var e2 error
			if err == nil {
				e2 = control.Unmarshal(back.Interface(), strings.NewReader(b.String()))
			}
			var b2 bytes.Buffer
			control.Marshal(&b2, back.Interface())
			return fmt.Sprintf("%q %v %v|%q", b.String(), err, e2, b2.String())
		}})
	}
	return sched.PairPrograms(ops)
}
