package c09

// Struct types that share a name. reflect.Type.Name() is "" for every unnamed struct type and is the same for types
// declared under one name in different functions; a struct value "built from the supported field kinds" may be of any
// such type, and what the library has marshalled or decoded before must not matter. All orders of a small family of
// types are run, each type marshalled and decoded back.

import (
	"bytes"
	"fmt"
	"reflect"
	"strings"

	"pault.ag/go/debian/control"
	"pault.ag/go/debian/version"

	"verifharness/mc"
)

type typeCase struct {
	name string
	val  func() interface{} // pointer to a fresh, filled value
	keys []string           // field names the marshalled text must consist of, in order
}

func localA() typeCase {
	type Local struct {
		Alpha string
		Beta  []string `delim:", "`
	}
	return typeCase{"func-local type Local {Alpha, Beta}", func() interface{} { return &Local{"a", []string{"x", "y"}} }, []string{"Alpha", "Beta"}}
}

func localB() typeCase {
	type Local struct {
		Gamma   int
		Delta   version.Version `control:"X-Delta"`
		Epsilon string          `required:"true"`
	}
	return typeCase{"func-local type Local {Gamma, X-Delta, Epsilon}", func() interface{} { return &Local{7, mustVer("1:2.0-3"), "e"} }, []string{"Gamma", "X-Delta", "Epsilon"}}
}

func typeFamily() []typeCase {
	return []typeCase{
		{"unnamed struct {One}", func() interface{} { return &struct{ One string }{"1"} }, []string{"One"}},
		{"unnamed struct {Two, Three, Four}", func() interface{} {
			return &struct {
				Two   string
				Three int
				Four  []string `control:"X-Four" delim:" "`
			}{"2", 3, []string{"p", "q"}}
		}, []string{"Two", "Three", "X-Four"}},
		{"unnamed struct {Three, Two}", func() interface{} {
			return &struct {
				Three string
				Two   string `control:"Zwei"`
			}{"3", "2"}
		}, []string{"Three", "Zwei"}},
		localA(),
		localB(),
	}
}

type TypesIn struct {
	Order []int // indices into typeFamily(), in the order the types are used
}

func checkTypes(scen string, in TypesIn) []*mc.Violation {
	fam := typeFamily()
	var vs []*mc.Violation
	for step, ti := range in.Order {
		if ti < 0 || ti >= len(fam) {
			return nil
		}
		tc := fam[ti]
		orig := tc.val()
		var buf bytes.Buffer
		var err error
		if p, msg := mc.Guard(func() { err = control.Marshal(&buf, orig) }); p {
			return append(vs, mc.V(scen, "marshal-never-panics", in, "no panic", fmt.Sprintf("step %d, %s: panic: %s", step, tc.name, msg)))
		}
		if err != nil {
			vs = append(vs, mc.V(scen, "marshal-succeeds", in, "nil error", fmt.Sprintf("step %d, %s: %v", step, tc.name, err)))
			continue
		}
		var got []string
		for _, l := range strings.Split(strings.TrimSpace(buf.String()), "\n") {
			if i := strings.Index(l, ":"); i > 0 && l[0] != ' ' {
				got = append(got, l[:i])
			}
		}
		if strings.Join(got, ",") != strings.Join(tc.keys, ",") {
			vs = append(vs, mc.V(scen, "roundtrip-field-equal", in, fmt.Sprintf("step %d, %s: fields %v", step, tc.name, tc.keys), fmt.Sprintf("%q", buf.String())))
			continue
		}
		back := reflect.New(reflect.TypeOf(orig).Elem())
		if p, msg := mc.Guard(func() { err = control.Unmarshal(back.Interface(), strings.NewReader(buf.String())) }); p {
			return append(vs, mc.V(scen, "unmarshal-returns", in, "no panic", fmt.Sprintf("step %d, %s: panic: %s", step, tc.name, msg)))
		}
		if err != nil || !reflect.DeepEqual(back.Interface(), orig) {
			vs = append(vs, mc.V(scen, "roundtrip-field-equal", in, fmt.Sprintf("step %d, %s: %+v", step, tc.name, reflect.ValueOf(orig).Elem().Interface()),
				fmt.Sprintf("%+v, %v (text %q)", back.Elem().Interface(), err, buf.String())))
		}
	}
	return vs
}

func typesScenario(r *mc.Run) {
	n := len(typeFamily())
	var orders [][]int
	var rec func(cur []int, used []bool)
	rec = func(cur []int, used []bool) {
		if len(cur) == n {
			orders = append(orders, append([]int(nil), cur...))
			return
		}
		for i := 0; i < n; i++ {
			if !used[i] {
				used[i] = true
				rec(append(cur, i), used)
				used[i] = false
			}
		}
	}
	rec(nil, make([]bool, n))
	// every order of the family in one process: whatever the library remembers about a type from the first time it met
	// one (for the life of the process), each later type must still be written and read as itself
	r.Scenario("types-sharing-a-name", map[string]interface{}{"types": n, "orders": len(orders), "note": "unnamed struct types (Name() == \"\") and two function-local types both called Local"}, 1, func(_ int, st *mc.Stats) bool {
		for _, o := range orders {
			st.Evals++
			st.Traces++
			st.Nontrivial++
			vs := checkTypes("types-sharing-a-name", TypesIn{o})
			if len(vs) == 0 {
				st.Class("each-type-roundtrips")
			}
			for _, v := range vs {
				st.Violate(v)
				st.Class(v.Clause)
			}
		}
		return true
	})
}
